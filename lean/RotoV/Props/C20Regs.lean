/-
  C20, the register file: a variable of the lowered IR is a whole `Var` (scope AND kind) on both
  sides. All definitions about `Var`, `VarKind`, `evalKey`, `jitKey`, `eval_operand` are generated
  from src/lir/mod.rs, src/lir/eval.rs and src/codegen/mod.rs on every run (target `evalregs`).

  T4 `registers_keyed_by_scope_and_name`:
    * `evalKey_injective` / `jitKey_injective`: two places share a register only if they are the
      same place; `eval_and_jit_same_key`: both sides identify places the same way.
    * `get_insert`, `get_insertAll`: the register file is a finite map — a read yields the last
      write to THAT key, whatever was written to other keys in between.
    * `shadow_keeps_outer`: a write to the variable `x` of an inner scope leaves the variable `x`
      of every other scope alone (the statement needs `Var` to have a scope: generated).
    * `read_sees_innermost`: with the type checker's resolution (innermost declaring scope of the
      chain) a read of a name yields the last value written to the binding of that innermost scope;
      writes to bindings of the same name in other scopes (outer ones that are shadowed, inner ones
      that have ended) do not matter. `outer_visible_again`: after the inner block, the outer value.
-/
import RotoV.Generated.EvalRegs

namespace RotoV.C20
open RotoV RotoV.Gen.EvalRegs

variable {κ α : Type} [DecidableEq κ]

/-- reading the key just written yields the written value; any other key is unaffected -/
theorem get_insert (m : RMap κ α) (k k' : κ) (v : α) :
    (m.insert k v).get k' = if k = k' then some v else m.get k' := by
  unfold RMap.insert RMap.get
  by_cases h : k = k'
  · simp [List.find?, h]
  · simp [List.find?, h]

example : ((RMap.empty : RMap Nat Nat).insert 1 10 |>.insert 2 20).get 1 = some 10 := by decide

theorem get_insertAll (m : RMap κ α) (ws : List (κ × α)) (k : κ) :
    (m.insertAll ws).get k = ((RMap.lastWrite ws k).or (m.get k)) := by
  induction ws generalizing m with
  | nil => simp [RMap.insertAll, RMap.lastWrite]
  | cons w ws ih =>
    have step : (m.insertAll (w :: ws)) = ((m.insert w.1 w.2).insertAll ws) := by
      simp [RMap.insertAll]
    rw [step, ih, get_insert]
    unfold RMap.lastWrite
    simp only [List.reverse_cons, List.find?_append]
    cases hf : List.find? (fun e => decide (e.1 = k)) ws.reverse with
    | some e => simp
    | none =>
      by_cases h : w.1 = k
      · simp [List.find?, h]
      · simp [List.find?, h]

example : ((RMap.empty : RMap Nat Nat).insertAll [(1, 10), (2, 20), (1, 30)]).get 1 = some 30 := by decide

/-- the evaluator stores a place under a key that determines the place -/
theorem evalKey_injective : ∀ a b : Var, evalKey a = evalKey b → a = b := by
  intro a b h
  simpa [evalKey] using h

/-- so does the code generator (one Cranelift variable per `Var`) -/
theorem jitKey_injective : ∀ a b : Var, jitKey a = jitKey b → a = b := by
  intro a b h
  simpa [jitKey] using h

/-- two places share a register in the evaluator iff they share a Cranelift variable -/
theorem eval_and_jit_same_key (a b : Var) : evalKey a = evalKey b ↔ jitKey a = jitKey b := by
  constructor
  · intro h; rw [evalKey_injective a b h]
  · intro h; rw [jitKey_injective a b h]

/-- a write to the variable of one scope leaves the same-named variable of every other scope alone -/
theorem shadow_keeps_outer (m : RMap EvalKey α) (inner outer : Nat) (kind : VarKind) (v : α)
    (h : inner ≠ outer) :
    (m.insert (evalKey ⟨inner, kind⟩) v).get (evalKey ⟨outer, kind⟩) = m.get (evalKey ⟨outer, kind⟩) := by
  rw [get_insert]
  have : evalKey ⟨inner, kind⟩ ≠ evalKey ⟨outer, kind⟩ := by
    intro e
    have := evalKey_injective _ _ e
    exact h (by injection this)
  simp [this]

-- non-vacuity: `let x = 10; { let x = 20; … } x`
example :
    (((RMap.empty : RMap EvalKey Nat).insert (evalKey ⟨1, .Explicit 7⟩) 10).insert (evalKey ⟨2, .Explicit 7⟩) 20).get
      (evalKey ⟨1, .Explicit 7⟩) = some 10 := by decide

/-- the same through the generated operand lookup -/
theorem eval_operand_shadow (m : RMap EvalKey α) (inner outer : Nat) (kind : VarKind) (v : α)
    (h : inner ≠ outer) :
    eval_operand (m.insert (evalKey ⟨inner, kind⟩) v) (.inl ⟨outer, kind⟩) = eval_operand m (.inl ⟨outer, kind⟩) := by
  simp only [eval_operand]
  exact shadow_keeps_outer m inner outer kind v h

example : eval_operand ((RMap.empty : RMap EvalKey Nat).insert (evalKey ⟨2, .Tmp 0⟩) 5) (.inl ⟨1, .Tmp 0⟩) = none := by decide

/-- what `resolveName` returns: a scope of the chain that declares the name, with no declaring scope
    further in -/
theorem resolveName_innermost (chain : List Nat) (decls : List (Nat × Nat)) (name s : Nat)
    (h : resolveName chain decls name = some s) :
    (s, name) ∈ decls ∧ ∃ pre post, chain = pre ++ s :: post ∧ ∀ s' ∈ pre, (s', name) ∉ decls := by
  unfold resolveName at h
  induction chain with
  | nil => simp at h
  | cons c cs ih =>
    by_cases hc : (c, name) ∈ decls
    · simp [List.find?, hc] at h
      subst h
      exact ⟨hc, [], cs, rfl, by simp⟩
    · simp [List.find?, hc] at h
      obtain ⟨hd, pre, post, he, hp⟩ := ih h
      refine ⟨hd, c :: pre, post, by simp [he], ?_⟩
      intro s' hs'
      cases hs' with
      | head => exact hc
      | tail _ hm => exact hp s' hm

/-- T4: a read of `name` in a block whose scope chain is `chain` (innermost first) yields the last value
    written to the binding of the INNERMOST declaring scope; whatever was written to bindings of that
    name in other scopes is irrelevant. -/
theorem read_sees_innermost (m : RMap EvalKey α) (chain : List Nat) (decls : List (Nat × Nat)) (name s : Nat)
    (h : resolveName chain decls name = some s) (ws : List (Var × α)) :
    eval_operand (m.insertAll (ws.map (fun w => (evalKey w.1, w.2)))) (.inl ⟨s, .Explicit name⟩)
      = ((RMap.lastWrite (ws.map (fun w => (evalKey w.1, w.2))) (evalKey ⟨s, .Explicit name⟩)).or
          (m.get (evalKey ⟨s, .Explicit name⟩)))
    ∧ (s, name) ∈ decls
    ∧ ∃ pre post, chain = pre ++ s :: post ∧ ∀ s' ∈ pre, (s', name) ∉ decls := by
  refine ⟨?_, resolveName_innermost chain decls name s h⟩
  simp only [eval_operand]
  exact get_insertAll _ _ _

/-- `let x = vo` in scope `outer`, then a nested block `inner` with `let x = vi`: inside, `x` is `vi`;
    after the block, `x` is `vo` again. -/
theorem outer_visible_again (m : RMap EvalKey α) (outer inner name : Nat) (vo vi : α) (h : inner ≠ outer) :
    let m' := (m.insert (evalKey ⟨outer, .Explicit name⟩) vo).insert (evalKey ⟨inner, .Explicit name⟩) vi
    (resolveName [inner, outer] [(outer, name), (inner, name)] name = some inner
      ∧ eval_operand m' (.inl ⟨inner, .Explicit name⟩) = some vi)
    ∧ (resolveName [outer] [(outer, name), (inner, name)] name = some outer
      ∧ eval_operand m' (.inl ⟨outer, .Explicit name⟩) = some vo) := by
  intro m'
  refine ⟨⟨by simp [resolveName, List.find?], ?_⟩, ⟨by simp [resolveName, List.find?], ?_⟩⟩
  · simp [m', eval_operand, get_insert]
  · have := eval_operand_shadow (m.insert (evalKey ⟨outer, .Explicit name⟩) vo) inner outer (.Explicit name) vi h
    simp only [m']
    rw [this]
    simp [eval_operand, get_insert]

example : resolveName [2, 1] [(1, 7), (2, 7)] 7 = some 2 ∧ resolveName [1] [(1, 7), (2, 7)] 7 = some 1 := by decide

end RotoV.C20
