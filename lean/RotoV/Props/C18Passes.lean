/-
  C18, part 3 — the five passes of `Rt::add` are written as modelled.

  `Generated/RegPasses.lean` is regenerated from `src/runtime/mod.rs` on every
  run (translator target `regpasses`, `extract/src/targets/c18.rs`, `mod
  passes`).  The theorems of this module are the ones that mention it, in a
  module of their own so that a change to the pass structure (order of the
  passes, the scope an impl block or a module's `use` is resolved in, the walk
  of `declare_import`) breaks exactly these obligations.
-/
import RotoV.Props.C18
import RotoV.Props.C18History
import RotoV.Generated.RegPasses

namespace RotoV.C18
open RotoV.Reg

/-! ## the passes are written as modelled (regenerated from src/runtime/mod.rs on every run) -/

/-- **The tie of the pass structure.** What the translator reads from
    `Rt::add` and the `declare_*` functions — the order of the five passes and
    the scope each starts from; for every pass what each `match item` arm does
    and with which scope (a module's children with the module's own scope, an
    impl block's children with the scope *of the registered type*
    `get_scope_of(ty.name.scope, ty.name.ident)`; the import pass hands a
    module's children the *same* scope); `declare_import` walking from a cursor
    and registering in the starting scope — is exactly what
    `Model/Registration.lean` embodies. -/
theorem passes_as_modelled : RotoV.Gen.RegPasses.facts = Src.asModelled := by decide

/-- **`rust_type_to_roto_type` is written as `convTy` models it**: the unit type
    first; `Leaf` and `Val` look the registered type up (an error if there is
    none); `Option`, `List`, `Verdict`, `Result` convert their components and
    rebuild the same constructor with the components in the same order. -/
theorem conv_as_modelled : RotoV.Gen.RegPasses.convFacts = Src.convAsModelled := by decide

/-- the model switches the source determines are those of `Cfg.fixed` -/
theorem source_cfg : RotoV.Gen.RegPasses.facts.cfg = Cfg.fixed := by decide

/-- T4 and T3-for-impl-blocks on the configuration read from the source: a
    change of the scope an impl block is resolved in (seeded change C18-1), or of
    the walk of `declare_import`, breaks these two theorems. -/
theorem order_indep_on_source (lex : Name → Lex) (st : St) (hw : WF st) (items items' : Items)
    (hs : Shuffle items items') :
    match register RotoV.Gen.RegPasses.facts.cfg lex st items,
          register RotoV.Gen.RegPasses.facts.cfg lex st items' with
    | .ok a, .ok b => a = b
    | .err _, .err _ => True
    | _, _ => False := by
  rw [source_cfg]; exact order_indep lex st hw items items' hs

theorem reachable_impl_items_on_source (lex : Name → Lex) (st st' : St) (hw : WF st) (items : Items)
    (h : register RotoV.Gen.RegPasses.facts.cfg lex st items = .ok st')
    {p q : List Name} {tn : Name} {id : TyId} {ch : Items}
    (ht : ItemAt items p (.type tn id)) (hi : ItemAt items q (.impl id ch)) :
    ∀ n ps r tag, Item.function n ps r tag ∈ ch.toList →
      ∃ ps' r', resolvePath st' (p ++ [tn] ++ [n]) = some ⟨.method ps' r' tag, none⟩ := by
  rw [source_cfg] at h
  intro n ps r tag hm
  obtain ⟨ps', r', _, _, h3⟩ := (reachable_impl_items lex st st' hw items h ht hi).1 n ps r tag hm
  exact ⟨ps', r', h3⟩

/-- **`Rt::add` is all or nothing on the source** (`facts.addAtomic`, read from
    the body of `Rt::add`: the passes run on a copy of the runtime that replaces
    it only when every pass succeeded).  On the source as it is, a rejected add
    leaves the runtime as it was, and a history is the history of its accepted
    libraries; had the passes run in place (the pinned tree, or a change that
    drops the copy), `facts.addAtomic` is `false`, `passes_as_modelled` fails and
    these two no longer check (`pinned_in_place_rejected_add_leaves_items` shows
    what such a runtime does). -/
theorem failed_add_is_noop_on_source (lex : Name → Lex) (st : St) (items : Items)
    (h : (stepSrc RotoV.Gen.RegPasses.facts.cfg lex RotoV.Gen.RegPasses.facts.addAtomic st items).2 ≠ .ok) :
    (stepSrc RotoV.Gen.RegPasses.facts.cfg lex RotoV.Gen.RegPasses.facts.addAtomic st items).1 = st := by
  have ha : RotoV.Gen.RegPasses.facts.addAtomic = true := by decide
  rw [source_cfg, ha] at h ⊢
  exact failed_add_is_noop lex st items h

theorem history_as_if_never_offered_on_source (lex : Name → Lex) (libs : List Items) (st : St) :
    (sessionSrc RotoV.Gen.RegPasses.facts.cfg lex RotoV.Gen.RegPasses.facts.addAtomic st
        (accepted Cfg.fixed lex st libs)).1 =
      (sessionSrc RotoV.Gen.RegPasses.facts.cfg lex RotoV.Gen.RegPasses.facts.addAtomic st libs).1 := by
  have ha : RotoV.Gen.RegPasses.facts.addAtomic = true := by decide
  rw [source_cfg, ha]
  simp only [sessionSrc, if_true]
  rw [history_as_if_never_offered]

/-- what the same statements say of a source whose passes run in place: false
    (`stepSrc … false` is `stepIP`) -/
example : ∃ items,
    (stepSrc Cfg.fixed lexV false st0 items).2 ≠ .ok ∧
    resolvePath (stepSrc Cfg.fixed lexV false st0 items).1 [2] ≠ resolvePath st0 [2] :=
  ⟨il [fn0 2 5, .function 4 [.reg 9] .unit 6], by decide, by decide⟩

/-- Had the impl block been resolved where it stands (`Cfg.implAtSite`, what
    the facts of seeded change C18-1 translate to): the library `libImpl`
    panics, a type of the same name at the root captures the methods, and the
    outcome depends on the order of the items. -/
def cfgAtSite : Cfg := { Cfg.fixed with implAtSite := true }

example : ({ Src.asModelled with
    arms := [(.declareFunctions, [(.impl, .recurse .declareMethods .ofTypeAtSite)])] } : Src.Facts).cfg = cfgAtSite := by
  decide

theorem impl_at_site_panics : (register cfgAtSite lexV st0 libImpl).isPanic = true := by decide

theorem impl_at_site_wrong_scope :
    (match register cfgAtSite lexV st0 (il [.module 0 (il [.type 1 7]), .type 1 8, .impl 7 (il [fn0 2 5])]) with
     | .ok st => (resolvePath st [0, 1, 2], resolvePath st [1, 2])
     | _ => (none, none)) = (none, some ⟨.method [] .unit 5, none⟩) := by decide

theorem impl_at_site_order_dependent :
    Shuffle (il [.module 0 (il [.type 1 7]), .impl 7 .nil, fn0 3 1, fn0 3 2])
            (il [.module 0 (il [.type 1 7]), fn0 3 1, fn0 3 2, .impl 7 .nil]) ∧
    (register cfgAtSite lexV st0 (il [.module 0 (il [.type 1 7]), .impl 7 .nil, fn0 3 1, fn0 3 2])).isPanic = true ∧
    (register cfgAtSite lexV st0 (il [.module 0 (il [.type 1 7]), fn0 3 1, fn0 3 2, .impl 7 .nil])).isErr = true :=
  ⟨.tail _ (.trans (.swap _ _ _) (.tail _ (.swap _ _ _))), by decide, by decide⟩

end RotoV.C18
