/-
  C14, T11 — the reference graph has every edge the dependency structure has,
  as far as `resolve_expression_path` is concerned: over the exit table
  regenerated from src/typechecker/expr.rs on every run
  (`RotoV.Gen.C14Edges.exits`).  A change that records the edge on fewer paths
  (after the field / method loop, for constants only, …) changes the table and
  breaks these theorems; what a complete graph buys is
  `complete_edges_reject_context` / `_cycle` (Props/C14).
-/
import RotoV.Model.TarjanEdges
import RotoV.Generated.C14Edges

namespace RotoV.C14
open RotoV.TarjanEdges

/-- Every exit of the function arm has recorded the edge unconditionally, and
every exit of the value arm — plain value, value with fields, method receiver —
has recorded it whenever the value is a script constant or a context variable. -/
theorem every_exit_records_edge :
    ∀ e, e ∈ RotoV.Gen.C14Edges.exits →
      (e.arm = .function → e.guard = .always) ∧
      (e.arm = .value → e.guard.holds (some .constant) = true ∧ e.guard.holds (some .context) = true) := by
  decide

/-- the table is not empty where it matters: there is a method-receiver exit,
a value exit and a function exit -/
example : (RotoV.Gen.C14Edges.exits.filter (fun e => e.arm == .value && e.res == .method)).length ≥ 1
    ∧ (RotoV.Gen.C14Edges.exits.filter (fun e => e.arm == .value && e.res == .value)).length ≥ 1
    ∧ (RotoV.Gen.C14Edges.exits.filter (fun e => e.arm == .function && e.res == .function)).length ≥ 1 := by
  decide

/-- Every path expression that resolves and names a function, a script
constant or a context variable — bare, with field accesses, as the receiver of
a method, after fields — leaves the edge in the graph. -/
theorem reference_records_edge (d : Decl) (t : Tail) (hd : d.tracked = true)
    (hr : (resOf d t).isSome = true) : records RotoV.Gen.C14Edges.exits d t = some true := by
  cases d <;> cases t <;> first | (exact absurd hd (by decide)) | (exact absurd hr (by decide)) | decide

/-- non-vacuity: with the edge recorded only after the field / method loop
(the method exit returns before it), a context variable used as a method
receiver resolves without an edge -/
example : records [⟨.function, .function, .always⟩, ⟨.value, .method, .never⟩,
    ⟨.value, .value, .kinds [.constant, .context]⟩] .context .method = some false := by decide
example : records RotoV.Gen.C14Edges.exits .context .method = some true := by decide

/-- For a whole item: if all its path expressions resolve, the collected edges
contain `item → y` for every function, constant or context variable `y` the
item mentions, in whatever syntactic position. -/
theorem collected_edges_complete (item : Nat) (uses : List PathUse) (es : List (Nat × Nat))
    (h : collectItem RotoV.Gen.C14Edges.exits item uses = some es) :
    ∀ u, u ∈ uses → u.decl.tracked = true → (item, u.target) ∈ es := by
  induction uses generalizing es with
  | nil => intro u hu; simp at hu
  | cons a us ih =>
    intro u hu ht
    simp only [collectItem] at h
    cases hr : records RotoV.Gen.C14Edges.exits a.decl a.tail with
    | none => simp [hr] at h
    | some b =>
      cases hc : collectItem RotoV.Gen.C14Edges.exits item us with
      | none => cases b <;> simp [hr, hc] at h
      | some es' =>
        rcases List.mem_cons.1 hu with e | hu'
        · subst e
          have hsome : (resOf u.decl u.tail).isSome = true := by
            unfold records at hr
            cases hres : resOf u.decl u.tail with
            | none => simp [hres] at hr
            | some _ => rfl
          have := reference_records_edge u.decl u.tail ht hsome
          simp only [this, hc, Option.some.injEq] at h
          subst h
          simp
        · have := ih es' hc u hu' ht
          cases b
          · simp only [hr, hc, Option.some.injEq] at h
            subst h; exact this
          · simp only [hr, hc, Option.some.injEq] at h
            subst h; exact List.mem_cons_of_mem _ this

/-- non-vacuity: an item reading a context variable as a method receiver, a
constant's field, and calling a function collects all three edges -/
example : collectItem RotoV.Gen.C14Edges.exits 0
    [⟨1, .context, .method⟩, ⟨2, .constant, .fields⟩, ⟨3, .function, .bare⟩, ⟨4, .localVar, .bare⟩]
    = some [(0, 1), (0, 2), (0, 3)] := by decide

end RotoV.C14
