/-
  C14, T11 — the reference graph has every edge the dependency structure has,
  as far as `resolve_expression_path` is concerned: over the exit table
  regenerated from src/typechecker/expr.rs on every run
  (`RotoV.Gen.C14Edges.exits`).  A change that records the edge on fewer paths
  (after the field / method loop, for constants only, …) changes the table and
  breaks these theorems; what a complete graph buys is
  `complete_edges_reject_context` / `_cycle` (Props/C14).
-/
import RotoV.Model.TarjanEdges
import RotoV.Generated.C14Edges
import RotoV.Props.C14

namespace RotoV.C14
open RotoV.TarjanEdges RotoV.Tarjan

/-- Every exit of the function arm has recorded the edge unconditionally, and
every exit of the value arm — plain value, value with fields, method receiver —
has recorded it whenever the value is a script constant or a context variable. -/
theorem every_exit_records_edge :
    ∀ e, e ∈ RotoV.Gen.C14Edges.exits →
      (e.arm = .function → e.guard = .always) ∧
      (e.arm = .value → e.guard.holds (some .constant) = true ∧ e.guard.holds (some .context) = true) := by
  decide

/-- the table is not empty where it matters: there is a method-receiver exit,
a value exit and a function exit -/
example : (RotoV.Gen.C14Edges.exits.filter (fun e => e.arm == .value && e.res == .method)).length ≥ 1
    ∧ (RotoV.Gen.C14Edges.exits.filter (fun e => e.arm == .value && e.res == .value)).length ≥ 1
    ∧ (RotoV.Gen.C14Edges.exits.filter (fun e => e.arm == .function && e.res == .function)).length ≥ 1 := by
  decide

/-- Every path expression that resolves and names a function, a script
constant or a context variable — bare, with field accesses, as the receiver of
a method, after fields — leaves the edge in the graph. -/
theorem reference_records_edge (d : Decl) (t : Tail) (hd : d.tracked = true)
    (hr : (resOf d t).isSome = true) : records RotoV.Gen.C14Edges.exits d t = some true := by
  cases d <;> cases t <;> first | (exact absurd hd (by decide)) | (exact absurd hr (by decide)) | decide

/-- non-vacuity: with the edge recorded only after the field / method loop
(the method exit returns before it), a context variable used as a method
receiver resolves without an edge -/
example : records [⟨.function, .function, .always⟩, ⟨.value, .method, .never⟩,
    ⟨.value, .value, .kinds [.constant, .context]⟩] .context .method = some false := by decide
example : records RotoV.Gen.C14Edges.exits .context .method = some true := by decide

/-- For a whole item: if all its path expressions resolve, the collected edges
contain `item → y` for every function, constant or context variable `y` the
item mentions, in whatever syntactic position. -/
theorem collected_edges_complete (item : Nat) (uses : List PathUse) (es : List (Nat × Nat))
    (h : collectItem RotoV.Gen.C14Edges.exits item uses = some es) :
    ∀ u, u ∈ uses → u.decl.tracked = true → (item, u.target) ∈ es := by
  induction uses generalizing es with
  | nil => intro u hu; simp at hu
  | cons a us ih =>
    intro u hu ht
    simp only [collectItem] at h
    cases hr : records RotoV.Gen.C14Edges.exits a.decl a.tail with
    | none => simp [hr] at h
    | some b =>
      cases hc : collectItem RotoV.Gen.C14Edges.exits item us with
      | none => cases b <;> simp [hr, hc] at h
      | some es' =>
        rcases List.mem_cons.1 hu with e | hu'
        · subst e
          have hsome : (resOf u.decl u.tail).isSome = true := by
            unfold records at hr
            cases hres : resOf u.decl u.tail with
            | none => simp [hres] at hr
            | some _ => rfl
          have := reference_records_edge u.decl u.tail ht hsome
          simp only [this, hc, Option.some.injEq] at h
          subst h
          simp
        · have := ih es' hc u hu' ht
          cases b
          · simp only [hr, hc, Option.some.injEq] at h
            subst h; exact this
          · simp only [hr, hc, Option.some.injEq] at h
            subst h; exact List.mem_cons_of_mem _ this

/-- non-vacuity: an item reading a context variable as a method receiver, a
constant's field, and calling a function collects all three edges -/
example : collectItem RotoV.Gen.C14Edges.exits 0
    [⟨1, .context, .method⟩, ⟨2, .constant, .fields⟩, ⟨3, .function, .bare⟩, ⟨4, .localVar, .bare⟩]
    = some [(0, 1), (0, 2), (0, 3)] := by decide

/-- for a whole program: every item's dependencies are among the collected edges -/
theorem program_edges_complete (prog : List (Nat × List PathUse)) (es : List (Nat × Nat))
    (h : collectProg RotoV.Gen.C14Edges.exits prog = some es) :
    ∀ item uses, (item, uses) ∈ prog → ∀ u, u ∈ uses → u.decl.tracked = true → (item, u.target) ∈ es := by
  induction prog generalizing es with
  | nil => intro item uses hm; simp at hm
  | cons p rest ih =>
    obtain ⟨it, us⟩ := p
    intro item uses hm u hu ht
    simp only [collectProg] at h
    cases ha : collectItem RotoV.Gen.C14Edges.exits it us with
    | none => simp [ha] at h
    | some a =>
      cases hb : collectProg RotoV.Gen.C14Edges.exits rest with
      | none => simp [ha, hb] at h
      | some b =>
        simp only [ha, hb, Option.some.injEq] at h
        subst h
        rcases List.mem_cons.1 hm with e | hm'
        · have e1 : item = it := congrArg Prod.fst e
          have e2 : uses = us := congrArg Prod.snd e
          subst e1; subst e2
          exact List.mem_append_left _ (collected_edges_complete item uses a ha u hu ht)
        · exact List.mem_append_right _ (ih b hb item uses hm' u hu ht)

/-- **From path resolution to rejection (T11 into T5)**: take a program whose
items' path expressions all resolve (it type checks), a dependency structure
`t` in which every dependency is some path expression of the item naming a
function, constant or context variable, and a reference graph `i` that holds the
edges the resolutions recorded.  If in `t` a script constant reaches a context
variable — at any distance, through any syntactic position — `compile i`
rejects with nothing evaluated; and a constant reaching itself in `t` is
rejected as recursive. -/
theorem typechecked_program_rejects (prog : List (Nat × List PathUse)) (es : List (Nat × Nat))
    (h : collectProg RotoV.Gen.C14Edges.exits prog = some es) (t i : Graph)
    (hreal : ∀ a b, Edge t a b → ∃ uses u, (a, uses) ∈ prog ∧ u ∈ uses ∧ u.target = b ∧ u.decl.tracked = true)
    (hcoll : ∀ a b, (a, b) ∈ es → Edge i a b)
    (hkind : ∀ x, t.kind x = i.kind x) :
    ((∀ c, c ∈ t.keys → c ∈ i.keys) → (∃ c, c ∈ t.keys ∧ t.kind c = .const ∧ UsesCtx t c) →
      ∃ o, compile i = .ok (.rejected o [])) ∧
    (i.keys.Nodup → ∀ c d, t.kind c = .const → Edge t c d → Reach t d c →
      ∃ c', i.kind c' = .const ∧ compile i = .ok (.rejected (.recursive c') [])) := by
  have hedge : ∀ a b, Edge t a b → Edge i a b := by
    intro a b e
    obtain ⟨uses, u, hm, hu, hb, ht⟩ := hreal a b e
    subst hb
    exact hcoll a u.target (program_edges_complete prog es h a uses hm u hu ht)
  refine ⟨fun hkeys hc => real_edges_reject_context t i hedge hkind hkeys hc, ?_⟩
  intro hnd c d hk e r
  exact cycle_rejected_semantic i hnd c d (by rw [← hkind c]; exact hk) (hedge c d e) (r.mono hedge)

/-- non-vacuity: `const K0 = f1();  fn f1() { ctx2.to_string() … }` — item 0 calls
function 1, item 1 uses context variable 2 as a method receiver -/
example : collectProg RotoV.Gen.C14Edges.exits [(0, [⟨1, .function, .bare⟩]), (1, [⟨2, .context, .method⟩])]
    = some [(0, 1), (1, 2)] := by decide

end RotoV.C14
