/-
  C01 — compiled scripts compute the language-defined result (scalar core).

  T1–T3 over the *generated* tables: `lower_binop`, `binop_to_int_cmp`,
  `binop_to_float_cmp`, `literal_int`, `lower_type_prim`, `cranelift_type`
  (src/lir/lower.rs) and the codegen arms `cg_*`, `int_cmp`, `float_cmp`
  (src/codegen/mod.rs), composed with the documented CLIF semantics
  (`Model/Clif`).  The language-defined result is written over `Int`
  (`RInt.val`, the mathematical value of an operand under its type's
  signedness); a swapped condition code, a wrong `signed` flag, swapped
  operands or a wrong literal cast changes a generated definition and the
  corresponding theorem stops checking.

  Not in this file (hand-modelled or by correspondence): `Lowerer::call_eq_of`
  (scalar arms hand-modelled inside `runInstr`), unary-operator lowering,
  control flow, T4 `dce_preserves`, T5 `lower_correct`.
-/
import RotoV.Lemmas.ScalarLower

namespace RotoV.C01
open RotoV RotoV.Gen RotoV.Gen.OpTables

/-! ## the language-defined result, over `Int` -/

/-- The value the language defines for `a op b` on the integer type `Primitive.Int k sz`, as the
    SSA value the compiled code must produce.  `none`: outside this theorem (`/` at a zero divisor
    or `MIN / -1`, `%` at a zero divisor: C10's points; `&&`/`||` are control flow, not `binop`). -/
def intSpec {k : IntKind} {sz : IntSize} (op : BinOp) (a b : PInt k sz) : Option CVal :=
  match op with
  | .Add => some (cvInt (wrap k sz (a.val + b.val)))
  | .Sub => some (cvInt (wrap k sz (a.val - b.val)))
  | .Mul => some (cvInt (wrap k sz (a.val * b.val)))
  | .Div => if b.val ≠ 0 ∧ ¬ isMinDivNegOne a b then some (cvInt (wrap k sz (Int.tdiv a.val b.val))) else none
  | .Mod => if b.val ≠ 0 then some (cvInt (wrap k sz (Int.tmod a.val b.val))) else none
  | .Lt => some (CVal.ofBool (decide (a.val < b.val)))
  | .Le => some (CVal.ofBool (decide (a.val ≤ b.val)))
  | .Gt => some (CVal.ofBool (decide (a.val > b.val)))
  | .Ge => some (CVal.ofBool (decide (a.val ≥ b.val)))
  | .Eq => some (CVal.ofBool (decide (a.val = b.val)))
  | .Ne => some (CVal.ofBool (decide (a.val ≠ b.val)))
  | .And | .Or => none

/-! ## T1: binary operators on the eight integer types -/

/-- the generated `lower_binop` is that table (11 operators × 8 types), in both profiles. -/
theorem lower_binop_int (dbg : Bool) (op : BinOp) (k : IntKind) (sz : IntSize) (i : Instruction)
    (h : expectedInstr op k sz = some i) :
    lower_binop dbg op (.Primitive (.Int k sz)) = .ok i := by
  cases op <;> cases k <;> cases sz <;> simp [expectedInstr, IntKind.signed] at h <;> subst h <;> rfl

/-- non-vacuity: the table is defined for the eleven operators, e.g. `<` on `i16` is `SLt`, on
    `u16` it is `ULt`, `/` on `i64` carries `signed = true`. -/
example : expectedInstr .Lt .Signed .I16 = some (.IntCmp .Bool .SLt .lhs .rhs)
    ∧ expectedInstr .Lt .Unsigned .I16 = some (.IntCmp .Bool .ULt .lhs .rhs)
    ∧ expectedInstr .Div .Signed .I64 = some (.Div .I64 .lhs .rhs true) := by decide

section
variable [F : FloatOps]

omit F in
/-- wherever the language defines a result, the compiled sequence (`intRun`, see
    `run_expected_eq` in Lemmas/Scalar) computes it. -/
theorem intRun_of_spec {k : IntKind} {sz : IntSize} (op : BinOp) (a b : PInt k sz) (v : CVal)
    (hv : intSpec op a b = some v) : intRun op a b = .ok v := by
  cases op <;> simp only [intSpec, Option.some.injEq, reduceCtorEq] at hv <;> simp only [intRun]
  case Div =>
    split at hv
    · rename_i hg; cases hv
      rw [if_neg (by intro h; rcases h with h | h; exact hg.1 h; exact hg.2 h)]
    · cases hv
  case Mod =>
    split at hv
    · rename_i hg; cases hv; rw [if_neg hg]
    · cases hv
  all_goals rw [hv]

/-- the instruction of the table, run through the generated codegen arm and CLIF semantics on the
    operands (left operand in `Side.lhs`), produces the language-defined value. -/
theorem run_expected (dbg : Bool) (op : BinOp) (k : IntKind) (sz : IntSize) (a b : PInt k sz)
    (i : Instruction) (v : CVal) (hi : expectedInstr op k sz = some i) (hv : intSpec op a b = some v) :
    runInstr dbg i (operands (cvInt a) (cvInt b)) = .ok v := by
  rw [run_expected_eq dbg op k sz a b i hi, intRun_of_spec op a b v hv]

/-- **T1.**  For every integer primitive type (4 widths × 2 signednesses), every binary operator
    the language allows on it and all operands: the generated `lower_binop` yields an instruction
    whose generated codegen arm, on CLIF semantics, computes exactly the language-defined result
    `intSpec` — `+ - *` wrap, `/` truncates toward zero, `%` takes the sign of the dividend,
    comparisons compare the values under the type's signedness, operands in source order. -/
theorem scalar_binop_correct (dbg : Bool) (k : IntKind) (sz : IntSize) (op : BinOp) (a b : PInt k sz)
    (v : CVal) (hv : intSpec op a b = some v) :
    ∃ i, lower_binop dbg op (.Primitive (.Int k sz)) = .ok i
      ∧ runInstr dbg i (operands (cvInt a) (cvInt b)) = .ok v := by
  have : ∃ i, expectedInstr op k sz = some i := by
    cases op <;> simp [intSpec] at hv <;> exact ⟨_, rfl⟩
  obtain ⟨i, hi⟩ := this
  exact ⟨i, lower_binop_int dbg op k sz i hi, run_expected dbg op k sz a b i v hi hv⟩

/-- non-vacuity: `intSpec` is defined for every operator except at C10's points, e.g.
    `-7i32 / 2i32 = -3`, `200u8 + 100u8 = 44`; signedness is respected: the same bit patterns
    compare differently as `i8` (`-1 < 1`) and as `u8` (`255 < 1` is false). -/
example :
    intSpec (k := .Signed) (sz := .I32) .Div (.ofInt _ _ (-7)) (.ofInt _ _ 2)
        = some (cvInt (wrap .Signed .I32 (-3)))
    ∧ intSpec (k := .Unsigned) (sz := .I8) .Add (.ofInt _ _ 200) (.ofInt _ _ 100)
        = some (cvInt (wrap .Unsigned .I8 44))
    ∧ intSpec (k := .Signed) (sz := .I8) .Lt ⟨0xFF#8⟩ ⟨0x01#8⟩ = some (CVal.ofBool true)
    ∧ intSpec (k := .Unsigned) (sz := .I8) .Lt ⟨0xFF#8⟩ ⟨0x01#8⟩ = some (CVal.ofBool false) := by
  decide

omit F in
/-- the destination of the emitted instruction is declared with the CLIF type of the value
    (`lower_type_prim` then `cranelift_type`, both generated). -/
theorem dest_type_matches (dbg : Bool) (k : IntKind) (sz : IntSize) :
    lower_type_prim dbg (.Int k sz) = .ok (some (irTypeOf k sz))
    ∧ cranelift_type dbg (irTypeOf k sz) = .ok sz.cty
    ∧ cranelift_type dbg .Bool = .ok .I8 := by
  cases k <;> cases sz <;> exact ⟨rfl, rfl, rfl⟩

example : irTypeOf .Signed .I16 = .I16 ∧ IntSize.cty .I16 = .I16 ∧ IntSize.bits .I16 = 16 := by decide

/-! ### `Asn`: comparisons are unsigned -/

/-- the language-defined outcome of a comparison operator on two values. -/
def cmpSpec (op : BinOp) (x y : Int) : Option Bool :=
  match op with
  | .Lt => some (decide (x < y)) | .Le => some (decide (x ≤ y))
  | .Gt => some (decide (x > y)) | .Ge => some (decide (x ≥ y))
  | .Eq => some (decide (x = y)) | .Ne => some (decide (x ≠ y))
  | _ => none

/-- the instruction `lower_binop` must emit for a comparison on `Asn`: the *unsigned* `IntCmp`. -/
def expectedAsnInstr : BinOp → Option Instruction
  | .Lt => some (.IntCmp .Bool .ULt .lhs .rhs) | .Le => some (.IntCmp .Bool .ULe .lhs .rhs)
  | .Gt => some (.IntCmp .Bool .UGt .lhs .rhs) | .Ge => some (.IntCmp .Bool .UGe .lhs .rhs)
  | .Eq => some (.CallEq false .lhs .rhs) | .Ne => some (.CallEq true .lhs .rhs)
  | _ => none

/-- on `Asn` (a `u32`), `< <= > >=` lower to the unsigned `IntCmp`s and `== !=` to `CallEq`; all
    compare the unsigned values, operands in source order. -/
theorem asn_cmp_unsigned (dbg : Bool) (op : BinOp) (a b : U32) (r : Bool)
    (h : cmpSpec op a.val b.val = some r) :
    ∃ i, expectedAsnInstr op = some i ∧ lower_binop dbg op (.Primitive .Asn) = .ok i
      ∧ runInstr dbg i (operands (CVal.ofBv .I32 a.bv) (CVal.ofBv .I32 b.bv)) = .ok (CVal.ofBool r) := by
  have hu := intCmpSpec_unsigned a b
  have he := intCmpSpec_eq a b
  cases op <;> simp only [cmpSpec, Option.some.injEq, reduceCtorEq] at h <;> subst h <;>
    refine ⟨_, rfl, rfl, ?_⟩ <;>
    simp only [runInstr, operands, CVal.ofBv_ty, CTy.isFloat, Bool.false_eq_true, if_false, if_true] <;>
    rw [cg_IntCmp_int dbg _ .I32 rfl (w := 32) rfl]
  · rw [he.1]
  · rw [he.2]
  · rw [hu.1]
  · rw [hu.2.1]
  · rw [hu.2.2.1]
  · rw [hu.2.2.2]

/-- non-vacuity: AS4294967295 > AS1 (it would be `-1 < 1` if compared signed). -/
example : cmpSpec .Gt (RInt.val (⟨0xFFFFFFFF#32⟩ : U32)) (RInt.val (⟨1#32⟩ : U32)) = some true := by decide

/-! ## T2: unary operators -/

/-- **T2.**  `-x` (generated `Negate` arm, `ineg`) is two's-complement negation: the `Int` negation
    wrapped to the type (so `-MIN = MIN`); the language allows it on the signed types, the statement
    holds at every integer type.  `!b` (generated `Not` arm, `icmp_imm eq b, 0`) is logical negation
    on the two bit patterns `jitRepr` gives a boolean. -/
theorem unary_correct (dbg : Bool) :
    (∀ (k : IntKind) (sz : IntSize) (x : PInt k sz),
        cg_Negate dbg (cvInt x) = .ok (cvInt (wrap k sz (- x.val))))
    ∧ (∀ b : Bool, jitRepr (.Bool b) = some (CVal.ofBool b)
        ∧ cg_Not dbg (CVal.ofBool b) = .ok (CVal.ofBool (!b))) := by
  refine ⟨fun k sz x => ?_, fun b => ⟨jitRepr_Bool b, cg_Not_bool dbg b⟩⟩
  rw [cvInt, cg_Negate_int dbg sz.cty sz.cty_notFloat rfl, RInt.bv_neg]; rfl

/-- non-vacuity: `-(5i8) = -5`, `-(i8::MIN) = i8::MIN`, `!true = false` as SSA values. -/
example : wrap .Signed .I8 (-(5 : Int)) = ⟨0xFB#8⟩ ∧ wrap .Signed .I8 (-(-128 : Int)) = ⟨0x80#8⟩
    ∧ CVal.ofBool (!true) = ⟨.I8, 0⟩ := by decide

/-! ## T3: literals and type tables -/

omit F in
/-- **T3.**  The integer arm of `Lowerer::literal` (generated): for every parsed `i64` and every
    target type the constant is the value reduced to that type (the `as` cast truncates), and a
    literal inside the type's range is that value exactly. -/
theorem literal_correct (dbg : Bool) (x : I64) (k : IntKind) (sz : IntSize) :
    literal_int dbg x k sz = .ok (IrValue.ofPInt k sz (wrap k sz x.val))
    ∧ (RInt.inRange k.signed sz.bits x.val = true → (wrap k sz x.val).val = x.val) := by
  refine ⟨by cases k <;> cases sz <;> rfl, fun h => RInt.val_ofInt_of_inRange sz.bits_pos h⟩

/-- non-vacuity: `300` at `u8` is 44, at `i16` it is 300; `-1` at `u32` is `u32::MAX`. -/
example : (wrap .Unsigned .I8 300).val = 44 ∧ (wrap .Signed .I16 300).val = 300
    ∧ (wrap .Unsigned .I32 (-1)).val = 4294967295 ∧ RInt.inRange true 16 300 = true := by decide

/-- what `lower_type` must give each primitive (`none`: not a scalar; handled elsewhere). -/
def irTypeOfPrim : Primitive → Option IrType
  | .Int k sz => some (irTypeOf k sz)
  | .Float .F32 => some .F32 | .Float .F64 => some .F64
  | .Asn => some .U32 | .Char => some .U32 | .Bool => some .Bool
  | .String | .IpAddr | .Prefix => none

/-- the CLIF type of each `IrType`: same width; signedness is not part of a CLIF type. -/
def ctyOfIr : IrType → CTy
  | .Bool | .U8 | .I8 => .I8 | .U16 | .I16 => .I16
  | .U32 | .I32 | .Asn | .Char => .I32 | .U64 | .I64 | .Pointer => .I64
  | .F32 => .F32 | .F64 => .F64

omit F in
/-- the generated `lower_type` (primitive arm) and `cranelift_type` are those tables: each integer
    primitive maps to the `IrType` of the same width and signedness and on to the CLIF type of the
    same width. -/
theorem type_tables (dbg : Bool) :
    (∀ p, lower_type_prim dbg p = .ok (irTypeOfPrim p))
    ∧ (∀ t, cranelift_type dbg t = .ok (ctyOfIr t))
    ∧ (∀ k sz, ctyOfIr (irTypeOf k sz) = sz.cty ∧ sz.cty.bits = sz.bits) := by
  refine ⟨fun p => ?_, fun t => by cases t <;> rfl, fun k sz => by cases k <;> cases sz <;> exact ⟨rfl, rfl⟩⟩
  cases p
  case Int k sz => cases k <;> cases sz <;> rfl
  case Float fs => cases fs <;> rfl
  all_goals rfl

example : irTypeOfPrim (.Int .Unsigned .I64) = some .U64 ∧ ctyOfIr .U64 = .I64 ∧ CTy.bits .I64 = 64 := by
  decide

/-! ## float operators -/

/-- the IEEE function each operator must apply to two `f32` operands, in source order. -/
def floatSpec32 (op : BinOp) (a b : BitVec 32) : Option CVal :=
  match op with
  | .Add => some (CVal.f32 (F.add32 a b)) | .Sub => some (CVal.f32 (F.sub32 a b))
  | .Mul => some (CVal.f32 (F.mul32 a b)) | .Div => some (CVal.f32 (F.div32 a b))
  | .Lt => some (CVal.ofBool (F.lt32 a b)) | .Le => some (CVal.ofBool (F.le32 a b))
  | .Gt => some (CVal.ofBool (F.lt32 b a)) | .Ge => some (CVal.ofBool (F.le32 b a))
  | .Eq => some (CVal.ofBool (F.eq32 a b)) | .Ne => some (CVal.ofBool (!(F.eq32 a b)))
  | .Mod | .And | .Or => none
def floatSpec64 (op : BinOp) (a b : BitVec 64) : Option CVal :=
  match op with
  | .Add => some (CVal.f64 (F.add64 a b)) | .Sub => some (CVal.f64 (F.sub64 a b))
  | .Mul => some (CVal.f64 (F.mul64 a b)) | .Div => some (CVal.f64 (F.div64 a b))
  | .Lt => some (CVal.ofBool (F.lt64 a b)) | .Le => some (CVal.ofBool (F.le64 a b))
  | .Gt => some (CVal.ofBool (F.lt64 b a)) | .Ge => some (CVal.ofBool (F.le64 b a))
  | .Eq => some (CVal.ofBool (F.eq64 a b)) | .Ne => some (CVal.ofBool (!(F.eq64 a b)))
  | .Mod | .And | .Or => none

/-- the instruction `lower_binop` must emit on a float type with `IrType` `t`. -/
def expectedFloatInstr (t : IrType) : BinOp → Option Instruction
  | .Add => some (.Add t .lhs .rhs) | .Sub => some (.Sub t .lhs .rhs)
  | .Mul => some (.Mul t .lhs .rhs) | .Div => some (.FDiv t .lhs .rhs)
  | .Lt => some (.FloatCmp .Bool .Lt .lhs .rhs) | .Le => some (.FloatCmp .Bool .Le .lhs .rhs)
  | .Gt => some (.FloatCmp .Bool .Gt .lhs .rhs) | .Ge => some (.FloatCmp .Bool .Ge .lhs .rhs)
  | .Eq => some (.CallEq false .lhs .rhs) | .Ne => some (.CallEq true .lhs .rhs)
  | .Mod | .And | .Or => none

/-- `float_op_same`: for `f32` and `f64` the compiled sequence applies the same `FloatOps` function
    to the operands in the same order — for every instance of `FloatOps`, hence for the hardware's
    IEEE-754 implementation. -/
theorem float_op_same (dbg : Bool) (op : BinOp) :
    (∀ (a b : BitVec 32) (v : CVal), floatSpec32 op a b = some v →
        ∃ i, expectedFloatInstr .F32 op = some i
          ∧ lower_binop dbg op (.Primitive (.Float .F32)) = .ok i
          ∧ runInstr dbg i (operands (CVal.f32 a) (CVal.f32 b)) = .ok v)
    ∧ (∀ (a b : BitVec 64) (v : CVal), floatSpec64 op a b = some v →
        ∃ i, expectedFloatInstr .F64 op = some i
          ∧ lower_binop dbg op (.Primitive (.Float .F64)) = .ok i
          ∧ runInstr dbg i (operands (CVal.f64 a) (CVal.f64 b)) = .ok v) := by
  constructor
  · intro a b v hv
    cases op <;> simp only [floatSpec32, Option.some.injEq, reduceCtorEq] at hv <;> subst hv <;>
      refine ⟨_, rfl, rfl, ?_⟩ <;>
      simp [runInstr, operands, CTy.isFloat, cg_Add_f32, cg_Sub_f32, cg_Mul_f32, cg_FDiv_f32,
        cg_FloatCmp_f32, floatCmpSpec32]
  · intro a b v hv
    cases op <;> simp only [floatSpec64, Option.some.injEq, reduceCtorEq] at hv <;> subst hv <;>
      refine ⟨_, rfl, rfl, ?_⟩ <;>
      simp [runInstr, operands, CTy.isFloat, cg_Add_f64, cg_Sub_f64, cg_Mul_f64, cg_FDiv_f64,
        cg_FloatCmp_f64, floatCmpSpec64]

/-- non-vacuity: the specification is defined for the ten float operators. -/
example (a b : BitVec 32) : floatSpec32 .Sub a b = some (CVal.f32 (F.sub32 a b))
    ∧ floatSpec32 .Gt a b = some (CVal.ofBool (F.lt32 b a)) := ⟨rfl, rfl⟩

/-- `float_neg_same`: unary `-` on `f32` / `f64` — the generated `Negate` arm of the code
    generator (`fneg`) applies `FloatOps.neg` to the operand, for every instance of `FloatOps`
    (for IEEE-754: it flips the sign bit, also of a zero and of a NaN; it is not `0.0 - x`). -/
theorem float_neg_same (dbg : Bool) :
    (∀ a : BitVec 32, cg_Negate dbg (CVal.f32 a) = .ok (CVal.f32 (F.neg32 a)))
    ∧ (∀ a : BitVec 64, cg_Negate dbg (CVal.f64 a) = .ok (CVal.f64 (F.neg64 a))) :=
  ⟨cg_Negate_f32 dbg, cg_Negate_f64 dbg⟩

/-- non-vacuity: the statement is about a successful code-generation arm (no `Res.panic`). -/
example (dbg : Bool) (a : BitVec 64) : ∃ v, cg_Negate dbg (CVal.f64 a) = .ok v :=
  ⟨_, (float_neg_same dbg).2 a⟩

end

end RotoV.C01
