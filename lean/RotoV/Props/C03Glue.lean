/-
  C03, T2 — the generated drop function releases exactly the host values the
  generated clone function creates (DESIGN.md §4 C03).

  Everything is stated over `RotoV.Gen.GlueLoops.prog`: the per-field loops of
  `generate_drop_body_record/_enum` and `generate_clone_body_record/_enum` as
  the translator reads them from the current source, interpreted by
  `RotoV.Glue.runSteps`.  A reordered statement (say, the `needs_drop` test in
  front of `builder.add`) is a different `prog`, and these theorems are
  re-checked against it.

  For all type trees `ty` (records and enums of any nesting over leaves of any
  size / alignment, droppable or not), all addresses and all discriminant
  memories `ρ` (i.e. all active variants, at every nesting level):
-/
import RotoV.Lemmas.Glue

namespace RotoV.C03
open RotoV.Glue RotoV.Glue.Ex RotoV.Gen.GlueLoops

/-- T2a. The drop function of `ty`, run on a value at `a`, calls exactly the drop
    functions of the value's droppable leaves, each once, at the address the
    place lowering puts that leaf, in declaration order — and nothing else. -/
theorem drop_releases_leaves (ρ : Nat → Nat) (ty : GTy) (a : Nat) :
    dropTy prog ρ ty a = (leaves ρ ty a).map (fun p => Ev.drop p.1 p.2) :=
  dropTy_eq ρ ty a

/-- T2a, read as "exactly once": the addresses the drop function releases are, as a list (order
    and multiplicity), the droppable leaves of the value — a leaf of size 0 counts like any other
    (two zero-sized leaves may share an address; each is released once) — and the drop function
    emits nothing but those releases. -/
theorem drop_visits_leaves_exactly_once (ρ : Nat → Nat) (ty : GTy) (a : Nat) :
    dropped (dropTy prog ρ ty a) = leaves ρ ty a
    ∧ (dropTy prog ρ ty a).length = (leaves ρ ty a).length
    ∧ ∀ p, (dropped (dropTy prog ρ ty a)).count p = (leaves ρ ty a).count p := by
  have h : dropped (dropTy prog ρ ty a) = leaves ρ ty a := by
    rw [dropTy_eq]; exact dropped_map_mkDrop _
  refine ⟨h, ?_, fun p => by rw [h]⟩
  rw [dropTy_eq, List.length_map]

/-- T2b. The clone function of `ty` creates one host value per droppable leaf of
    the source, reading it at the leaf's address in the source and creating it at
    the same offset in the destination; no statement of the loops is stuck. -/
theorem clone_creates_leaves (ρ : Nat → Nat) (ty : GTy) (s d : Nat) :
    cloned (cloneTy prog ρ ty s d) = leaves2 ρ ty s d
    ∧ (leaves2 ρ ty s d).map srcOf = leaves ρ ty s
    ∧ noStuck (cloneTy prog ρ ty s d) = true :=
  ⟨cloneTy_cloned ρ ty s d, leaves2_src ρ ty s d, cloneTy_noStuck ρ ty s d⟩

/-- T2. `clone_drop_balanced`: let the memory `ρ'` in which the copy is later dropped
    hold, at every discriminant byte the clone function wrote (`tags`: the `mem::write` of
    the discriminant in `generate_clone_body_enum`, at every nesting level it reaches), the
    value the clone wrote there. Then dropping the copy releases exactly the host values
    the clone created, at the addresses where it created them, and the clone read exactly
    the leaves of the source. (That no later `memcpy` / leaf clone of the same clone call
    overwrites such a byte is a disjointness fact of the layout, property C02.) -/
theorem clone_drop_balanced (ρ ρ' : Nat → Nat) (ty : GTy) (s d : Nat)
    (H : ∀ p ∈ tags (cloneTy prog ρ ty s d), ρ' p.2 = ρ p.1) :
    dropped (dropTy prog ρ' ty d) = (cloned (cloneTy prog ρ ty s d)).map dstOf
    ∧ (cloned (cloneTy prog ρ ty s d)).map srcOf = leaves ρ ty s := by
  rw [cloneTy_tags] at H
  refine ⟨?_, ?_⟩
  · rw [dropTy_eq, dropped_map_mkDrop, cloneTy_cloned, leaves2_dst' ρ ρ' ty s d H]
  · rw [cloneTy_cloned, leaves2_src]

/-- T2 for a byte-wise copy: if the destination holds the source's discriminants at every
    offset, the same conclusion. -/
theorem clone_drop_balanced_of_copy (ρ ρ' : Nat → Nat) (ty : GTy) (s d : Nat)
    (H : ∀ o, ρ' (d + o) = ρ (s + o)) :
    dropped (dropTy prog ρ' ty d) = (cloned (cloneTy prog ρ ty s d)).map dstOf := by
  rw [dropTy_eq, dropped_map_mkDrop, cloneTy_cloned, leaves2_dst ρ ρ' ty s d H]

/-- T2 (second half). A type the lowerer says needs no drop has no droppable
    leaf, its drop function does nothing and its clone creates nothing. -/
theorem no_drop_needed_releases_nothing (ρ : Nat → Nat) (ty : GTy) (a s d : Nat)
    (h : needsDrop ty = false) :
    leaves ρ ty a = [] ∧ dropTy prog ρ ty a = [] ∧ cloned (cloneTy prog ρ ty s d) = [] := by
  refine ⟨leaves_nil ρ ty a h, ?_, ?_⟩
  · rw [dropTy_eq, leaves_nil ρ ty a h]; rfl
  · rw [cloneTy_cloned, leaves2_nil ρ ty s d h]

/-! ## Non-vacuity and a concrete reading

`Ex.exF` is `enum F { P(u64, Tk), S(u8, String, u64, Tk), T(Tk, u64), Z }` with `Tk` and
`String` 16 bytes / align 8 (leaf ids 1 and 2); defined in `Lemmas/Glue.lean`. -/


/-- variant `P(u64, Tk)` at address 1000: the token sits at 1016 (after the tag
    and the `u64` at 1008), and that is the one address the drop function touches -/
example : dropTy prog (fun _ => 0) exF 1000 = [.drop 1016 1] := by decide

/-- variant `S(u8, String, u64, Tk)`: String at +8, token at +32 -/
example : dropTy prog (fun _ => 1) exF 1000 = [.drop 1008 2, .drop 1032 1] := by decide

example : cloned (cloneTy prog (fun _ => 0) exF 1000 2000) = [(1016, 2016, 1)] := by decide

example : dropped (dropTy prog (fun _ => 0) exF 2000)
    = (cloned (cloneTy prog (fun _ => 0) exF 1000 2000)).map dstOf :=
  (clone_drop_balanced (fun _ => 0) (fun _ => 0) exF 1000 2000 (fun _ _ => rfl)).1

/-- the clone of `S(u8, String, u64, Tk)` writes one discriminant byte, the enum's own -/
example : tags (cloneTy prog (fun _ => 1) exF 1000 2000) = [(1000, 2000)] := by decide

example : dropped (dropTy prog (fun _ => 1) exF 2000)
    = (cloned (cloneTy prog (fun _ => 1) exF 1000 2000)).map dstOf :=
  clone_drop_balanced_of_copy (fun _ => 1) (fun _ => 1) exF 1000 2000 (fun _ => rfl)

example : needsDrop (.record (.cons u64 (.cons u8 .nil))) = false := by decide

/-- A loop that tests `needs_drop` *before* `builder.add` (so that skipped fields
    do not advance the builder) is refuted by `P(u64, Tk)`: the model then runs
    the token's drop function on the `u64` at +8 and never on the token. -/
theorem skip_before_add_refuted :
    dropTy { prog with dropEnum := [.skipUnlessNeedsDrop, .add, .ptr .var .root, .callDrop .var] }
      (fun _ => 0) exF 1000 = [.drop 1008 1]
    ∧ leaves (fun _ => 0) exF 1000 = [(1016, 1)] := by decide

/-! ## The decisions around the loops: `call_drop_of`, `call_clone_function`, `needs_drop`,
`needs_clone`, `get_runtime_drop`, `get_runtime_clone` — as extracted, for every size including 0

The theorems above are already stated over these (`dropTy` / `cloneTy` interpret `prog.dropCall`
/ `prog.cloneCall` at every field); the following make the decisions themselves explicit. -/

/-- `call_drop_of` decides by `needs_drop` and the runtime function alone; the size of the type
    plays no role. -/
theorem call_drop_of_decided (size : Nat) (needs rt : Bool) :
    callActs prog.dropCall ⟨size, needs, rt⟩ =
      if needs then (if rt then [.runtime] else [.callGen, .enqueue]) else [] :=
  callActs_dropCall size needs rt

/-- `call_clone_function` makes the same decision; the size matters only for a type that needs
    no clone (no `memcpy` of 0 bytes). -/
theorem call_clone_function_decided (size : Nat) (needs rt : Bool) :
    callActs prog.cloneCall ⟨size, needs, rt⟩ =
      if needs then (if rt then [.runtime] else [.callGen, .enqueue])
      else if size == 0 then [] else [.memcpy size] :=
  callActs_cloneCall size needs rt

/-- A clone makes a host function run (the runtime clone function, or the generated one) exactly
    when a drop of the same type makes one run — for every size, 0 included, every `needs` bit and
    whether or not a runtime function exists. -/
theorem clone_call_iff_drop_call (e : CallEnv) :
    (callActs prog.cloneCall e).filter Act.isHost = (callActs prog.dropCall e).filter Act.isHost := by
  obtain ⟨size, needs, rt⟩ := e
  rw [callActs_cloneCall, callActs_dropCall]
  cases needs <;> cases rt <;> cases size <;> rfl

/-- `needs_clone` and `needs_drop`, evaluated from their extracted arms, agree on every type tree,
    whatever the kinds, sizes and movabilities of its leaves. -/
theorem needs_clone_iff_needs_drop (κ : Nat → Kind) (cd : Nat → Bool) (t : GTy) :
    needsBy arms κ cd .clone t = needsBy arms κ cd .drop t :=
  (needsBy_drop_eq_clone κ cd t).symm

/-- On a type tree whose `dr` bits are what the kinds of its leaves say (String, List, registered
    `CloneDrop` type), both extracted predicates are the closed form `needsDrop` every theorem of
    this file uses, and both runtime lookups succeed exactly on the droppable leaves: the
    `CallEnv` the model runs the call decisions in is the one the extracted functions compute. -/
theorem call_env_from_arms (κ : Nat → Kind) (cd : Nat → Bool) (t : GTy) (h : Kinded κ cd t = true) :
    callEnv t = ⟨(layoutOf t).size, needsBy arms κ cd .drop t, hasRuntimeBy runtimeDropKinds κ cd t⟩
    ∧ callEnv t = ⟨(layoutOf t).size, needsBy arms κ cd .clone t, hasRuntimeBy runtimeCloneKinds κ cd t⟩ := by
  simp only [callEnv, needsBy_eq κ cd _ t h, (hasRuntimeBy_eq κ cd t h).1, (hasRuntimeBy_eq κ cd t h).2,
    and_self]

/-- "needs a clone ⇔ needs a drop" for every type tree, size 0 included, over the extracted
    decision functions: what `call_clone_function(…, t)` and `call_drop_of(…, t)` emit, each fed
    by its own predicate (`needs_clone` / `needs_drop`) and its own lookup (`get_runtime_clone` /
    `get_runtime_drop`), is a host call for both or for neither, of the same kind. -/
theorem clone_needed_iff_drop_needed (κ : Nat → Kind) (cd : Nat → Bool) (t : GTy) :
    (callActs prog.cloneCall
        ⟨(layoutOf t).size, needsBy arms κ cd .clone t, hasRuntimeBy runtimeCloneKinds κ cd t⟩).filter Act.isHost
    = (callActs prog.dropCall
        ⟨(layoutOf t).size, needsBy arms κ cd .drop t, hasRuntimeBy runtimeDropKinds κ cd t⟩).filter Act.isHost := by
  have hk : runtimeCloneKinds = runtimeDropKinds := by decide
  rw [needs_clone_iff_needs_drop, hk]
  exact clone_call_iff_drop_call _

/-- `get_runtime_drop` returns the drop half of the `CloneDrop` pair, `get_runtime_clone` the clone half. -/
theorem runtime_functions_not_swapped : runtimeDropField = .drop ∧ runtimeCloneField = .clone := by
  decide

/-- A droppable leaf of size 0 (a registered `#[clone]` unit struct) is cloned by its clone
    function and dropped by its drop function like any other. -/
theorem zero_sized_droppable_leaf_cloned_and_dropped (id a s d p : Nat) (body : List Ev) :
    callCloneOf prog (.leaf id 0 a true) s d body = [.clone s d id]
    ∧ callDropOf prog (.leaf id 0 a true) p body = [.drop p id] := by
  constructor <;> rfl

/-- Which body `generate_drop_body` / `generate_clone_body` give the function of a type, from
    their extracted runtime shortcut and arms, kind by kind and whatever the size: a type whose
    runtime lookup succeeds (String, List, `CloneDrop` registered type — the droppable leaves of
    the model, `dr = true`) gets the runtime function on the value itself in BOTH functions; a
    record gets the field loop and an enum the switch in both (`drop_releases_leaves` and
    `clone_creates_leaves` are about those); every other kind releases and creates nothing (the
    clone function of a registered `Copy` type copies its bytes). The `ice!` arms are unreachable. -/
theorem generated_bodies_decided (k : Kind) (cd : Bool) :
    (dropBody.body (rtFound runtimeDropKinds k cd) k = .runtime
      ↔ cloneBody.body (rtFound runtimeCloneKinds k cd) k = .runtime)
    ∧ (dropBody.body (rtFound runtimeDropKinds k cd) k = .runtime ↔ cloneDropOf k cd = true)
    ∧ (k = .record → dropBody.body (rtFound runtimeDropKinds k cd) k = .arm .recordLoop
        ∧ cloneBody.body (rtFound runtimeCloneKinds k cd) k = .arm .recordLoop)
    ∧ (k = .enum → dropBody.body (rtFound runtimeDropKinds k cd) k = .arm .enumSwitch
        ∧ cloneBody.body (rtFound runtimeCloneKinds k cd) k = .arm .enumSwitch)
    ∧ dropBody.body (rtFound runtimeDropKinds k cd) k ≠ .arm .ice
    ∧ cloneBody.body (rtFound runtimeCloneKinds k cd) k ≠ .arm .ice
    ∧ dropBody.body (rtFound runtimeDropKinds k cd) k ≠ .none
    ∧ cloneBody.body (rtFound runtimeCloneKinds k cd) k ≠ .none := by
  rw [dropBody_decided, cloneBody_decided]
  cases k <;> cases cd <;> decide

/-- The vtable a list gets for its element type (`Lowerer::call_runtime`): it holds a clone
    function exactly when it holds a drop function, namely the generated clone / drop function of
    the element type — for every element type tree, zero-sized ones included; and on a tree whose
    `dr` bits are what the kinds say, exactly when the element has a droppable leaf. -/
theorem list_vtable_clone_iff_drop (κ : Nat → Kind) (cd : Nat → Bool) (t : GTy) :
    needsBy arms κ cd vtableClone.cond t = needsBy arms κ cd vtableDrop.cond t
    ∧ vtableClone.fn = .clone ∧ vtableDrop.fn = .drop
    ∧ (Kinded κ cd t = true → needsBy arms κ cd vtableClone.cond t = needsDrop t) := by
  refine ⟨?_, by decide, by decide, fun h => needsBy_eq κ cd _ t h⟩
  have h1 : vtableClone.cond = .clone := by decide
  have h2 : vtableDrop.cond = .drop := by decide
  rw [h1, h2]
  exact needs_clone_iff_needs_drop κ cd t

/-! ### Non-vacuity: zero-sized leaves

`Ex.tz` is a registered `#[clone]` type of size 0 (leaf id 3); `Ex.exZ` is
`enum Z { P(u64, Tz), Q(Tz, Tk), R(Tz), N }`. -/

example : Kinded (fun i => if i = 0 then .prim else if i = 2 then .string else .runtime) (fun _ => true) exZ = true := by
  decide

/-- `T(Tz, Tz)`-like: two zero-sized leaves behind one another share the address +1 and are
    released once each -/
example : (leaves (fun _ => 0) (.enum (.cons (.cons tz (.cons tz .nil)) .nil)) 1000).count (1001, 3) = 2
    ∧ (dropped (dropTy prog (fun _ => 0) (.enum (.cons (.cons tz (.cons tz .nil)) .nil)) 1000)).count (1001, 3) = 2 := by
  decide

/-- `P(u64, Tz)`: the zero-sized token sits at +16 (it takes no room) and is released there -/
example : dropTy prog (fun _ => 0) exZ 1000 = [.drop 1016 3] := by decide

/-- `Q(Tz, Tk)`: the zero-sized token at +1 (right behind the tag, it takes no room), `Tk` at +8; both cloned -/
example : cloned (cloneTy prog (fun _ => 1) exZ 1000 2000) = [(1001, 2001, 3), (1008, 2008, 1)] := by decide

example : dropped (dropTy prog (fun _ => 1) exZ 2000)
    = (cloned (cloneTy prog (fun _ => 1) exZ 1000 2000)).map dstOf :=
  clone_drop_balanced_of_copy (fun _ => 1) (fun _ => 1) exZ 1000 2000 (fun _ => rfl)

example : (callActs prog.cloneCall ⟨0, true, true⟩).filter Act.isHost = [.runtime] := by decide

/-- a registered `CloneDrop` type: runtime function in both generated bodies -/
example : dropBody.body (rtFound runtimeDropKinds .runtime true) .runtime = .runtime
    ∧ cloneBody.body (rtFound runtimeCloneKinds .runtime true) .runtime = .runtime := by decide

/-- the element vtable of `List[Z]` has both functions, that of `List[u64]` neither -/
example : needsBy arms (fun i => if i = 0 then .prim else if i = 2 then .string else .runtime)
    (fun _ => true) vtableClone.cond exZ = true
    ∧ needsBy arms (fun _ => .prim) (fun _ => false) vtableDrop.cond u64 = false := by decide

/-- A `call_clone_function` that tests the size first ("zero-sized values have no storage, nothing
    to copy") and only then `needs_clone` is refuted by `R(Tz)`: the copy holds a token nobody
    cloned, which the drop function of the copy still releases. -/
theorem size_test_before_needs_clone_refuted :
    let P := { prog with cloneCall := [.letSize, .ifc .sizeZero 1, .ret, .ifc .notNeeds 2, .memcpy, .ret,
                                       .ifc .hasRuntime 2, .runtime, .ret, .callGen, .enqueue] }
    cloned (cloneTy P (fun _ => 2) exZ 1000 2000) = []
    ∧ dropped (dropTy P (fun _ => 2) exZ 2000) = [(2001, 3)]
    ∧ (callActs P.cloneCall ⟨0, true, true⟩).filter Act.isHost ≠ (callActs P.dropCall ⟨0, true, true⟩).filter Act.isHost := by
  decide

end RotoV.C03
