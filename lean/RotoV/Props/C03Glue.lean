/-
  C03, T2 — the generated drop function releases exactly the host values the
  generated clone function creates (DESIGN.md §4 C03).

  Everything is stated over `RotoV.Gen.GlueLoops.prog`: the per-field loops of
  `generate_drop_body_record/_enum` and `generate_clone_body_record/_enum` as
  the translator reads them from the current source, interpreted by
  `RotoV.Glue.runSteps`.  A reordered statement (say, the `needs_drop` test in
  front of `builder.add`) is a different `prog`, and these theorems are
  re-checked against it.

  For all type trees `ty` (records and enums of any nesting over leaves of any
  size / alignment, droppable or not), all addresses and all discriminant
  memories `ρ` (i.e. all active variants, at every nesting level):
-/
import RotoV.Lemmas.Glue

namespace RotoV.C03
open RotoV.Glue RotoV.Glue.Ex RotoV.Gen.GlueLoops

/-- T2a. The drop function of `ty`, run on a value at `a`, calls exactly the drop
    functions of the value's droppable leaves, each once, at the address the
    place lowering puts that leaf, in declaration order — and nothing else. -/
theorem drop_releases_leaves (ρ : Nat → Nat) (ty : GTy) (a : Nat) :
    dropTy prog ρ ty a = (leaves ρ ty a).map (fun p => Ev.drop p.1 p.2) :=
  dropTy_eq ρ ty a

/-- T2b. The clone function of `ty` creates one host value per droppable leaf of
    the source, reading it at the leaf's address in the source and creating it at
    the same offset in the destination; no statement of the loops is stuck. -/
theorem clone_creates_leaves (ρ : Nat → Nat) (ty : GTy) (s d : Nat) :
    cloned (cloneTy prog ρ ty s d) = leaves2 ρ ty s d
    ∧ (leaves2 ρ ty s d).map srcOf = leaves ρ ty s
    ∧ noStuck (cloneTy prog ρ ty s d) = true :=
  ⟨cloneTy_cloned ρ ty s d, leaves2_src ρ ty s d, cloneTy_noStuck ρ ty s d⟩

/-- T2. `clone_drop_balanced`: let the memory `ρ'` in which the copy is later dropped
    hold, at every discriminant byte the clone function wrote (`tags`: the `mem::write` of
    the discriminant in `generate_clone_body_enum`, at every nesting level it reaches), the
    value the clone wrote there. Then dropping the copy releases exactly the host values
    the clone created, at the addresses where it created them, and the clone read exactly
    the leaves of the source. (That no later `memcpy` / leaf clone of the same clone call
    overwrites such a byte is a disjointness fact of the layout, property C02.) -/
theorem clone_drop_balanced (ρ ρ' : Nat → Nat) (ty : GTy) (s d : Nat)
    (H : ∀ p ∈ tags (cloneTy prog ρ ty s d), ρ' p.2 = ρ p.1) :
    dropped (dropTy prog ρ' ty d) = (cloned (cloneTy prog ρ ty s d)).map dstOf
    ∧ (cloned (cloneTy prog ρ ty s d)).map srcOf = leaves ρ ty s := by
  rw [cloneTy_tags] at H
  refine ⟨?_, ?_⟩
  · rw [dropTy_eq, dropped_map_mkDrop, cloneTy_cloned, leaves2_dst' ρ ρ' ty s d H]
  · rw [cloneTy_cloned, leaves2_src]

/-- T2 for a byte-wise copy: if the destination holds the source's discriminants at every
    offset, the same conclusion. -/
theorem clone_drop_balanced_of_copy (ρ ρ' : Nat → Nat) (ty : GTy) (s d : Nat)
    (H : ∀ o, ρ' (d + o) = ρ (s + o)) :
    dropped (dropTy prog ρ' ty d) = (cloned (cloneTy prog ρ ty s d)).map dstOf := by
  rw [dropTy_eq, dropped_map_mkDrop, cloneTy_cloned, leaves2_dst ρ ρ' ty s d H]

/-- T2 (second half). A type the lowerer says needs no drop has no droppable
    leaf, its drop function does nothing and its clone creates nothing. -/
theorem no_drop_needed_releases_nothing (ρ : Nat → Nat) (ty : GTy) (a s d : Nat)
    (h : needsDrop ty = false) :
    leaves ρ ty a = [] ∧ dropTy prog ρ ty a = [] ∧ cloned (cloneTy prog ρ ty s d) = [] := by
  refine ⟨leaves_nil ρ ty a h, ?_, ?_⟩
  · rw [dropTy_eq, leaves_nil ρ ty a h]; rfl
  · rw [cloneTy_cloned, leaves2_nil ρ ty s d h]

/-! ## Non-vacuity and a concrete reading

`Ex.exF` is `enum F { P(u64, Tk), S(u8, String, u64, Tk), T(Tk, u64), Z }` with `Tk` and
`String` 16 bytes / align 8 (leaf ids 1 and 2); defined in `Lemmas/Glue.lean`. -/


/-- variant `P(u64, Tk)` at address 1000: the token sits at 1016 (after the tag
    and the `u64` at 1008), and that is the one address the drop function touches -/
example : dropTy prog (fun _ => 0) exF 1000 = [.drop 1016 1] := by decide

/-- variant `S(u8, String, u64, Tk)`: String at +8, token at +32 -/
example : dropTy prog (fun _ => 1) exF 1000 = [.drop 1008 2, .drop 1032 1] := by decide

example : cloned (cloneTy prog (fun _ => 0) exF 1000 2000) = [(1016, 2016, 1)] := by decide

example : dropped (dropTy prog (fun _ => 0) exF 2000)
    = (cloned (cloneTy prog (fun _ => 0) exF 1000 2000)).map dstOf :=
  (clone_drop_balanced (fun _ => 0) (fun _ => 0) exF 1000 2000 (fun _ _ => rfl)).1

/-- the clone of `S(u8, String, u64, Tk)` writes one discriminant byte, the enum's own -/
example : tags (cloneTy prog (fun _ => 1) exF 1000 2000) = [(1000, 2000)] := by decide

example : dropped (dropTy prog (fun _ => 1) exF 2000)
    = (cloned (cloneTy prog (fun _ => 1) exF 1000 2000)).map dstOf :=
  clone_drop_balanced_of_copy (fun _ => 1) (fun _ => 1) exF 1000 2000 (fun _ => rfl)

example : needsDrop (.record (.cons u64 (.cons u8 .nil))) = false := by decide

/-- A loop that tests `needs_drop` *before* `builder.add` (so that skipped fields
    do not advance the builder) is refuted by `P(u64, Tk)`: the model then runs
    the token's drop function on the `u64` at +8 and never on the token. -/
theorem skip_before_add_refuted :
    dropTy { prog with dropEnum := [.skipUnlessNeedsDrop, .add, .ptr .var .root, .callDrop .var] }
      (fun _ => 0) exF 1000 = [.drop 1008 1]
    ∧ leaves (fun _ => 0) exF 1000 = [(1016, 1)] := by decide

end RotoV.C03
