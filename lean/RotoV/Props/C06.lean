/-
  C06 — compilation is total: every input yields a package or a report.

  What is PROVED here (for every input and every instantiation of the Unicode
  predicates `is_xid_start`, `is_xid_continue`, `char::is_whitespace`):

   * T1 `lex_total`      the lexer model (`Model/Lexer.lean`, with the keyword /
                          punctuation tables and the recogniser order regenerated
                          from `src/parser/lexer.rs`) never panics — every `&str`
                          slice is on a character boundary, no `usize` subtraction
                          underflows — and the whole-input driver terminates;
   * T2 `lex_spans`      every token span lies inside the input on character
                          boundaries, token spans are non-empty, spans increase;
                          `lexer_ops_total` is the same per operation, from any
                          state the parser can put the lexer in (any call pattern
                          of `next` / `f_string_part`);
   * T3 `char_range_ok`  `Span::character_range` never slices off a boundary for
                          such spans;
   * T4                  `cycle_check_old_unsound`: on the unchanged tree
                          `detect_type_cycles` accepts `record A { x: A? }` and
                          `TypeInfo::convert`/`layout_of` then recurse for ever
                          (refutation, witness replayed on the real code);
                          `cycle_check_sound`: the repaired check (arguments of
                          named types are visited) is sound: acceptance implies
                          that `convert` terminates on every closed type.
   * refutation `invalid_span_old_off_boundary`: the span of an unrecognised
     multi-byte character was `start..start+1` on the unchanged tree.

   * T5 — in `Props/C06Unify.lean`, so that a broken fact about unification
     does not hide the lexer theorems —
     (unification, `Model/Unify.lean` over the union-find store, with the
     arms of `occurs`, the variables `find` / `find_ref` / `resolve_type`
     follow and the guard in front of every `unionfind.set` of `unify_inner`
     REGENERATED from the source on every run):
       `occurs_arms_complete`, `lookup_arms_ok`, `unify_sets_guarded`
                          obligations on the generated facts: the occurs check
                          searches every child that can hold a variable; every
                          binding of a compound type stands behind it;
       `occurs_check_sound`  a negative occurs check means the variable cannot
                          be reached;
       `unify_terminates_partial`  unification (successful or not) keeps an
                          acyclic store acyclic, and in an acyclic store every
                          lookup and every deep traversal returns;
       `find_compression_harmless`  path compression keeps the store acyclic;
       `unify_old_creates_cycle`  refutation on the unchanged tree: the arms
                          that bind a RECORD variable had no occurs check and the
                          never type unifies with anything — witness
                          `fn main(l: List[!]) { let a = { f: l }; let b = { f: [[a]] }; a == b; }`
                          (replayed on the real code: corpus/C06/19).

   * the PARSER — in `Props/C06Parse.lean` (`parse_total`, `parse_error_spans_ok`,
     `parse_span_table_ok`, `literal_slices_ok`, `fstring_part_slices_ok` over the
     model `Model/Parse.lean`, which drives the lexer model of this file) and
     `Props/C06ParseSource.lean` (the regenerated decision tables and call
     skeletons of src/parser/*.rs are the ones the model was written against).

  NOT proved (covered by the crash oracle only — exploration): the bodies of
  the type checker (beyond unification and the cycle check), lowering and code
  generation; the literal decoders are parameters of the parser theorems.
-/
import RotoV.Lemmas.Lexer
import RotoV.Lemmas.TypeCycle

namespace RotoV.C06
open RotoV RotoV.Lex RotoV.Gen.LexTables

/-- obligation on the GENERATED punctuation tables: every byte they match is
ASCII, so `bump(2)` / `bump(1)` after a match stays on a character boundary. -/
theorem tables_ok : TablesOk := ⟨by decide, by decide⟩

/-- T1: for every input and all predicates the lexer neither panics nor hangs. -/
theorem lex_total (P : Preds) (src : List Char) : ∃ toks, tokenize P src = .done toks := by
  obtain ⟨toks, h, _⟩ := tokenize_ok P tables_ok src
  exact ⟨toks, h⟩

/-- non-vacuity: a concrete source is lexed to the expected stream. -/
example :
    tokenize ⟨fun c => c.isAlpha, fun c => c.isAlphanum, fun c => c == ' '⟩ "fn é".toList =
      .done [⟨.tok (.keyword "Fn"), 0, 2⟩, ⟨.invalid, 3, 5⟩] := by
  decide

/-- T2: every token span is inside the input on character boundaries, token
(and invalid-character) spans are non-empty, and the spans are increasing. -/
theorem lex_spans (P : Preds) (src : List Char) (toks : List OutTok)
    (h : tokenize P src = .done toks) :
    (∀ t ∈ toks, t.kind ≠ .fNone → SpanOk src (t.start, t.stop)) ∧
    (∀ t ∈ toks, (∃ k, t.kind = .tok k) ∨ t.kind = .invalid → t.start < t.stop) ∧
    toks.Pairwise (fun a b => b.kind ≠ .fNone → a.stop ≤ b.start) := by
  obtain ⟨toks', h', good⟩ := tokenize_ok P tables_ok src
  rw [h] at h'
  injection h' with h'
  subst h'
  exact good

/-- T1/T2 per operation: from ANY reachable lexer state (the remaining input
is a suffix of the source) `next_inner` and `f_string_part` return without
panicking, leave the lexer in a reachable state, never move backwards, and the
spans they hand out are inside the source on character boundaries. -/
theorem lexer_ops_total (P : Preds) (src : List Char) (L : Lexer) (h : Reach src L) :
    (∃ it L', nextInner P L = .ok (it, L') ∧ Reach src L' ∧ L.pos ≤ L'.pos ∧ ItemOk src L L' it) ∧
    (∃ p L', fStringPart L = .ok (p, L') ∧ Reach src L' ∧
      match p with
      | .none => L' = L
      | .strEnd sp => sp.1 = L.pos ∧ SpanOk src sp ∧ sp.2 + 1 = L'.pos
      | .strMid sp => sp.1 = L.pos ∧ SpanOk src sp ∧ sp.2 = L'.pos ∧ ∃ r, L'.input = '{' :: r) ∧
    (∃ L', skipShebang P L = .ok L' ∧ Reach src L' ∧ L.pos ≤ L'.pos) :=
  ⟨nextInner_ok' P tables_ok src L h, fStringPart_ok' src L h, skipShebang_ok' h P⟩

/-- non-vacuity: the initial state is reachable. -/
example (src : List Char) : Reach src (Lexer.new src) := Reach.new src

/-- T3: `character_range` never slices off a boundary for a span that is inside
the file on character boundaries; the character range is inside the file. -/
theorem char_range_ok (file : List Char) (sp : Span) (h : SpanOk file sp) :
    ∃ a b, characterRange file sp = .ok (a, b) ∧ a ≤ b ∧ b ≤ file.length :=
  characterRange_ok file sp h

/-- non-vacuity, and the converse direction on a witness -/
example : SpanOk ['€', 'x'] (0, 3) ∧ characterRange ['€', 'x'] (0, 3) = .ok (0, 1) := by
  refine ⟨⟨by decide, ⟨[], ['€', 'x'], rfl, rfl⟩, ⟨['€'], ['x'], rfl, by decide⟩⟩, by decide⟩

/-- refutation on the unchanged tree: for an unrecognised multi-byte character
`next_inner` produced the span `start..start+1`, which is not on a character
boundary, and `character_range` (report rendering) panics on it.
Witness: the source `€` (replayed on the real code: corpus/C06). -/
theorem invalid_span_old_off_boundary :
    ¬ IsBoundary ['€'] (invalidSpanOld 0).2 ∧ characterRange ['€'] (invalidSpanOld 0) = .panic := by
  refine ⟨?_, by decide⟩
  rintro ⟨pre, post, h, hb⟩
  cases pre with
  | nil => simp [invalidSpanOld] at hb
  | cons c cs =>
    simp only [List.cons_append, List.cons.injEq] at h
    obtain ⟨rfl, _⟩ := h
    have : sz '€' = 3 := by decide
    simp [invalidSpanOld, this] at hb
    omega

open RotoV.TypeCycle in
/-- T4 refuted on the unchanged tree: `detect_type_cycles` (which ignored the
arguments of named types) accepts `Option` + `record A { x: A? }`, and
`TypeInfo::convert` never returns on `A`. -/
theorem cycle_check_old_unsound :
    Accepts .old witnessDefs [0, 1] ∧ ¬ Terminates witnessDefs (.name 1 []) :=
  old_unsound

open RotoV.TypeCycle in
/-- T4 `cycle_check_sound` on the repaired check (`visit` follows the arguments
of named types): if `detect_type_cycles` accepts — whatever the iteration order
of its hash map, as long as every definition is visited — then
`TypeInfo::convert` (and with it `layout_of`, which walks the tree `convert`
builds) terminates on every type over the defined names. -/
theorem cycle_check_sound (defs : Defs) (order : List Nat)
    (hcover : ∀ n, n < defs.length → n ∈ order)
    (hacc : Accepts .fixed defs order) (ty : Ty) (hty : Ty.closedIn defs.length ty = true) :
    Terminates defs ty :=
  fixed_sound defs order hcover hacc ty hty

open RotoV.TypeCycle in
/-- non-vacuity: a generic, non-recursive set of definitions is accepted
(`Option[T]`, `List`, `i32`, `record R { a: Option[List[R2]] … }`), and the
repaired check rejects the witness of the unchanged tree. -/
example :
    Accepts .fixed [.fields [.var 0], .list, .opaque, .fields [.name 0 [.name 1 [.name 2 []]]]] [0, 1, 2, 3] ∧
    ¬ Accepts .fixed witnessDefs [0, 1] :=
  ⟨⟨20, _, rfl⟩, fixed_rejects_witness⟩

end RotoV.C06
