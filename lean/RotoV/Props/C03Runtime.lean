/-
  C03, runtime boundary — a value handed to the list runtime by raw pointer is
  released exactly once on every path of the receiving function.

  Compiled code gives call arguments to the callee and emits no `Drop` for
  them.  For `List.push / contains / index` the element arrives as a `DynVal`
  (raw pointer), so nothing but the code of the `ErasedList` function decides
  whether it is released.  `Generated/ListOwn.lean` holds those functions as
  the translator reads them from `src/value/list.rs` on every run (statement
  by statement; anything outside the subset is an extraction failure) and the
  function each script-visible method hands its `DynVal` to
  (`src/runtime/basic.rs`).
-/
import RotoV.Model.ListOwn
import RotoV.Generated.ListOwn

namespace RotoV.C03
open RotoV.ListOwn

/-- `runOwn` decides all paths: if it accepts a body, then on every path (every outcome of
    every early-return condition) the element is consumed exactly once — stored in the list or
    released through `drop_fn` — and never read afterwards. -/
theorem runOwn_sound : ∀ (b : List OStmt) (consumed : Bool), runOwn consumed b = true →
    ∀ (choice : Nat → Bool) (n : Nat), pathOk consumed (events choice n b) = true
  | [], c, h, _, _ => by simpa [runOwn, events, pathOk] using h
  | s :: r, c, h, choice, n => by
    cases s <;> cases c <;>
      simp only [runOwn, events, pathOk, Bool.and_eq_true, Bool.false_and, Bool.true_and,
        Bool.false_eq_true, false_and] at h ⊢
    all_goals first
      | exact runOwn_sound r _ h choice n
      | (split
         · first | rfl | exact h.1
         · first | exact runOwn_sound r _ h choice (n + 1) | exact runOwn_sound r _ h.2 choice (n + 1))
      | exact h
      | cases h
      | rfl

/-- RT1. Every list method of the script runtime that takes an element by `DynVal` hands it to
    an `ErasedList` function that, as written in the current source, consumes it exactly once
    on every path. -/
theorem runtime_entries_consume_once :
    entriesConsume RotoV.Gen.ListOwn.fns RotoV.Gen.ListOwn.entries = true := by decide

/-- RT1, spelled out over paths. -/
theorem runtime_entry_paths (e : Nat) (he : e ∈ RotoV.Gen.ListOwn.entries) :
    ∃ b, lookup RotoV.Gen.ListOwn.fns e = some b ∧
      ∀ choice n, pathOk false (events choice n b) = true := by
  have h := runtime_entries_consume_once
  simp only [entriesConsume, List.all_eq_true] at h
  have := h e he
  cases hl : lookup RotoV.Gen.ListOwn.fns e with
  | none => simp [hl] at this
  | some b =>
    simp only [hl] at this
    exact ⟨b, rfl, runOwn_sound b false this⟩

/-- RT2. Every `ErasedList` function that receives an element pointer either consumes it
    exactly once on every path or leaves it alone on every path (the borrowing twins
    `contains` / `index` used by `List<T>` on the Rust side). -/
theorem runtime_functions_decided : allDecided RotoV.Gen.ListOwn.fns = true := by decide

/-- non-vacuity: an early return in front of the release (`if raw.is_empty() { return false }`)
    is refused, and so is a release in front of the comparison -/
example : runOwn false [.lock, .retIf, .borrow, .releaseIfDroppable, .ret] = false := by decide
example : runOwn false [.lock, .releaseIfDroppable, .borrow, .ret] = false := by decide
example : runOwn false [.lock, .borrow, .releaseIfDroppable, .retIf, .ret] = true := by decide

end RotoV.C03
