/-
  C03, runtime boundary — a value handed to the list runtime by raw pointer is
  released exactly once on every path of the receiving function.

  Compiled code gives call arguments to the callee and emits no `Drop` for
  them.  For `List.push / contains / index` the element arrives as a `DynVal`
  (raw pointer), so nothing but the code of the `ErasedList` function decides
  whether it is released.  `Generated/ListOwn.lean` holds those functions as
  the translator reads them from `src/value/list.rs` on every run (statement
  by statement; anything outside the subset is an extraction failure) and the
  function each script-visible method hands its `DynVal` to
  (`src/runtime/basic.rs`).
-/
import RotoV.Model.ListOwn

namespace RotoV.C03
open RotoV.ListOwn

/-- `runOwn` decides all paths: if it accepts a body, then on every path (every outcome of
    every early-return condition) the element is consumed exactly once — stored in the list or
    released through `drop_fn` — and never read afterwards. -/
theorem runOwn_sound : ∀ (b : List OStmt) (consumed : Bool), runOwn consumed b = true →
    ∀ (choice : Nat → Bool) (n : Nat), pathOk consumed (events choice n b) = true
  | [], c, h, _, _ => by simpa [runOwn, events, pathOk] using h
  | s :: r, c, h, choice, n => by
    cases s <;> cases c <;>
      simp only [runOwn, events, pathOk, Bool.and_eq_true, Bool.false_and, Bool.true_and,
        Bool.false_eq_true] at h ⊢
    all_goals first
      | exact runOwn_sound r _ h choice n
      | (split
         · first | rfl | exact h.1
         · first | exact runOwn_sound r _ h choice (n + 1) | exact runOwn_sound r _ h.2 choice (n + 1))
      | exact h
      | cases h
      | rfl

/-- non-vacuity: an early return in front of the release (`if raw.is_empty() { return false }`)
    is refused, and so is a release in front of the comparison -/
example : runOwn false [.lock, .retIf, .borrow, .releaseIfDroppable, .ret] = false := by decide
example : runOwn false [.lock, .releaseIfDroppable, .borrow, .ret] = false := by decide
example : runOwn false [.lock, .borrow, .releaseIfDroppable, .retIf, .ret] = true := by decide

end RotoV.C03
