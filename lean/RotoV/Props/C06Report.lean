/-
  C06, part 3 — the texts of error reports are only ever cut where a theorem
  says it is safe.

  `Generated/ReportSlices.lean` (target `reportslices`, regenerated on every
  run) lists EVERY place in the files that build the text of parse / type
  errors and render reports (`src/parser/error.rs`, `src/parser/meta.rs`,
  `src/parser/token.rs`, `src/typechecker/error.rs`, `src/typechecker/types.rs`,
  `src/pipeline.rs`) where a text is cut by byte offsets: range indexing
  (`x[a..b]`, `x[..n]`, `x[n..]`), `split_at`, `truncate`, `drain`,
  `split_off`, `insert`, `replace_range`, `remove`, `…_unchecked`.
-/
import RotoV.Generated.ReportSlices
import RotoV.Lemmas.Lexer

namespace RotoV.C06
open RotoV.Report RotoV.Gen.ReportSlices

/-- obligation on the GENERATED list: every cut is either the whole text
(`x[..]`) or one of the two slices of `Span::character_range` — which is
modelled (`Lex.characterRange`) and never slices off a character boundary for
the spans the lexer hands out (`char_range_ok`, `lex_spans`) — and those two
are still there (the model is about the code as it is). A new cut at a computed
byte offset (`&token[..48]`) is `unaudited` and breaks this theorem. -/
theorem report_slices_audited :
    (∀ s ∈ sliceSites, s.audited = true) ∧
    SliceSite.charRangePrefix ∈ sliceSites ∧ SliceSite.charRangeSpan ∈ sliceSites := by
  decide

/-- obligation on the GENERATED list for the rest of the front end (parser and
type checker without the lexer, which has its own model; `module.rs`,
`file_tree.rs`): every cut of a text or list by offsets is one of the known
ones — stripping the ASCII quotes of a string / character token, the ASCII
prefix `0x` / `AS`, the pieces of an f-string between `char_indices` offsets,
the tail of a method's parameter list, a full range. (Those are justified by
the shape of the tokens, not by a theorem here; the point of this obligation
is that a NEW cut — say of the offending token's text before it goes into a
`ParseError` — does not go unnoticed.) -/
theorem front_end_slices_audited : ∀ s ∈ frontEndSites, s.audited = true := by
  decide

/-- non-vacuity -/
example : SliceSite.quotesStripped ∈ frontEndSites := by decide

/-- non-vacuity: an unaudited cut is rejected, and what the audited ones rely on holds -/
example : (SliceSite.unaudited "src/parser/error.rs" "quoted" 34 "token[..MAX_QUOTED_LEN]").audited = false ∧
    ∀ (file : List Char) (sp : Lex.Span), Lex.SpanOk file sp →
      ∃ a b, Lex.characterRange file sp = .ok (a, b) ∧ a ≤ b ∧ b ≤ file.length :=
  ⟨rfl, Lex.characterRange_ok⟩

end RotoV.C06
