/-
  C03, variant layer — "none is read after it was dropped", for reads that go
  through a variant of an enum value (`x.Some.0`).

  `variant_reads_sound`: if the certificate checker `varCheck` accepts a MIR
  item, then no execution of it under the token semantics of `RotoV.Model.Mir`
  — any switch outcomes, any number of loop iterations, any variants of values
  from outside — ever executes `… = clone x.V.i` while `x` holds a value of
  another variant (`wrongRead`): between the switch on the discriminant of `x`
  that selected the variant and the read, nothing has written `x`.  Together
  with `checker_sound` (every `Drop` balances) this closes the gap the ownership
  states alone leave: an arm that re-extracts its binding from a variable a
  guard has meanwhile overwritten reads the payload of a dropped value although
  all drops balance (`aliased_examinee_*` below).
-/
import RotoV.Lemmas.MirVariant
import RotoV.Lemmas.Mir

namespace RotoV.C03
open RotoV.Mir

/-- T1v. Soundness of the variant checker, for every execution from every state. -/
theorem variant_reads_sound (it : Item) (cert : VCert) (h : varCheck it cert = true)
    (ω : Oracle) (c0 : CState) (n : Nat) :
    wrongWithin it ω n (entryLabel it) c0 = false := by
  have h' := h
  simp only [varCheck, Bool.and_eq_true] at h'
  exact vrun_sound h n _ _ (vedge_sim h'.1 (Rk_init it c0))

/-- a concrete execution with a wrong read refutes every certificate -/
theorem vrejected_of_wrong_read (it : Item) (ω : Oracle) (c0 : CState) (n : Nat)
    (hw : wrongWithin it ω n (entryLabel it) c0 = true) : ∀ cert, varCheck it cert = false := by
  intro cert
  cases hc : varCheck it cert with
  | false => rfl
  | true => rw [variant_reads_sound it cert hc ω c0 n] at hw; cases hw

/-! ## non-vacuity: a match whose arms read the matched *variable* itself

`x : Tk?` (variable 0, a parameter), `d` (1), the bindings `y` (2) and `z` (3), a temporary (4),
`g` (5, the guard's outcome):
```text
b0: d = discriminant(x); switch d [0 → b1, 1 → b4]
b1: y = clone x.0.0; drop x; setDisc x 1 (None); drop y; g = lit; switch g [0 → b2, 1 → b3]     guard_0, assigns to x
b2: z = clone x.0.0; drop z; jump b4                                                            guard_1 re-extracts
b3: jump b4
b4: drop x; return d
```
Every `Drop` balances (`ownCheck` accepts), yet on the path b0 → b1 → b2 the second arm reads
`x.Some.0` out of a `None`. -/

def aliased : Item :=
  { types := [⟨true, .opaque⟩, ⟨true, .enum [[0], []]⟩, ⟨false, .opaque⟩],
    vars := [1, 2, 0, 0, 0, 2],
    params := [0],
    retTy := 2,
    blocks := [
      ⟨0, [.assign ⟨1, []⟩ 2 (.disc 0)], .switch 1 [(0, 1), (1, 4)] none⟩,
      ⟨1, [.assign ⟨2, []⟩ 0 (.clone ⟨0, [.vfld 0 0]⟩), .drop ⟨0, []⟩ 1, .setDisc 0 1 1,
           .drop ⟨2, []⟩ 0, .assign ⟨5, []⟩ 2 .lit], .switch 5 [(0, 2), (1, 3)] none⟩,
      ⟨2, [.assign ⟨3, []⟩ 0 (.clone ⟨0, [.vfld 0 0]⟩), .drop ⟨3, []⟩ 0], .jump 4⟩,
      ⟨3, [], .jump 4⟩,
      ⟨4, [.drop ⟨0, []⟩ 1], .ret 1⟩] }

def aliasedCert : Cert :=
  [(0, [.whole, .un, .un, .un, .un, .un]), (1, [.whole, .un, .un, .un, .un, .un]),
   (2, [.whole, .un, .un, .un, .un, .un]), (3, [.whole, .un, .un, .un, .un, .un]),
   (4, [.whole, .un, .un, .un, .un, .un])]

/-- the ownership checker accepts the item: all drops balance on every path -/
theorem aliased_examinee_balances : ownCheck aliased aliasedCert = true := by decide +kernel

/-- … but the execution that fails the guard reads `x.Some.0` while `x` is `None` -/
theorem aliased_examinee_reads_dropped_value :
    wrongWithin aliased (fun _ => 0) 4 (entryLabel aliased) (initC aliased (fun _ => 0)) = true := by
  decide +kernel

/-- … so no certificate makes `varCheck` accept it -/
theorem aliased_examinee_rejected : ∀ cert, varCheck aliased cert = false :=
  vrejected_of_wrong_read _ _ _ _ aliased_examinee_reads_dropped_value

/-- the same arms reading a private copy `e` (6) of `x` taken before the switch are accepted -/
def copied : Item :=
  { aliased with
    vars := [1, 2, 0, 0, 0, 2, 1],
    blocks := [
      ⟨0, [.assign ⟨6, []⟩ 1 (.clone ⟨0, []⟩), .assign ⟨1, []⟩ 2 (.disc 6)], .switch 1 [(0, 1), (1, 4)] none⟩,
      ⟨1, [.assign ⟨2, []⟩ 0 (.clone ⟨6, [.vfld 0 0]⟩), .drop ⟨0, []⟩ 1, .setDisc 0 1 1,
           .drop ⟨2, []⟩ 0, .assign ⟨5, []⟩ 2 .lit], .switch 5 [(0, 2), (1, 3)] none⟩,
      ⟨2, [.assign ⟨3, []⟩ 0 (.clone ⟨6, [.vfld 0 0]⟩), .drop ⟨3, []⟩ 0], .jump 4⟩,
      ⟨3, [], .jump 4⟩,
      ⟨4, [.drop ⟨6, []⟩ 1, .drop ⟨0, []⟩ 1], .ret 1⟩] }

def copiedVCert : VCert :=
  [(0, [none, none, none, none, none, none, none]),
   (1, [none, none, none, none, none, none, some 0]),
   (2, [none, none, none, none, none, none, some 0]),
   (3, [none, none, none, none, none, none, some 0]),
   (4, [none, none, none, none, none, none, none])]

theorem copied_examinee_accepted : varCheck copied copiedVCert = true := by decide +kernel

/-- non-vacuity of `variant_reads_sound` -/
example : wrongWithin copied (fun _ => 0) 6 (entryLabel copied) (initC copied (fun _ => 0)) = false :=
  variant_reads_sound copied copiedVCert copied_examinee_accepted _ _ _

end RotoV.C03
