/-
  C08 — side effects happen in source order, as often as control flow dictates.

  T1 (`order_spec`): the trace function of `Model/TraceSpec.lean` *is* the
  documented order; the theorems below pin it, clause by clause of the
  property's statement, for every program, environment and fuel.

  T2 (`lowerS_trace`): the structured model of the MIR lowering
  (`Model/LowerS.lean`, `Lowerer::expr` with its lazy `Value`s and the points
  where each caller materialises them) makes exactly the host calls of the
  specification, in the same order with the same argument values — for every
  program of the modelled fragment, every input and every number of loop
  iterations (induction on the evaluation, no bound).

  T3 (`dce_preserves`, proved in `Props/C01Dce.lean`) restated for an
  instruction semantics that logs host calls.
-/
import RotoV.Lemmas.TraceSpec
import RotoV.Lemmas.LowerSim
import RotoV.Lemmas.TraceSpecMono
import RotoV.Lemmas.LowerTotal
import RotoV.Props.C01Dce

namespace RotoV.C08
open RotoV.TraceSpec

/-! ### T1 — order_spec: the clauses of the statement, as theorems about `evalExpr` -/

/-- Operands of a strict binary operator: the left operand's calls, then (only
    if the left ended normally) the right operand's calls, evaluated in the
    environment the left operand left behind. The operator itself makes no call. -/
theorem operands_left_to_right (fns : List FnDef) (n : Nat) (env : Env) (op : BinOp) (l r : Expr) :
    (evalExpr fns (n + 1) env (.bin op l r)).tr
      = (evalExpr fns n env l).tr
        ++ (evalExpr fns n env l).after (fun p => (evalExpr fns n p.1 r).tr) := by
  simp only [evalExpr, bind_eq, R.bind_tr]
  congr 1
  unfold R.after
  cases (evalExpr fns n env l).out <;> simp
  rename_i p
  cases (evalExpr fns n p.1 r).out <;> simp
  rename_i q
  cases binop op p.2 q.2 <;> simp [pure_eq, R.ok, R.stuck]

/-- the host call `==` / `!=` on two host values stands for -/
def eqCalls (ne : Bool) (a b : Val) : Trace :=
  match hostEq ne a b with
  | some (t, _) => t
  | none => []

/-- `==` / `!=` on a registered host type (`eqH`): the left operand's calls, then the right
    operand's, then (only if both ended normally) the call of the type's equality. -/
theorem host_eq_operands_left_to_right (fns : List FnDef) (n : Nat) (env : Env) (ne : Bool) (l r : Expr) :
    (evalExpr fns (n + 1) env (.eqH ne l r)).tr
      = (evalExpr fns n env l).tr
        ++ (evalExpr fns n env l).after (fun p => (evalExpr fns n p.1 r).tr
            ++ (evalExpr fns n p.1 r).after (fun q => eqCalls ne p.2 q.2)) := by
  simp only [evalExpr, bind_eq, R.bind_tr]
  congr 1
  unfold R.after
  cases (evalExpr fns n env l).out <;> simp
  rename_i p
  cases (evalExpr fns n p.1 r).out <;> simp
  rename_i q
  unfold eqCalls
  cases hostEq ne p.2 q.2 <;> simp [pure_eq, R.ok, R.stuck, R.bind, R.emits]

/-- **`==` / `!=` on two values of the registered host type call the type's equality exactly
    once, after both operands**: the calls of `l == r` are those of `l`, those of `r`, then one
    call of the equality on the two values (`!=` negates its answer). -/
theorem eq_on_host_type_calls_after_operands (fns : List FnDef) (n : Nat) (env env1 env2 : Env) (ne : Bool) (l r : Expr)
    (t1 t2 : Trace) (x y : Int)
    (hl : (evalExpr fns n env l).yields t1 (env1, .tok x)) (hr : (evalExpr fns n env1 r).yields t2 (env2, .tok y)) :
    (evalExpr fns (n + 1) env (.eqH ne l r)).yields (t1 ++ t2 ++ [⟨fnEq, [.tok x, .tok y]⟩])
      (env2, .bool (if ne then decide (x ≠ y) else decide (x = y))) := by
  simp only [evalExpr, bind_eq, R.bind_yields hl, R.bind_yields hr]
  simp [hostEq, pure_eq, R.ok, R.yields, R.bind, R.emits]

/-- … if an operand leaves the function the equality is not called -/
theorem host_eq_operand_leaves (fns : List FnDef) (n : Nat) (env env1 : Env) (ne : Bool) (l r : Expr)
    (t1 t2 : Trace) (a v : Val)
    (hl : (evalExpr fns n env l).yields t1 (env1, a)) (hr : (evalExpr fns n env1 r).leaves t2 v) :
    (evalExpr fns (n + 1) env (.eqH ne l r)).leaves (t1 ++ t2) v := by
  simp only [evalExpr, bind_eq, R.bind_yields hl, R.bind_leaves hr]
  simp [R.leaves]

/-! #### operators that desugar to a runtime call (`l + r` on strings: `String.append`) -/

/-- Operands of a **desugared** binary operator (string `+`, construct `concat`): the left
    operand's calls, then (only if the left ended normally) the right operand's calls — those
    nested inside the right operand included — in the environment the left operand left behind.
    The operator itself makes no logged call. -/
theorem concat_operands_left_to_right (fns : List FnDef) (n : Nat) (env : Env) (l r : Expr) :
    (evalExpr fns (n + 1) env (.concat l r)).tr
      = (evalExpr fns n env l).tr
        ++ (evalExpr fns n env l).after (fun p => (evalExpr fns n p.1 r).tr) := by
  simp only [evalExpr, bind_eq, R.bind_tr]
  congr 1
  unfold R.after
  cases (evalExpr fns n env l).out <;> simp
  rename_i p
  cases (evalExpr fns n p.1 r).out <;> simp
  rename_i q
  cases p.2 <;> cases q.2 <;> simp [pure_eq, R.ok, R.stuck]

/-- **`l + r` on strings reads / calls its left operand before anything inside the right operand
    runs**: when `l` yields the text `a` after the calls `t1` and `r`, started in the environment
    `l` left, yields `b` after `t2`, the concatenation yields `a ++ b` after exactly `t1 ++ t2`. -/
theorem concat_left_operand_first (fns : List FnDef) (n : Nat) (env env1 env2 : Env) (l r : Expr)
    (t1 t2 : Trace) (a b : String)
    (hl : (evalExpr fns n env l).yields t1 (env1, .str a)) (hr : (evalExpr fns n env1 r).yields t2 (env2, .str b)) :
    (evalExpr fns (n + 1) env (.concat l r)).yields (t1 ++ t2) (env2, .str (a ++ b)) := by
  simp only [evalExpr, bind_eq, R.bind_yields hl, R.bind_yields hr]
  simp [pure_eq, R.ok, R.yields]

/-- … the same for `l + r` on lists (`List.concat`, the other operator `desugared_binop` lowers in
    the modelled language): the calls are `t1 ++ t2` and the value is the concatenation. -/
theorem concat_list_left_operand_first (fns : List FnDef) (n : Nat) (env env1 env2 : Env) (l r : Expr)
    (t1 t2 : Trace) (a b : List Int)
    (hl : (evalExpr fns n env l).yields t1 (env1, .list a)) (hr : (evalExpr fns n env1 r).yields t2 (env2, .list b)) :
    (evalExpr fns (n + 1) env (.concat l r)).yields (t1 ++ t2) (env2, .list (a ++ b)) := by
  simp only [evalExpr, bind_eq, R.bind_yields hl, R.bind_yields hr]
  simp [pure_eq, R.ok, R.yields]

/-- … and if the right operand leaves the function, the calls are the left operand's, then the
    right operand's up to that point -/
theorem concat_operand_leaves (fns : List FnDef) (n : Nat) (env env1 : Env) (l r : Expr)
    (t1 t2 : Trace) (a v : Val)
    (hl : (evalExpr fns n env l).yields t1 (env1, a)) (hr : (evalExpr fns n env1 r).leaves t2 v) :
    (evalExpr fns (n + 1) env (.concat l r)).leaves (t1 ++ t2) v := by
  simp only [evalExpr, bind_eq, R.bind_yields hl, R.bind_leaves hr]
  simp [R.leaves]

/-! #### f-string parts, and the `to_string` call the compiler inserts for a part of a host type -/

/-- the host calls converting the value of a part makes: the type's `to_string` for a value of
    the registered host type, nothing for a primitive -/
def partCalls (v : Val) : Trace :=
  match render v with
  | some (t, _) => t
  | none => []

/-- F-string parts run left to right, and **the conversion of a part — for a host type an
    implicit call of its `to_string` — happens right after the part's own evaluation and before
    the next part runs**: the calls of `{e}rest` are those of `e`, then (only if `e` ended
    normally) the conversion's, then those of the remaining parts in the environment `e` left. -/
theorem fstring_parts_left_to_right (fns : List FnDef) (n : Nat) (env : Env) (e : Expr) (rest : Parts) :
    (evalParts fns (n + 1) env (.expr e rest)).tr
      = (evalExpr fns n env e).tr
        ++ (evalExpr fns n env e).after (fun p => partCalls p.2
            ++ (if (render p.2).isSome then (evalParts fns n p.1 rest).tr else [])) := by
  simp only [evalParts, bind_eq, R.bind_tr]
  congr 1
  unfold R.after
  cases (evalExpr fns n env e).out <;> simp
  rename_i p
  unfold partCalls
  cases render p.2 <;> simp [R.stuck, R.bind_tr, R.emits, R.after]
  cases (evalParts fns n p.1 rest).out <;> simp [pure_eq, R.ok]

/-- a literal part makes no call -/
theorem fstring_literal_part (fns : List FnDef) (n : Nat) (env : Env) (s : String) (rest : Parts) :
    (evalParts fns (n + 1) env (.str s rest)).tr = (evalParts fns n env rest).tr := by
  simp only [evalParts, bind_eq, R.bind_tr]
  unfold R.after
  cases (evalParts fns n env rest).out <;> simp [pure_eq, R.ok]

/-- **The implicit `to_string` call of a part of the host type sits between that part and the
    next one**, with the part's value as its argument, and its text goes where the part stands. -/
theorem fstring_implicit_call_at_its_part (fns : List FnDef) (n : Nat) (env env1 env2 : Env) (e : Expr) (rest : Parts)
    (t1 t2 : Trace) (x : Int) (s : String)
    (he : (evalExpr fns n env e).yields t1 (env1, .tok x)) (hr : (evalParts fns n env1 rest).yields t2 (env2, s)) :
    (evalParts fns (n + 1) env (.expr e rest)).yields (t1 ++ [⟨fnToString, [.tok x]⟩] ++ t2) (env2, tokText x ++ s) := by
  simp only [evalParts, bind_eq, R.bind_yields he, render]
  obtain ⟨h1, h2⟩ := hr
  simp [R.bind, R.emits, h1, h2, pure_eq, R.ok, R.yields]

/-- a part of primitive type is converted without a host call -/
theorem fstring_primitive_part_no_call (fns : List FnDef) (n : Nat) (env env1 env2 : Env) (e : Expr) (rest : Parts)
    (t1 t2 : Trace) (v : Val) (sv s : String) (hv : display v = some sv) (hnt : ∀ x, v ≠ .tok x)
    (he : (evalExpr fns n env e).yields t1 (env1, v)) (hr : (evalParts fns n env1 rest).yields t2 (env2, s)) :
    (evalParts fns (n + 1) env (.expr e rest)).yields (t1 ++ t2) (env2, sv ++ s) := by
  have hrd : render v = some ([], sv) := by
    cases v <;> simp_all [render]
  simp only [evalParts, bind_eq, R.bind_yields he, hrd]
  obtain ⟨h1, h2⟩ := hr
  simp [R.bind, R.emits, h1, h2, pure_eq, R.ok, R.yields]

/-- a part that leaves the function is not converted, and no later part runs -/
theorem fstring_part_leaves (fns : List FnDef) (n : Nat) (env : Env) (e : Expr) (rest : Parts) (t : Trace) (v : Val)
    (he : (evalExpr fns n env e).leaves t v) :
    (evalParts fns (n + 1) env (.expr e rest)).leaves t v := by
  simp only [evalParts, bind_eq, R.bind_leaves he]
  simp [R.leaves]

/-- a later part that leaves the function does so after the earlier part's `to_string` call -/
theorem fstring_call_before_later_part_leaves (fns : List FnDef) (n : Nat) (env env1 : Env) (e : Expr) (rest : Parts)
    (t1 t2 : Trace) (x : Int) (v : Val)
    (he : (evalExpr fns n env e).yields t1 (env1, .tok x)) (hr : (evalParts fns n env1 rest).leaves t2 v) :
    (evalParts fns (n + 1) env (.expr e rest)).leaves (t1 ++ [⟨fnToString, [.tok x]⟩] ++ t2) v := by
  simp only [evalParts, bind_eq, R.bind_yields he, render]
  obtain ⟨h1, h2⟩ := hr
  simp [R.bind, R.emits, h1, h2, R.leaves]

/-- Arguments (a method's receiver is the first of them): first argument first. -/
theorem arguments_left_to_right (fns : List FnDef) (n : Nat) (env : Env) (e : Expr) (es : Exprs) :
    (evalArgs fns (n + 1) env (.cons e es)).tr
      = (evalExpr fns n env e).tr
        ++ (evalExpr fns n env e).after (fun p => (evalArgs fns n p.1 es).tr) := by
  simp only [evalArgs, bind_eq, R.bind_tr]
  congr 1
  unfold R.after
  cases (evalExpr fns n env e).out <;> simp
  rename_i p
  cases (evalArgs fns n p.1 es).out <;> simp [pure_eq, R.ok]

/-- Record fields, enum-constructor arguments and list elements (`evalInts`): the first one
    WRITTEN first, the rest in the environment it left behind and only if it ended normally. -/
theorem payloads_left_to_right (fns : List FnDef) (n : Nat) (env : Env) (e : Expr) (es : Exprs) :
    (evalInts fns (n + 1) env (.cons e es)).tr
      = (evalExpr fns n env e).tr
        ++ (evalExpr fns n env e).after (fun p => match p.2 with
            | .int _ => (evalInts fns n p.1 es).tr
            | _ => []) := by
  simp only [evalInts, bind_eq, R.bind_tr]
  congr 1
  unfold R.after
  cases (evalExpr fns n env e).out <;> simp
  rename_i p
  cases p.2 <;> simp [R.stuck, R.bind_tr]
  unfold R.after
  rename_i x
  cases (evalInts fns n p.1 es).out <;> simp [pure_eq, R.ok]

/-- **A record literal runs its field expressions in the order in which they are written**:
    its calls are those of the field expressions taken left to right as the literal lists
    them, whatever `perm` says about where those fields sit in the record type (declaration
    order, alphabetical order, … play no part). -/
theorem record_fields_as_written (fns : List FnDef) (n : Nat) (env : Env) (perm : List Nat) (fs : Exprs) :
    (evalExpr fns (n + 1) env (.record perm fs)).tr = (evalInts fns n env fs).tr := by
  simp only [evalExpr, bind_eq, R.bind_tr]
  unfold R.after
  cases (evalInts fns n env fs).out <;> simp
  rename_i p
  by_cases h : permOk perm p.2.length = true <;> simp [h, pure_eq, R.ok, R.stuck]

/-- … and the value it builds when the fields have run: the record whose fields are the
    values `arrange`d by name. -/
theorem record_value (fns : List FnDef) (n : Nat) (env env' : Env) (perm : List Nat) (fs : Exprs)
    (t : Trace) (xs : List Int) (h : (evalInts fns n env fs).yields t (env', xs)) (hp : permOk perm xs.length = true) :
    (evalExpr fns (n + 1) env (.record perm fs)).yields t (env', .recd (arrange perm xs)) := by
  simp only [evalExpr, bind_eq, R.bind_yields h, hp]
  simp [pure_eq, R.ok, R.yields]

theorem arrangeFrom_length : ∀ (perm : List Nat) (xs cur : List Int), (arrangeFrom cur perm xs).length = cur.length
  | [], _, _ => by simp [arrangeFrom]
  | _ :: _, [], _ => by simp [arrangeFrom]
  | p :: ps, x :: xs, cur => by simp [arrangeFrom, arrangeFrom_length ps xs]

theorem arrangeFrom_other : ∀ (perm : List Nat) (xs cur : List Int) (q : Nat), q ∉ perm →
    (arrangeFrom cur perm xs)[q]? = cur[q]?
  | [], _, _, _, _ => by simp [arrangeFrom]
  | _ :: _, [], _, _, _ => by simp [arrangeFrom]
  | p :: ps, x :: xs, cur, q, h => by
    simp only [List.mem_cons, not_or] at h
    simp only [arrangeFrom]
    rw [arrangeFrom_other ps xs _ q h.2, List.getElem?_set_ne (fun e => h.1 e.symm)]

theorem arrangeFrom_get : ∀ (perm : List Nat) (xs cur : List Int) (i : Nat), perm.Nodup → (∀ p ∈ perm, p < cur.length) →
    perm.length = xs.length → ∀ (hi : i < perm.length), (arrangeFrom cur perm xs)[perm[i]]? = xs[i]?
  | [], _, _, _, _, _, _, hi => by simp at hi
  | _ :: _, [], _, _, _, _, hl, _ => by simp at hl
  | p :: ps, x :: xs, cur, 0, hn, hlt, _, _ => by
    simp only [List.nodup_cons] at hn
    simp only [arrangeFrom, List.getElem_cons_zero, List.getElem?_cons_zero]
    rw [arrangeFrom_other ps xs _ p hn.1]
    simp [hlt p (by simp)]
  | p :: ps, x :: xs, cur, i + 1, hn, hlt, hl, hi => by
    simp only [List.nodup_cons] at hn
    simp only [arrangeFrom, List.getElem_cons_succ, List.getElem?_cons_succ]
    exact arrangeFrom_get ps xs _ i hn.2 (fun q hq => by simpa using hlt q (by simp [hq])) (by simpa using hl) (by simpa using hi)

/-- **Every value lands in the field it was written for**: in the record a well-formed literal
    builds, the field at position `perm[i]` of the type holds the value of the i-th expression
    as written; and the record has exactly the type's fields. -/
theorem record_field_holds_its_value (perm : List Nat) (xs : List Int) (hp : permOk perm xs.length = true)
    (i : Nat) (hi : i < perm.length) :
    (arrange perm xs)[perm[i]]? = xs[i]? ∧ (arrange perm xs).length = xs.length := by
  simp only [permOk, Bool.and_eq_true, List.all_eq_true, decide_eq_true_eq] at hp
  obtain ⟨⟨hl, hlt⟩, hn⟩ := hp
  refine ⟨arrangeFrom_get perm xs _ i hn (fun p hp' => by simpa using hlt p hp') hl hi, ?_⟩
  simp [arrange, arrangeFrom_length]

/-- A host call (function or method) happens after all of its arguments —
    receiver first — have been evaluated, exactly once, with their values. -/
theorem call_after_arguments (fns : List FnDef) (n : Nat) (env env' : Env) (f : Nat) (args : Exprs)
    (t : Trace) (vs : List Val) (v : Val)
    (h : (evalArgs fns n env args).yields t (env', vs)) (hv : hostSem f vs = some v) :
    evalExpr fns (n + 1) env (.host f args) = ⟨t ++ [⟨f, vs⟩], .ok (env', v)⟩ := by
  simp only [evalExpr, bind_eq, R.bind_yields h, hv]
  simp [R.bind, R.emit, pure_eq, R.ok]

/-- If an argument leaves the function, the later arguments are not evaluated
    and the call is not made. -/
theorem no_call_after_leaving_argument (fns : List FnDef) (n : Nat) (env : Env) (f : Nat) (args : Exprs)
    (t : Trace) (v : Val) (h : (evalArgs fns n env args).leaves t v) :
    evalExpr fns (n + 1) env (.host f args) = ⟨t, .ret v⟩ := by
  simp only [evalExpr, bind_eq, R.bind_leaves h]

/-- `&&`: when the left operand is `false` the right operand is skipped. -/
theorem and_skips (fns : List FnDef) (n : Nat) (env env' : Env) (l r : Expr) (t : Trace)
    (h : (evalExpr fns n env l).yields t (env', .bool false)) :
    evalExpr fns (n + 1) env (.and l r) = ⟨t, .ok (env', .bool false)⟩ := by
  simp only [evalExpr, bind_eq, R.bind_yields h]
  simp [pure_eq, R.ok]

/-- `&&`: when the left operand is `true` the right operand runs, after it. -/
theorem and_continues (fns : List FnDef) (n : Nat) (env env' : Env) (l r : Expr) (t : Trace)
    (h : (evalExpr fns n env l).yields t (env', .bool true)) :
    (evalExpr fns (n + 1) env (.and l r)).tr = t ++ (evalExpr fns n env' r).tr := by
  simp only [evalExpr, bind_eq, R.bind_yields h, R.bind_tr]
  congr 1
  unfold R.after
  cases (evalExpr fns n env' r).out <;> simp
  rename_i p
  cases p.2 <;> simp [pure_eq, R.ok, R.stuck]

/-- `||`: when the left operand is `true` the right operand is skipped. -/
theorem or_skips (fns : List FnDef) (n : Nat) (env env' : Env) (l r : Expr) (t : Trace)
    (h : (evalExpr fns n env l).yields t (env', .bool true)) :
    evalExpr fns (n + 1) env (.or l r) = ⟨t, .ok (env', .bool true)⟩ := by
  simp only [evalExpr, bind_eq, R.bind_yields h]
  simp [pure_eq, R.ok]

/-- `||`: when the left operand is `false` the right operand runs, after it. -/
theorem or_continues (fns : List FnDef) (n : Nat) (env env' : Env) (l r : Expr) (t : Trace)
    (h : (evalExpr fns n env l).yields t (env', .bool false)) :
    (evalExpr fns (n + 1) env (.or l r)).tr = t ++ (evalExpr fns n env' r).tr := by
  simp only [evalExpr, bind_eq, R.bind_yields h, R.bind_tr]
  congr 1
  unfold R.after
  cases (evalExpr fns n env' r).out <;> simp
  rename_i p
  cases p.2 <;> simp [pure_eq, R.ok, R.stuck]

/-- `if`: only the selected branch runs, after the condition. -/
theorem if_selects (fns : List FnDef) (n : Nat) (env env' : Env) (c : Expr) (th el : Block) (t : Trace) (b : Bool)
    (h : (evalExpr fns n env c).yields t (env', .bool b)) :
    (evalExpr fns (n + 1) env (.ite c th el)).tr
      = t ++ (evalBlock fns n env' (if b then th else el)).tr := by
  simp only [evalExpr, bind_eq, R.bind_yields h]
  cases b <;> simp

/-- Statements top to bottom; a statement that leaves the function ends the
    sequence: nothing after it runs. -/
theorem nothing_after_return (fns : List FnDef) (n : Nat) (env : Env) (e : Expr) (rest : Block)
    (t : Trace) (v : Val) (h : (evalExpr fns n env e).leaves t v) :
    evalSeq fns (n + 1) env (.stmt e rest) = ⟨t, .ret v⟩ := by
  simp only [evalSeq, bind_eq, R.bind_leaves h]

/-- Statements top to bottom: the rest of the block runs after the statement. -/
theorem statements_top_to_bottom (fns : List FnDef) (n : Nat) (env env' : Env) (e : Expr) (rest : Block)
    (t : Trace) (v : Val) (h : (evalExpr fns n env e).yields t (env', v)) :
    (evalSeq fns (n + 1) env (.stmt e rest)).tr = t ++ (evalSeq fns n env' rest).tr := by
  simp only [evalSeq, bind_eq, R.bind_yields h]

/-- `return e` / `accept e` / `reject e`: the operand's calls happen, then the function is left. -/
theorem return_leaves (fns : List FnDef) (n : Nat) (env env' : Env) (e : Expr) (t : Trace) (v : Val)
    (h : (evalExpr fns n env e).yields t (env', v)) :
    (evalExpr fns (n + 1) env (.ret e)).leaves t v := by
  simp only [evalExpr, bind_eq, R.bind_yields h]
  simp [R.leaves, R.early]

theorem accept_leaves (fns : List FnDef) (n : Nat) (env env' : Env) (e : Expr) (t : Trace) (x : Int)
    (h : (evalExpr fns n env e).yields t (env', .int x)) :
    (evalExpr fns (n + 1) env (.accept e)).leaves t (.verdict true x) := by
  simp only [evalExpr, bind_eq, R.bind_yields h]
  simp [R.leaves, R.early]

theorem reject_leaves (fns : List FnDef) (n : Nat) (env env' : Env) (e : Expr) (t : Trace) (x : Int)
    (h : (evalExpr fns n env e).yields t (env', .int x)) :
    (evalExpr fns (n + 1) env (.reject e)).leaves t (.verdict false x) := by
  simp only [evalExpr, bind_eq, R.bind_yields h]
  simp [R.leaves, R.early]

/-- `e?` on `None` leaves the function with `None`. -/
theorem question_mark_on_none (fns : List FnDef) (n : Nat) (env env' : Env) (e : Expr) (t : Trace)
    (h : (evalExpr fns n env e).yields t (env', .opt none)) :
    (evalExpr fns (n + 1) env (.try e)).leaves t (.opt none) := by
  simp only [evalExpr, bind_eq, R.bind_yields h]
  simp [R.leaves, R.early]

/-- `e?` on `Some(x)` continues with `x`. -/
theorem question_mark_on_some (fns : List FnDef) (n : Nat) (env env' : Env) (e : Expr) (t : Trace) (x : Int)
    (h : (evalExpr fns n env e).yields t (env', .opt (some x))) :
    (evalExpr fns (n + 1) env (.try e)).yields t (env', .int x) := by
  simp only [evalExpr, bind_eq, R.bind_yields h]
  simp [R.yields, pure_eq, R.ok]

/-- A compound assignment reads its target *before* evaluating its right-hand
    side: the stored value is `old x op rhs` even when the right-hand side
    assigns `x` itself. -/
theorem compound_assignment_reads_target_first (fns : List FnDef) (n : Nat) (env env' env'' : Env)
    (op : BinOp) (x : Nat) (e : Expr) (t : Trace) (a b v : Val)
    (hop : op.isArith = true) (hx : lookup env x = some a)
    (h : (evalExpr fns n env e).yields t (env', b))
    (hv : binop op a b = some v) (hu : update env' x v = some env'') :
    (evalExpr fns (n + 1) env (.cassign op x e)).yields t (env'', .unit) := by
  simp only [evalExpr, hop, hx, bind_eq, R.bind_yields h, hv, hu]
  simp [R.yields, pure_eq, R.ok]

/-- The same when the target is a field of a record variable (`x.f op= e`): the field is
    read before the right-hand side runs — the stored value is `old x.f op rhs` even when the
    right-hand side assigns `x.f`, or `x` as a whole — and it is stored into the record `x`
    holds after the right-hand side ran. -/
theorem compound_assignment_to_field_reads_target_first (fns : List FnDef) (n : Nat) (env env' env'' : Env)
    (op : BinOp) (x i : Nat) (e : Expr) (t : Trace) (a k : Int) (b : Val)
    (hop : op.isArith = true) (hx : getField env x i = some a)
    (h : (evalExpr fns n env e).yields t (env', b))
    (hv : binop op (.int a) b = some (.int k)) (hu : setField env' x i k = some env'') :
    (evalExpr fns (n + 1) env (.cassignF op x i e)).yields t (env'', .unit) := by
  simp only [evalExpr, hop, hx, bind_eq, R.bind_yields h, hv, hu]
  simp [R.yields, pure_eq, R.ok]

/-- An assignment to a field evaluates its right-hand side, then replaces that field of the
    record the variable holds at that point; it makes no call of its own. -/
theorem field_assignment_after_rhs (fns : List FnDef) (n : Nat) (env env' env'' : Env)
    (x i : Nat) (e : Expr) (t : Trace) (k : Int)
    (h : (evalExpr fns n env e).yields t (env', .int k)) (hu : setField env' x i k = some env'') :
    (evalExpr fns (n + 1) env (.assignF x i e)).yields t (env'', .unit) := by
  simp only [evalExpr, bind_eq, R.bind_yields h, hu]
  simp [R.yields, pure_eq, R.ok]

/-- `match`: the arms are tried top to bottom. An arm whose pattern is not the
    value's variant is skipped *without evaluating its guard*. -/
theorem guard_of_unmatched_pattern_not_run (fns : List FnDef) (n : Nat) (env : Env) (v : Val)
    (p : Pat) (g : Expr) (body : Block) (rest : Arms) (h : patMatches v p = false) :
    evalArms fns (n + 1) env v (.armG p g body rest) = evalArms fns n env v rest := by
  simp [evalArms, h]

/-- A matching arm whose guard is `false`: the guard's calls, then the later arms
    (in the environment the guard left behind, without the arm's bindings). -/
theorem guards_in_source_order (fns : List FnDef) (n : Nat) (env env1 env2 : Env) (v : Val)
    (p : Pat) (g : Expr) (body : Block) (rest : Arms) (t : Trace)
    (hm : patMatches v p = true) (hp : bindPat env v p = some env1)
    (hg : (evalExpr fns n env1 g).yields t (env2, .bool false)) :
    (evalArms fns (n + 1) env v (.armG p g body rest)).tr
      = t ++ (evalArms fns n (leave env env2) v rest).tr := by
  simp only [evalArms, hm, if_true, hp, bind_eq, R.bind_yields hg]

/-- A matching arm whose guard is `true` (or that has no guard) is the selected
    arm: its body runs and no later arm or guard does. -/
theorem only_the_selected_arm (fns : List FnDef) (n : Nat) (env env1 env2 : Env) (v : Val)
    (p : Pat) (g : Expr) (body : Block) (rest : Arms) (t : Trace)
    (hm : patMatches v p = true) (hp : bindPat env v p = some env1)
    (hg : (evalExpr fns n env1 g).yields t (env2, .bool true)) :
    (evalArms fns (n + 1) env v (.armG p g body rest)).tr = t ++ (evalBlock fns n env2 body).tr := by
  simp only [evalArms, hm, if_true, hp, bind_eq, R.bind_yields hg, R.bind_tr]
  congr 1
  unfold R.after
  cases (evalBlock fns n env2 body).out <;> simp [pure_eq, R.ok]

theorem unguarded_arm_selected (fns : List FnDef) (n : Nat) (env env1 : Env) (v : Val)
    (p : Pat) (body : Block) (rest : Arms) (hm : patMatches v p = true) (hp : bindPat env v p = some env1) :
    (evalArms fns (n + 1) env v (.arm p body rest)).tr = (evalBlock fns n env1 body).tr := by
  simp only [evalArms, hm, if_true, hp, bind_eq, R.bind_tr]
  unfold R.after
  cases (evalBlock fns n env1 body).out <;> simp [pure_eq, R.ok]

/-- The examinee of a `match` is evaluated exactly once, before any guard. -/
theorem examinee_once (fns : List FnDef) (n : Nat) (env env' : Env) (s : Expr) (isOpt : Bool) (arms : Arms) (t : Trace) (v : Val)
    (h : (evalExpr fns n env s).yields t (env', v)) (hv : examineeOk isOpt v = true) :
    (evalExpr fns (n + 1) env (.mtch s isOpt arms)).tr = t ++ (evalArms fns n env' v arms).tr := by
  simp only [evalExpr, bind_eq, R.bind_yields h, hv, if_true]

/-- **The loop condition runs once more than the body**: a `while` loop that
    ends normally unfolds into `k + 1` evaluations of its condition and `k`
    runs of its body, alternating, starting and ending with the condition; the
    calls of the loop are exactly theirs, in that order. -/
theorem loop_condition_runs_once_more (fns : List FnDef) (c : Expr) (b : Block) (n : Nat)
    (env env' : Env) (t : Trace) (v : Val) (h : evalWhile fns n env c b = ⟨t, .ok (env', v)⟩) :
    ∃ cs bs, LoopRun fns c b env cs bs env' ∧ cs.length = bs.length + 1 ∧ t = weave cs bs :=
  while_unfolds fns c b n env env' t v h

/-- **`for` runs its body once per element, in order**: the list expression is
    evaluated once (`for_list_once`), then the calls of the loop are the calls
    of as many runs of the body as the list has elements, the loop variable
    bound to the elements in order. -/
theorem for_runs_body_once_per_element (fns : List FnDef) (x : Nat) (b : Block) (n : Nat)
    (env env' : Env) (xs : List Int) (t : Trace) (v : Val) (h : evalFor fns n env x xs b = ⟨t, .ok (env', v)⟩) :
    ∃ bs, ForRun fns x b env xs bs env' ∧ bs.length = xs.length ∧ t = bs.flatten :=
  for_unfolds fns x b n env env' xs t v h

theorem for_list_once (fns : List FnDef) (n : Nat) (env env' : Env) (x : Nat) (l : Expr) (b : Block)
    (t : Trace) (xs : List Int) (h : (evalExpr fns n env l).yields t (env', .list xs)) :
    (evalExpr fns (n + 1) env (.for x l b)).tr = t ++ (evalFor fns n env' x xs b).tr := by
  simp only [evalExpr, bind_eq, R.bind_yields h]

/-- A script-function call: the arguments left to right, then the callee's body
    (in a fresh environment holding the parameters), whose calls come after
    the arguments'. -/
theorem script_call_after_arguments (fns : List FnDef) (n : Nat) (env env' : Env) (f : Nat) (args : Exprs)
    (fd : FnDef) (cenv : Env) (t : Trace) (vs : List Val)
    (h : (evalArgs fns n env args).yields t (env', vs)) (hf : fns[f]? = some fd)
    (hb : bindParams fd.params vs [] = some cenv) :
    (evalExpr fns (n + 1) env (.call f args)).tr = t ++ (evalBlock fns n cenv fd.body).tr := by
  simp only [evalExpr, bind_eq, R.bind_yields h, hf, hb]

/-- **The specification does not depend on the fuel**: once a call of `main`
    ends without running out of fuel, every larger fuel gives the same host
    calls and the same result. (Fuel only bounds the depth of the evaluation;
    proved for all nine evaluators at once, `mono_all`.) -/
theorem run_fuel_independent (fns : List FnDef) (args : List Val) (fuel fuel' : Nat)
    (h : (run fns fuel args).result ≠ .fuel) (hle : fuel ≤ fuel') : run fns fuel' args = run fns fuel args := by
  unfold run at h ⊢
  cases hm : fns.getLast? with
  | none => rfl
  | some fd =>
    simp only [hm] at h ⊢
    cases hb : bindParams fd.params args [] with
    | none => rfl
    | some cenv =>
      simp only [hb] at h ⊢
      have hne : (evalBlock fns fuel cenv fd.body).out ≠ .fuel := by
        intro hh; apply h; simp [hh]
      rw [evalBlock_fuel_mono fns cenv fd.body fuel hne fuel' hle]

/-! ### T2 — lowerS_trace: the lowering model makes the calls of the specification

  Full statement (`lowerS_trace`): for every function of every program, the
  real MIR of the function — as a label CFG, `drop` instructions included —
  run from a store that agrees with the arguments returns the specification's
  value with the specification's trace.

  Proved here as `lowerS_trace_partial`: the same for the *structured* MIR of
  the lowering model `Model/LowerS.lean`, which now covers every construct of
  the core language: literals, variables, host and method calls (receiver and
  arguments), script-function calls (the callee's structured MIR runs from a
  store holding its parameters; recursion allowed), strict binary operators,
  `&&`, `||`, `!`, unary `-`, `if`/`else`, `if`, blocks with `let` and
  expression statements, assignment, compound assignment, `while` and `for`
  (any number of iterations), `return`, `accept`/`reject` (the operand stays
  lazy until it is stored in the variant), `Option.Some`/`Option.None`, `?`,
  enum constructors, record literals (fields lowered and stored in the order in
  which the literal writes them, whatever the order of the record type),
  field access (`x.f` is a lazy path read,
  `e.f` materialises `e`), list literals, f-strings (every part converted — for a
  value of the registered host type by a logged call of its `to_string`, the call
  the compiler inserts implicitly — and appended before the next part is lowered),
  `==` / `!=` on the host type (`eqH`: the lazy `BinOp` value stands for a logged call
  of the type's equality, made where the value is materialised), string concatenation
  (`desugared_binop`), and `match` (examinee
  materialised once, discriminant switch, one guard chain per discriminant
  with the `_` arms woven in in source order, binders assigned before the
  guard, shared arm blocks, the default chain only when some variant has no
  case of its own).
  What keeps the `_partial`: `lowerE` is undefined (and the theorem silent)
  exactly for a `match` whose patterns name a variant the examinee's type does
  not have, for a compound assignment with a comparison operator and for a
  record literal that does not name every field of its type exactly once (all
  ill-typed; `lowerProg_defined`);
  the model leaves out `drop` instructions and the `stack_slots` bookkeeping
  (no effect on host calls); lists are shared handles and the model has no
  heap — the `push` through the cloned handle carries the temporary it was
  cloned from as a ghost annotation; the layout of structured MIR as a label
  CFG is done by the driver for the comparison with the real MIR, not by a
  proved function. -/

open RotoV.LowerS in
/-- **The fragment is the whole core language** minus three ill-typed shapes: if no
    function body contains a compound assignment with a comparison operator,
    a `match` pattern naming a variant the examinee's type does not have, or a
    record literal that does not name every field of its type exactly once
    (`shapedB`), the lowering model is defined on the whole program — so the
    hypothesis `lowerProg fns = some P` of the theorems below is met. -/
theorem lowerProg_defined (fns : List FnDef) (h : ∀ fd ∈ fns, shapedB fd.body = true) :
    ∃ P, lowerProg fns = some P :=
  Option.isSome_iff_exists.mp (lowerProg_total fns h)

open RotoV.LowerS in
/-- Expression level: running the code emitted for `e` and then evaluating the
    (lazy) value it returned makes the calls of the specification and yields
    its value; the store still agrees with the environment. `P` is the lowered
    program (script-function calls run the callee's structured MIR). -/
theorem lowerE_trace_partial (fns : List FnDef) (P : Prog) (hP : lowerProg fns = some P) (n : Nat) (e : Expr)
    (env env' : Env) (c c' : Nat) (code : Code) (value : Value) (σ : Store) (t : Trace) (v : Val)
    (hl : lowerE e c = some (code, value, c')) (ha : Agree env σ)
    (h : evalExpr fns n env e = ⟨t, .ok (env', v)⟩) :
    ∃ σ1 t1 t2, ExecC P σ code t1 (.normal σ1) ∧ EvalV P σ1 value t2 v ∧ t = t1 ++ t2
      ∧ Agree env' σ1 := by
  obtain ⟨σ1, t1, t2, h1, h2, h3, h4, _⟩ :=
    ((sim_all fns P (lowerProg_ok fns P hP) n).1 e env c code value c' σ hl ha).1 t env' v h
  exact ⟨σ1, t1, t2, h1, h2, h3, h4⟩

open RotoV.LowerS in
/-- … and when `e` leaves the function (`return`, `accept`/`reject`, `?` on `None`), so does
    its code, after the same calls. -/
theorem lowerE_return_partial (fns : List FnDef) (P : Prog) (hP : lowerProg fns = some P) (n : Nat) (e : Expr)
    (env : Env) (c c' : Nat) (code : Code) (value : Value) (σ : Store) (t : Trace) (v : Val)
    (hl : lowerE e c = some (code, value, c')) (ha : Agree env σ)
    (h : evalExpr fns n env e = ⟨t, .ret v⟩) : ExecC P σ code t (.returned v) :=
  ((sim_all fns P (lowerProg_ok fns P hP) n).1 e env c code value c' σ hl ha).2 t v h

open RotoV.LowerS in
/-- **The lowering keeps an implicit call at its part** (T2 at an f-string whose first
    interpolated part is a value of the registered host type): if `e` evaluates to the host
    value `Tok x` after the calls `t1` and the remaining parts make the calls `t2`, then the
    structured MIR of `f"{e}rest"` makes exactly `t1`, then the `to_string` call on `Tok x`,
    then `t2` — the conversion is not delayed past any later part — and builds the text.
    (Partial for the same reasons as `lowerS_trace_partial`.) -/
theorem lowerS_fstring_implicit_call_partial (fns : List FnDef) (P : Prog) (hP : lowerProg fns = some P) (n : Nat)
    (e : Expr) (rest : Parts) (env env1 env2 : Env) (c c' : Nat) (code : Code) (value : Value) (σ : Store)
    (t1 t2 : Trace) (x : Int) (s : String)
    (hl : lowerE (.fstr (.expr e rest)) c = some (code, value, c')) (ha : Agree env σ)
    (he : (evalExpr fns n env e).yields t1 (env1, .tok x)) (hr : (evalParts fns n env1 rest).yields t2 (env2, s)) :
    ∃ σ1 ta tb, ExecC P σ code ta (.normal σ1) ∧ EvalV P σ1 value tb (.str (tokText x ++ s))
      ∧ t1 ++ [⟨fnToString, [.tok x]⟩] ++ t2 = ta ++ tb ∧ Agree env2 σ1 := by
  have hp := fstring_implicit_call_at_its_part fns n env env1 env2 e rest t1 t2 x s he hr
  have hev : evalExpr fns (n + 2) env (.fstr (.expr e rest))
      = ⟨t1 ++ [⟨fnToString, [.tok x]⟩] ++ t2, .ok (env2, .str (tokText x ++ s))⟩ := by
    simp only [evalExpr, bind_eq, R.bind_yields hp]
    simp [pure_eq, R.ok]
  exact lowerE_trace_partial fns P hP (n + 2) _ env env2 c c' code value σ _ _ hl ha hev

open RotoV.LowerS in
/-- **The lowering of a desugared operator keeps the left operand first** (T2 at string `+`,
    `Lowerer::desugared_binop`): if `l` evaluates to the text `a` after the calls `t1` and `r`,
    in the environment `l` left, to `b` after `t2` — whatever is nested inside `r` — the
    structured MIR of `l + r` makes exactly `t1 ++ t2` and builds `a ++ b`: a left operand that
    is a lazy value (a bare call, a variable read) is materialised before the code of the right
    operand runs. (Partial for the same reasons as `lowerS_trace_partial`.) -/
theorem lowerS_concat_left_first_partial (fns : List FnDef) (P : Prog) (hP : lowerProg fns = some P) (n : Nat)
    (l r : Expr) (env env1 env2 : Env) (c c' : Nat) (code : Code) (value : Value) (σ : Store)
    (t1 t2 : Trace) (a b : String)
    (hlow : lowerE (.concat l r) c = some (code, value, c')) (ha : Agree env σ)
    (hl : (evalExpr fns n env l).yields t1 (env1, .str a)) (hr : (evalExpr fns n env1 r).yields t2 (env2, .str b)) :
    ∃ σ1 ta tb, ExecC P σ code ta (.normal σ1) ∧ EvalV P σ1 value tb (.str (a ++ b))
      ∧ t1 ++ t2 = ta ++ tb ∧ Agree env2 σ1 := by
  have hp := concat_left_operand_first fns n env env1 env2 l r t1 t2 a b hl hr
  have hev : evalExpr fns (n + 1) env (.concat l r) = ⟨t1 ++ t2, .ok (env2, .str (a ++ b))⟩ := by
    obtain ⟨h1, h2⟩ := hp
    cases hh : evalExpr fns (n + 1) env (.concat l r) with
    | mk tr out => rw [hh] at h1 h2; simp at h1 h2; rw [h1, h2]
  exact lowerE_trace_partial fns P hP (n + 1) _ env env2 c c' code value σ _ _ hlow ha hev

open RotoV.LowerS in
/-- … and for `+` on lists: the structured MIR of `l + r` makes exactly `t1 ++ t2` and builds the
    concatenated list. (Partial for the same reasons as `lowerS_trace_partial`.) -/
theorem lowerS_concat_list_left_first_partial (fns : List FnDef) (P : Prog) (hP : lowerProg fns = some P) (n : Nat)
    (l r : Expr) (env env1 env2 : Env) (c c' : Nat) (code : Code) (value : Value) (σ : Store)
    (t1 t2 : Trace) (a b : List Int)
    (hlow : lowerE (.concat l r) c = some (code, value, c')) (ha : Agree env σ)
    (hl : (evalExpr fns n env l).yields t1 (env1, .list a)) (hr : (evalExpr fns n env1 r).yields t2 (env2, .list b)) :
    ∃ σ1 ta tb, ExecC P σ code ta (.normal σ1) ∧ EvalV P σ1 value tb (.list (a ++ b))
      ∧ t1 ++ t2 = ta ++ tb ∧ Agree env2 σ1 := by
  have hp := concat_list_left_operand_first fns n env env1 env2 l r t1 t2 a b hl hr
  have hev : evalExpr fns (n + 1) env (.concat l r) = ⟨t1 ++ t2, .ok (env2, .list (a ++ b))⟩ := by
    obtain ⟨h1, h2⟩ := hp
    cases hh : evalExpr fns (n + 1) env (.concat l r) with
    | mk tr out => rw [hh] at h1 h2; simp at h1 h2; rw [h1, h2]
  exact lowerE_trace_partial fns P hP (n + 1) _ env env2 c c' code value σ _ _ hlow ha hev

/-- What a function body hands back: its value, or the operand of the `return` that ended it. -/
def bodyValue : Out (Env × Val) → Option Val
  | .ok (_, v) => some v
  | .ret v => some v
  | _ => none

open RotoV.LowerS in
/-- **T2 `lowerS_trace_partial`.** For every program all of whose functions are
    in the modelled fragment (`lowerProg fns = some P`), every function `fd`
    of the fragment, every environment / store pair that agree, every fuel: if
    the specification runs the body to a value `v` (at its end or through
    `return` / `accept` / `reject` / `?`) making the calls `t` — the calls of
    the script functions it calls included — then the structured MIR of the
    function returns `v` after making exactly the calls `t`; and, the
    structured MIR being deterministic, that is its only behaviour. -/
theorem lowerS_trace_partial (fns : List FnDef) (P : Prog) (hP : lowerProg fns = some P) (fd : FnDef)
    (code : Code) (n : Nat) (env : Env) (σ : Store) (v : Val) (hl : lowerFn fd = some code) (ha : Agree env σ)
    (h : bodyValue (evalBlock fns n env fd.body).out = some v) :
    ExecC P σ code (evalBlock fns n env fd.body).tr (.returned v) ∧
    ∀ t' o', ExecC P σ code t' o' → t' = (evalBlock fns n env fd.body).tr ∧ o' = .returned v := by
  have main : ExecC P σ code (evalBlock fns n env fd.body).tr (.returned v) := by
    simp [lowerFn, Option.bind_eq_some_iff] at hl
    obtain ⟨cb, xb, ⟨c', hb⟩, rfl⟩ := hl
    have hB := (sim_all fns P (lowerProg_ok fns P hP) n).2.2.2.1 fd.body env 0 cb xb c' σ hb ha
    cases hr : evalBlock fns n env fd.body with
    | mk t o =>
      rw [hr] at h
      cases o with
      | ok p =>
        obtain ⟨env', w⟩ := p
        simp [bodyValue] at h; subst h
        obtain ⟨σ1, hx, hv, _, _⟩ := hB.1 t env' w hr
        have hret : ExecC P σ1 [.ret xb] [] (.returned (σ1 xb)) := ExecC.single .ret
        rw [hv] at hret
        simpa using ExecC.append hx hret
      | ret w =>
        simp [bodyValue] at h; subst h
        exact ExecC.append_ret _ (hB.2 t w hr)
      | fuel => simp [bodyValue] at h
      | stuck w => simp [bodyValue] at h
  exact ⟨main, fun t' o' h' => ExecC.det h' main⟩

open RotoV.LowerS in
/-- **One call of `main`** (what the correspondence run observes): if the
    specification's `run` — `main` applied to the argument values — yields the
    value `v` after the host calls `t`, then the structured MIR of `main`,
    started from a store that holds exactly the parameters, returns `v` after
    exactly the calls `t`, and has no other behaviour. -/
theorem lowerS_run_partial (fns : List FnDef) (P : Prog) (hP : lowerProg fns = some P) (fd : FnDef)
    (code : Code) (fuel : Nat) (args : List Val) (cenv : Env) (v : Val)
    (hmain : fns.getLast? = some fd) (hl : lowerFn fd = some code)
    (hb : bindParams fd.params args [] = some cenv) (h : (run fns fuel args).result = .ok v) :
    ExecC P (storeOfEnv cenv) code (run fns fuel args).tr (.returned v) ∧
    ∀ t' o', ExecC P (storeOfEnv cenv) code t' o' → t' = (run fns fuel args).tr ∧ o' = .returned v := by
  have hagree : Agree cenv (storeOfEnv cenv) := by
    intro x w hx; simp [storeOfEnv, hx]
  have hrun : (run fns fuel args).tr = (evalBlock fns fuel cenv fd.body).tr := by simp [run, hmain, hb]
  have hval : bodyValue (evalBlock fns fuel cenv fd.body).out = some v := by
    simp only [run, hmain, hb] at h
    cases ho : (evalBlock fns fuel cenv fd.body).out with
    | ok p => simp [ho] at h; simp [bodyValue, h]
    | ret w => simp [ho] at h; simp [bodyValue, h]
    | fuel => simp [ho] at h
    | stuck w => simp [ho] at h
  rw [hrun]
  exact lowerS_trace_partial fns P hP fd code fuel cenv (storeOfEnv cenv) v hl hagree hval

/-! ### T3 — dce_preserves, for a semantics that logs host calls -/

section dce
open RotoV.Dce
variable {ι κ ρ : Type}

/-- An instruction semantics whose state carries the ordered log of host calls:
    `step` gives the calls an instruction makes and the new store. -/
def traceSem (step : ι → LowerS.Store → Option (Trace × LowerS.Store)) (scrut : κ → LowerS.Store → Nat)
    (result : ρ → LowerS.Store → Val) : Sem ι κ ρ (LowerS.Store × Trace) (Val × Trace) where
  exec i s := (step i s.1).map (fun p => (p.2, s.2 ++ p.1))
  scrut x s := scrut x s.1
  result r s := (result r s.1, s.2)

/-- **T3.** Dead-code elimination (the model of `mir/dead_code.rs`) changes
    neither the result nor the ordered log of host calls of any item, for any
    instruction semantics, fuel, store and log so far. (Corollary of
    `C01.dce_preserves`, which is stated for an arbitrary state.) -/
theorem dce_preserves_trace (step : ι → LowerS.Store → Option (Trace × LowerS.Store))
    (scrut : κ → LowerS.Store → Nat) (result : ρ → LowerS.Store → Val)
    (cfg cfg' : Cfg ι κ ρ) (h : dce cfg = .ok cfg') (fuel : Nat) (σ : LowerS.Store) (log : Trace) :
    run (traceSem step scrut result) cfg' fuel (σ, log) = run (traceSem step scrut result) cfg fuel (σ, log) :=
  RotoV.C01Dce.dce_preserves _ cfg cfg' h fuel (σ, log)

end dce

section nonvacuity
open RotoV.LowerS
/-! ### non-vacuity: the hypotheses of the theorems above are met by concrete programs -/

/-- `emit(k, v)` / `emit_b(k, v)` as terms -/
def emitI (k v : Int) : Expr := .host 0 (.cons (.lit (.int k)) (.cons (.lit (.int v)) .nil))
def emitVar (k : Int) (x : Nat) : Expr := .host 0 (.cons (.lit (.int k)) (.cons (.var x) .nil))
def emitB (k : Int) (v : Bool) : Expr := .host 1 (.cons (.lit (.int k)) (.cons (.lit (.bool v)) .nil))

-- operands_left_to_right / arguments_left_to_right / call_after_arguments
example : (evalExpr [] 9 [] (.bin .sub (emitI 1 7) (emitI 2 5))).tr = [⟨0, [.int 1, .int 7]⟩, ⟨0, [.int 2, .int 5]⟩] := by decide
example : (evalArgs [] 9 [] (.cons (emitI 1 7) (.cons (emitI 2 5) .nil))).yields
    [⟨0, [.int 1, .int 7]⟩, ⟨0, [.int 2, .int 5]⟩] ([], [.int 7, .int 5]) := by decide
-- receiver first: `emit(1,7).mix(emit(2,0), emit(3,5))`
example : (evalExpr [] 9 [] (.host 5 (.cons (emitI 1 7) (.cons (emitI 2 0) (.cons (emitI 3 5) .nil))))).tr
    = [⟨0, [.int 1, .int 7]⟩, ⟨0, [.int 2, .int 0]⟩, ⟨0, [.int 3, .int 5]⟩, ⟨5, [.int 7, .int 0, .int 5]⟩] := by decide
-- no_call_after_leaving_argument: `emit3(1, return 4, emit(2, 5))`
example : (evalArgs [] 9 [] (.cons (.lit (.int 1)) (.cons (.ret (.lit (.int 4))) (.cons (emitI 2 5) .nil)))).leaves [] (.int 4) := by decide
-- non-vacuity: `R { a: emit(1, 7), b: emit(2, 5), c: emit(3, 9) }` written as `c, a, b`
-- (positions 2, 0, 1): the calls are 1, 2, 3 and the record is `{7→c, 5→a, 9→b}` = [5, 9, 7]
example : (evalExpr [] 9 [] (.record [2, 0, 1] (.cons (emitI 1 7) (.cons (emitI 2 5) (.cons (emitI 3 9) .nil))))).yields
    [⟨0, [.int 1, .int 7]⟩, ⟨0, [.int 2, .int 5]⟩, ⟨0, [.int 3, .int 9]⟩] ([], .recd [5, 9, 7]) := by decide
example : (evalInts [] 9 [] (.cons (emitI 1 7) (.cons (emitI 2 5) .nil))).tr = [⟨0, [.int 1, .int 7]⟩, ⟨0, [.int 2, .int 5]⟩] := by decide
example : permOk [2, 0, 1] 3 = true ∧ permOk [0, 0, 1] 3 = false ∧ permOk [0, 1] 3 = false ∧ permOk [0, 1, 3] 3 = false := by decide
example : arrange [2, 0, 1] [7, 5, 9] = [5, 9, 7] := by decide
-- and_skips / and_continues / or_skips / or_continues
example : (evalExpr [] 9 [] (emitB 1 false)).yields [⟨1, [.int 1, .bool false]⟩] ([], .bool false) := by decide
example : (evalExpr [] 9 [] (.and (emitB 1 false) (emitB 2 true))).tr = [⟨1, [.int 1, .bool false]⟩] := by decide
example : (evalExpr [] 9 [] (.and (emitB 1 true) (emitB 2 true))).tr = [⟨1, [.int 1, .bool true]⟩, ⟨1, [.int 2, .bool true]⟩] := by decide
example : (evalExpr [] 9 [] (.or (emitB 1 true) (emitB 2 true))).tr = [⟨1, [.int 1, .bool true]⟩] := by decide
example : (evalExpr [] 9 [] (.or (emitB 1 false) (emitB 2 true))).tr = [⟨1, [.int 1, .bool false]⟩, ⟨1, [.int 2, .bool true]⟩] := by decide
-- if_selects
example : (evalExpr [] 9 [] (.ite (emitB 1 false) (.last (emitI 2 0)) (.last (emitI 3 0)))).tr
    = [⟨1, [.int 1, .bool false]⟩, ⟨0, [.int 3, .int 0]⟩] := by decide
-- nothing_after_return / statements_top_to_bottom / return_leaves
example : (evalExpr [] 9 [] (.ret (emitI 1 4))).leaves [⟨0, [.int 1, .int 4]⟩] (.int 4) := by decide
example : evalSeq [] 9 [] (.stmt (.ret (emitI 1 4)) (.last (emitI 2 5))) = ⟨[⟨0, [.int 1, .int 4]⟩], .ret (.int 4)⟩ := by decide
example : (evalSeq [] 9 [] (.stmt (emitI 1 4) (.last (emitI 2 5)))).tr = [⟨0, [.int 1, .int 4]⟩, ⟨0, [.int 2, .int 5]⟩] := by decide
-- accept_leaves / reject_leaves
example : (evalExpr [] 9 [] (.accept (emitI 1 4))).leaves [⟨0, [.int 1, .int 4]⟩] (.verdict true 4) := by decide
example : (evalExpr [] 9 [] (.reject (emitI 1 4))).leaves [⟨0, [.int 1, .int 4]⟩] (.verdict false 4) := by decide
-- question_mark_on_none / on_some: `emit_o(1, 3)?` and `emit_o(1, 4)?`
example : (evalExpr [] 9 [] (.try (.host 4 (.cons (.lit (.int 1)) (.cons (.lit (.int 3)) .nil))))).leaves
    [⟨4, [.int 1, .int 3]⟩] (.opt none) := by decide
example : (evalExpr [] 9 [] (.try (.host 4 (.cons (.lit (.int 1)) (.cons (.lit (.int 4)) .nil))))).yields
    [⟨4, [.int 1, .int 4]⟩] ([], .int 4) := by decide
-- compound_assignment_reads_target_first: `x0 += { x0 = 100; emit(1, 1) }` from x0 = 4 stores 5
example : (evalExpr [] 9 [(0, .int 4)] (.cassign .add 0 (.block (.stmt (.assign 0 (.lit (.int 100))) (.last (emitI 1 1)))))).yields
    [⟨0, [.int 1, .int 1]⟩] ([(0, .int 5)], .unit) := by decide
-- examinee_once, guards in source order, only the selected arm:
-- `match emit_o(1, 4) { Some(x1) if emit_b(2,false) => emit(3,0), _ if emit_b(4,true) => emit(5,0), Some(x2) => emit(6,0), None => emit(7,0) }`
def demoMatch : Expr :=
  .mtch (.host 4 (.cons (.lit (.int 1)) (.cons (.lit (.int 4)) .nil))) true
    (.armG (.variant 0 [1]) (emitB 2 false) (.last (emitI 3 0))
    (.armG .wild (emitB 4 true) (.last (emitI 5 0))
    (.arm (.variant 0 [2]) (.last (emitI 6 0))
    (.arm (.variant 1 []) (.last (emitI 7 0)) .nil))))
example : (evalExpr [] 12 [] demoMatch).tr
    = [⟨4, [.int 1, .int 4]⟩, ⟨1, [.int 2, .bool false]⟩, ⟨1, [.int 4, .bool true]⟩, ⟨0, [.int 5, .int 0]⟩] := by decide
-- guard_of_unmatched_pattern_not_run: on `None` the first guard is not evaluated
example : patMatches (.opt none) (.variant 0 [1]) = false := by decide
-- unguarded_arm_selected
example : patMatches (.opt (some 4)) (.variant 0 [2]) = true ∧ bindPat [] (.opt (some 4)) (.variant 0 [2]) = some [(2, .int 4)] := by decide

-- loop_condition_runs_once_more: `while emit_b(1, x0 < 2) { emit_u(2); x0 = x0 + 1; }` from x0 = 0
def demoLoopCond : Expr := .host 1 (.cons (.lit (.int 1)) (.cons (.bin .lt (.var 0) (.lit (.int 2))) .nil))
def demoLoopBody : Block :=
  .stmt (.host 2 (.cons (.lit (.int 2)) .nil)) (.stmt (.assign 0 (.bin .add (.var 0) (.lit (.int 1)))) .nil)
example : evalWhile [] 20 [(0, .int 0)] demoLoopCond demoLoopBody
    = ⟨[⟨1, [.int 1, .bool true]⟩, ⟨2, [.int 2]⟩, ⟨1, [.int 1, .bool true]⟩, ⟨2, [.int 2]⟩, ⟨1, [.int 1, .bool false]⟩],
       .ok ([(0, .int 2)], .unit)⟩ := by decide

-- for_runs_body_once_per_element / for_list_once: `for x1 in [emit(1,7), 5] { emit(2, x1); }`
example : (evalExpr [] 20 [] (.for 1 (.list (.cons (emitI 1 7) (.cons (.lit (.int 5)) .nil))) (.stmt (emitVar 2 1) .nil))).tr
    = [⟨0, [.int 1, .int 7]⟩, ⟨0, [.int 2, .int 7]⟩, ⟨0, [.int 2, .int 5]⟩] := by decide

-- T2: `fn main(x0) { x0 - { x0 = 100; emit(1, 1) } }` is in the fragment, and the specification gives it a value
def demoFn : FnDef :=
  ⟨[0], .last (.bin .sub (.var 0) (.block (.stmt (.assign 0 (.lit (.int 100))) (.last (emitI 1 1)))))⟩
example : (lowerFn demoFn).isSome = true := by decide
example : bodyValue (evalBlock [] 20 [(0, .int 4)] demoFn.body).out = some (.int 3) := by decide
example : (evalBlock [] 20 [(0, .int 4)] demoFn.body).tr = [⟨0, [.int 1, .int 1]⟩] := by decide
-- … with a loop and an early return: `{ let x1 = 0; while emit_b(1, x1 < x0) { if emit_b(2, x1 == 1) { return x1; }; x1 += 1; }; x1 }`
def demoFn2 : FnDef :=
  ⟨[0], .let_ 1 (.lit (.int 0))
    (.stmt (.while (.host 1 (.cons (.lit (.int 1)) (.cons (.bin .lt (.var 1) (.var 0)) .nil)))
      (.stmt (.if1 (.host 1 (.cons (.lit (.int 2)) (.cons (.bin .eq (.var 1) (.lit (.int 1))) .nil))) (.stmt (.ret (.var 1)) .nil))
      (.stmt (.cassign .add 1 (.lit (.int 1))) .nil)))
    (.last (.var 1)))⟩
example : (lowerFn demoFn2).isSome = true := by decide
example : bodyValue (evalBlock [] 40 [(0, .int 5)] demoFn2.body).out = some (.int 1) := by decide
example : ((evalBlock [] 40 [(0, .int 5)] demoFn2.body).tr).length = 4 := by decide
-- `x0.c += { x0.c = 100; emit(1, 1) }` on `x0 = {b: 1, c: 2, a: 3}`: the old `c` (2) is read first → c = 3;
-- `x0.b -= { x0 = {b: 7, c: 8, a: 9}; 1 }`: old `b` (1) minus 1, stored into the NEW record → {0, 8, 9}
example : (evalExpr [] 9 [(0, .recd [1, 2, 3])] (.cassignF .add 0 1 (.block (.stmt (.assignF 0 1 (.lit (.int 100))) (.last (emitI 1 1)))))).yields
    [⟨0, [.int 1, .int 1]⟩] ([(0, .recd [1, 3, 3])], .unit) := by decide
example : (evalExpr [] 20 [(0, .recd [1, 2, 3])] (.cassignF .sub 0 0 (.block (.stmt (.assign 0 (.record [0, 1, 2] (.cons (.lit (.int 7)) (.cons (.lit (.int 8)) (.cons (.lit (.int 9)) .nil))))) (.last (.lit (.int 1))))))).yields
    [] ([(0, .recd [0, 8, 9])], .unit) := by decide
example : (evalExpr [] 9 [(0, .recd [1, 2, 3])] (.assignF 0 2 (emitI 1 5))).yields [⟨0, [.int 1, .int 5]⟩] ([(0, .recd [1, 2, 5])], .unit) := by decide
def demoFnF : FnDef :=
  ⟨[0], .let_ 1 (.record [1, 0, 2] (.cons (.var 0) (.cons (.lit (.int 2)) (.cons (.lit (.int 3)) .nil))))
    (.stmt (.cassignF .add 1 1 (.block (.stmt (.assignF 1 1 (.lit (.int 100))) (.last (emitI 1 1)))))
    (.last (.field (.var 1) 1)))⟩
example : (lowerFn demoFnF).isSome = true := by decide
example : bodyValue (evalBlock [] 40 [(0, .int 4)] demoFnF.body).out = some (.int 5) := by decide
-- … with `?`, `Some`, `accept`/`reject`: `{ let x1 = emit_o(1, x0)?; if emit_b(2, x1 == 4) { reject emit(3, x1); }; accept emit(4, x1) }`
def demoFn3 : FnDef :=
  ⟨[0], .let_ 1 (.try (.host 4 (.cons (.lit (.int 1)) (.cons (.var 0) .nil))))
    (.stmt (.if1 (.host 1 (.cons (.lit (.int 2)) (.cons (.bin .eq (.var 1) (.lit (.int 4))) .nil)))
        (.stmt (.reject (.host 0 (.cons (.lit (.int 3)) (.cons (.var 1) .nil)))) .nil))
    (.last (.accept (.host 0 (.cons (.lit (.int 4)) (.cons (.var 1) .nil))))))⟩
example : (lowerFn demoFn3).isSome = true := by decide
example : bodyValue (evalBlock [] 40 [(0, .int 4)] demoFn3.body).out = some (.verdict false 4) := by decide
example : bodyValue (evalBlock [] 40 [(0, .int 6)] demoFn3.body).out = some (.verdict true 6) := by decide
example : bodyValue (evalBlock [] 40 [(0, .int 3)] demoFn3.body).out = some (.opt none) := by decide
-- … record fields in the order in which they are written, here not the order of the type
-- (`record R { b, c, a }`): `(R { c: emit(1, x0), b: { x0 = 9; emit(2, x0) } , a: x0 }).c`
def demoFn4 : FnDef :=
  ⟨[0], .last (.field (.record [1, 0, 2] (.cons (.host 0 (.cons (.lit (.int 1)) (.cons (.var 0) .nil)))
      (.cons (.block (.stmt (.assign 0 (.lit (.int 9))) (.last (.host 0 (.cons (.lit (.int 2)) (.cons (.var 0) .nil)))))) (.cons (.var 0) .nil)))) 1)⟩
example : (lowerFn demoFn4).isSome = true := by decide
example : bodyValue (evalBlock [] 40 [(0, .int 4)] demoFn4.body).out = some (.int 4) := by decide
example : (evalBlock [] 40 [(0, .int 4)] demoFn4.body).tr = [⟨0, [.int 1, .int 4]⟩, ⟨0, [.int 2, .int 9]⟩] := by decide
-- … `match` with guards and `_` arms woven in (`demoMatch` above, as a function body)
def demoFn5 : FnDef := ⟨[0], .last demoMatch⟩
example : (lowerFn demoFn5).isSome = true := by decide
example : bodyValue (evalBlock [] 40 [(0, .int 4)] demoFn5.body).out = some (.int 0) := by decide
example : ((evalBlock [] 40 [(0, .int 4)] demoFn5.body).tr).length = 4 := by decide
-- … a script-function call: `fn f0(x0) { emit(1, x0) }  fn main(x1) { f0(emit(2, x1)) + f0(7) }`
def demoProg : List FnDef :=
  [⟨[0], .last (emitVar 1 0)⟩,
   ⟨[1], .last (.bin .add (.call 0 (.cons (emitVar 2 1) .nil)) (.call 0 (.cons (.lit (.int 7)) .nil)))⟩]
example : (lowerProg demoProg).isSome = true := by decide
example : (evalBlock demoProg 40 [(1, .int 5)] (⟨[1], .last (.bin .add (.call 0 (.cons (emitVar 2 1) .nil)) (.call 0 (.cons (.lit (.int 7)) .nil)))⟩ : FnDef).body).tr
    = [⟨0, [.int 2, .int 5]⟩, ⟨0, [.int 1, .int 5]⟩, ⟨0, [.int 1, .int 7]⟩] := by decide
-- … f-string parts left to right: `f"a{emit(1, x0)}-{emit_b(2, true)}"`
def demoFn6 : FnDef :=
  ⟨[0], .last (.fstr (.str "a" (.expr (emitVar 1 0) (.str "-" (.expr (emitB 2 true) .nil)))))⟩
example : (lowerFn demoFn6).isSome = true := by decide
example : (evalBlock [] 40 [(0, .int 4)] demoFn6.body).tr = [⟨0, [.int 1, .int 4]⟩, ⟨1, [.int 2, .bool true]⟩] := by decide
-- … list elements left to right, `for` once per element in order:
-- `{ let x1 = 0; for x2 in [emit(1, x0), 5] { x1 += emit(2, x2); }; x1 }`
def demoFn7 : FnDef :=
  ⟨[0], .let_ 1 (.lit (.int 0))
    (.stmt (.for 2 (.list (.cons (emitVar 1 0) (.cons (.lit (.int 5)) .nil))) (.stmt (.cassign .add 1 (emitVar 2 2)) .nil))
    (.last (.var 1)))⟩
example : (lowerFn demoFn7).isSome = true := by decide
example : bodyValue (evalBlock [] 40 [(0, .int 4)] demoFn7.body).out = some (.int 9) := by decide
example : (evalBlock [] 40 [(0, .int 4)] demoFn7.body).tr
    = [⟨0, [.int 1, .int 4]⟩, ⟨0, [.int 2, .int 4]⟩, ⟨0, [.int 2, .int 5]⟩] := by decide
-- lowerProg_defined: the two-function program is well shaped
example : ∀ fd ∈ demoProg, shapedB fd.body = true := by decide
-- run_fuel_independent: the hypothesis holds at fuel 40
example : (run demoProg 40 [.int 5]).result ≠ .fuel := by decide
-- lowerS_run_partial: `run` on the two-function program above
example : (run demoProg 40 [.int 5]).result = .ok (.int 12) := by decide
example : demoProg.getLast?.isSome = true := by decide
-- implicit host calls: `f"{tok(1, 4)}-{emit(2, 9)}{tok(3, 5)}"` — every `to_string` right after its part
def tokE (k v : Int) : Expr := .host 8 (.cons (.lit (.int k)) (.cons (.lit (.int v)) .nil))
def demoFStr : Parts := .expr (tokE 1 4) (.str "-" (.expr (emitI 2 9) (.expr (tokE 3 5) .nil)))
-- (strings do not reduce in the kernel: the example states the call sequence only)
example : (evalParts [] 9 [] demoFStr).tr.map (·.fn) = [8, 9, 0, 8, 9] := by decide
example : ((evalParts [] 9 [] demoFStr).tr.map (·.args))
    = [[.int 1, .int 4], [.tok 4], [.int 2, .int 9], [.int 3, .int 5], [.tok 5]] := by decide
-- fstring_implicit_call_at_its_part / fstring_primitive_part_no_call: their hypotheses are met
example : (evalExpr [] 9 [] (tokE 1 4)).yields [⟨8, [.int 1, .int 4]⟩] ([], .tok 4) := by decide
example : (evalExpr [] 9 [] (emitI 2 9)).yields [⟨0, [.int 2, .int 9]⟩] ([], .int 9) := by decide
example : ∃ sv, display (.int 9) = some sv := ⟨_, rfl⟩
-- fstring_part_leaves / fstring_call_before_later_part_leaves
example : (evalExpr [] 9 [] (.ret (emitI 1 4))).leaves [⟨0, [.int 1, .int 4]⟩] (.int 4) := by decide
example : ((evalParts [] 9 [] (.expr (tokE 1 4) (.expr (.ret (emitI 2 7)) (.expr (tokE 3 5) .nil)))).tr.map (·.fn)) = [8, 9, 0] := by decide
-- lowerS_fstring_implicit_call_partial: the f-string is in the lowering model's fragment
example : (lowerE (.fstr demoFStr) 0).isSome = true := by decide
-- eq_on_host_type_calls_after_operands: `tok(1, 4) != tok(2, 9)`
example : (evalExpr [] 9 [] (.eqH true (tokE 1 4) (tokE 2 9))).yields
    [⟨8, [.int 1, .int 4]⟩, ⟨8, [.int 2, .int 9]⟩, ⟨fnEq, [.tok 4, .tok 9]⟩] ([], .bool true) := by decide
example : eqCalls false (.tok 3) (.tok 3) = [⟨fnEq, [.tok 3, .tok 3]⟩] := by decide
-- host_eq_operand_leaves: `tok(1, 4) == (return emit(2, 7))`
example : (evalExpr [] 9 [] (.eqH false (tokE 1 4) (.ret (emitI 2 7)))).leaves
    [⟨8, [.int 1, .int 4]⟩, ⟨0, [.int 2, .int 7]⟩] (.int 7) := by decide
-- T2 on a function with implicit calls: `{ let x1: Tok = tok(1, x0); if x1 == tok(2, 4) { … }; f"{x1}{emit(3, x0)}{tok(4, 5)}" }`
def demoFn8 : FnDef :=
  ⟨[0], .let_ 1 (.host 8 (.cons (.lit (.int 1)) (.cons (.var 0) .nil)))
    (.stmt (.if1 (.eqH false (.var 1) (tokE 2 4)) (.stmt (emitI 5 0) .nil))
      (.last (.fstr (.expr (.var 1) (.expr (emitVar 3 0) (.expr (tokE 4 5) .nil))))))⟩
example : (lowerFn demoFn8).isSome = true := by decide
example : ((evalBlock [] 40 [(0, .int 4)] demoFn8.body).tr.map (·.fn)) = [8, 8, 11, 0, 9, 0, 8, 9] := by decide
-- concat_operands_left_to_right / concat_left_operand_first: `emit_s(1, "") + emit_s(2, emit_s(3, ""))` —
-- the left operand's call comes before the call nested in the right operand's argument (keys 1, 3, 2)
def emitS (k : Int) (e : Expr) : Expr := .host 3 (.cons (.lit (.int k)) (.cons e .nil))
def strE : Expr := .fstr .nil
example : ((evalExpr [] 12 [] (.concat (emitS 1 strE) (emitS 2 (emitS 3 strE)))).tr.map (fun e => e.args.head?))
    = [some (.int 1), some (.int 3), some (.int 2)] := by decide
example : ∃ t a, (evalExpr [] 12 [] (emitS 1 strE)).yields t ([], .str a) := ⟨_, _, rfl, rfl⟩
example : ∃ t a, (evalExpr [] 12 [] (emitS 2 (emitS 3 strE))).yields t ([], .str a) := ⟨_, _, rfl, rfl⟩
-- … a variable on the left is read before the right operand assigns it: `x0 + { x0 = emit_s(1, ""); emit_s(2, "") }`
example : ((evalExpr [] 12 [(0, .str "")] (.concat (.var 0) (.block (.stmt (.assign 0 (emitS 1 strE)) (.last (emitS 2 strE)))))).tr.map (·.fn))
    = [3, 3] := by decide
-- concat_operand_leaves: `emit_s(1, "") + (return emit(2, 7))`
example : ((evalExpr [] 12 [] (.concat (emitS 1 strE) (.ret (emitI 2 7)))).tr.map (·.fn)) = [3, 0] := by decide
example : (evalExpr [] 12 [] (.concat (emitS 1 strE) (.ret (emitI 2 7)))).out = .ret (.int 7) := by decide
-- lowerS_concat_left_first_partial: the concatenation is in the lowering model's fragment
example : (lowerE (.concat (emitS 1 strE) (emitS 2 (emitS 3 strE))) 0).isSome = true := by decide
-- concat_list_left_operand_first / lowerS_concat_list_left_first_partial:
-- `emit_l(1, [4]) + emit_l(2, emit_l(3, [5]))` — keys 1, 3, 2; value [4, 5]
def emitL (k : Int) (e : Expr) : Expr := .host 7 (.cons (.lit (.int k)) (.cons e .nil))
def listE (x : Int) : Expr := .list (.cons (.lit (.int x)) .nil)
example : (evalExpr [] 12 [] (.concat (emitL 1 (listE 4)) (emitL 2 (emitL 3 (listE 5))))).yields
    [⟨7, [.int 1, .list [4]]⟩, ⟨7, [.int 3, .list [5]]⟩, ⟨7, [.int 2, .list [5]]⟩] ([], .list [4, 5]) := by decide
example : (evalExpr [] 11 [] (emitL 1 (listE 4))).yields [⟨7, [.int 1, .list [4]]⟩] ([], .list [4]) := by decide
example : (lowerE (.concat (emitL 1 (listE 4)) (emitL 2 (emitL 3 (listE 5)))) 0).isSome = true := by decide
end nonvacuity

end RotoV.C08
