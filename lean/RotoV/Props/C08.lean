/-
  C08 — side effects happen in source order, as often as control flow dictates.

  T1 (`order_spec`): the trace function of `Model/TraceSpec.lean` *is* the
  documented order; the theorems below pin it, clause by clause of the
  property's statement, for every program, environment and fuel.
-/
import RotoV.Lemmas.TraceSpec

namespace RotoV.C08
open RotoV.TraceSpec

/-! ### T1 — order_spec: the clauses of the statement, as theorems about `evalExpr` -/

/-- Operands of a strict binary operator: the left operand's calls, then (only
    if the left ended normally) the right operand's calls, evaluated in the
    environment the left operand left behind. The operator itself makes no call. -/
theorem operands_left_to_right (fns : List FnDef) (n : Nat) (env : Env) (op : BinOp) (l r : Expr) :
    (evalExpr fns (n + 1) env (.bin op l r)).tr
      = (evalExpr fns n env l).tr
        ++ (evalExpr fns n env l).after (fun p => (evalExpr fns n p.1 r).tr) := by
  simp only [evalExpr, bind_eq, R.bind_tr]
  congr 1
  unfold R.after
  cases (evalExpr fns n env l).out <;> simp
  rename_i p
  cases (evalExpr fns n p.1 r).out <;> simp
  rename_i q
  cases binop op p.2 q.2 <;> simp [pure_eq, R.ok, R.stuck]

/-- Arguments (a method's receiver is the first of them): first argument first. -/
theorem arguments_left_to_right (fns : List FnDef) (n : Nat) (env : Env) (e : Expr) (es : Exprs) :
    (evalArgs fns (n + 1) env (.cons e es)).tr
      = (evalExpr fns n env e).tr
        ++ (evalExpr fns n env e).after (fun p => (evalArgs fns n p.1 es).tr) := by
  simp only [evalArgs, bind_eq, R.bind_tr]
  congr 1
  unfold R.after
  cases (evalExpr fns n env e).out <;> simp
  rename_i p
  cases (evalArgs fns n p.1 es).out <;> simp [pure_eq, R.ok]

/-- A host call (function or method) happens after all of its arguments —
    receiver first — have been evaluated, exactly once, with their values. -/
theorem call_after_arguments (fns : List FnDef) (n : Nat) (env env' : Env) (f : Nat) (args : Exprs)
    (t : Trace) (vs : List Val) (v : Val)
    (h : (evalArgs fns n env args).yields t (env', vs)) (hv : hostSem f vs = some v) :
    evalExpr fns (n + 1) env (.host f args) = ⟨t ++ [⟨f, vs⟩], .ok (env', v)⟩ := by
  simp only [evalExpr, bind_eq, R.bind_yields h, hv]
  simp [R.bind, R.emit, pure_eq, R.ok]

/-- If an argument leaves the function, the later arguments are not evaluated
    and the call is not made. -/
theorem no_call_after_leaving_argument (fns : List FnDef) (n : Nat) (env : Env) (f : Nat) (args : Exprs)
    (t : Trace) (v : Val) (h : (evalArgs fns n env args).leaves t v) :
    evalExpr fns (n + 1) env (.host f args) = ⟨t, .ret v⟩ := by
  simp only [evalExpr, bind_eq, R.bind_leaves h]

/-- `&&`: when the left operand is `false` the right operand is skipped. -/
theorem and_skips (fns : List FnDef) (n : Nat) (env env' : Env) (l r : Expr) (t : Trace)
    (h : (evalExpr fns n env l).yields t (env', .bool false)) :
    evalExpr fns (n + 1) env (.and l r) = ⟨t, .ok (env', .bool false)⟩ := by
  simp only [evalExpr, bind_eq, R.bind_yields h]
  simp [pure_eq, R.ok]

/-- `&&`: when the left operand is `true` the right operand runs, after it. -/
theorem and_continues (fns : List FnDef) (n : Nat) (env env' : Env) (l r : Expr) (t : Trace)
    (h : (evalExpr fns n env l).yields t (env', .bool true)) :
    (evalExpr fns (n + 1) env (.and l r)).tr = t ++ (evalExpr fns n env' r).tr := by
  simp only [evalExpr, bind_eq, R.bind_yields h, R.bind_tr]
  congr 1
  unfold R.after
  cases (evalExpr fns n env' r).out <;> simp
  rename_i p
  cases p.2 <;> simp [pure_eq, R.ok, R.stuck]

/-- `||`: when the left operand is `true` the right operand is skipped. -/
theorem or_skips (fns : List FnDef) (n : Nat) (env env' : Env) (l r : Expr) (t : Trace)
    (h : (evalExpr fns n env l).yields t (env', .bool true)) :
    evalExpr fns (n + 1) env (.or l r) = ⟨t, .ok (env', .bool true)⟩ := by
  simp only [evalExpr, bind_eq, R.bind_yields h]
  simp [pure_eq, R.ok]

/-- `||`: when the left operand is `false` the right operand runs, after it. -/
theorem or_continues (fns : List FnDef) (n : Nat) (env env' : Env) (l r : Expr) (t : Trace)
    (h : (evalExpr fns n env l).yields t (env', .bool false)) :
    (evalExpr fns (n + 1) env (.or l r)).tr = t ++ (evalExpr fns n env' r).tr := by
  simp only [evalExpr, bind_eq, R.bind_yields h, R.bind_tr]
  congr 1
  unfold R.after
  cases (evalExpr fns n env' r).out <;> simp
  rename_i p
  cases p.2 <;> simp [pure_eq, R.ok, R.stuck]

/-- `if`: only the selected branch runs, after the condition. -/
theorem if_selects (fns : List FnDef) (n : Nat) (env env' : Env) (c : Expr) (th el : Block) (t : Trace) (b : Bool)
    (h : (evalExpr fns n env c).yields t (env', .bool b)) :
    (evalExpr fns (n + 1) env (.ite c th el)).tr
      = t ++ (evalBlock fns n env' (if b then th else el)).tr := by
  simp only [evalExpr, bind_eq, R.bind_yields h]
  cases b <;> simp

/-- Statements top to bottom; a statement that leaves the function ends the
    sequence: nothing after it runs. -/
theorem nothing_after_return (fns : List FnDef) (n : Nat) (env : Env) (e : Expr) (rest : Block)
    (t : Trace) (v : Val) (h : (evalExpr fns n env e).leaves t v) :
    evalSeq fns (n + 1) env (.stmt e rest) = ⟨t, .ret v⟩ := by
  simp only [evalSeq, bind_eq, R.bind_leaves h]

/-- Statements top to bottom: the rest of the block runs after the statement. -/
theorem statements_top_to_bottom (fns : List FnDef) (n : Nat) (env env' : Env) (e : Expr) (rest : Block)
    (t : Trace) (v : Val) (h : (evalExpr fns n env e).yields t (env', v)) :
    (evalSeq fns (n + 1) env (.stmt e rest)).tr = t ++ (evalSeq fns n env' rest).tr := by
  simp only [evalSeq, bind_eq, R.bind_yields h]

/-- `return e` / `accept e` / `reject e`: the operand's calls happen, then the function is left. -/
theorem return_leaves (fns : List FnDef) (n : Nat) (env env' : Env) (e : Expr) (t : Trace) (v : Val)
    (h : (evalExpr fns n env e).yields t (env', v)) :
    (evalExpr fns (n + 1) env (.ret e)).leaves t v := by
  simp only [evalExpr, bind_eq, R.bind_yields h]
  simp [R.leaves, R.early]

theorem accept_leaves (fns : List FnDef) (n : Nat) (env env' : Env) (e : Expr) (t : Trace) (x : Int)
    (h : (evalExpr fns n env e).yields t (env', .int x)) :
    (evalExpr fns (n + 1) env (.accept e)).leaves t (.verdict true x) := by
  simp only [evalExpr, bind_eq, R.bind_yields h]
  simp [R.leaves, R.early]

theorem reject_leaves (fns : List FnDef) (n : Nat) (env env' : Env) (e : Expr) (t : Trace) (x : Int)
    (h : (evalExpr fns n env e).yields t (env', .int x)) :
    (evalExpr fns (n + 1) env (.reject e)).leaves t (.verdict false x) := by
  simp only [evalExpr, bind_eq, R.bind_yields h]
  simp [R.leaves, R.early]

/-- `e?` on `None` leaves the function with `None`. -/
theorem question_mark_on_none (fns : List FnDef) (n : Nat) (env env' : Env) (e : Expr) (t : Trace)
    (h : (evalExpr fns n env e).yields t (env', .opt none)) :
    (evalExpr fns (n + 1) env (.try e)).leaves t (.opt none) := by
  simp only [evalExpr, bind_eq, R.bind_yields h]
  simp [R.leaves, R.early]

/-- `e?` on `Some(x)` continues with `x`. -/
theorem question_mark_on_some (fns : List FnDef) (n : Nat) (env env' : Env) (e : Expr) (t : Trace) (x : Int)
    (h : (evalExpr fns n env e).yields t (env', .opt (some x))) :
    (evalExpr fns (n + 1) env (.try e)).yields t (env', .int x) := by
  simp only [evalExpr, bind_eq, R.bind_yields h]
  simp [R.yields, pure_eq, R.ok]

/-- A compound assignment reads its target *before* evaluating its right-hand
    side: the stored value is `old x op rhs` even when the right-hand side
    assigns `x` itself. -/
theorem compound_assignment_reads_target_first (fns : List FnDef) (n : Nat) (env env' env'' : Env)
    (op : BinOp) (x : Nat) (e : Expr) (t : Trace) (a b v : Val)
    (hop : op.isArith = true) (hx : lookup env x = some a)
    (h : (evalExpr fns n env e).yields t (env', b))
    (hv : binop op a b = some v) (hu : update env' x v = some env'') :
    (evalExpr fns (n + 1) env (.cassign op x e)).yields t (env'', .unit) := by
  simp only [evalExpr, hop, hx, bind_eq, R.bind_yields h, hv, hu]
  simp [R.yields, pure_eq, R.ok]

/-- `match`: the arms are tried top to bottom. An arm whose pattern does not
    match is skipped *without evaluating its guard*. -/
theorem guard_of_unmatched_pattern_not_run (fns : List FnDef) (n : Nat) (env : Env) (v : Val)
    (p : Pat) (g : Expr) (body : Block) (rest : Arms) (h : matchPat env v p = none) :
    evalArms fns (n + 1) env v (.armG p g body rest) = evalArms fns n env v rest := by
  simp only [evalArms, h]

/-- A matching arm whose guard is `false`: the guard's calls, then the later arms
    (in the environment the guard left behind, without the arm's bindings). -/
theorem guards_in_source_order (fns : List FnDef) (n : Nat) (env env1 env2 : Env) (v : Val)
    (p : Pat) (g : Expr) (body : Block) (rest : Arms) (t : Trace)
    (hp : matchPat env v p = some env1)
    (hg : (evalExpr fns n env1 g).yields t (env2, .bool false)) :
    (evalArms fns (n + 1) env v (.armG p g body rest)).tr
      = t ++ (evalArms fns n (leave env.length env2) v rest).tr := by
  simp only [evalArms, hp, bind_eq, R.bind_yields hg]

/-- A matching arm whose guard is `true` (or that has no guard) is the selected
    arm: its body runs and no later arm or guard does. -/
theorem only_the_selected_arm (fns : List FnDef) (n : Nat) (env env1 env2 : Env) (v : Val)
    (p : Pat) (g : Expr) (body : Block) (rest : Arms) (t : Trace)
    (hp : matchPat env v p = some env1)
    (hg : (evalExpr fns n env1 g).yields t (env2, .bool true)) :
    (evalArms fns (n + 1) env v (.armG p g body rest)).tr = t ++ (evalBlock fns n env2 body).tr := by
  simp only [evalArms, hp, bind_eq, R.bind_yields hg, R.bind_tr]
  congr 1
  unfold R.after
  cases (evalBlock fns n env2 body).out <;> simp [pure_eq, R.ok]

theorem unguarded_arm_selected (fns : List FnDef) (n : Nat) (env env1 : Env) (v : Val)
    (p : Pat) (body : Block) (rest : Arms) (hp : matchPat env v p = some env1) :
    (evalArms fns (n + 1) env v (.arm p body rest)).tr = (evalBlock fns n env1 body).tr := by
  simp only [evalArms, hp, bind_eq, R.bind_tr]
  unfold R.after
  cases (evalBlock fns n env1 body).out <;> simp [pure_eq, R.ok]

/-- The examinee of a `match` is evaluated exactly once, before any guard. -/
theorem examinee_once (fns : List FnDef) (n : Nat) (env env' : Env) (s : Expr) (arms : Arms) (t : Trace) (v : Val)
    (h : (evalExpr fns n env s).yields t (env', v)) :
    (evalExpr fns (n + 1) env (.mtch s arms)).tr = t ++ (evalArms fns n env' v arms).tr := by
  simp only [evalExpr, bind_eq, R.bind_yields h]

end RotoV.C08
