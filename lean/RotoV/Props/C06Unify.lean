/-
  C06, part 2 — T5: unification over the union-find store never builds an
  infinite type, so every later traversal of a type terminates.
  (Part 1, `Props/C06.lean`: lexer, spans, `character_range`, type-cycle check.)

  The model (`Model/Unify.lean`) calls facts that are REGENERATED from
  `src/typechecker/mod.rs` and `src/typechecker/unionfind.rs` on every run
  (`Generated/UnifyFacts.lean`): the arms of `TypeChecker::occurs`, the
  variables `UnionFind::find` / `find_ref` / `resolve_type` follow, and what
  stands in front of every `unionfind.set` of `unify_inner`.
-/
import RotoV.Lemmas.Unify

namespace RotoV.C06

/-! ## T5: unification and the union-find store -/

open RotoV.Unify RotoV.Gen.UnifyFacts

/-- obligation on the GENERATED arms of `UnionFind::find`, `find_ref`,
`TypeChecker::resolve_type` and `TypeInfo::resolve` / `resolve_ref`: all five
follow exactly the four kinds of type variable (so the lookups of the checker,
of the store and of every later stage agree). -/
theorem lookup_arms_ok :
    (∀ t, findHead t = head t) ∧ (∀ t, findRefHead t = head t) ∧ (∀ t, resolveHead t = head t) ∧
    (∀ t, infoResolveHead t = head t) ∧ (∀ t, infoResolveRefHead t = head t) :=
  ⟨findHead_eq, findRefHead_eq, resolveHead_eq,
    fun t => by cases t <;> rfl, fun t => by cases t <;> rfl⟩

/-- non-vacuity: an open record is a variable, a closed one is not -/
example : head (.recordVar 4 [] []) = some 4 ∧ head (.record [] []) = none := ⟨rfl, rfl⟩

/-- obligation on the GENERATED arms of `TypeChecker::occurs`: for every
constructor of `Type` the arm either compares the variable the type is, or
searches children whose variables are ALL the variables below the type
(`below`: the fields of an unset record variable, every variable of a type
that is no variable). -/
theorem occurs_arms_complete (t : Ty) :
    match occursArm t with
    | .isVar x => head t = some x ∧ below t = []
    | .varOr x cs => head t = some x ∧ below t = subVarsL cs
    | .children cs => head t = none ∧ below t = subVarsL cs
    | .no => head t = none ∧ below t = [] :=
  occursArm_complete t

/-- non-vacuity: an open record with a variable in a field has that variable below it -/
example : below (.recordVar 0 [7] [.name 1 [.var 3]]) = [3] := by decide

/-- obligation on the GENERATED table of `unify_inner`: every
`unionfind.set(v, t)` whose `t` can contain variables stands directly behind
`if self.occurs(v, &t) { return None; }`. -/
theorem unify_sets_guarded : GuardsOk setGuard := guards_ok

/-- the occurs check is sound: if `occurs(var, t)` answers `false` for an unset
variable, `var` cannot be reached from any variable of `t` — whatever the
fuel the answer was computed with. -/
theorem occurs_check_sound (f : Nat) (σ : Store) (var : Nat) (t : Ty)
    (hroot : IsRoot σ var) (h : occurs f σ var t = some false) :
    ∀ v ∈ subVars t, ¬ Reach σ v var :=
  (occurs_sound f).1 σ var t hroot h

/-- non-vacuity: on the witness store the check answers, and finds `a` inside `b` -/
example : IsRoot witnessStore 0 ∧ occurs 8 witnessStore 0 witnessB = some true ∧
    occurs 8 witnessStore 1 witnessA = some false :=
  ⟨⟨witnessA, rfl, rfl⟩, rfl, rfl⟩

/- T5, full statement: with the store acyclic, `unify` keeps it acyclic and
`find` / `resolve` / `convert` terminate.
   PROVED below for the model of the ENTRY POINT `TypeChecker::unify(expected,
found)` (`Unify.unify`: the early return for a found `!`, then `unify_inner`;
the translator checks that nothing else calls `unify_inner`) with the guard
table and the two facts about the never type generated from the source
(`innerNeverArm`: `unify_inner` has no arm for `!` any more; `entryNeverFound`:
`unify` returns `resolve_type(expected)` when the found type is `!`): any
answer — `Ok` or the mismatch error — leaves an acyclic store acyclic (for
every fuel, every `Defs`); in an acyclic store whose variables all exist
`find_ref` returns from every index, and every deep traversal (`Unify.walk`:
resolve, then walk into every child — the recursion scheme of `Type::display`
that renders the mismatch error, of `TypeInfo::convert`, of `occurs`) returns
from every type; one `UnionFind::find` WITH path compression returns what
`find_ref` returns and leaves the store acyclic (`find_compression_harmless`).
`unify_terminates_any_never_handling` is the same for EITHER value of the two
never facts (the statement does not depend on where `!` is handled).
   MISSING: (1) path compression is proved harmless for one lookup but is not
threaded through the model of `unify_inner` (it looks variables up like
`find_ref`); (2) in the four arms that bind a record variable the model gives
up if the variable is no longer unset after `unify_fields` (believed
unreachable; not proved); (3) no differential run of the Lean `unify` against
the real one (the tie is the generated facts). Covered by the crash oracle
(boundary stream `cyclic-type`). -/
theorem unify_terminates_partial (D : Defs) (f : Nat) (σ σ' : Store) (a b : Ty) (r : Option Ty)
    (hσ : Acyclic σ) (h : unify setGuard innerNeverArm entryNeverFound D f σ a b = some (r, σ')) :
    Acyclic σ' ∧
    (Closed σ' →
      (∀ i, i < σ'.length → ∃ f t, findRef f σ' i = some t) ∧
      (∀ t, (∀ v ∈ subVars t, v < σ'.length) → ∃ f, walk f σ' t = some ())) :=
  have h' := unify_acyclic setGuard guards_ok innerNeverArm entryNeverFound D f σ a b r σ' hσ h
  ⟨h', fun hc => ⟨findRef_terminates h' hc, fun t ht => walk_terminates h' hc t ht⟩⟩

/-- the same wherever the never type is handled (`N`: the arm `(Never, x) |
(x, Never) => x` in `unify_inner`; `T`: the early return of `unify`), and for
`unify_inner` called directly: the occurs checks as written keep the store
acyclic. -/
theorem unify_terminates_any_never_handling (N T : Bool) (D : Defs) (f : Nat) (σ σ' : Store) (a b : Ty)
    (r : Option Ty) (hσ : Acyclic σ)
    (h : unify setGuard N T D f σ a b = some (r, σ') ∨ unifyInner setGuard N D f σ a b = some (r, σ')) :
    Acyclic σ' ∧
    (Closed σ' →
      (∀ i, i < σ'.length → ∃ f t, findRef f σ' i = some t) ∧
      (∀ t, (∀ v ∈ subVars t, v < σ'.length) → ∃ f, walk f σ' t = some ())) :=
  have h' : Acyclic σ' := h.elim (unify_acyclic setGuard guards_ok N T D f σ a b r σ' hσ)
    ((unify_acyclic_aux setGuard guards_ok N D f).1 σ a b r σ' hσ)
  ⟨h', fun hc => ⟨findRef_terminates h' hc, fun t ht => walk_terminates h' hc t ht⟩⟩

/-- non-vacuity (the never handling of the current source written out: `N =
false`, `T = true`): a found `!` fits an expected `u8` (type name 0) and binds
nothing; an expected `!` does not take a found `u8`; an unset variable is bound -/
example : unify setGuard false true noDefs 4 [] (.name 0 []) .never = some (some (.name 0 []), []) ∧
    unify setGuard false true noDefs 4 [] .never (.name 0 []) = some (none, []) ∧
    unify setGuard false true noDefs 4 [.var 0] (.var 0) (.name 0 []) =
      some (some (.name 0 []), [.name 0 []]) :=
  ⟨rfl, rfl, rfl⟩

/-- `UnionFind::find` with its path compression (`self.inner[index] =
new_t.clone()` on the way back): it returns what `find_ref` returns and the
compressed store is acyclic again. -/
theorem find_compression_harmless (f : Nat) (σ σ' : Store) (i : Nat) (t : Ty) (hσ : Acyclic σ)
    (h : findCompress f σ i = some (t, σ')) : Acyclic σ' ∧ findRef f σ i = some t :=
  findCompress_acyclic hσ h

/-- non-vacuity: a chain `2 → 1 → 0` is compressed to `2 → 0`, `1 → 0` -/
example : findCompress 3 [.var 0, .var 0, .var 1] 2 = some (.var 0, [.var 0, .var 0, .var 0]) := rfl

/-- non-vacuity: the witness store is acyclic, and `unify` as it is now answers
`None` on it without touching the store. -/
example : Acyclic witnessStore ∧
    unify setGuard innerNeverArm entryNeverFound noDefs 12 witnessStore witnessA witnessB = some (none, witnessStore) :=
  ⟨witness_acyclic, new_run _ _⟩

/-- T5 refuted for the FIRST pre-fix tree (frozen: `unify_inner` with the arm
`(Never, x) | (x, Never) => x`, `unify` without the early return, no occurs
check in the arms that bind a record variable — `oldGuard`): unifying
`a = { f: List[!] }` with `b = { f: List[List[a]] }` succeeds — the never type
unifies with `List[a]` without binding anything — and binds `a` to `b`: the
store becomes cyclic, and every later traversal of `a` recurses until the
stack overflows. Repaired by e3877c1 (the occurs checks). Since 767c5e7 (`!`
handled in `unify` only) the two field types do not unify at all:
`old_guard_new_arms`. -/
theorem unify_old_creates_cycle :
    Acyclic witnessStore ∧
    ∃ σ', unify oldGuard true false noDefs 6 witnessStore witnessA witnessB = some (some witnessB, σ') ∧
      ¬ Acyclic σ' :=
  ⟨witness_acyclic, [witnessB, witnessB], old_run,
    no_two_cycle (i := 0) (j := 1) ⟨witnessB, rfl, by decide⟩ ⟨witnessB, rfl, by decide⟩⟩

/-- the occurs check in front of the `set` of a record variable is still what
the proof rests on: with the arms of the current source, a type definition that
ignores its argument (model level: `phantomDefs`) and no check (`oldGuard`),
`a = { f: () }` unified with `T7[a]` makes the store cyclic; with the check as
written the answer is `None` and the store is untouched. -/
theorem record_occurs_check_needed :
    (∃ σ', unify oldGuard false true phantomDefs 6 [.recordVar 0 [0] [.unit]] (.var 0) (.name 7 [.var 0]) =
        some (some (.name 7 [.var 0]), σ') ∧ ¬ Acyclic σ') ∧
    unify setGuard false true phantomDefs 6 [.recordVar 0 [0] [.unit]] (.var 0) (.name 7 [.var 0]) =
      some (none, [.recordVar 0 [0] [.unit]]) :=
  ⟨⟨_, phantom_run.1, no_two_cycle (i := 0) (j := 0) ⟨_, rfl, by decide⟩ ⟨_, rfl, by decide⟩⟩, phantom_run.2⟩

end RotoV.C06
