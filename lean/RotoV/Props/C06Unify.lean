/-
  C06, part 2 — T5: unification over the union-find store never builds an
  infinite type, so every later traversal of a type terminates.
  (Part 1, `Props/C06.lean`: lexer, spans, `character_range`, type-cycle check.)

  The model (`Model/Unify.lean`) calls facts that are REGENERATED from
  `src/typechecker/mod.rs` and `src/typechecker/unionfind.rs` on every run
  (`Generated/UnifyFacts.lean`): the arms of `TypeChecker::occurs`, the
  variables `UnionFind::find` / `find_ref` / `resolve_type` follow, and what
  stands in front of every `unionfind.set` of `unify_inner`.
-/
import RotoV.Lemmas.Unify

namespace RotoV.C06

/-! ## T5: unification and the union-find store -/

open RotoV.Unify RotoV.Gen.UnifyFacts

/-- obligation on the GENERATED arms of `UnionFind::find`, `find_ref`,
`TypeChecker::resolve_type` and `TypeInfo::resolve` / `resolve_ref`: all five
follow exactly the four kinds of type variable (so the lookups of the checker,
of the store and of every later stage agree). -/
theorem lookup_arms_ok :
    (∀ t, findHead t = head t) ∧ (∀ t, findRefHead t = head t) ∧ (∀ t, resolveHead t = head t) ∧
    (∀ t, infoResolveHead t = head t) ∧ (∀ t, infoResolveRefHead t = head t) :=
  ⟨findHead_eq, findRefHead_eq, resolveHead_eq,
    fun t => by cases t <;> rfl, fun t => by cases t <;> rfl⟩

/-- non-vacuity: an open record is a variable, a closed one is not -/
example : head (.recordVar 4 [] []) = some 4 ∧ head (.record [] []) = none := ⟨rfl, rfl⟩

/-- obligation on the GENERATED arms of `TypeChecker::occurs`: for every
constructor of `Type` the arm either compares the variable the type is, or
searches children whose variables are ALL the variables below the type
(`below`: the fields of an unset record variable, every variable of a type
that is no variable). -/
theorem occurs_arms_complete (t : Ty) :
    match occursArm t with
    | .isVar x => head t = some x ∧ below t = []
    | .varOr x cs => head t = some x ∧ below t = subVarsL cs
    | .children cs => head t = none ∧ below t = subVarsL cs
    | .no => head t = none ∧ below t = [] :=
  occursArm_complete t

/-- non-vacuity: an open record with a variable in a field has that variable below it -/
example : below (.recordVar 0 [7] [.name 1 [.var 3]]) = [3] := by decide

/-- obligation on the GENERATED table of `unify_inner`: every
`unionfind.set(v, t)` whose `t` can contain variables stands directly behind
`if self.occurs(v, &t) { return None; }`. -/
theorem unify_sets_guarded : GuardsOk setGuard := guards_ok

/-- the occurs check is sound: if `occurs(var, t)` answers `false` for an unset
variable, `var` cannot be reached from any variable of `t` — whatever the
fuel the answer was computed with. -/
theorem occurs_check_sound (f : Nat) (σ : Store) (var : Nat) (t : Ty)
    (hroot : IsRoot σ var) (h : occurs f σ var t = some false) :
    ∀ v ∈ subVars t, ¬ Reach σ v var :=
  (occurs_sound f).1 σ var t hroot h

/-- non-vacuity: on the witness store the check answers, and finds `a` inside `b` -/
example : IsRoot witnessStore 0 ∧ occurs 8 witnessStore 0 witnessB = some true ∧
    occurs 8 witnessStore 1 witnessA = some false :=
  ⟨⟨witnessA, rfl, rfl⟩, rfl, rfl⟩

/- T5, full statement: with the store acyclic, `unify` keeps it acyclic and
`find` / `resolve` / `convert` terminate.
   PROVED below for the model `Unify.unify` with the guard table generated from
the source: any answer of `unify_inner` — `Some` or `None` — leaves an acyclic
store acyclic (for every fuel, every `Defs`); in an acyclic store whose
variables all exist `find_ref` returns from every index, and every deep
traversal (`Unify.walk`: resolve, then walk into every child — the recursion
scheme of `Type::display`, `TypeInfo::convert`, `occurs`) returns from every
type; one `UnionFind::find` WITH path compression returns what `find_ref`
returns and leaves the store acyclic (`find_compression_harmless`).
   MISSING: (1) path compression is proved harmless for one lookup but is not
threaded through the model of `unify_inner` (it looks variables up like
`find_ref`); (2) in the four arms that bind a record variable the model gives
up if the variable is no longer unset after `unify_fields` (believed
unreachable; not proved); (3) no differential run of the Lean `unify` against
the real one (the tie is the generated facts). Covered by the crash oracle
(boundary stream `cyclic-type`). -/
theorem unify_terminates_partial (D : Defs) (f : Nat) (σ σ' : Store) (a b : Ty) (r : Option Ty)
    (hσ : Acyclic σ) (h : unify setGuard D f σ a b = some (r, σ')) :
    Acyclic σ' ∧
    (Closed σ' →
      (∀ i, i < σ'.length → ∃ f t, findRef f σ' i = some t) ∧
      (∀ t, (∀ v ∈ subVars t, v < σ'.length) → ∃ f, walk f σ' t = some ())) :=
  have h' := (unify_acyclic_aux setGuard guards_ok D f).1 σ a b r σ' hσ h
  ⟨h', fun hc => ⟨findRef_terminates h' hc, fun t ht => walk_terminates h' hc t ht⟩⟩

/-- `UnionFind::find` with its path compression (`self.inner[index] =
new_t.clone()` on the way back): it returns what `find_ref` returns and the
compressed store is acyclic again. -/
theorem find_compression_harmless (f : Nat) (σ σ' : Store) (i : Nat) (t : Ty) (hσ : Acyclic σ)
    (h : findCompress f σ i = some (t, σ')) : Acyclic σ' ∧ findRef f σ i = some t :=
  findCompress_acyclic hσ h

/-- non-vacuity: a chain `2 → 1 → 0` is compressed to `2 → 0`, `1 → 0` -/
example : findCompress 3 [.var 0, .var 0, .var 1] 2 = some (.var 0, [.var 0, .var 0, .var 0]) := rfl

/-- non-vacuity: the witness store is acyclic, and the repaired `unify_inner`
answers `None` on it without touching the store. -/
example : Acyclic witnessStore ∧
    unify setGuard noDefs 12 witnessStore witnessA witnessB = some (none, witnessStore) :=
  ⟨witness_acyclic, new_run⟩

/-- T5 refuted on the unchanged tree: without an occurs check in the arms that
bind a record variable (`oldGuard`), unifying `a = { f: List[!] }` with
`b = { f: List[List[a]] }` succeeds — the never type unifies with `List[a]`
without binding anything — and binds `a` to `b`: the store becomes cyclic, and
every later traversal of `a` recurses until the stack overflows. -/
theorem unify_old_creates_cycle :
    Acyclic witnessStore ∧
    ∃ σ', unify oldGuard noDefs 6 witnessStore witnessA witnessB = some (some witnessB, σ') ∧
      ¬ Acyclic σ' :=
  ⟨witness_acyclic, [witnessB, witnessB], old_run,
    no_two_cycle (i := 0) (j := 1) ⟨witnessB, rfl, by decide⟩ ⟨witnessB, rfl, by decide⟩⟩

end RotoV.C06
