/-
  C14, T12 — the context check of the source is the one the model transcribes
  (`context_rejected_iff` is proved about `Model/Tarjan.determine`): over the step
  lists regenerated from src/typechecker/value_cycle.rs on every run.
-/
import RotoV.Model.TarjanCtxShape
import RotoV.Generated.C14Ctx

namespace RotoV.C14
open RotoV.TarjanCtxShape

/-- `determine_uses_context` as written is, step for step, what
`Model/Tarjan.determine` / `detLoop` transcribe — in particular the answer for a
name on the stack is `false` and is not stored, and a `true` from a reference
is stored and returned at once. -/
theorem determine_as_modelled :
    Step.beq.beqList RotoV.Gen.C14Ctx.determineSteps determineAsModelled = true := by decide

/-- `context_check` as written visits every key of the reference graph in order
and reports the first constant that uses the context; `find_compilation_order`
calls it after `tarjan` and the cycle tests, right before it returns the order. -/
theorem context_check_as_modelled :
    Step.beq.beqList RotoV.Gen.C14Ctx.checkSteps checkAsModelled = true
      ∧ RotoV.Gen.C14Ctx.checkedBeforeOrderReturned = true := by decide

/-- non-vacuity: the comparison tells a rule that stores `false` for a name on
the stack from the one in the source -/
example : Step.beq.beqList
    [.guard .cached [.returnCached], .guard .onStack [.insertFalse, .returnFalse]]
    [.guard .cached [.returnCached], .guard .onStack [.returnFalse]] = false := by decide
example : RotoV.Gen.C14Ctx.determineSteps.length = 7 := by decide

end RotoV.C14
