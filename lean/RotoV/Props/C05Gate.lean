/-
C05 — what crosses the boundary is a built-in or registered type, read the same way by both
sides; a type the script declares never crosses.

The theorems of `Props/C05` (layout, placement, ABI, round trip) are about the boundary family
`BTy`. A script can declare types of its own — also under the NAME of `Option`, `Result`,
`Verdict` or `List` — and those are laid out in the script's declaration order. These theorems
say, over the GENERATED name tests of `check_roto_type`, that the gate admits a signature type
only if both sides attribute the same structure to the bytes (`crossing_sound`), that a type
mentioning a script declaration at any depth is refused for every Rust type
(`script_declared_refused`), and that the scope in the name test is what this rests on
(`ident_only_gate_reinterprets`: with the identifier alone compared, `enum Option[T] { None,
Some(T) }` is admitted as `Option<u32>` and Rust's `Some(5)` is the script's `None`).
-/
import RotoV.Lemmas.BoundaryGate
import RotoV.Lemmas.BoundaryValues
import RotoV.Lemmas.BoundaryAbi

namespace RotoV.C05

open RotoV RotoV.Boundary RotoV.Gen.BoundaryTables

/-- **`registry_describes_in_order`.**  What `Value::resolve` stores for the generic Rust types
    (generated): `Option<T>` is described as `Option(T)`, `Result<T, E>` as `Result(T, E)`,
    `Verdict<A, R>` as `Verdict(A, R)`, `List<T>` as `List(T)` — constructor and component order —
    and every arm of the gate pairs component `i` with the Roto type argument `i`; so `RTy` below
    is the Rust type as written, position by position. -/
theorem registry_describes_in_order :
    rustDescriptions = [(.Verdict, .verdict, [0, 1]), (.Result, .result, [0, 1]), (.Option, .option, [0]), (.List, .list, [0])]
    ∧ gateArms.all (fun a => a.pairs = (List.range a.arity).map fun i => (i, i)) = true
    ∧ gateArms.all (fun a => a.ident = a.head ∧ a.scope = .global) = true
    ∧ gateArms.map (·.head) = [.verdict, .result, .option, .list] := by
  decide

/-- **`crossing_types_are_host_types`** (∀ Rust types, ∀ signature types of any nesting).  A type
    the gate admits mentions no script declaration at any depth: what crosses the boundary is
    made of built-in and registered types only — the family the theorems of `Props/C05` cover. -/
theorem crossing_types_are_host_types (r : RTy) : ∀ (t : STy), t.WF = true →
    gate gateArms r t = true → t.mentionsDeclared = false := by
  induction r with
  | unit =>
    intro t _ h
    unfold gate at h
    simp at h
    subst h; rfl
  | prim p =>
    intro t hw h
    obtain ⟨d, rfl⟩ := gate_prim_inv h
    simp [STy.WF, STy.WF.declOk] at hw
    subst hw; rfl
  | val id l =>
    intro t hw h
    obtain ⟨s, i, rfl⟩ := gate_val_inv hw h
    rfl
  | option r ih =>
    intro t hw h
    obtain ⟨d, a, rfl, hg⟩ := gate_option_inv h
    simp [STy.WF, STy.WF.declOk] at hw
    obtain ⟨⟨hd, _⟩, ha⟩ := hw
    subst hd
    simp [STy.mentionsDeclared, STy.mentionsDeclared.isDeclared, ih a ha hg]
  | list r ih =>
    intro t hw h
    obtain ⟨d, a, rfl, hg⟩ := gate_list_inv h
    simp [STy.WF, STy.WF.declOk] at hw
    obtain ⟨⟨hd, _⟩, ha⟩ := hw
    subst hd
    simp [STy.mentionsDeclared, STy.mentionsDeclared.isDeclared, ih a ha hg]
  | result r1 r2 ih1 ih2 =>
    intro t hw h
    obtain ⟨d, a, b, rfl, hg1, hg2⟩ := gate_result_inv h
    simp [STy.WF, STy.WF.declOk] at hw
    obtain ⟨⟨⟨hd, _⟩, ha⟩, hb⟩ := hw
    subst hd
    simp [STy.mentionsDeclared, STy.mentionsDeclared.isDeclared, ih1 a ha hg1, ih2 b hb hg2]
  | verdict r1 r2 ih1 ih2 =>
    intro t hw h
    obtain ⟨d, a, b, rfl, hg1, hg2⟩ := gate_verdict_inv h
    simp [STy.WF, STy.WF.declOk] at hw
    obtain ⟨⟨⟨hd, _⟩, ha⟩, hb⟩ := hw
    subst hd
    simp [STy.mentionsDeclared, STy.mentionsDeclared.isDeclared, ih1 a ha hg1, ih2 b hb hg2]

/-- **`script_declared_refused`.**  A signature type that mentions a type declared by the script
    — under whatever name, `Option` / `Result` / `Verdict` / `List` included, at any depth — is
    refused for EVERY Rust type: nothing of such a type crosses the boundary. -/
theorem script_declared_refused (r : RTy) (t : STy) (hw : t.WF = true)
    (hd : t.mentionsDeclared = true) : gate gateArms r t = false := by
  cases h : gate gateArms r t
  · rfl
  · rw [crossing_types_are_host_types r t hw h] at hd; cases hd

example : swappedOption.WF = true ∧ swappedOption.mentionsDeclared = true := by decide

/-- **`crossing_sound`** (∀ Rust types, ∀ signature types of any nesting).  If the gate admits the
    pair, the script attributes to the value's bytes the structure Rust does: the same variant
    names at the same discriminants with the same payload parameters, recursively (so `roundtrip`,
    `placement_agrees`, `layout_agrees` of `Props/C05` speak about everything that crosses). -/
theorem crossing_sound (r : RTy) : ∀ (t : STy), t.WF = true →
    gate gateArms r t = true → scriptStruct t = rustStruct r := by
  obtain ⟨ho, hr, hv⟩ := tables_agree
  induction r with
  | unit =>
    intro t _ h
    unfold gate at h
    simp at h
    subst h; rfl
  | prim p =>
    intro t hw h
    obtain ⟨d, rfl⟩ := gate_prim_inv h
    simp [STy.WF, STy.WF.declOk] at hw
    subst hw; rfl
  | val id l =>
    intro t hw h
    obtain ⟨s, i, rfl⟩ := gate_val_inv hw h
    rfl
  | option r ih =>
    intro t hw h
    obtain ⟨d, a, rfl, hg⟩ := gate_option_inv h
    simp [STy.WF, STy.WF.declOk] at hw
    obtain ⟨⟨hd, _⟩, ha⟩ := hw
    subst hd
    simp [scriptStruct, rustStruct, ih a ha hg, ho]
  | list r ih =>
    intro t hw h
    obtain ⟨d, a, rfl, hg⟩ := gate_list_inv h
    simp [STy.WF, STy.WF.declOk] at hw
    obtain ⟨⟨hd, _⟩, ha⟩ := hw
    subst hd
    simp [scriptStruct, rustStruct, ih a ha hg]
  | result r1 r2 ih1 ih2 =>
    intro t hw h
    obtain ⟨d, a, b, rfl, hg1, hg2⟩ := gate_result_inv h
    simp [STy.WF, STy.WF.declOk] at hw
    obtain ⟨⟨⟨hd, _⟩, ha⟩, hb⟩ := hw
    subst hd
    simp [scriptStruct, rustStruct, ih1 a ha hg1, ih2 b hb hg2, hr]
  | verdict r1 r2 ih1 ih2 =>
    intro t hw h
    obtain ⟨d, a, b, rfl, hg1, hg2⟩ := gate_verdict_inv h
    simp [STy.WF, STy.WF.declOk] at hw
    obtain ⟨⟨⟨hd, _⟩, ha⟩, hb⟩ := hw
    subst hd
    simp [scriptStruct, rustStruct, ih1 a ha hg1, ih2 b hb hg2, hv]

/-- not vacuous: the built-in `Option[u32]` is admitted as `Option<u32>`, nested too -/
example :
    gate gateArms (.option (.prim (.Int .Unsigned .I32)))
      (.name1 .global (.generic .option) (.builtin .option)
        (.name0 .global (.prim (.Int .Unsigned .I32)) (.prim (.Int .Unsigned .I32)))) = true
    ∧ gate gateArms (.list (.result .unit (.val 7 ⟨4, 4⟩)))
      (.name1 .global (.generic .list) (.builtin .list)
        (.name2 .global (.generic .result) (.builtin .result) .unit
          (.name0 (.other 3) (.other 9) (.runtime 7)))) = true := by decide

theorem gateArgs_sound : ∀ (rs : List RTy) (ts : List STy), (∀ t ∈ ts, t.WF = true) →
    gateArgs gateArms rs ts = true →
    ts.map scriptStruct = rs.map rustStruct ∧ ∀ t ∈ ts, t.mentionsDeclared = false
  | [], [], _, _ => by simp
  | [], _ :: _, _, h => by simp [gateArgs] at h
  | _ :: _, [], _, h => by simp [gateArgs] at h
  | r :: rs, t :: ts, hw, h => by
    simp only [gateArgs, Bool.and_eq_true] at h
    have hwt : t.WF = true := hw t (by simp)
    have hws : ∀ t' ∈ ts, t'.WF = true := fun t' ht' => hw t' (by simp [ht'])
    obtain ⟨ih1, ih2⟩ := gateArgs_sound rs ts hws h.2
    refine ⟨by simp [crossing_sound r t hwt h.1, ih1], ?_⟩
    intro t' ht'
    rcases List.mem_cons.1 ht' with rfl | ht'
    · exact crossing_types_are_host_types r _ hwt h.1
    · exact ih2 t' ht'

/-- **`signature_crossing_sound`** (∀ signatures of any arity, ∀ Rust function types).  If
    `get_function::<fn(A…) -> R>` hands out a function of signature `(ts) -> tret`, the script
    function has exactly as many parameters as the Rust type, and at EVERY position — and for the
    return value — the script attributes to the value's bytes the structure Rust does, and no
    position mentions a type declared by the script. -/
theorem signature_crossing_sound (rs : List RTy) (rret : RTy) (ts : List STy) (tret : STy)
    (hw : ∀ t ∈ ts, t.WF = true) (hwr : tret.WF = true)
    (h : gateSig gateArms rs rret ts tret = true) :
    ts.length = rs.length
    ∧ ts.map scriptStruct = rs.map rustStruct
    ∧ scriptStruct tret = rustStruct rret
    ∧ (∀ t ∈ ts, t.mentionsDeclared = false) ∧ tret.mentionsDeclared = false := by
  simp only [gateSig, Bool.and_eq_true] at h
  obtain ⟨⟨⟨_, ha⟩, _⟩, hr⟩ := h
  obtain ⟨h1, h2⟩ := gateArgs_sound rs ts hw ha
  refine ⟨?_, h1, crossing_sound rret tret hwr hr, h2, crossing_types_are_host_types rret tret hwr hr⟩
  have := congrArg List.length h1
  simpa using this

/-- not vacuous: `fn(u32, Option<u32>) -> ()` for `(u32, Option[u32]) -> ()`; one parameter less or
    the script's own `Option` in the second position and nothing is handed out -/
example :
    let u32r : RTy := .prim (.Int .Unsigned .I32)
    let u32s : STy := .name0 .global (.prim (.Int .Unsigned .I32)) (.prim (.Int .Unsigned .I32))
    let opt : STy := .name1 .global (.generic .option) (.builtin .option) u32s
    gateSig gateArms [u32r, .option u32r] .unit [u32s, opt] .unit = true
    ∧ gateSig gateArms [u32r] .unit [u32s, opt] .unit = false
    ∧ gateSig gateArms [u32r, .option u32r] .unit [u32s, swappedOption] .unit = false := by decide

/-- **`ident_only_gate_reinterprets`.**  The scope in the name test is what `crossing_sound` rests
    on. With the identifier alone compared (every arm's scope test dropped), the script's own
    `enum Option[T] { None, Some(T) }` is admitted as `Option<u32>`, the two sides attribute
    different structures to the bytes: the discriminant Rust writes for `Some` is the one the
    script's table calls `None`, and the discriminant the script writes for `Some` is Rust's
    `None`. -/
theorem ident_only_gate_reinterprets :
    swappedOption.WF = true
    ∧ gate identOnlyArms (.option (.prim (.Int .Unsigned .I32))) swappedOption = true
    ∧ gate gateArms (.option (.prim (.Int .Unsigned .I32))) swappedOption = false
    ∧ scriptStruct swappedOption ≠ rustStruct (.option (.prim (.Int .Unsigned .I32)))
    ∧ (indexOf .Some rotoOptionVariants 0).bind (nameAt [(.None, []), (.Some, [0])]) = some .None
    ∧ (indexOf .Some [(.None, []), (.Some, [0])] 0).bind (nameAt rotoOptionVariants) = some .None := by
  decide

/-- **`builtin_types_admitted`** (∀ Rust boundary types of any nesting).  The gate admits every
    boundary type under its built-in spelling — `crossing_sound` is not vacuous for any Rust type,
    and the family the correspondence runs on is the family that crosses. -/
theorem builtin_types_admitted (nm : Nat → NScope × TIdent) (r : RTy) :
    gate gateArms r (builtinImage nm r) = true := by
  induction r with
  | unit => simp [builtinImage, gate]
  | prim p => simp [builtinImage, gate, leaf_scope, STy.scope?, STy.ident?, STy.arity]
  | val id l => simp [builtinImage, gate, STy.decl?, gateValByTypeId]
  | option r ih => simp [builtinImage, gate, arm_option, nameTest, STy.scope?, STy.ident?, STy.arity, ih]
  | list r ih => simp [builtinImage, gate, arm_list, nameTest, STy.scope?, STy.ident?, STy.arity, ih]
  | result a b iha ihb => simp [builtinImage, gate, arm_result, nameTest, STy.scope?, STy.ident?, STy.arity, iha, ihb]
  | verdict a b iha ihb => simp [builtinImage, gate, arm_verdict, nameTest, STy.scope?, STy.ident?, STy.arity, iha, ihb]

/-! ## What is admitted has the layout Rust gives it -/

/-- **`admitted_mir_type`** (∀ Rust types, ∀ signature types of any nesting).  The MIR type the script
    compiles an admitted signature type to is the MIR type of the boundary type (`toMTy`), the one
    the layout / placement / ABI theorems of `Props/C05` are about. -/
theorem admitted_mir_type (lay : Nat → Layout) (r : RTy) : ∀ (t : STy), t.WF = true → r.LayOk lay →
    gate gateArms r t = true → scriptMTy lay t = toMTy r.toBTy := by
  induction r with
  | unit =>
    intro t _ _ h
    unfold gate at h
    simp at h
    subst h; rfl
  | prim p =>
    intro t hw _ h
    obtain ⟨d, rfl⟩ := gate_prim_inv h
    simp [STy.WF, STy.WF.declOk] at hw
    subst hw; rfl
  | val id l =>
    intro t hw hl h
    obtain ⟨s, i, rfl⟩ := gate_val_inv hw h
    simp [RTy.LayOk] at hl
    simp [scriptMTy, RTy.toBTy, toMTy, hl]
  | option r ih =>
    intro t hw hl h
    obtain ⟨d, a, rfl, hg⟩ := gate_option_inv h
    simp [STy.WF, STy.WF.declOk] at hw
    obtain ⟨⟨hd, _⟩, ha⟩ := hw
    subst hd
    simp [scriptMTy, RTy.toBTy, toMTy, ih a ha hl hg]
  | list r ih =>
    intro t hw hl h
    obtain ⟨d, a, rfl, hg⟩ := gate_list_inv h
    simp [STy.WF, STy.WF.declOk] at hw
    obtain ⟨⟨hd, _⟩, ha⟩ := hw
    subst hd
    simp [scriptMTy, RTy.toBTy, toMTy]
  | result r1 r2 ih1 ih2 =>
    intro t hw hl h
    obtain ⟨d, a, b, rfl, hg1, hg2⟩ := gate_result_inv h
    simp [STy.WF, STy.WF.declOk] at hw
    obtain ⟨⟨⟨hd, _⟩, ha⟩, hb⟩ := hw
    subst hd
    simp [scriptMTy, RTy.toBTy, toMTy, ih1 a ha hl.1 hg1, ih2 b hb hl.2 hg2]
  | verdict r1 r2 ih1 ih2 =>
    intro t hw hl h
    obtain ⟨d, a, b, rfl, hg1, hg2⟩ := gate_verdict_inv h
    simp [STy.WF, STy.WF.declOk] at hw
    obtain ⟨⟨⟨hd, _⟩, ha⟩, hb⟩ := hw
    subst hd
    simp [scriptMTy, RTy.toBTy, toMTy, ih1 a ha hl.1 hg1, ih2 b hb hl.2 hg2]

/-- **`admitted_layout_agrees`** (∀ host layouts, ∀ registrations, ∀ admitted pairs).  For every
    signature type the gate admits, `Pool::layout_of` of the type as the script compiled it is
    rustc's layout of the transformed Rust type. -/
theorem admitted_layout_agrees (h : HostLayouts) (hh : h.WF) (lay : Nat → Layout) (r : RTy) (t : STy)
    (hw : t.WF = true) (hl : r.LayOk lay) (hr : r.toBTy.WF) (hg : gate gateArms r t = true) :
    layoutOf h (scriptMTy lay t) = some (rustLayout h r.toBTy) := by
  rw [admitted_mir_type lay r t hw hl hg]
  exact layout_agrees' h hh r.toBTy hr


/-- not vacuous, and false for what the gate refuses: the script's swapped `Option[u32]` compiles
    to an enum whose first variant has no payload -/
example : scriptMTy (fun _ => ⟨4, 4⟩) swappedOption ≠ toMTy (.option (.prim (.Int .Unsigned .I32))) := by
  simp [scriptMTy, swappedOption, toMTy, instVariants, defaultOption]

/-! ## Values read with a declaration's own variant table -/

/-- **`declared_same_tables_read_same`** (∀ tables, ∀ values of any nesting).  Reading with ANY variant
    tables that name, at the discriminants Rust writes, the variants Rust means with the same payload
    parameter (`GoodTables`: e.g. a declaration equal to the built-in one) sees every value unchanged —
    which script declarations would be harmless to admit. -/
theorem declared_same_tables_read_same (tbls : EnumOf → List (VName × List Nat)) (g : GoodTables tbls)
    (v : RVal) (sh : Shape) (hs : v.hasShape sh = true) :
    ∃ t, transform v = some t ∧ decode tbls sh t = some v :=
  decode_transform tbls g v sh hs

/-- **`declared_order_matters`** (∀ tables, ∀ payloads).  And conversely: if the table the script uses
    for a one-parameter enum names anything but `Some` at discriminant 0 (Rust's `Some`), then no
    `Some(x)` sent by Rust is read as `Some(x)` by the script. -/
theorem declared_order_matters (tbls : EnumOf → List (VName × List Nat)) (n : VName)
    (hn : nameAt (tbls .option) 0 = some n) (hne : n ≠ .Some) (x : Nat) :
    ∃ t, transform (.some (.leaf x)) = some t ∧ decode tbls (.option .leaf) t ≠ some (.some (.leaf x)) := by
  refine ⟨.tagged 0 (some (.leaf x)), by simp [transform, tag, indexOf, rotoOptionVariants], ?_⟩
  rw [decode, decodeTagged, hn]
  intro h
  split at h
  · rename_i n' sh h1 h2
    cases h1
    cases n <;> simp [mkVariant, Option.bind_eq_some_iff] at h hne
  · cases h

example : ∃ t, transform (.some (.leaf 5)) = some t
    ∧ decode (fun _ => [(.None, []), (.Some, [0])]) (.option .leaf) t ≠ some (.some (.leaf 5)) :=
  declared_order_matters _ .None (by decide) (by decide) 5

end RotoV.C05
