/-
  C20 — the IR evaluator agrees with the compiled code or stops loudly.

  Statements are over the *generated* evaluator arms (`Gen.EvalArms`, from
  src/lir/eval.rs + src/lir/value.rs) and the *generated* codegen arms
  (`Gen.OpTables`, from src/codegen/mod.rs) composed with the documented CLIF
  semantics (`Model/Clif`).  `Agrees` is the property's per-instruction content:
  whenever the evaluator completes with a value, the JIT computes the same value
  (in the JIT's representation); otherwise the evaluator panicked (loud stop).
-/
import RotoV.Model.Repr
import RotoV.Generated.EvalArms

namespace RotoV.C20
open RotoV RotoV.Gen RotoV.Gen.OpTables RotoV.Gen.EvalArms

variable [FloatOps]

/-- "panics, or completes with the value the JIT computes". -/
def Agrees (ev : Res IrValue) (jit : Res CVal) : Prop :=
  ev = .panic ∨ ∃ v cv, ev = .ok v ∧ jitRepr v = some cv ∧ jit = .ok cv

/-- `!x`: the evaluator's `Not` arm against `icmp_imm eq x, 0`. -/
theorem eval_Not_agrees (dbg : Bool) (x : IrValue) (cx : CVal) (hx : jitRepr x = some cx) :
    Agrees (eval_Not dbg x) (cg_Not dbg cx) := by
  cases x <;> simp [eval_Not, IrValue.as_bool, Agrees, Ev.ret]
  case Bool b =>
    cases b <;>
      simp_all [jitRepr, integer_operand, cg_Not, Cg.operand, Cg.variable_, Cg.def_, Clif.icmp_imm,
        Clif.iccHolds, CVal.mk', CTy.isFloat, CTy.bits, CVal.bv, RCast.cast, RInt.ofInt, RNot.not] <;>
      (subst hx; decide)

/-- non-vacuity: a concrete operand meets the hypothesis and the evaluator completes. -/
example : jitRepr (.Bool true) = some ⟨.I8, 1⟩ ∧ eval_Not true (.Bool true) = .ok (.Bool false) := by
  decide

end RotoV.C20
