/-
  C20 — the IR evaluator agrees with the compiled code or stops loudly.

  Statements are over the *generated* evaluator arms (`Gen.EvalArms`, from
  src/lir/eval.rs + src/lir/value.rs) and the *generated* codegen arms
  (`Gen.OpTables`, from src/codegen/mod.rs) composed with the documented CLIF
  semantics (`Model/Clif`).  `Agrees` is the property's per-instruction content:
  whenever the evaluator completes with a value, the JIT computes the same value
  (in the JIT's representation); otherwise the evaluator panicked (loud stop).

  Operands range over ALL `IrValue`s of EVERY tag (also ill-typed combinations,
  where the evaluator must panic) and both build profiles (`dbg`).  The JIT side
  receives the operands as `FuncGen::operand` produces them (`jitRepr`, through
  the generated `integer_operand`).  In the model a `Res.panic` on the JIT side is
  either a run-time trap or a rejection by Cranelift's verifier (operand types
  differ / wrong class); the two comparison instructions are the only arms where
  the evaluator is *more* liberal than the verifier (`as_u64`/`as_i64`/`as_f64`
  widen before comparing), so their theorems assume what the verifier checked
  (`cl.ty = cr.ty`, float class for `FloatCmp`) — `IntCmp_needs_same_type` shows
  the assumption is necessary.
-/
import RotoV.Lemmas.ScalarEval

namespace RotoV.C20
open RotoV RotoV.Gen RotoV.Gen.OpTables RotoV.Gen.EvalArms

/-- "panics, or completes with the value the JIT computes". -/
def Agrees (ev : Res IrValue) (jit : Res CVal) : Prop :=
  ev = .panic ∨ ∃ v cv, ev = .ok v ∧ jitRepr v = some cv ∧ jit = .ok cv

theorem agrees_of_ok {ev : Res IrValue} {jit : Res CVal}
    (h : ∀ v, ev = .ok v → ∃ cv, jitRepr v = some cv ∧ jit = .ok cv) : Agrees ev jit := by
  cases ev with
  | panic => left; rfl
  | ok v => obtain ⟨cv, h1, h2⟩ := h v rfl; exact Or.inr ⟨v, cv, rfl, h1, h2⟩

@[simp] theorem agrees_panic (jit : Res CVal) : Agrees .panic jit := Or.inl rfl

/-- what `Agrees` excludes: completing with a value the JIT does not compute. -/
theorem not_agrees_of_ne {v : IrValue} {cv cv' : CVal} (hv : jitRepr v = some cv) (hne : cv ≠ cv') :
    ¬ Agrees (.ok v) (.ok cv') := by
  rintro (h | ⟨v', c, h1, h2, h3⟩)
  · cases h
  · cases h1; cases h3; rw [hv] at h2; cases h2; exact hne rfl

/-- `!x`: the evaluator's `Not` arm against `icmp_imm eq x, 0`. -/
theorem eval_Not_agrees (dbg : Bool) (x : IrValue) (cx : CVal) (hx : jitRepr x = some cx) :
    Agrees (eval_Not dbg x) (cg_Not dbg cx) := by
  cases x <;> simp [eval_Not, IrValue.as_bool, Ev.ret]
  case Bool b =>
    rw [jitRepr_Bool] at hx; cases hx
    exact Or.inr ⟨_, _, rfl, jitRepr_Bool _, by rw [cg_Not_bool]⟩

/-- non-vacuity: a concrete operand meets the hypothesis and the evaluator completes. -/
example : jitRepr (.Bool true) = some ⟨.I8, 1⟩ ∧ eval_Not true (.Bool true) = .ok (.Bool false) := by
  decide

/-! ### integer comparisons -/

/-- `IntCmp`: `Eq`/`Ne` through the generated `PartialEq for IrValue`, the unsigned comparisons
    through `as_u64`, the signed ones through `as_i64`, against `icmp cc` with the generated
    condition-code table.  `hty`, `hnf`: the verifier accepted the `icmp` (same operand types, of the
    integer class).  `hnf` is not needed on the pinned tree (no arm of `PartialEq` completes on floats);
    it is what keeps the statement true — and this theorem checking — when an IEEE float arm is added
    to `PartialEq for IrValue` (`eq_ok_general`): `icmp` on floats never gets past the verifier. -/
theorem eval_IntCmp_agrees [FloatOps] (dbg : Bool) (cmp : IntCmp) (l r : IrValue) (cl cr : CVal)
    (hl : jitRepr l = some cl) (hr : jitRepr r = some cr) (hty : cl.ty = cr.ty)
    (hnf : cl.ty.isFloat = false) :
    Agrees (eval_IntCmp dbg cmp l r) (cg_IntCmp dbg cmp cl cr) := by
  apply agrees_of_ok; intro v hv
  cases cmp <;> simp only [eval_IntCmp, Ev.ret, Res.bind_eq_ok_iff, Res.pure_eq, Res.ok.injEq] at hv
  case ULt | ULe | UGt | UGe =>
    obtain ⟨b, ⟨ul, hul, ur, hur, hb⟩, rfl⟩ := hv
    obtain ⟨a, ha⟩ := as_u64_ok hul
    obtain ⟨c, hc⟩ := as_u64_ok hur
    obtain ⟨hw, ht⟩ := a.align c hl hr hty
    rcases a with ⟨ty, w, hw1, hf, x, rx⟩
    rcases c with ⟨ty', w', hw2, hf', y, ry⟩
    simp only at hw ht ha hc; subst hw ht
    rw [hl] at rx; rw [hr] at ry; simp only [Option.some.injEq] at rx ry; subst rx ry
    refine ⟨_, jitRepr_Bool _, ?_⟩
    rw [cg_IntCmp_int _ _ _ hf hw1]
    simp [ROrd.lt, ROrd.le, ROrd.gt, ROrd.ge, RInt.lt, RInt.le, RInt.gt, RInt.ge, ha, hc] at hb
    subst hb
    simp [intCmpSpec, BitVec.ult, ← decide_not, Nat.not_lt]
  case SLt | SLe | SGt | SGe =>
    obtain ⟨b, ⟨ul, hul, ur, hur, hb⟩, rfl⟩ := hv
    obtain ⟨a, ha⟩ := as_i64_ok hul
    obtain ⟨c, hc⟩ := as_i64_ok hur
    obtain ⟨hw, ht⟩ := a.align c hl hr hty
    rcases a with ⟨ty, w, hw1, hf, x, rx⟩
    rcases c with ⟨ty', w', hw2, hf', y, ry⟩
    simp only at hw ht ha hc; subst hw ht
    rw [hl] at rx; rw [hr] at ry; simp only [Option.some.injEq] at rx ry; subst rx ry
    refine ⟨_, jitRepr_Bool _, ?_⟩
    rw [cg_IntCmp_int _ _ _ hf hw1]
    simp [ROrd.lt, ROrd.le, ROrd.gt, ROrd.ge, RInt.lt, RInt.le, RInt.gt, RInt.ge, ha, hc] at hb
    subst hb
    simp [intCmpSpec, BitVec.slt, ← decide_not, Int.not_lt]
  case Eq =>
    obtain ⟨b, hb', rfl⟩ := hv
    refine ⟨_, jitRepr_Bool _, ?_⟩
    cases eq_ok_general hb' with
    | int ty w hw hf x y rx ry hxy =>
      rw [hl] at rx; rw [hr] at ry; simp only [Option.some.injEq] at rx ry; subst rx ry
      rw [cg_IntCmp_int _ _ _ hf hw, hxy]; rfl
    | f32 x y rx ry hxy => subst rx; rw [jitRepr_F32] at hl; cases hl; simp [CTy.isFloat] at hnf
    | f64 x y rx ry hxy => subst rx; rw [jitRepr_F64] at hl; cases hl; simp [CTy.isFloat] at hnf
  case Ne =>
    obtain ⟨b, ⟨b', hb', rfl⟩, rfl⟩ := hv
    refine ⟨_, jitRepr_Bool _, ?_⟩
    cases eq_ok_general hb' with
    | int ty w hw hf x y rx ry hxy =>
      rw [hl] at rx; rw [hr] at ry; simp only [Option.some.injEq] at rx ry; subst rx ry
      rw [cg_IntCmp_int _ _ _ hf hw, hxy]; rfl
    | f32 x y rx ry hxy => subst rx; rw [jitRepr_F32] at hl; cases hl; simp [CTy.isFloat] at hnf
    | f64 x y rx ry hxy => subst rx; rw [jitRepr_F64] at hl; cases hl; simp [CTy.isFloat] at hnf


/-- non-vacuity: `-1i8 < 1i8` signed is true on both sides, and as unsigned bit patterns the
    evaluator refuses (`as_u64` on a signed tag panics). -/
example [FloatOps] : eval_IntCmp true .SLt (.I8 (.ofInt _ _ (-1))) (.I8 (.ofInt _ _ 1)) = .ok (.Bool true)
    ∧ eval_IntCmp true .ULt (.I8 (.ofInt _ _ (-1))) (.I8 (.ofInt _ _ 1)) = .panic := ⟨by rfl, by rfl⟩

/-- the same-type hypothesis is necessary: on `1u8 < 2u16` the evaluator completes (it widens both
    to `u64`) while Cranelift's verifier rejects the `icmp`. -/
theorem IntCmp_needs_same_type [FloatOps] :
    ¬ Agrees (eval_IntCmp false .ULt (.U8 (.ofInt _ _ 1)) (.U16 (.ofInt _ _ 2)))
        (cg_IntCmp false .ULt ⟨.I8, 1⟩ ⟨.I16, 2⟩)
    ∧ jitRepr (.U8 (.ofInt _ _ 1)) = some ⟨.I8, 1⟩ ∧ jitRepr (.U16 (.ofInt _ _ 2)) = some ⟨.I16, 2⟩ := by
  refine ⟨?_, by decide, by decide⟩
  rintro (h | ⟨v, c, _, _, h3⟩)
  · have h1 : eval_IntCmp false .ULt (.U8 (.ofInt _ _ 1)) (.U16 (.ofInt _ _ 2)) = .ok (.Bool true) := by rfl
    rw [h1] at h; cases h
  · exact absurd h3 (by rw [cg_IntCmp_mixed _ _ _ _ (by decide)]; exact fun h => by cases h)

/-! ### wrapping arithmetic -/

section
variable [FloatOps]

/-- `l + r`: the evaluator's `Add` arm (Rust `+` on the tag's type: overflow panics in the
    debug profile and wraps in release) against `iadd` / `fadd`. -/
theorem eval_Add_agrees (dbg : Bool) (l r : IrValue) (cl cr : CVal)
    (hl : jitRepr l = some cl) (hr : jitRepr r = some cr) :
    Agrees (eval_Add dbg l r) (cg_Add dbg cl cr) := by
  cases l <;> cases r <;> simp [eval_Add, Ev.ret]
  all_goals
    apply agrees_of_ok; intro v hv
    simp only [Res.bind_eq_ok_iff, Res.ok.injEq] at hv
    obtain ⟨_, ⟨c, hc, rfl⟩, rfl⟩ := hv
    have hb := RInt.add_bv hc
    simp only [jitRepr_U8, jitRepr_U16, jitRepr_U32, jitRepr_U64, jitRepr_I8, jitRepr_I16,
      jitRepr_I32, jitRepr_I64, Option.some.injEq] at hl hr ⊢
    subst hl hr
    refine ⟨_, rfl, ?_⟩
    rw [hb]; exact cg_Add_int _ _ rfl rfl _ _

/-- non-vacuity: `-3i32 + 5i32` completes. -/
example : eval_Add false (.I32 (.ofInt _ _ (-3))) (.I32 (.ofInt _ _ 5)) = .ok (.I32 (.ofInt _ _ (2))) := by
  decide

/-- non-vacuity at the profile split: `200u8 + 100u8` is a loud stop in the debug profile and wraps
    to 44 in release. -/
example : eval_Add true (.U8 (.ofInt _ _ 200)) (.U8 (.ofInt _ _ 100)) = .panic
    ∧ eval_Add false (.U8 (.ofInt _ _ 200)) (.U8 (.ofInt _ _ 100)) = .ok (.U8 (.ofInt _ _ 44)) := by decide

/-- `l - r`: the evaluator's `Sub` arm (Rust `-` on the tag's type: overflow panics in the
    debug profile and wraps in release) against `isub` / `fsub`. -/
theorem eval_Sub_agrees (dbg : Bool) (l r : IrValue) (cl cr : CVal)
    (hl : jitRepr l = some cl) (hr : jitRepr r = some cr) :
    Agrees (eval_Sub dbg l r) (cg_Sub dbg cl cr) := by
  cases l <;> cases r <;> simp [eval_Sub, Ev.ret]
  all_goals
    apply agrees_of_ok; intro v hv
    simp only [Res.bind_eq_ok_iff, Res.ok.injEq] at hv
    obtain ⟨_, ⟨c, hc, rfl⟩, rfl⟩ := hv
    have hb := RInt.sub_bv hc
    simp only [jitRepr_U8, jitRepr_U16, jitRepr_U32, jitRepr_U64, jitRepr_I8, jitRepr_I16,
      jitRepr_I32, jitRepr_I64, Option.some.injEq] at hl hr ⊢
    subst hl hr
    refine ⟨_, rfl, ?_⟩
    rw [hb]; exact cg_Sub_int _ _ rfl rfl _ _

/-- non-vacuity: `-3i32 - 5i32` completes. -/
example : eval_Sub false (.I32 (.ofInt _ _ (-3))) (.I32 (.ofInt _ _ 5)) = .ok (.I32 (.ofInt _ _ (-8))) := by
  decide

/-- `l * r`: the evaluator's `Mul` arm (Rust `*` on the tag's type: overflow panics in the
    debug profile and wraps in release) against `imul` / `fmul`. -/
theorem eval_Mul_agrees (dbg : Bool) (l r : IrValue) (cl cr : CVal)
    (hl : jitRepr l = some cl) (hr : jitRepr r = some cr) :
    Agrees (eval_Mul dbg l r) (cg_Mul dbg cl cr) := by
  cases l <;> cases r <;> simp [eval_Mul, Ev.ret]
  all_goals
    apply agrees_of_ok; intro v hv
    simp only [Res.bind_eq_ok_iff, Res.ok.injEq] at hv
    obtain ⟨_, ⟨c, hc, rfl⟩, rfl⟩ := hv
    have hb := RInt.mul_bv hc
    simp only [jitRepr_U8, jitRepr_U16, jitRepr_U32, jitRepr_U64, jitRepr_I8, jitRepr_I16,
      jitRepr_I32, jitRepr_I64, Option.some.injEq] at hl hr ⊢
    subst hl hr
    refine ⟨_, rfl, ?_⟩
    rw [hb]; exact cg_Mul_int _ _ rfl rfl _ _

/-- non-vacuity: `-3i32 * 5i32` completes. -/
example : eval_Mul false (.I32 (.ofInt _ _ (-3))) (.I32 (.ofInt _ _ 5)) = .ok (.I32 (.ofInt _ _ (-15))) := by
  decide


end

/-! ### division and remainder

The evaluator ignores the instruction's `signed` field (`signed: _`): Rust's `/` and `%` on the
tag's type decide.  The JIT takes `sdiv`/`udiv` (`srem`/`urem`) from the flag.  The theorems are
stated for the flag `lower_binop` produces for the tag's type (`lower_div_flag` below); with the
other flag the two sides differ (`Div_flag_matters`, `Mod_flag_matters`). -/

/-- the `signed` flag belonging to a tag: the signed integer tags. -/
def signedOf : IrValue → Bool
  | .I8 _ | .I16 _ | .I32 _ | .I64 _ => true
  | _ => false

/-- `lower_binop` (generated) puts exactly that flag on `Div` and `Mod`: `signed` iff the operand
    type is a signed integer type, and the instruction's type is the lowered operand type. -/
theorem lower_div_flag (dbg : Bool) (k : IntKind) (sz : IntSize) :
    ∃ ty, lower_type_prim dbg (.Int k sz) = .ok (some ty)
      ∧ lower_binop dbg .Div (.Primitive (.Int k sz)) = .ok (.Div ty .lhs .rhs (decide (k = .Signed)))
      ∧ lower_binop dbg .Mod (.Primitive (.Int k sz)) = .ok (.Mod ty .lhs .rhs (decide (k = .Signed))) := by
  cases k <;> cases sz <;> exact ⟨_, rfl, rfl, rfl⟩

theorem eval_Div_agrees (dbg : Bool) (l r : IrValue) (cl cr : CVal)
    (hl : jitRepr l = some cl) (hr : jitRepr r = some cr) :
    Agrees (eval_Div dbg l r) (cg_Div dbg (signedOf l) cl cr) := by
  cases l <;> cases r <;> simp [eval_Div, Ev.ret, signedOf]
  all_goals
    apply agrees_of_ok; intro v hv
    simp only [Res.bind_eq_ok_iff, Res.ok.injEq] at hv
    obtain ⟨_, ⟨c, hc, rfl⟩, rfl⟩ := hv
    simp only [jitRepr_U8, jitRepr_U16, jitRepr_U32, jitRepr_U64, jitRepr_I8, jitRepr_I16,
      jitRepr_I32, jitRepr_I64, Option.some.injEq] at hl hr ⊢
    subst hl hr
    refine ⟨_, rfl, ?_⟩
    first
    | exact div_unsigned_agrees dbg _ rfl rfl hc
    | exact div_signed_agrees dbg _ rfl rfl (by decide) hc

/-- non-vacuity: `-7i32 / 2i32 = -3` (truncation toward zero) completes; `1u8 / 0u8` is the loud stop. -/
example : eval_Div false (.I32 (.ofInt _ _ (-7))) (.I32 (.ofInt _ _ 2)) = .ok (.I32 (.ofInt _ _ (-3)))
    ∧ eval_Div false (.U8 (.ofInt _ _ 1)) (.U8 (.ofInt _ _ 0)) = .panic := by decide

theorem eval_Mod_agrees (dbg : Bool) (l r : IrValue) (cl cr : CVal)
    (hl : jitRepr l = some cl) (hr : jitRepr r = some cr) :
    Agrees (eval_Mod dbg l r) (cg_Mod dbg (signedOf l) cl cr) := by
  cases l <;> cases r <;> simp [eval_Mod, Ev.ret, signedOf]
  all_goals
    apply agrees_of_ok; intro v hv
    simp only [Res.bind_eq_ok_iff, Res.ok.injEq] at hv
    obtain ⟨_, ⟨c, hc, rfl⟩, rfl⟩ := hv
    simp only [jitRepr_U8, jitRepr_U16, jitRepr_U32, jitRepr_U64, jitRepr_I8, jitRepr_I16,
      jitRepr_I32, jitRepr_I64, Option.some.injEq] at hl hr ⊢
    subst hl hr
    refine ⟨_, rfl, ?_⟩
    first
    | exact rem_unsigned_agrees dbg _ rfl rfl hc
    | exact rem_signed_agrees dbg _ rfl rfl (by decide) hc

/-- non-vacuity: `-7i32 % 2i32 = -1` (sign of the dividend) completes; `i8::MIN % -1` is a loud stop
    in the evaluator although `srem` would yield 0. -/
example : eval_Mod false (.I32 (.ofInt _ _ (-7))) (.I32 (.ofInt _ _ 2)) = .ok (.I32 (.ofInt _ _ (-1)))
    ∧ eval_Mod false (.I8 (.ofInt _ _ (-128))) (.I8 (.ofInt _ _ (-1))) = .panic := by decide

/-- the flag matters: with the *other* flag the evaluator completes `-2i8 / 2i8 = -1` while the JIT
    computes `254 / 2 = 127`. -/
theorem Div_flag_matters :
    ¬ Agrees (eval_Div false (.I8 (.ofInt _ _ (-2))) (.I8 (.ofInt _ _ 2)))
        (cg_Div false (!signedOf (.I8 (.ofInt _ _ (-2)))) ⟨.I8, 254⟩ ⟨.I8, 2⟩)
    ∧ jitRepr (.I8 (.ofInt _ _ (-2))) = some ⟨.I8, 254⟩ ∧ jitRepr (.I8 (.ofInt _ _ 2)) = some ⟨.I8, 2⟩ := by
  refine ⟨?_, by decide, by decide⟩
  have h1 : eval_Div false (.I8 (.ofInt _ _ (-2))) (.I8 (.ofInt _ _ 2)) = .ok (.I8 (.ofInt _ _ (-1))) := by decide
  have h2 : cg_Div false (!signedOf (.I8 (.ofInt _ _ (-2)))) ⟨.I8, 254⟩ ⟨.I8, 2⟩ = .ok ⟨.I8, 127⟩ := by decide
  rw [h1, h2]
  exact not_agrees_of_ne (cv := ⟨.I8, 255⟩) (by decide) (by decide)

/-- likewise for `%`: `-3i8 % 2i8 = -1` against `253 % 2 = 1`. -/
theorem Mod_flag_matters :
    ¬ Agrees (eval_Mod false (.I8 (.ofInt _ _ (-3))) (.I8 (.ofInt _ _ 2)))
        (cg_Mod false (!signedOf (.I8 (.ofInt _ _ (-3)))) ⟨.I8, 253⟩ ⟨.I8, 2⟩)
    ∧ jitRepr (.I8 (.ofInt _ _ (-3))) = some ⟨.I8, 253⟩ ∧ jitRepr (.I8 (.ofInt _ _ 2)) = some ⟨.I8, 2⟩ := by
  refine ⟨?_, by decide, by decide⟩
  have h1 : eval_Mod false (.I8 (.ofInt _ _ (-3))) (.I8 (.ofInt _ _ 2)) = .ok (.I8 (.ofInt _ _ (-1))) := by decide
  have h2 : cg_Mod false (!signedOf (.I8 (.ofInt _ _ (-3)))) ⟨.I8, 253⟩ ⟨.I8, 2⟩ = .ok ⟨.I8, 1⟩ := by decide
  rw [h1, h2]
  exact not_agrees_of_ne (cv := ⟨.I8, 255⟩) (by decide) (by decide)

/-! ### floats and negation -/

section
variable [F : FloatOps]

theorem eval_FDiv_agrees (dbg : Bool) (l r : IrValue) (cl cr : CVal)
    (hl : jitRepr l = some cl) (hr : jitRepr r = some cr) :
    Agrees (eval_FDiv dbg l r) (cg_FDiv dbg cl cr) := by
  cases l <;> cases r <;> simp [eval_FDiv, Ev.ret]
  case F32.F32 x y =>
    rw [jitRepr_F32] at hl hr; cases hl; cases hr
    exact Or.inr ⟨_, _, rfl, jitRepr_F32 _, cg_FDiv_f32 dbg _ _⟩
  case F64.F64 x y =>
    rw [jitRepr_F64] at hl hr; cases hl; cases hr
    exact Or.inr ⟨_, _, rfl, jitRepr_F64 _, cg_FDiv_f64 dbg _ _⟩

/-- non-vacuity: on two `f64` operands the evaluator completes, with the same `div64` the JIT applies. -/
example (x y : F64) : eval_FDiv true (.F64 x) (.F64 y) = .ok (.F64 ⟨F.div64 x.bits y.bits⟩) := rfl

/-- unary `-`: Rust's checked/wrapping negation on the signed tags, `fneg` on floats; every other
    tag is a loud stop. -/
theorem eval_Negate_agrees (dbg : Bool) (x : IrValue) (cx : CVal) (hx : jitRepr x = some cx) :
    Agrees (eval_Negate dbg x) (cg_Negate dbg cx) := by
  cases x <;> simp [eval_Negate, Ev.ret]
  case F32 x =>
    rw [jitRepr_F32] at hx; cases hx
    exact Or.inr ⟨_, _, rfl, jitRepr_F32 _, cg_Negate_f32 dbg _⟩
  case F64 x =>
    rw [jitRepr_F64] at hx; cases hx
    exact Or.inr ⟨_, _, rfl, jitRepr_F64 _, cg_Negate_f64 dbg _⟩
  all_goals
    apply agrees_of_ok; intro v hv
    simp only [Res.bind_eq_ok_iff, Res.ok.injEq] at hv
    obtain ⟨_, ⟨c, hc, rfl⟩, rfl⟩ := hv
    have hb := RInt.neg_bv hc
    simp only [jitRepr_I8, jitRepr_I16, jitRepr_I32, jitRepr_I64, Option.some.injEq] at hx ⊢
    subst hx
    refine ⟨_, rfl, ?_⟩
    rw [hb]; exact cg_Negate_int _ _ rfl rfl _

/-- non-vacuity: `-(5i16) = -5`; `-(i16::MIN)` panics in debug and wraps to `MIN` in release. -/
example : eval_Negate true (.I16 (.ofInt _ _ 5)) = .ok (.I16 (.ofInt _ _ (-5)))
    ∧ eval_Negate true (.I16 (.ofInt _ _ (-32768))) = .panic
    ∧ eval_Negate false (.I16 (.ofInt _ _ (-32768))) = .ok (.I16 (.ofInt _ _ (-32768))) :=
  ⟨by rfl, by rfl, by rfl⟩

/-- `FloatCmp`: `Lt Le Gt Ge` compare after `as_f64` (an `f32` is promoted, which preserves every
    comparison: `[FloatLaws]`); `Eq`/`Ne` go through `PartialEq for IrValue` (`eq_ok_general`: a
    completed `==` is bit equality of integer-like operands or IEEE equality of floats of one type —
    on the pinned tree there is no float arm at all, so the evaluator stops loudly; an arm that
    compares `to_bits()` is NOT admitted: `bit_eq_is_not_fcmp_eq`).  `hty`, `hfl`: the verifier
    accepted the `fcmp` (equal float operand types). -/
theorem eval_FloatCmp_agrees [FloatLaws] (dbg : Bool) (cmp : FloatCmp) (l r : IrValue) (cl cr : CVal)
    (hl : jitRepr l = some cl) (hr : jitRepr r = some cr) (hty : cl.ty = cr.ty)
    (hfl : cl.ty.isFloat = true) :
    Agrees (eval_FloatCmp dbg cmp l r) (cg_FloatCmp dbg cmp cl cr) := by
  apply agrees_of_ok; intro v hv
  cases cmp <;> simp only [eval_FloatCmp, Ev.ret, Res.bind_eq_ok_iff, Res.pure_eq, Res.ok.injEq] at hv
  case Eq =>
    obtain ⟨b, hb', rfl⟩ := hv
    refine ⟨_, jitRepr_Bool _, ?_⟩
    cases eq_ok_general hb' with
    | int ty w hw hf x y rx ry hxy => rw [hl] at rx; cases rx; simp [hf] at hfl
    | f32 x y rx ry hxy =>
      subst rx ry hxy; rw [jitRepr_F32] at hl hr; cases hl; cases hr; rw [cg_FloatCmp_f32]; rfl
    | f64 x y rx ry hxy =>
      subst rx ry hxy; rw [jitRepr_F64] at hl hr; cases hl; cases hr; rw [cg_FloatCmp_f64]; rfl
  case Ne =>
    obtain ⟨b, ⟨b', hb', rfl⟩, rfl⟩ := hv
    refine ⟨_, jitRepr_Bool _, ?_⟩
    cases eq_ok_general hb' with
    | int ty w hw hf x y rx ry hxy => rw [hl] at rx; cases rx; simp [hf] at hfl
    | f32 x y rx ry hxy =>
      subst rx ry hxy; rw [jitRepr_F32] at hl hr; cases hl; cases hr; rw [cg_FloatCmp_f32]; rfl
    | f64 x y rx ry hxy =>
      subst rx ry hxy; rw [jitRepr_F64] at hl hr; cases hl; cases hr; rw [cg_FloatCmp_f64]; rfl
  all_goals
    obtain ⟨b, ⟨a, ha, c, hc, hb⟩, rfl⟩ := hv
    refine ⟨_, jitRepr_Bool _, ?_⟩
    rcases as_f64_ok ha with ⟨x, rfl, rfl⟩ | rfl <;> rcases as_f64_ok hc with ⟨y, rfl, rfl⟩ | rfl
    · rw [jitRepr_F32] at hl hr; cases hl; cases hr
      rw [cg_FloatCmp_f32]
      simp only [ROrd.lt, ROrd.le, ROrd.gt, ROrd.ge, Res.ok.injEq, FloatLaws.promote_lt,
        FloatLaws.promote_le] at hb
      rw [← hb]; rfl
    · rw [jitRepr_F32] at hl; rw [jitRepr_F64] at hr; cases hl; cases hr; cases hty
    · rw [jitRepr_F64] at hl; rw [jitRepr_F32] at hr; cases hl; cases hr; cases hty
    · rw [jitRepr_F64] at hl hr; cases hl; cases hr
      rw [cg_FloatCmp_f64]
      simp only [ROrd.lt, ROrd.le, ROrd.gt, ROrd.ge, Res.ok.injEq] at hb
      rw [← hb]; rfl

/-- non-vacuity: two `f32` operands satisfy the hypotheses and the evaluator completes with the
    promoted comparison. -/
example (x y : F32) :
    eval_FloatCmp true .Lt (.F32 x) (.F32 y) = .ok (.Bool (F.lt64 (F.promote x.bits) (F.promote y.bits)))
    ∧ (CVal.f32 x.bits).ty = (CVal.f32 y.bits).ty ∧ (CVal.f32 x.bits).ty.isFloat = true :=
  ⟨rfl, rfl, rfl⟩

/-! ### float equality: what an equality arm for floats may compute

`FloatOps` leaves IEEE-754 uninterpreted, so "bit equality is not `fcmp eq`" cannot be a theorem about
every instance.  `ieeeEq64`/`ieeeEq32` write IEEE-754 equality down on bit patterns (a NaN equals
nothing, the two zeros are equal, everything else is equal iff the bits are); `FloatEqLaws` is the
assumption that the instance's `eq` is that function (satisfiable: example below). -/

def isNaN64 (a : BitVec 64) : Bool :=
  (a &&& 0x7FF0000000000000#64 == 0x7FF0000000000000#64) && (a &&& 0x000FFFFFFFFFFFFF#64 != 0#64)
def isZero64 (a : BitVec 64) : Bool := a &&& 0x7FFFFFFFFFFFFFFF#64 == 0#64
def ieeeEq64 (a b : BitVec 64) : Bool := !isNaN64 a && !isNaN64 b && (a == b || (isZero64 a && isZero64 b))
def isNaN32 (a : BitVec 32) : Bool :=
  (a &&& 0x7F800000#32 == 0x7F800000#32) && (a &&& 0x007FFFFF#32 != 0#32)
def isZero32 (a : BitVec 32) : Bool := a &&& 0x7FFFFFFF#32 == 0#32
def ieeeEq32 (a b : BitVec 32) : Bool := !isNaN32 a && !isNaN32 b && (a == b || (isZero32 a && isZero32 b))

class FloatEqLaws : Prop where
  eq64_ieee : ∀ a b, F.eq64 a b = ieeeEq64 a b
  eq32_ieee : ∀ a b, F.eq32 a b = ieeeEq32 a b

omit F in
/-- **the decision**: bit equality (`l.to_bits() == r.to_bits()`) coincides with IEEE equality on a
    pair of `f64` bit patterns exactly when the pair is neither one NaN taken twice nor two different
    non-NaN zeros (`+0.0` with `-0.0`). -/
theorem bit_eq_eq_ieee_iff (a b : BitVec 64) :
    (a == b) = ieeeEq64 a b ↔
      ¬ (a = b ∧ isNaN64 a = true)
      ∧ ¬ (a ≠ b ∧ isNaN64 a = false ∧ isNaN64 b = false ∧ isZero64 a = true ∧ isZero64 b = true) := by
  by_cases hab : a = b
  · subst hab; cases hn : isNaN64 a <;> simp [ieeeEq64, hn]
  · cases hna : isNaN64 a <;> cases hnb : isNaN64 b <;> cases hza : isZero64 a <;> cases hzb : isZero64 b <;>
      simp [ieeeEq64, hab, hna, hnb, hza, hzb]

/-- witnesses of both exceptional classes (`+0.0`/`-0.0`, and the default quiet NaN with itself). -/
example : ((0#64 == 0x8000000000000000#64) = false ∧ ieeeEq64 0#64 0x8000000000000000#64 = true)
    ∧ ((0x7FF8000000000000#64 == 0x7FF8000000000000#64) = true
        ∧ ieeeEq64 0x7FF8000000000000#64 0x7FF8000000000000#64 = false) := by decide

/-- An evaluator whose `FloatCmp::Eq` arm completes with BIT equality does not agree with the
    compiled `fcmp eq`: at `(+0.0, -0.0)` it completes with `false`, the JIT computes `true`; at
    `(NaN, NaN)` it completes with `true`, the JIT computes `false` (and `Ne` mirrored).  This is what
    `eq_ok_general` refuses to justify. -/
theorem bit_eq_is_not_fcmp_eq [FloatEqLaws] (dbg : Bool) :
    ¬ Agrees (.ok (.Bool (0#64 == 0x8000000000000000#64)))
        (cg_FloatCmp dbg .Eq (CVal.f64 0#64) (CVal.f64 0x8000000000000000#64))
    ∧ ¬ Agrees (.ok (.Bool (0x7FF8000000000000#64 == 0x7FF8000000000000#64)))
        (cg_FloatCmp dbg .Eq (CVal.f64 0x7FF8000000000000#64) (CVal.f64 0x7FF8000000000000#64))
    ∧ ¬ Agrees (.ok (.Bool (!(0x7FF8000000000000#64 == 0x7FF8000000000000#64))))
        (cg_FloatCmp dbg .Ne (CVal.f64 0x7FF8000000000000#64) (CVal.f64 0x7FF8000000000000#64)) := by
  refine ⟨?_, ?_, ?_⟩ <;> rw [cg_FloatCmp_f64] <;>
    simp only [floatCmpSpec64, FloatEqLaws.eq64_ieee] <;>
    exact not_agrees_of_ne (jitRepr_Bool _) (by decide)

/-- non-vacuity: `FloatEqLaws` is satisfiable (an instance whose equalities ARE the IEEE ones). -/
example : ∃ F : FloatOps, @FloatEqLaws F :=
  let F0 : FloatOps :=
   { add32 := fun a _ => a, sub32 := fun a _ => a, mul32 := fun a _ => a, div32 := fun a _ => a,
     neg32 := id, add64 := fun a _ => a, sub64 := fun a _ => a, mul64 := fun a _ => a,
     div64 := fun a _ => a, neg64 := id, promote := fun a => a.setWidth 64, demote := fun a => a.setWidth 32,
     eq64 := ieeeEq64, lt64 := fun _ _ => false, le64 := fun _ _ => false,
     eq32 := ieeeEq32, lt32 := fun _ _ => false, le32 := fun _ _ => false }
  ⟨F0, @FloatEqLaws.mk F0 (fun _ _ => rfl) (fun _ _ => rfl)⟩

/-- The positive side, for EVERY pair of float bit patterns and without any assumption on the
    operand tags: if the evaluator's `FloatCmp::Eq` / `Ne` completes on two `f64` (`f32`) operands, it
    completes with the instance's IEEE `eq` (its negation) — never with another answer.  On the
    pinned tree the premise is never met (there is no float arm; "float equality stops" is
    deliberately NOT a theorem: a correct IEEE arm must keep this module checking). -/
theorem float_eq_completes_ieee (dbg : Bool) (x y : F64) (v : IrValue) :
    (eval_FloatCmp dbg .Eq (.F64 x) (.F64 y) = .ok v → v = .Bool (F.eq64 x.bits y.bits))
    ∧ (eval_FloatCmp dbg .Ne (.F64 x) (.F64 y) = .ok v → v = .Bool (!F.eq64 x.bits y.bits)) := by
  constructor <;> intro hv <;>
    simp only [eval_FloatCmp, Ev.ret, Res.bind_eq_ok_iff, Res.pure_eq, Res.ok.injEq] at hv
  · obtain ⟨b, hb', rfl⟩ := hv
    cases eq_ok_general hb' with
    | int ty w hw hf x' y' rx ry hxy =>
      have h1 := congrArg (Option.map (·.ty)) rx
      simp only [jitRepr_F64, Option.map_some, CVal.f64_ty, CVal.ofBv_ty, Option.some.injEq] at h1
      subst h1; exact absurd hf (by decide)
    | f32 x' y' rx ry hxy => cases rx
    | f64 x' y' rx ry hxy => cases rx; cases ry; rw [hxy]
  · obtain ⟨b, ⟨b', hb', rfl⟩, rfl⟩ := hv
    cases eq_ok_general hb' with
    | int ty w hw hf x' y' rx ry hxy =>
      have h1 := congrArg (Option.map (·.ty)) rx
      simp only [jitRepr_F64, Option.map_some, CVal.f64_ty, CVal.ofBv_ty, Option.some.injEq] at h1
      subst h1; exact absurd hf (by decide)
    | f32 x' y' rx ry hxy => cases rx
    | f64 x' y' rx ry hxy => cases rx; cases ry; rw [hxy]

/-! ### summary: every scalar arm -/

/-- the ten scalar instructions of `lir::eval` / `FuncGen::instruction`. -/
inductive ScalarInstr
  | IntCmp (cmp : IntCmp) | FloatCmp (cmp : FloatCmp)
  | Not | Negate | Add | Sub | Mul | Div | FDiv | Mod
  deriving DecidableEq, Repr

/-- the generated evaluator arm (unary arms ignore `r`). -/
def ScalarInstr.eval (dbg : Bool) : ScalarInstr → IrValue → IrValue → Res IrValue
  | .IntCmp cmp, l, r => eval_IntCmp dbg cmp l r
  | .FloatCmp cmp, l, r => eval_FloatCmp dbg cmp l r
  | .Not, l, _ => eval_Not dbg l
  | .Negate, l, _ => eval_Negate dbg l
  | .Add, l, r => eval_Add dbg l r
  | .Sub, l, r => eval_Sub dbg l r
  | .Mul, l, r => eval_Mul dbg l r
  | .Div, l, r => eval_Div dbg l r
  | .FDiv, l, r => eval_FDiv dbg l r
  | .Mod, l, r => eval_Mod dbg l r

/-- the generated codegen arm on CLIF semantics; `signed` is the instruction's flag. -/
def ScalarInstr.jit (dbg : Bool) (signed : Bool) : ScalarInstr → CVal → CVal → Res CVal
  | .IntCmp cmp, l, r => cg_IntCmp dbg cmp l r
  | .FloatCmp cmp, l, r => cg_FloatCmp dbg cmp l r
  | .Not, l, _ => cg_Not dbg l
  | .Negate, l, _ => cg_Negate dbg l
  | .Add, l, r => cg_Add dbg l r
  | .Sub, l, r => cg_Sub dbg l r
  | .Mul, l, r => cg_Mul dbg l r
  | .Div, l, r => cg_Div dbg signed l r
  | .FDiv, l, r => cg_FDiv dbg l r
  | .Mod, l, r => cg_Mod dbg signed l r

/-- what Cranelift's verifier checked for the two comparison instructions (the only arms where
    the evaluator accepts more than the verifier). -/
def ScalarInstr.Verified : ScalarInstr → CVal → CVal → Prop
  | .IntCmp _, l, r => l.ty = r.ty ∧ l.ty.isFloat = false
  | .FloatCmp _, l, r => l.ty = r.ty ∧ l.ty.isFloat = true
  | _, _, _ => True

/-- **T1.** For every scalar instruction, all operand values of every tag and both build
    profiles: the evaluator panics, or completes with the value the JIT computes. -/
theorem eval_agrees_or_panics [FloatLaws] (dbg : Bool) (i : ScalarInstr) (l r : IrValue) (cl cr : CVal)
    (hl : jitRepr l = some cl) (hr : jitRepr r = some cr) (hv : i.Verified cl cr) :
    Agrees (i.eval dbg l r) (i.jit dbg (signedOf l) cl cr) := by
  cases i
  case IntCmp cmp => exact eval_IntCmp_agrees dbg cmp l r cl cr hl hr hv.1 hv.2
  case FloatCmp cmp => exact eval_FloatCmp_agrees dbg cmp l r cl cr hl hr hv.1 hv.2
  case Not => exact eval_Not_agrees dbg l cl hl
  case Negate => exact eval_Negate_agrees dbg l cl hl
  case Add => exact eval_Add_agrees dbg l r cl cr hl hr
  case Sub => exact eval_Sub_agrees dbg l r cl cr hl hr
  case Mul => exact eval_Mul_agrees dbg l r cl cr hl hr
  case Div => exact eval_Div_agrees dbg l r cl cr hl hr
  case FDiv => exact eval_FDiv_agrees dbg l r cl cr hl hr
  case Mod => exact eval_Mod_agrees dbg l r cl cr hl hr

/-- non-vacuity: the hypotheses are satisfiable for every instruction (each `IrValue` has a JIT
    representation; equal integer operands are `Verified` for `IntCmp`, equal float operands for every
    other instruction), and an arm completes. -/
example (i : ScalarInstr) (x : F64) :
    (∃ v cl, jitRepr v = some cl ∧ i.Verified cl cl)
    ∧ ScalarInstr.eval true .Add (.U8 (.ofInt _ _ 1)) (.U8 (.ofInt _ _ 2)) = .ok (.U8 (.ofInt _ _ 3)) := by
  refine ⟨?_, by rfl⟩
  cases i
  case IntCmp cmp => exact ⟨.U8 (.ofInt _ _ 1), _, jitRepr_U8 _, rfl, rfl⟩
  all_goals exact ⟨.F64 x, _, jitRepr_F64 x, by simp [ScalarInstr.Verified, CTy.isFloat]⟩

end
end RotoV.C20
