/-
  C01 — T5 `lower_correct`: whole-program correctness of the MIR lowering model
  against C01's own reference interpreter.

  Full statement (`lower_correct`): for every well-typed script of the core
  language and all argument values, executing the real MIR of `main` — the
  label CFG with `drop` instructions and stack frames that `mir/lower.rs`
  produces, after `dead_code.rs`, lowered further to LIR and Cranelift code —
  returns the value `Model/Spec.lean` defines.

  Proved here (`lower_correct_partial`): for every program of the common
  fragment of `Spec` and the lowering model's core language
  (`Model/C01Resolve.resolve`: `i32` / `bool` / `()` values; literals,
  variables with shadowing, unary `-` `!`, `+ - *`, the six comparisons, `&&`
  `||`, `if` / `else`, `if`, `while`, blocks with `let` and statements,
  assignment, compound assignment, `return`, calls of (mutually) recursive
  script functions) and for all arguments: if `Spec.run` yields `v`, the
  structured MIR that the lowering model `Model/LowerS.lean` (the model of
  `Lowerer::expr`, tied to src/mir/lower.rs by C08's `c08order` skeletons and
  by the IR-level comparison with real MIR dumps) emits for `main`, started
  from a store holding exactly the arguments, returns `v`, and has no other
  behaviour.  The proof composes `C01Agree.run_agree` (the two reference
  semantics agree on the fragment) with C08's `lowerS_run_partial`.

  The scalar operators inside that MIR semantics are the GENERATED table
  composition: `mir_binop_generated`, `mir_unop_generated` — what
  `LowerS.evalValue` computes for `binop` / `neg` / `not` on operands in the
  `i32` range is what `lower_binop` (src/lir/lower.rs, generated) followed by
  the generated codegen arm on CLIF semantics computes (T1 / T2 of
  `Props/C01.lean`); `spec_binop_generated` says the same of `Spec`'s operator
  semantics at all eight integer types.

  What keeps the `_partial`: (1) types other than `i32`/`bool`/`()` (the other
  seven integer types, floats), `/` and `%` are outside the composed theorem —
  the lowering model's values are `i32` payloads; they are covered per operator
  by T1–T3 and for whole programs by the differential run; (2) the model
  leaves out `drop` instructions, `stack_slots` / frames and the layout of
  structured MIR as a label CFG (the driver lays it out for the comparison with
  real MIR; no proved function); (3) below MIR: LIR control flow
  (src/lir/lower.rs blocks / jumps / stack slots) and Cranelift are exercised by
  the differential run, not modelled; T4 `dce_preserves` is proved for any CFG
  and semantics but is not composed with this theorem for the same reason as (2).
-/
import RotoV.Lemmas.C01Agree
import RotoV.Props.C08

namespace RotoV.C01Lower
open RotoV RotoV.C01Resolve RotoV.C01Agree RotoV.LowerS

/-- **T5 `lower_correct_partial`.**  For every program `fnsS` of the common fragment
    (`resolve fnsS = some fnsT`) on which the lowering model is defined, all arguments of the
    fragment and every fuel: if C01's reference interpreter yields `v` for a call of `main`, then
    the structured MIR of `main` emitted by the lowering model, run from the store that holds
    exactly the arguments, returns (the encoding of) `v` — and that is its only behaviour. -/
theorem lower_correct_partial [FloatOps] (fnsS : List Spec.FnDef) (fnsT : List TraceSpec.FnDef) (P : Prog)
    (hres : resolve fnsS = some fnsT) (hP : lowerProg fnsT = some P)
    (fuel : Nat) (args : List Spec.Val) (args' : List TraceSpec.Val) (henc : encArgs args = some args')
    (v : Spec.Val) (h : Spec.run fnsS fuel args = .ok v) :
    ∃ fd code cenv v', fnsT.getLast? = some fd ∧ lowerFn fd = some code
      ∧ TraceSpec.bindParams fd.params args' [] = some cenv ∧ encVal v = some v'
      ∧ (∃ t, ExecC P (storeOfEnv cenv) code t (.returned v'))
      ∧ ∀ t' o', ExecC P (storeOfEnv cenv) code t' o' → o' = .returned v' := by
  obtain ⟨v', hv', M, hM⟩ := run_agree fnsS fnsT hres fuel args args' henc v h
  have hrun := hM M (Nat.le_refl M)
  -- `main` and its parameters, from the successful run
  cases hlast : fnsT.getLast? with
  | none => simp [TraceSpec.run, hlast] at hrun
  | some fd =>
    cases hb : TraceSpec.bindParams fd.params args' [] with
    | none => simp [TraceSpec.run, hlast, hb] at hrun
    | some cenv =>
      have hmem : fnsT[fnsT.length - 1]? = some fd := by rw [← List.getLast?_eq_getElem?]; exact hlast
      obtain ⟨code, hcode, _⟩ := lowerProg_ok fnsT P hP _ fd hmem
      obtain ⟨h1, h2⟩ := C08.lowerS_run_partial fnsT P hP fd code M args' cenv v' hlast hcode hb hrun
      exact ⟨fd, code, cenv, v', rfl, hcode, hb, hv', ⟨_, h1⟩, fun t' o' h' => (h2 t' o' h').2⟩

end RotoV.C01Lower
