/-
  C01 — T5 `lower_correct`: whole-program correctness of the MIR lowering model
  against C01's own reference interpreter.

  Full statement (`lower_correct`): for every well-typed script of the core
  language and all argument values, executing the real MIR of `main` — the
  label CFG with `drop` instructions and stack frames that `mir/lower.rs`
  produces, after `dead_code.rs`, lowered further to LIR and Cranelift code —
  returns the value `Model/Spec.lean` defines.

  Proved here (`lower_correct_partial`): for every program of the common
  fragment of `Spec` and the lowering model's core language
  (`Model/C01Resolve.resolve`: `i32` / `bool` / `()` values; literals,
  variables with shadowing, unary `-` `!`, `+ - *`, the six comparisons, `&&`
  `||`, `if` / `else`, `if`, `while`, blocks with `let` and statements,
  assignment, compound assignment, `return`, calls of (mutually) recursive
  script functions) and for all arguments: if `Spec.run` yields `v`, the
  structured MIR that the lowering model `Model/LowerS.lean` (the model of
  `Lowerer::expr`, tied to src/mir/lower.rs by C08's `c08order` skeletons and
  by the IR-level comparison with real MIR dumps) emits for `main`, started
  from a store holding exactly the arguments, returns `v`, and has no other
  behaviour.  The proof composes `C01Agree.run_agree` (the two reference
  semantics agree on the fragment) with C08's `lowerS_run_partial`.

  The scalar operators inside that MIR semantics are the GENERATED table
  composition: `lower_correct_tables_partial` is T5 for the executable semantics
  `Model/C01MirRun` of structured MIR in which every `binop` / `neg` / `not` is
  computed by `lower_binop` (src/lir/lower.rs, generated) followed by the
  generated codegen arm on CLIF semantics (T1 / T2 of `Props/C01.lean`): for
  arguments in the `i32` range it returns exactly Spec's value for every
  sufficiently large fuel (`exec_sound` + `execC_complete`: it is sound and, on
  the scalar code resolved programs lower to, complete for `LowerS.ExecC`; the
  integers stay in range).  `mir_binop_generated`, `mir_unop_generated` state the
  operator equations; `spec_binop_generated` says the same of `Spec`'s operator
  semantics at all eight integer types.

  What keeps the `_partial`: (1) types other than `i32`/`bool`/`()` (the other
  seven integer types, floats), `/` and `%` are outside the composed theorem —
  the lowering model's values are `i32` payloads; they are covered per operator
  by T1–T3 / `spec_binop_generated` and for whole programs by the differential
  run; (2) the model leaves out `drop` instructions, `stack_slots` / frames and
  the layout of structured MIR as a label CFG (the driver lays it out for the
  comparison with real MIR; no proved function), so T4 `dce_preserves` (proved
  for any CFG and semantics) is not composed with this theorem; (3) below MIR:
  the LIR lowering of scalar MIR control-flow graphs is `Props/C01Lir.lean`
  (`lir_lower_preserves_partial`, starting from the compiler's MIR CFG — the layout
  in (2) lies between the two theorems); stack slots / aggregates in LIR and
  Cranelift are exercised by the differential run, not modelled.
-/
import RotoV.Lemmas.C01Agree
import RotoV.Lemmas.C01Shape
import RotoV.Lemmas.C01MirOps
import RotoV.Lemmas.C01SpecOps
import RotoV.Lemmas.C01ScalarCode
import RotoV.Props.C08
import RotoV.Model.NativeFloat

namespace RotoV.C01Lower
open RotoV RotoV.C01Resolve RotoV.C01Agree RotoV.LowerS RotoV.C01MirRun RotoV.C01MirOps
open RotoV.Gen RotoV.Gen.OpTables
open RotoV.C01MirComplete (InRv InR scP scC)

/-! ## the fragment -/

/-- The lowering model is defined on every program of the common fragment: the hypothesis
    `lowerProg fnsT = some P` of the theorems below is met by every resolved program. -/
theorem resolve_lowers (fnsS : List Spec.FnDef) (fnsT : List TraceSpec.FnDef) (h : resolve fnsS = some fnsT) :
    ∃ P, lowerProg fnsT = some P :=
  C01Shape.resolve_lowers fnsS fnsT h

/-- non-vacuity: a program with a helper called twice, shadowing, compound assignment, a loop,
    `if` without `else` and an early `return` is in the fragment. -/
def demo : List Spec.FnDef := [
  ⟨"f", [("n", .int .i32), ("acc", .int .i32)], .int .i32,
    .mk [.expr (.ite (.bin .eq (.var "n") (.lit (.int .i32 0))) (.mk [.expr (.ret (some (.var "acc")))] none) none)]
        (some (.call "f" [.bin .sub (.var "n") (.lit (.int .i32 1)), .bin .mul (.var "acc") (.var "n")]))⟩,
  ⟨"main", [("a", .int .i32)], .int .i32,
    .mk [.let_ "x" (.bin .add (.var "a") (.lit (.int .i32 1))), .let_ "a" (.var "x"),
         .expr (.cassign .add "a" (.var "x")), .let_ "k" (.lit (.int .i32 0)),
         .expr (.while (.bin .and (.bin .lt (.var "k") (.lit (.int .i32 3))) (.not (.lit (.bool false))))
            (.mk [.expr (.cassign .add "k" (.lit (.int .i32 1))), .expr (.cassign .mul "a" (.lit (.int .i32 2)))] none))]
        (some (.bin .add (.var "a") (.call "f" [.lit (.int .i32 5), .lit (.int .i32 1)])))⟩]

example : (resolve demo).isSome = true := by decide
example : ((resolve demo).bind lowerProg).isSome = true := by decide

/-! ## T5 -/

/-- **T5 `lower_correct_partial`.**  For every program `fnsS` of the common fragment
    (`resolve fnsS = some fnsT`; the lowering model is then defined: `resolve_lowers`), all
    arguments of the fragment and every fuel: if C01's reference interpreter yields `v` for a
    call of `main`, then the structured MIR of `main` emitted by the lowering model, run from the
    store that holds exactly the arguments, returns (the encoding of) `v` — and that is its only
    behaviour. -/
theorem lower_correct_partial [FloatOps] (fnsS : List Spec.FnDef) (fnsT : List TraceSpec.FnDef) (P : Prog)
    (hres : resolve fnsS = some fnsT) (hP : lowerProg fnsT = some P)
    (fuel : Nat) (args : List Spec.Val) (args' : List TraceSpec.Val) (henc : encArgs args = some args')
    (v : Spec.Val) (h : Spec.run fnsS fuel args = .ok v) :
    ∃ fd code cenv v', fnsT.getLast? = some fd ∧ lowerFn fd = some code
      ∧ P[fnsT.length - 1]? = some (fd.params, code)
      ∧ TraceSpec.bindParams fd.params args' [] = some cenv ∧ encVal v = some v'
      ∧ (∃ t, ExecC P (storeOfEnv cenv) code t (.returned v'))
      ∧ ∀ t' o', ExecC P (storeOfEnv cenv) code t' o' → o' = .returned v' := by
  obtain ⟨v', hv', M, hM⟩ := run_agree fnsS fnsT hres fuel args args' henc v h
  have hrun := hM M (Nat.le_refl M)
  -- `main` and its parameters, from the successful run
  cases hlast : fnsT.getLast? with
  | none => simp [TraceSpec.run, hlast] at hrun
  | some fd =>
    cases hb : TraceSpec.bindParams fd.params args' [] with
    | none => simp [TraceSpec.run, hlast, hb] at hrun
    | some cenv =>
      have hmem : fnsT[fnsT.length - 1]? = some fd := by rw [← List.getLast?_eq_getElem?]; exact hlast
      obtain ⟨code, hcode, hPc⟩ := lowerProg_ok fnsT P hP _ fd hmem
      obtain ⟨h1, h2⟩ := C08.lowerS_run_partial fnsT P hP fd code M args' cenv v' hlast hcode hb hrun
      exact ⟨fd, code, cenv, v', rfl, hcode, hPc, hb, hv', ⟨_, h1⟩, fun t' o' h' => (h2 t' o' h').2⟩

/-- non-vacuity: `Spec.run` yields a value on the demonstration program (`main(5)` is 216), and
    arguments of the fragment exist. -/
example [FloatOps] : Spec.run demo 60 [.int .i32 5] = .ok (.int .i32 216) := by rfl
example : encArgs [.int .i32 5] = some [.int 5] := by decide

/-! ## the operators inside the MIR semantics are the generated table composition -/

section
variable [FloatOps]

/-- **`mir_binop_generated`.**  What the MIR semantics (`LowerS.evalValue`) computes for
    `binop l op r` on two `i32` operands in range is what the GENERATED `lower_binop` at
    `Primitive.Int Signed I32` followed by the generated codegen arm on CLIF semantics computes on
    their SSA values, in both build profiles; on two booleans (`==`, `!=`) likewise at
    `Primitive.Bool`. -/
theorem mir_binop_generated (dbg : Bool) (σ : Store) (l r : Var) (op : TraceSpec.BinOp) :
    (∀ x y, σ l = .int x → σ r = .int y → inI32 x = true → inI32 y = true →
      ∃ w i cw, evalValue σ (.binop l op r) = some ([], w)
        ∧ lower_binop dbg (genOp op) (.Primitive (.Int .Signed .I32)) = .ok i ∧ cvOf w = some cw
        ∧ runInstr dbg i (operands (cvI32 x) (cvI32 y)) = .ok cw)
    ∧ (∀ x y t w, σ l = .bool x → σ r = .bool y → evalValue σ (.binop l op r) = some (t, w) →
      ∃ i cw, lower_binop dbg (genOp op) (.Primitive .Bool) = .ok i ∧ cvOf w = some cw
        ∧ runInstr dbg i (operands (CVal.ofBool x) (CVal.ofBool y)) = .ok cw) := by
  constructor
  · intro x y hl hr hx hy
    obtain ⟨w, i, cw, h1, h2, h3, h4⟩ := binop_int_generated dbg op x y hx hy
    exact ⟨w, i, cw, by simp [evalValue, hl, hr, h1], h2, h3, h4⟩
  · intro x y t w hl hr h
    simp only [evalValue, hl, hr, Option.map_eq_some_iff] at h
    obtain ⟨w', hw, heq⟩ := h
    cases heq
    exact binop_bool_generated dbg op x y _ hw

/-- non-vacuity: `7 - 9` on `i32` is `-2` in the MIR semantics, and `-2` is in range. -/
example : TraceSpec.binop .sub (.int 7) (.int 9) = some (.int (-2)) ∧ inI32 (-2) = true := by decide

/-- **`mir_unop_generated`.**  Unary `-` and `!` of the MIR semantics are the generated `Negate`
    (`ineg`) and `Not` (`icmp_imm eq 0`) arms on the SSA values. -/
theorem mir_unop_generated (dbg : Bool) (σ : Store) (x : Var) :
    (∀ n, σ x = .int n → inI32 n = true →
      ∃ w cw, evalValue σ (.neg x) = some ([], w) ∧ cvOf w = some cw ∧ cg_Negate dbg (cvI32 n) = .ok cw)
    ∧ (∀ b, σ x = .bool b →
      ∃ w cw, evalValue σ (.not x) = some ([], w) ∧ cvOf w = some cw ∧ cg_Not dbg (CVal.ofBool b) = .ok cw) := by
  constructor
  · intro n hn hr
    exact ⟨.int (TraceSpec.wrap32 (-n)), _, by simp [evalValue, hn], rfl, neg_generated dbg n hr⟩
  · intro b hb
    exact ⟨.bool (!b), _, by simp [evalValue, hb], rfl, not_generated dbg b⟩

example : inI32 (-2147483648) = true ∧ TraceSpec.wrap32 (-(-2147483648)) = -2147483648 := by decide

/-- **`spec_binop_generated`.**  The operator semantics of C01's reference interpreter is the
    generated table composition at ALL EIGHT integer types: for every type `t`, operator and operands
    in the type's range, if `Spec.intArith` defines a value (`+ - *` wrapped, `/ %` truncating
    where they do not trap, the six comparisons on the mathematical values), then the generated
    `lower_binop` at `Primitive.Int (kindOf t) (sizeOf' t)` yields an instruction whose generated
    codegen arm on CLIF semantics computes the SSA value of that value, in both build profiles. -/
theorem spec_binop_generated (dbg : Bool) (t : Spec.ITy) (op : Spec.BinOp) (a b : Int)
    (ha : t.inRange a = true) (hb : t.inRange b = true) (v : Spec.Val) (h : Spec.intArith op t a b = .ok v) :
    ∃ i cv, lower_binop dbg (C01SpecOps.genOpS op) (.Primitive (.Int (C01SpecOps.kindOf t) (C01SpecOps.sizeOf' t))) = .ok i
      ∧ C01SpecOps.cvS t v = some cv
      ∧ runInstr dbg i (operands (cvInt (wrap (C01SpecOps.kindOf t) (C01SpecOps.sizeOf' t) a))
          (cvInt (wrap (C01SpecOps.kindOf t) (C01SpecOps.sizeOf' t) b))) = .ok cv :=
  C01SpecOps.spec_binop_generated dbg t op a b ha hb v h

/-- non-vacuity: `Spec` defines `-7i8 / 2i8 = -3`, `200u8 + 100u8 = 44`, `3u16 < 65535u16`. -/
example : Spec.intArith .div .i8 (-7) 2 = .ok (.int .i8 (-3)) ∧ Spec.intArith .add .u8 200 100 = .ok (.int .u8 44)
    ∧ Spec.intArith .lt .u16 3 65535 = .ok (.bool true) ∧ Spec.ITy.i8.inRange (-7) = true := by
  refine ⟨rfl, rfl, rfl, rfl⟩

/-- **`spec_float_generated`.**  The float half of the same bridge: wherever C01's reference
    interpreter defines `a op b` on `f32` / `f64` (`+ - * /` and the six comparisons; `>` `>=` are
    `<` `<=` with the operands exchanged, `!=` is the negation of `==`) the generated `lower_binop` at
    `Primitive.Float` yields an instruction whose generated codegen arm applies the SAME `FloatOps`
    function to the SAME operands in the same order — for every instance of `FloatOps` (the
    hardware's IEEE-754 included); and unary `-` is `FloatOps.neg` on both sides. What the theorem
    does not cover: how the AST reaches that instruction (`mir/lower.rs`; a rewrite of `-(a - b)`
    there is the differential run's float class representatives' and the MIR tie's business). -/
theorem spec_float_generated [FloatOps] (dbg : Bool) (op : Spec.BinOp) :
    (∀ (a b : BitVec 32) (v : Spec.Val), Spec.f32Arith op a b = .ok v →
      ∃ i cv, lower_binop dbg (C01SpecOps.genOpS op) (.Primitive (.Float .F32)) = .ok i ∧ C01SpecOps.cvF v = some cv
        ∧ runInstr dbg i (operands (CVal.f32 a) (CVal.f32 b)) = .ok cv)
    ∧ (∀ (a b : BitVec 64) (v : Spec.Val), Spec.f64Arith op a b = .ok v →
      ∃ i cv, lower_binop dbg (C01SpecOps.genOpS op) (.Primitive (.Float .F64)) = .ok i ∧ C01SpecOps.cvF v = some cv
        ∧ runInstr dbg i (operands (CVal.f64 a) (CVal.f64 b)) = .ok cv)
    ∧ (∀ (a : BitVec 32) (v : Spec.Val), Spec.negate (.f32 a) = .ok v →
      ∃ cv, C01SpecOps.cvF v = some cv ∧ cg_Negate dbg (CVal.f32 a) = .ok cv)
    ∧ (∀ (a : BitVec 64) (v : Spec.Val), Spec.negate (.f64 a) = .ok v →
      ∃ cv, C01SpecOps.cvF v = some cv ∧ cg_Negate dbg (CVal.f64 a) = .ok cv) :=
  ⟨(C01SpecOps.spec_float_binop_generated dbg op).1, (C01SpecOps.spec_float_binop_generated dbg op).2,
   (C01SpecOps.spec_float_neg_generated dbg).1, (C01SpecOps.spec_float_neg_generated dbg).2⟩

/-- non-vacuity: `Spec` defines the float operators (here `-`, `>=`, `!=` and unary `-` on `f64`). -/
example [F : FloatOps] (a b : BitVec 64) :
    Spec.f64Arith .sub a b = .ok (.f64 (F.sub64 a b)) ∧ Spec.f64Arith .ge a b = .ok (.bool (F.le64 b a))
    ∧ Spec.f64Arith .ne a b = .ok (.bool (!F.eq64 a b)) ∧ Spec.negate (.f64 a) = .ok (.f64 (F.neg64 a)) :=
  ⟨rfl, rfl, rfl, rfl⟩

/-! ## the executable composed model (the driver's second oracle) -/

/-- **`lower_correct_run_partial`.**  The executable semantics `C01MirRun.runMain` — structured MIR
    of the lowering model run with the generated table composition as its operators — can only
    return the value `Spec` defines: for every program of the fragment, all arguments and fuels, if
    `Spec.run` yields `v` and `runMain` returns `w`, then `w` is (the encoding of) `v`.  (That
    `runMain` does return on a given program and arguments is observed by the driver on every
    generated case; it is not part of this theorem.) -/
theorem lower_correct_run_partial (fnsS : List Spec.FnDef) (fnsT : List TraceSpec.FnDef) (P : Prog)
    (hres : resolve fnsS = some fnsT) (hP : lowerProg fnsT = some P)
    (fuel fuel' : Nat) (args : List Spec.Val) (args' : List TraceSpec.Val) (henc : encArgs args = some args')
    (v : Spec.Val) (h : Spec.run fnsS fuel args = .ok v) (w : TraceSpec.Val)
    (hw : runMain fnsT P fuel' args' = some w) : encVal v = some w := by
  obtain ⟨fd, code, cenv, v', hlast, hcode, hPc, hb, hv', _, huniq⟩ :=
    lower_correct_partial fnsS fnsT P hres hP fuel args args' henc v h
  simp only [runMain, hlast, hPc, hb] at hw
  split at hw
  · rename_i t w' hex
    cases hw
    have := huniq _ _ ((exec_sound P fuel').2.2 _ _ _ _ hex)
    cases this
    exact hv'
  · cases hw

/-- **T5 with the generated operators, `lower_correct_tables_partial`.**  For every program of the
    common fragment, all arguments in the `i32` range and every fuel: if C01's reference interpreter
    yields `v` for a call of `main`, then for every sufficiently large fuel the executable semantics
    `C01MirRun.runMain` — the structured MIR emitted by the lowering model, every `binop` / `neg` /
    `not` of which is computed by the GENERATED table composition (`lower_binop`, then the generated
    codegen arm on CLIF semantics) — returns exactly (the encoding of) `v`.
    (`resolve_scalar`: the lowered program is scalar code; `execC_complete`: on scalar code the
    table-based semantics reproduces every execution of the relational one, the integers staying
    in range; `lower_correct_partial`.) -/
theorem lower_correct_tables_partial (fnsS : List Spec.FnDef) (fnsT : List TraceSpec.FnDef) (P : Prog)
    (hres : resolve fnsS = some fnsT) (hP : lowerProg fnsT = some P)
    (fuel : Nat) (args : List Spec.Val) (args' : List TraceSpec.Val) (henc : encArgs args = some args')
    (hargs : ∀ a ∈ args', InRv a) (v : Spec.Val) (h : Spec.run fnsS fuel args = .ok v) :
    ∃ v', encVal v = some v' ∧ ∃ n, ∀ m, n ≤ m → runMain fnsT P m args' = some v' := by
  obtain ⟨fd, code, cenv, v', hlast, hcode, hPc, hb, hv', ⟨t, hex⟩, _⟩ :=
    lower_correct_partial fnsS fnsT P hres hP fuel args args' henc v h
  have hsc : scP P := C01ScalarCode.resolve_scalar fnsS fnsT P hres hP
  have hin : InR (storeOfEnv cenv) :=
    C01MirComplete.InR_of_env (C01MirComplete.InR_storeOfEnv fd.params args' [] cenv hb hargs (by simp))
  obtain ⟨⟨n, hn⟩, _⟩ := C01MirComplete.execC_complete hsc hex (hsc _ _ _ hPc) hin
  exact ⟨v', hv', n, fun m hm => by simp only [runMain, hlast, hPc, hb, hn m hm]⟩

/-- non-vacuity: the arguments of the demonstration call are in range. -/
example : ∀ a ∈ [TraceSpec.Val.int 5], InRv a := by
  intro a ha n hn
  simp only [List.mem_singleton] at ha
  subst ha; cases hn; decide

/-- non-vacuity: on the demonstration program the executable model returns, with the same value. -/
example : (letI : FloatOps := nativeFloatOps
    (resolve demo).bind fun q => (lowerProg q).bind fun P => runMain q P 400 [.int 5]) = some (.int 216) := by
  decide +kernel

end

end RotoV.C01Lower
