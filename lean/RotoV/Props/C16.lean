/-
  C16 — lists stay memory-safe when shared between threads.
  (first cut: facts + refutations; the general theorems follow)
-/
import RotoV.Model.ListConc
import RotoV.Generated.C16Facts

namespace RotoV.C16
open RotoV.ListConc

/-- the final results of a schedule, per thread -/
def resultsAfter (F : Facts) (lists : List (List Nat)) (progs : List (List Op)) (sched : List Nat) :
    Option (List (List Res)) :=
  (run F (init lists progs) sched).map fun s => resultsOf s progs.length

/-- T3: `List::get` as written on the pinned tree (lookup under the lock,
    clone after it is released): thread 0 looks element 1 up, thread 1's push
    reallocates the full buffer, thread 0 clones through the stale pointer. -/
theorem get_as_written_use_after_free :
    resultsAfter Facts.asWritten [[1, 2, 3, 4]] [[.get 0 1], [.push 0 9]] [0, 1, 0]
      = some [[.uaf], [.unit]] := by decide

/-- T3 for the script-side `ffi::list_get` (lookup, unlock, re-lock, clone) -/
theorem ffi_get_as_written_use_after_free :
    resultsAfter Facts.asWritten [[1, 2, 3, 4]] [[.ffiGet 0 1], [.push 0 9]] [0, 1, 0]
      = some [[.uaf], [.unit]] := by decide

end RotoV.C16
