/-
  C16 — lists stay memory-safe when shared between threads.

  Statement (properties.jsonl): concurrent operations on one list from several
  threads are linearizable with respect to the shared-vector model, and no
  operation reads an element through an address obtained before another
  thread's push relocated or freed the storage.

  Model: RotoV/Model/ListConc.lean (every operation = its atomic steps between
  schedule points; mutex ownership; buffer generations; element pointers).
  The lock-scope facts the theorems hang on — does `List::get` /
  `ffi::list_get` clone the element while the guard of the lookup is alive; is
  every other `ErasedList` method one critical section; the lock / read /
  unlock sequence of `concat` and `==` — are regenerated from
  src/value/list.rs on every run (Generated/C16Facts.lean), so a reverted fix
  or a moved unlock changes a definition these theorems are checked against.

  All theorems are for ANY number of threads, ANY programs and ANY schedule
  (induction over the schedule with the invariant `Inv`); nothing is bounded.
-/
import RotoV.Lemmas.ListConc
import RotoV.Lemmas.ListTrace
import RotoV.Lemmas.ListConcIter
import RotoV.Generated.C16Facts

namespace RotoV.C16
open RotoV.ListConc

/-! ### T2 — the premise, checked against the regenerated facts -/

/-- `List::get` and `ffi::list_get` clone the element while the guard under
    which they looked it up is alive (fails to check when the guard is
    released before the clone, as on the pinned tree), and `==` takes its two
    mutexes in address order (fails to check for `self` then `other`), and
    `concat` keeps both operands locked while it copies them -/
theorem facts_guarded : RotoV.Gen.C16.facts = Facts.guarded := by decide

/-- every other `ErasedList` method that touches the buffer is exactly one
    critical section on `self.0` around one `RawList` call … -/
theorem methods_single_critical_section :
    ∀ m ∈ [Method.push, .contains, .containsOwned, .index, .indexOwned, .swap, .len, .capacity, .isEmpty],
      (RotoV.Gen.C16.methodShapes.lookup m).isSome = true := by decide

/-- … and none of them hands an element pointer out of its critical section
    (the pointer-returning `ErasedList::get` is gone) -/
theorem no_method_returns_a_pointer : RotoV.Gen.C16.methodShapes.lookup Method.get = none := by decide

/-- `concat` and `==` take and release their locks in the order the model's
    steps assume -/
theorem concat_trace_as_modelled : RotoV.Gen.C16.concatTrace = concatAtomicAsModelled := by decide
theorem eq_trace_as_modelled :
    RotoV.Gen.C16.eqTrace = eqAsModelled ∧ RotoV.Gen.C16.eqPtrEqFirst = true := by decide
/-- the typed `List<T>::eq` (the Rust-side `==`) has the lock discipline of
    `ErasedList::eq`, which is what `Op.eq` models for both -/
theorem typed_eq_as_modelled :
    RotoV.Gen.C16.typedEqPtrEqFirst = true ∧ RotoV.Gen.C16.typedEqOrdered = true := by decide

/-- the Rust-side walks over the whole buffer (`List::to_vec`, the typed `==`)
    happen inside the guards they take: the slice is built from the guard and
    every element is cloned / compared before the guard goes (fails to check
    when the walk is moved into a helper whose guard is gone when it returns) —
    which is why `Op.toVec` and `Op.eq` read the elements in the step that
    holds the lock(s) -/
theorem rust_side_walks_under_guard :
    RotoV.Gen.C16.toVecUnderGuard = true ∧ RotoV.Gen.C16.typedEqWalkUnderGuards = true := by decide

/-- the model has steps for EVERY function above the lock (module `ffi`, the
    impls of `List`, `IntoIter`, `ErasedList`; enumerated from the source on
    every run) that takes a list's lock or reaches the element buffer: a new
    helper through which element memory is reached is not silently outside
    the theorems (fails to check, and the check names the function) -/
theorem every_locking_function_is_modelled : RotoV.Gen.C16.unmodelledLockingFns = 0 := by decide

/-! ### T2' — the steps of every operation, derived from its lock trace

  The extractor reduces every modelled function, along every path through its
  `Arc::ptr_eq` / address comparison, to a raw token trace (schedule points,
  lock, unlock, buffer access); `skeleton` (Model/ListTrace) cuts it into
  atomic steps. The theorems below say that these derived steps are, for every
  operation, argument and step, the lock structure of the model's `opStep`. -/

/-- every one-call method (`push`, `contains(_owned)`, `index(_owned)`, `swap`,
    `len`, `capacity`, `is_empty`) and `List::to_vec`: one step, which waits for
    the list's lock, touches the buffer only under the guard and holds nothing
    when it ends — whether the guard is a temporary or `let`-bound, dropped by
    hand after the call or not -/
theorem single_section_skeletons_from_source :
    skeleton RotoV.Gen.C16.rtPush = skSingle ∧ skeleton RotoV.Gen.C16.rtContains = skSingle ∧
    skeleton RotoV.Gen.C16.rtContainsOwned = skSingle ∧ skeleton RotoV.Gen.C16.rtIndex = skSingle ∧
    skeleton RotoV.Gen.C16.rtIndexOwned = skSingle ∧ skeleton RotoV.Gen.C16.rtSwap = skSingle ∧
    skeleton RotoV.Gen.C16.rtLen = skSingle ∧ skeleton RotoV.Gen.C16.rtCapacity = skSingle ∧
    skeleton RotoV.Gen.C16.rtIsEmpty = skSingle ∧ skeleton RotoV.Gen.C16.rtToVec = skSingle := by decide

/-- both `get`s: the lookup step takes the lock and keeps it across the
    schedule point between lookup and use; the clone step releases it -/
theorem get_skeletons_from_source :
    skeleton RotoV.Gen.C16.rtGet = skGet ∧ skeleton RotoV.Gen.C16.rtFfiGet = skGet := by decide

/-- `==` (script-side and typed), on each of its three paths -/
theorem eq_skeletons_from_source :
    skeleton RotoV.Gen.C16.rtEqSame = skEq .same ∧ skeleton RotoV.Gen.C16.rtEqLt = skEq .lt ∧
    skeleton RotoV.Gen.C16.rtEqGe = skEq .ge ∧
    skeleton RotoV.Gen.C16.rtTypedEqSame = skEq .same ∧ skeleton RotoV.Gen.C16.rtTypedEqLt = skEq .lt ∧
    skeleton RotoV.Gen.C16.rtTypedEqGe = skEq .ge := by decide

/-- `concat`, on each of its three paths -/
theorem concat_skeletons_from_source :
    skeleton RotoV.Gen.C16.rtConcatSame = skConcat .same ∧ skeleton RotoV.Gen.C16.rtConcatLt = skConcat .lt ∧
    skeleton RotoV.Gen.C16.rtConcatGe = skConcat .ge := by decide

/-- the steps of an operation as the *source* has them: the skeleton of the
    generated trace of the function (and path) the operation runs.
    (`contains` / `index` of the model stand for the script-side `*_owned`
    methods and the Rust-side ones, `eq` for the script-side and the typed `==`:
    `single_section_skeletons_from_source` / `eq_skeletons_from_source` give the
    others the same skeleton.) -/
def srcSkel : Op → List SkStep
  | .get _ _ => skeleton RotoV.Gen.C16.rtGet
  | .ffiGet _ _ => skeleton RotoV.Gen.C16.rtFfiGet
  | .push _ _ => skeleton RotoV.Gen.C16.rtPush
  | .contains _ _ => skeleton RotoV.Gen.C16.rtContainsOwned
  | .swap _ _ _ => skeleton RotoV.Gen.C16.rtSwap
  | .len _ => skeleton RotoV.Gen.C16.rtLen
  | .index _ _ => skeleton RotoV.Gen.C16.rtIndexOwned
  | .isEmpty _ => skeleton RotoV.Gen.C16.rtIsEmpty
  | .toVec _ => skeleton RotoV.Gen.C16.rtToVec
  | .clone _ | .drop _ => skNone
  | .eq a b =>
    match pathOf a b with
    | .same => skeleton RotoV.Gen.C16.rtEqSame
    | .lt => skeleton RotoV.Gen.C16.rtEqLt
    | .ge => skeleton RotoV.Gen.C16.rtEqGe
  | .concat a b =>
    match pathOf a b with
    | .same => skeleton RotoV.Gen.C16.rtConcatSame
    | .lt => skeleton RotoV.Gen.C16.rtConcatLt
    | .ge => skeleton RotoV.Gen.C16.rtConcatGe

theorem srcSkel_eq_opSkel (op : Op) : srcSkel op = opSkel op := by
  obtain ⟨p1, p2, p3, p4, p5, p6, p7, _, p9, p10⟩ := single_section_skeletons_from_source
  obtain ⟨g1, g2⟩ := get_skeletons_from_source
  obtain ⟨e1, e2, e3, _, _, _⟩ := eq_skeletons_from_source
  obtain ⟨c1, c2, c3⟩ := concat_skeletons_from_source
  cases op with
  | eq a b => simp only [srcSkel, opSkel]; cases pathOf a b <;> simp [e1, e2, e3]
  | concat a b => simp only [srcSkel, opSkel]; cases pathOf a b <;> simp [c1, c2, c3]
  | _ => simp [srcSkel, opSkel, *]

/-- **The lock structure of the model's steps is the one derived from the
    source.** For every operation, every argument and every step `pc` that the
    skeleton of the source trace has: the mutex `opStep` must find free at `pc`
    (`NeedsOp`: `opStep_enabled`, `opStep_blocked`) is the lock announced by the
    schedule point that step starts at; the mutexes the thread holds when it
    stands at `pc + 1` (`HoldsOp`, the invariant of `no_deadlock`) are the
    guards alive at the end of that step; and within the step no buffer is
    touched outside its list's guard and no lock is taken that the schedule
    point does not announce. (What the step computes under the lock — the
    `RawList` call — is hand-modelled; C15 owns that refinement.) -/
theorem lock_structure_derived_from_source (op : Op) (pc : Nat) (st : SkStep)
    (h : (srcSkel op)[pc]? = some st) :
    NeedsOp op pc = st.needs.bind (whoIdx op) ∧
    (∀ l, HoldsOp op (pc + 1) l ↔ l ∈ st.holdsAfter.filterMap (whoIdx op)) ∧
    st.unguarded = false ∧ st.unhooked = false := by
  rw [srcSkel_eq_opSkel] at h
  refine ⟨needsOp_from_skeleton op pc st h, holdsOp_from_skeleton op pc st h, ?_⟩
  have hm := List.mem_of_getElem? h
  have all : ∀ s ∈ opSkel op, s.unguarded = false ∧ s.unhooked = false := by
    cases op with
    | eq a b => simp only [opSkel]; cases pathOf a b <;> simp [skEq, skNone]
    | concat a b => simp only [opSkel]; cases pathOf a b <;> simp [skConcat]
    | _ => simp [opSkel, skGet, skSingle, skNone]
  exact all st hm

/-- the number of steps of every operation is the number of schedule points of
    its source (plus none): no step of the model hides a second lock acquisition -/
theorem step_count_derived_from_source (op : Op) : (srcSkel op).length ≤ op.maxSteps ∧ 0 < (srcSkel op).length := by
  rw [srcSkel_eq_opSkel]
  cases op with
  | eq a b => simp only [opSkel]; cases pathOf a b <;> simp [skEq, skNone, Op.maxSteps]
  | concat a b => simp only [opSkel]; cases pathOf a b <;> simp [skConcat, Op.maxSteps]
  | _ => simp [opSkel, skGet, skSingle, skNone, Op.maxSteps]

/-- `NeedsOp` is exactly the enabling condition of the steps of the
    implementation as it is now: a step whose lock is held does not run … -/
theorem step_blocked_while_lock_held {t : Nat} {cells : Nat → Cell} {ptr : Option Ptr} {acc : RawList}
    {op : Op} {pc l : Nat} (hn : NeedsOp op pc = some l) (hheld : (cells l).owner ≠ none) :
    opStep RotoV.Gen.C16.facts t cells ptr acc op pc = none := by
  rw [facts_guarded]; exact opStep_blocked hn hheld

/-! ### T1 — linearizability and pointer safety, for all threads / programs / schedules -/

/-- **No stale pointer is ever read, and no element pointer outlives its
    critical section** — for every number of threads, every program (including
    `concat` and `==`) and every schedule of the implementation as it is now:
    no operation ends in `uaf`, and no step reports a stale use or a pointer
    parked at a schedule point while its list's mutex is free. -/
theorem no_stale_pointer_use (lists : List (List Nat)) (progs : List (List Op)) (sched : List Nat)
    (s' : State) (hrun : run RotoV.Gen.C16.facts (init lists progs) sched = some s') :
    (∀ d ∈ s'.hist, d.res ≠ Res.uaf) ∧
    (∀ e ∈ s'.trace, ∀ x ∈ e.2, x ≠ Ev.outside ∧ x ≠ Ev.stale) ∧
    (∀ t, Res.uaf ∉ (s'.threads t).results) := by
  have f := run_facts facts_guarded sched _ _ (inv_init lists progs) hrun
  obtain ⟨ds, hds, hne, _, hres, _, _⟩ := f.hist
  obtain ⟨tr, htr, htrg⟩ := f.trace
  have hh : s'.hist = ds := by simpa [init] using hds
  have ht : s'.trace = tr := by simpa [init] using htr
  refine ⟨by rw [hh]; exact hne, by rw [ht]; exact htrg, ?_⟩
  intro t hmem
  have := hres t
  simp only [init, List.nil_append] at this
  rw [this] at hmem
  obtain ⟨d, hd, hdr⟩ := List.mem_map.1 hmem
  exact hne d (List.mem_filter.1 hd).1 hdr

/-- **A locked list is nobody else's.** In every reachable state, for every
    list `l` whose mutex thread `t` holds: a step of any *other* thread leaves
    `l`'s mutex with `t` and `l`'s buffer as it is — same elements, same
    capacity, same generation (no relocation). So everything an operation does
    to a list between taking its lock and releasing it — looking an element up
    and cloning it, walking over all elements (`to_vec`, `==`, `contains`,
    `index`, the copy of `concat`) — sees one state of that list and reads
    through addresses that stay valid, however the other threads are scheduled
    in between. (With `lock_structure_derived_from_source`: every buffer access
    of the source lies inside such a section.) -/
theorem locked_list_untouched_by_other_threads (lists : List (List Nat)) (progs : List (List Op))
    (sched : List Nat) (s : State) (hrun : run RotoV.Gen.C16.facts (init lists progs) sched = some s)
    (t u l : Nat) (hne : u ≠ t) (hown : (s.cells l).owner = some t)
    (s' : State) (hstep : step RotoV.Gen.C16.facts u s = some s') :
    (s'.cells l).owner = some t ∧ (s'.cells l).raw = (s.cells l).raw := by
  have f := run_facts facts_guarded sched _ _ (inv_init lists progs) hrun
  exact step_frame facts_guarded f.inv hstep l t (Ne.symm hne) hown

/-- … and so do any number of such steps: however long a walk under the lock
    takes and however the other threads are scheduled meanwhile (`others`: any
    schedule that does not contain `t`), the list `t` has locked keeps its
    buffer — the element-level interleavings the harness runs with probe
    elements cannot change what the walk sees. -/
theorem locked_list_stable_while_others_run (lists : List (List Nat)) (progs : List (List Op))
    (sched : List Nat) (s : State) (hrun : run RotoV.Gen.C16.facts (init lists progs) sched = some s)
    (t l : Nat) (hown : (s.cells l).owner = some t)
    (others : List Nat) (hoth : ∀ u ∈ others, u ≠ t)
    (s' : State) (hrun' : run RotoV.Gen.C16.facts s others = some s') :
    (s'.cells l).owner = some t ∧ (s'.cells l).raw = (s.cells l).raw := by
  have f := run_facts facts_guarded sched _ _ (inv_init lists progs) hrun
  exact run_frame facts_guarded t l others s s' f.inv hoth hown hrun'

/-- **T1 `atomic_ops_linearizable`.** For every number of threads, all programs
    (all operations) and every schedule: the completed operations, *in the order
    in which they completed*, are a sequential execution of the shared-vector
    specification from the initial lists — same results, same final contents —
    every thread's results are exactly its own operations' results in that
    order, and the log restricted to a thread is exactly the part of its
    program it has executed, in program order. (Completion order respects
    real-time order: see `completion_order_respects_real_time`.) -/
theorem atomic_ops_linearizable (lists : List (List Nat)) (progs : List (List Op))
    (sched : List Nat) (s' : State)
    (hrun : run RotoV.Gen.C16.facts (init lists progs) sched = some s') :
    specRun (abs (init lists progs)) (s'.hist.map (·.op)) = (s'.hist.map (·.res), abs s') ∧
    (∀ t, (s'.threads t).results = (s'.hist.filter (·.tid = t)).map (·.res)) ∧
    (∀ t, (s'.hist.filter (·.tid = t)).map (·.op) ++ (s'.threads t).prog = progs.getD t []) := by
  have f := run_facts facts_guarded sched _ _ (inv_init lists progs) hrun
  obtain ⟨ds, hds, _, _, hres, hord, hsim⟩ := f.hist
  have hh : s'.hist = ds := by simpa [init] using hds
  rw [hh]
  refine ⟨hsim, ?_, ?_⟩
  · intro t
    have := hres t
    simpa [init] using this
  · intro t
    have := hord t
    simpa [init] using this

/-- The linearization order used by T1 respects real-time order: whatever
    completed during a prefix of the schedule comes, in the log, before
    everything that completes later — in particular before every operation
    that only *starts* later. (Any facts.) -/
theorem completion_order_respects_real_time (F : Facts) (s s2 : State) (pre post : List Nat)
    (h : run F s (pre ++ post) = some s2) :
    ∃ s1 ds, run F s pre = some s1 ∧ run F s1 post = some s2 ∧ s2.hist = s1.hist ++ ds := by
  rw [run_append] at h
  cases h1 : run F s pre with
  | none => simp [h1] at h
  | some s1 =>
    simp only [h1, Option.bind_some] at h
    obtain ⟨ds, hds⟩ := run_hist_grows post s1 s2 h
    exact ⟨s1, ds, rfl, h, hds⟩

/-- **The linearization respects real-time order**, in the usual formulation.
    `spans` records, for every entry of the log, the schedule indices of the
    first and the last step of that operation. For every schedule (any facts):
    `spans` runs parallel to the log, an operation starts no later than it ends,
    and *whenever the last step of the operation at position `i` of the log
    precedes the first step of the operation at position `j`, then `i < j`* —
    an operation that returned before another was invoked is linearized before it. -/
theorem linearization_respects_real_time (F : Facts) (lists : List (List Nat))
    (progs : List (List Op)) (sched : List Nat) (s' : State)
    (hrun : run F (init lists progs) sched = some s') :
    s'.spans.length = s'.hist.length ∧
    (∀ p ∈ s'.spans, p.1 ≤ p.2 ∧ p.2 < s'.trace.length) ∧
    (∀ i j (hi : i < s'.spans.length) (hj : j < s'.spans.length),
      (s'.spans[i]).2 < (s'.spans[j]).1 → i < j) := by
  have ht := run_timed sched _ _ (timed_init lists progs) hrun
  exact ⟨ht.len, fun p hp => ⟨ht.le p hp, ht.bound p hp⟩, fun i j hi hj h => timed_order ht i j hi hj h⟩

/-- **No schedule deadlocks.** For every number of threads, all programs (all
    operations, including `==` and `concat`) and every schedule: in the state
    reached, if some thread still has work to do then some thread can take a
    step — so `deadlocked` is false. (`==` takes the mutex with the smaller
    address first, so a chain of threads each holding one mutex and waiting for
    another climbs in address order and ends at a thread that can move.) -/
theorem no_deadlock (lists : List (List Nat)) (progs : List (List Op)) (sched : List Nat)
    (s' : State) (hrun : run RotoV.Gen.C16.facts (init lists progs) sched = some s') :
    (∀ t, unfinished s' t = true → ∃ v, v < progs.length ∧ enabled RotoV.Gen.C16.facts s' v = true) ∧
    deadlocked RotoV.Gen.C16.facts progs.length s' = false := by
  have key : ∀ t, unfinished s' t = true →
      ∃ v, v < progs.length ∧ enabled RotoV.Gen.C16.facts s' v = true :=
    fun t ht => reachable_progress facts_guarded lists progs sched s' hrun t ht
  refine ⟨key, ?_⟩
  unfold deadlocked
  cases hany : (List.range progs.length).any (unfinished s') with
  | false => rfl
  | true =>
    obtain ⟨t, _, ht⟩ := List.any_eq_true.1 hany
    obtain ⟨v, hv, hen⟩ := key t ht
    have : ((List.range progs.length).all fun t => !enabled RotoV.Gen.C16.facts s' t) = false := by
      rw [Bool.eq_false_iff]
      intro hall
      have := List.all_eq_true.1 hall v (List.mem_range.2 hv)
      simp [hen] at this
    simp [this]

/-! ### T3 — refutations: what the model says about the code that violates the property -/

/-- the final results of a schedule, per thread -/
def resultsAfter (F : Facts) (lists : List (List Nat)) (progs : List (List Op)) (sched : List Nat) :
    Option (List (List ListConc.Res)) :=
  (run F (init lists progs) sched).map fun s => resultsOf s progs.length

/-- `List::get` as written on the pinned tree (lookup under the lock, clone
    after it is released): thread 0 looks element 1 up, thread 1's push
    reallocates the full buffer, thread 0 clones through the stale pointer.
    (Repaired by repo commit 1f02828; replayed on the real code before it.) -/
theorem get_as_written_use_after_free :
    resultsAfter Facts.asWritten [[1, 2, 3, 4]] [[.get 0 1], [.push 0 9]] [0, 1, 0]
      = some [[.uaf], [.unit]] := by decide

/-- the same for the script-side `ffi::list_get` (lookup, unlock, re-lock, clone) -/
theorem ffi_get_as_written_use_after_free :
    resultsAfter Facts.asWritten [[1, 2, 3, 4]] [[.ffiGet 0 1], [.push 0 9]] [0, 1, 0]
      = some [[.uaf], [.unit]] := by decide

/-- `concat` as written on the pinned tree (operands copied in two critical
    sections) is not linearizable — not even sequentially consistent:
    `l.concat(l)` racing with `l.push(7)` returns `[1,2,3,4,1,2,3,4,7]`, which no
    sequential order of the two operations produces. (Repaired by repo commit
    88678af; replayed on the real code before it.) -/
theorem concat_as_written_not_linearizable :
    resultsAfter ⟨true, true, true, false⟩ [[1, 2, 3, 4]] [[.push 0 7], [.concat 0 0]] [1, 1, 0, 1]
      = some [[.unit], [.list [1, 2, 3, 4, 1, 2, 3, 4, 7]]] ∧
    seqConsistent [[1, 2, 3, 4]] [[.push 0 7], [.concat 0 0]]
      [[.unit], [.list [1, 2, 3, 4, 1, 2, 3, 4, 7]]] = false := by decide

/-- `==` as written on the pinned tree locked `self` then `other`: `a == b` ‖
    `b == a` deadlocks after one step each. (Repaired by repo commit 17d52d2:
    address-ordered locking; replayed on the real code before it.) -/
theorem eq_as_written_opposite_order_deadlock :
    (run ⟨true, true, false, true⟩ (init [[1], [2]] [[.eq 0 1], [.eq 1 0]]) [0, 1]).map
      (deadlocked ⟨true, true, false, true⟩ 2) = some true := by decide

/-! ### live iterators: an iteration is a sequence of separate critical sections

  `IntoIter` (the Rust-side iterator of a list) keeps a handle and an index;
  a thread that drives one is an ADAPTIVE program (Model/ListConcIter): the
  operation it issues next depends on the results it got. Every theorem above
  is for all static programs, hence for every run that `Follows` an adaptive
  one; the theorems below are about what the iterator adds. -/

/-- what `into_iter` initialises and `IntoIter::next` decides, regenerated from
    the source (translator target `listiter`): the iterator starts at index 0
    and keeps no snapshot of the length; `next` never answers `None` without
    asking the list; it passes its own index to `List::get`; the index moves
    by one after an element. (Fails to check for an iterator that stops at the
    length the list had when it was made, or reads another index.) -/
theorem iter_next_as_modelled :
    RotoV.Gen.ListIter.startIdx = 0 ∧ RotoV.Gen.ListIter.snapshotFields = 0 ∧
    (∀ w, RotoV.Gen.ListIter.nextStopsEarly w = false) ∧
    (∀ w, RotoV.Gen.ListIter.nextIndex w = w.idx) ∧
    (∀ w, RotoV.Gen.ListIter.nextIdxAfter w = w.idx + 1) :=
  ⟨rfl, rfl, fun _ => rfl, fun _ => rfl, fun _ => rfl⟩

/-- **Each `next` is one `List::get` at the cursor** — one lookup-and-clone
    under one guard (`get_skeletons_from_source`), nothing of the list is held
    between two calls — and the cursor moves iff an element came back: after
    `None` the same index is asked again (an iterator that ended picks up
    elements pushed later). -/
theorem iterator_next_is_get_at_cursor (l c : Nat) (r : ListConc.Res) :
    iresolve (some (l, c)) .iterNext = some (.get l c) ∧
    iadvance (some (l, c)) .iterNext r =
      some (l, match r with | .opt (some _) => c + 1 | _ => c) := by
  refine ⟨rfl, ?_⟩
  cases r with
  | opt o => cases o <;> rfl
  | _ => rfl

/-- **Later operations do not change the run so far** (any facts, any number
    of threads): appending operations to the threads' programs leaves every
    schedule of the shorter programs a schedule, with the same cells, the same
    log, events and spans, and the same results — only the programs still to
    run are longer. This is why a thread that *decides* its next operation when
    the previous one returned (an iterator: `Follows`) runs exactly like the
    static program that has all of them from the start. -/
theorem later_operations_do_not_change_the_run_so_far (F : Facts) (lists : List (List Nat))
    (progs : List (List Op)) (more : Nat → List Op) (sched : List Nat) (s' : State)
    (hrun : run F (init lists progs) sched = some s') :
    ∃ s2, run F (init lists (extendProgs progs more)) sched = some s2 ∧
      s2.cells = s'.cells ∧ s2.hist = s'.hist ∧ s2.trace = s'.trace ∧ s2.spans = s'.spans ∧
      ∀ t, (s2.threads t).results = (s'.threads t).results ∧
        (s2.threads t).prog = (s'.threads t).prog ++ (if t < progs.length then more t else []) := by
  obtain ⟨s2, h2, hc, hh, ht, hs, hth⟩ := run_ext sched (init_ext lists progs more) hrun
  exact ⟨s2, h2, hc, hh, ht, hs, fun t => by rw [hth t]; exact ⟨rfl, rfl⟩⟩

/-- **An iterator under concurrent pushes yields a prefix of the list.** For
    every number of threads, all programs and every schedule: if thread `t`
    made an iterator over list `l` and called `next` up to `n` times (its
    static program `Follows` that adaptive program under the results the run
    produced) and no thread swaps elements of `l` — the other threads may push
    to it, read it, concat it, compare it, clone and drop handles, between any
    two calls of `next` and while one waits for the lock — then the items the
    iterator yielded are, in order, the first elements of `l` as it is in the
    end: nothing skipped, nothing twice, nothing that was never in the list,
    although the iteration as a whole is not atomic (see
    `iterator_is_not_a_snapshot` for what a swap does). -/
theorem iterator_yields_prefix_under_pushes (lists : List (List Nat)) (progs : List (List Op))
    (sched : List Nat) (s' : State)
    (hrun : run RotoV.Gen.C16.facts (init lists progs) sched = some s')
    (t l n : Nat)
    (hfol : Follows (.iterNew l :: List.replicate n .iterNext) (progs.getD t []) (s'.threads t).results)
    (hns : ∀ u, ∀ op ∈ progs.getD u [], ∀ i j, op ≠ .swap l i j) :
    yielded (s'.threads t).results <+: abs s' l := by
  obtain ⟨hsim, hres, hord⟩ := atomic_ops_linearizable lists progs sched s' hrun
  refine iter_prefix_of_linearizable s'.hist _ _ _ _ (s'.threads t).prog t l n
    iter_next_as_modelled.1 (fun c => iter_next_as_modelled.2.2.2.1 _)
    (fun c => iter_next_as_modelled.2.2.2.2 _) hsim (hres t) (hord t) hfol ?_
  intro d hd i j
  apply hns d.tid
  rw [← hord d.tid]
  exact List.mem_append_left _ (List.mem_map.2 ⟨d, List.mem_filter.2 ⟨hd, by simp⟩, rfl⟩)

/-- **An iteration is not a snapshot**: with a swap between two calls of
    `next` (each of them atomic, the run linearizable) the iterator over
    `[1, 2]` yields `1` twice while the list ends as `[2, 1]` — the no-swap
    premise of `iterator_yields_prefix_under_pushes` is needed, and the
    property (per-operation linearizability) does not promise more. -/
theorem iterator_is_not_a_snapshot :
    (run RotoV.Gen.C16.facts (init [[1, 2]] [[.clone 0, .get 0 0, .get 0 1], [.swap 0 0 1]])
        [0, 0, 0, 1, 0, 0]).map
      (fun s => (yielded (s.threads 0).results, abs s 0,
        decide (Follows [.iterNew 0, .iterNext, .iterNext] [.clone 0, .get 0 0, .get 0 1] (s.threads 0).results)))
      = some ([1, 1], [2, 1], true) := by decide

/-! ### non-vacuity -/

/-- `no_stale_pointer_use` / `atomic_ops_linearizable` have runs to talk about:
    the very schedule that is a use-after-free as written returns the element -/
example : resultsAfter RotoV.Gen.C16.facts [[1, 2, 3, 4]] [[.get 0 1], [.push 0 9]] [0, 1]
    = none := by decide   -- the push is blocked while `get` holds the guard
example : resultsAfter RotoV.Gen.C16.facts [[1, 2, 3, 4]] [[.get 0 1], [.push 0 9]] [0, 0, 1]
    = some [[.opt (some 2)], [.unit]] := by decide
example : ∃ s', run RotoV.Gen.C16.facts (init [[1, 2, 3, 4]] [[.ffiGet 0 1], [.push 0 9]]) [1, 0, 0]
    = some s' := by
  refine ⟨_, rfl⟩ <;> decide
/-- T1 covers `concat`: the schedule that gives the impossible result as written
    is no schedule any more (the push waits for the concat), and the others give
    sequential results -/
example : resultsAfter RotoV.Gen.C16.facts [[1, 2, 3, 4]] [[.push 0 7], [.concat 0 0]] [1, 1, 0, 1]
    = none := by decide
example : resultsAfter RotoV.Gen.C16.facts [[1, 2, 3, 4]] [[.push 0 7], [.concat 0 0]] [1, 1, 0]
    = some [[.unit], [.list [1, 2, 3, 4, 1, 2, 3, 4]]] := by decide
example : resultsAfter RotoV.Gen.C16.facts [[1], [2]] [[.concat 0 1], [.concat 1 0]] [0, 1, 0, 0, 1, 1, 1]
    = none := by decide
example : resultsAfter RotoV.Gen.C16.facts [[1], [2]] [[.concat 0 1], [.concat 1 0]] [0, 0, 0, 1, 1, 1]
    = some [[.list [1, 2]], [.list [2, 1]]] := by decide
example : seqConsistent [[1, 2, 3, 4]] [[.push 0 7], [.concat 0 0]]
    [[.unit], [.list [1, 2, 3, 4, 7, 1, 2, 3, 4, 7]]] = true := by decide
example : Facts.asWritten ≠ Facts.guarded := by decide
/-- `locked_list_untouched_by_other_threads` is about something: while thread 0
    stands between the lookup and the clone of `get` it owns list 0, and thread
    1 can take a step (on the other list) -/
example : (run RotoV.Gen.C16.facts (init [[1, 2, 3, 4], [5]] [[.get 0 1], [.push 1 9]]) [0]).map
    (fun s => ((s.cells 0).owner, (step RotoV.Gen.C16.facts 1 s).isSome)) = some (some 0, true) := by decide
/-- … `locked_list_stable_while_others_run`: thread 1 does two operations on the
    other list while thread 0 stands inside `get` -/
example : ((run RotoV.Gen.C16.facts (init [[1, 2, 3, 4], [5]] [[.get 0 1], [.push 1 9, .len 1]]) [0]).bind
    (fun s => run RotoV.Gen.C16.facts s [1, 1])).isSome = true := by decide
/-- the derived skeletons are not trivial: `concat` of two lists has three steps,
    the second of which starts while `self`'s guard is held -/
example : (srcSkel (.concat 0 1)).length = 3 ∧ ((srcSkel (.concat 0 1))[0]?).map (·.holdsAfter) = some [.self] := by
  decide
/-- … and `skeleton` does tell a clone after the unlock (seeded change C16-2) from one before it -/
example : skeleton [.point .self, .lock .self, .access .self, .usePoint .self, .unlock .self, .access .self]
    ≠ skGet := by decide
/-- … and a walk outside the guard (seeded change C16-7: `to_vec` through a helper) -/
example : skeleton [.point .self, .access .self] ≠ skSingle := by decide
/-- `every_locking_function_is_modelled` counts something: the enumeration finds
    the functions that do take the lock -/
example : RotoV.Gen.C16.modelledLockingFns ≥ 14 := by decide
/-- `no_deadlock` is about something: the schedule that deadlocks as written is
    not even a schedule any more (thread 1 is blocked until thread 0 is done) -/
example : (run RotoV.Gen.C16.facts (init [[1], [2]] [[.eq 0 1], [.eq 1 0]]) [0, 1]).isSome = false := by
  decide
example : (run RotoV.Gen.C16.facts (init [[1], [2]] [[.eq 0 1], [.eq 1 0]]) [0, 0, 1, 1]).map
    (fun s => resultsOf s 2) = some [[.bool false], [.bool false]] := by decide
/-- `linearization_respects_real_time` on a concrete run: thread 1's push (steps 1..1)
    lies inside thread 0's get (steps 0..2)? No — the push is blocked while the
    guard is held; it runs after: spans (0,1) then (2,2) -/
example : (run RotoV.Gen.C16.facts (init [[1, 2, 3, 4]] [[.get 0 1], [.push 0 9]]) [0, 0, 1]).map
    (·.spans) = some [(0, 1), (2, 2)] := by decide
/-- overlapping operations: `==` of thread 0 (steps 0..2) overlaps thread 1's len (step 1) -/
example : (run RotoV.Gen.C16.facts (init [[1], [2]] [[.eq 0 1], [.len 1]]) [0, 1, 0]).map
    (·.spans) = some [(1, 1), (0, 2)] := by decide
/-- `completion_order_respects_real_time` on a concrete split -/
example : (run RotoV.Gen.C16.facts (init [[1]] [[.len 0], [.push 0 2]]) ([0] ++ [1])).isSome = true := by
  decide

/-- `iterator_yields_prefix_under_pushes` has runs to talk about: an iterator over
    `[1, 2, 3, 4]` against a relocating push between its first and second `next`;
    the driver's adaptive execution issues exactly the programs of that run -/
example : (run RotoV.Gen.C16.facts (init [[1, 2, 3, 4]] [[.clone 0, .get 0 0, .get 0 1], [.push 0 9]])
      [0, 0, 0, 1, 0, 0]).map
    (fun s => (yielded (s.threads 0).results, abs s 0,
      decide (Follows [.iterNew 0, .iterNext, .iterNext] [.clone 0, .get 0 0, .get 0 1] (s.threads 0).results)))
    = some ([1, 2], [1, 2, 3, 4, 9], true) := by decide
example : idrive RotoV.Gen.C16.facts [[1, 2, 3, 4]] [[.iterNew 0, .iterNext, .iterNext], [.base (.push 0 9)]]
      [0, 0, 0, 1, 0, 0] = some [[.clone 0, .get 0 0, .get 0 1], [.push 0 9]] := by decide
/-- an iterator that reached the end asks the same index again: it resumes after a push -/
example : idrive RotoV.Gen.C16.facts [[1]] [[.iterNew 0, .iterNext, .iterNext, .iterNext], [.base (.push 0 9)]]
      [0, 0, 0, 0, 1, 0, 0] = some [[.clone 0, .get 0 0, .get 0 1, .get 0 1], [.push 0 9]] := by decide

/-- `later_operations_do_not_change_the_run_so_far` on a concrete run: the iterator's
    second `next` appended after its first has returned -/
example : (run RotoV.Gen.C16.facts (init [[1, 2]] (extendProgs [[.clone 0, .get 0 0], [.push 0 9]]
      (fun t => if t = 0 then [.get 0 1] else []))) [0, 0, 0, 1]).map (fun s => (s.threads 0).prog)
    = some [.get 0 1] := by decide

end RotoV.C16
