/-
  C10 (element-type part): no list built-in jumps through a null vtable slot,
  whatever the element type.

  `List[T]`'s Rust code is type-erased; for lists created by compiled code the
  `#[repr(C)] struct VTable` it works with is written word by word by the LIR
  lowerer.  Stated over `RotoV.Gen.C10VTable` — the fields of `struct VTable`
  (`src/value/vtable.rs`), the words `Lowerer::call_runtime` writes and under
  which condition a function address (`src/lir/lower.rs`), every use of a
  callback field in `src/value/list.rs` (direct call / under a `Some(f)`
  pattern), all regenerated on every run — with the meaning given in
  `RotoV.Model.VTableFill`.  "Every element type" = every `ElemTy`: with or
  without an IR type (zero-sized), needing clone or not, needing drop or not.
-/
import RotoV.Generated.C10VTable
import RotoV.Model.VTableFill

namespace RotoV.C10V
open RotoV RotoV.VTableFill RotoV.Gen.C10VTable

/-- what the lowerer builds for element type `τ` on this tree -/
abbrev vtableOf (τ : ElemTy) := lowered vtableFields lowerWrites τ

/-- The struct and the lowerer agree on the layout: `#[repr(C)]`, as many words as
    fields, each word of its field's width and purpose (size ↔ `ty_layout.size()`,
    `clone_fn` ↔ the address of `::generated::clone_<ty>` …), and whenever an
    address is taken the type is queued for generating that very function. -/
theorem vtable_layout_agrees :
    layoutAgrees vtableReprC vtableFields lowerWrites = true ∧ fieldsComplete vtableFields = true := by
  decide

/-- The per-type decision holds for every class of element type. -/
theorem vtable_safe_for_all : ∀ τ ∈ ElemTy.all, safeFor vtableFields lowerWrites listUses τ = true := by
  decide

/-- **No list operation calls through a null pointer**: for every element type — zero-sized
    ones included — and every use of a vtable callback in list.rs, the use either runs the
    callback of its own family or takes the `None` path; it never jumps to 0 and the field
    always exists. -/
theorem list_callbacks_never_null (τ : ElemTy) :
    ∀ u ∈ listUses, useOutcome (vtableOf τ) u.1 u.2 ≠ .segv ∧ useOutcome (vtableOf τ) u.1 u.2 ≠ .missing := by
  intro u hu
  have h := vtable_safe_for_all τ (ElemTy.mem_all τ)
  simp only [safeFor, Bool.and_eq_true, List.all_eq_true] at h
  have h1 := h.1.1 u hu
  constructor <;> intro hc <;> simp [hc] at h1

/-- The callback that runs is the one of its own family (`eq_fn` is an eq function, not a
    drop function written into the wrong slot). -/
theorem list_callbacks_right_family (τ : ElemTy) :
    ∀ u ∈ listUses, ∀ g, useOutcome (vtableOf τ) u.1 u.2 = .calls g → g = u.1 := by
  intro u hu g hg
  have h := vtable_safe_for_all τ (ElemTy.mem_all τ)
  simp only [safeFor, Bool.and_eq_true, List.all_eq_true] at h
  have h1 := h.1.1 u hu
  simp [hg] at h1
  exact h1

/-- The `None` path (bitwise copy instead of clone, nothing instead of drop) is taken only for
    element types that do not need the callback — a string is never copied bitwise. -/
theorem list_fallbacks_only_when_not_needed (τ : ElemTy) :
    ∀ u ∈ listUses, useOutcome (vtableOf τ) u.1 u.2 = .fallback → needed τ u.1 = false := by
  intro u hu hf
  have h := vtable_safe_for_all τ (ElemTy.mem_all τ)
  simp only [safeFor, Bool.and_eq_true, List.all_eq_true] at h
  have h1 := h.1.1 u hu
  simpa [vtableOf, hf] using h1

/-- A field of type bare `fn` never holds 0 (the validity invariant of the Rust type: even
    an uncalled null `fn` is undefined behaviour), for every element type. -/
theorem bare_fn_fields_never_null (τ : ElemTy) :
    ∀ e ∈ vtableOf τ, e.2.1 = .bareFn → e.2.2 ≠ .null := by
  intro e he hk
  have h := vtable_safe_for_all τ (ElemTy.mem_all τ)
  simp only [safeFor, Bool.and_eq_true, List.all_eq_true] at h
  have h2 := h.1.2 e he
  intro hn
  simp [hk, hn] at h2

/-! ### non-vacuity, necessity -/

example : listUses.length ≥ 6 := by decide
example : (Callback.eq, UseKind.direct) ∈ listUses := by decide
example : (Callback.clone, UseKind.guarded) ∈ listUses := by decide
example : (Callback.drop, UseKind.guarded) ∈ listUses := by decide
example : vtableFields.length = 5 ∧ lowerWrites.length = 5 := by decide
/-- the zero-sized element type on this tree: clone and drop slots are 0, eq is a function -/
example : (vtableOf ⟨false, false, false⟩).map (·.2.2) = [.num, .num, .null, .null, .fnAddr .eq] := by decide
example : (vtableOf ⟨true, true, true⟩).map (·.2.2) = [.num, .num, .fnAddr .clone, .fnAddr .drop, .fnAddr .eq] := by decide

/-- Necessity: an eq slot that is filled only for types with an IR type (the pattern the clone and
    drop slots follow) kills the host on the first comparison in a list of zero-sized elements. -/
theorem eq_only_when_sized_segfaults :
    useOutcome (lowered vtableFields
      [(.usize, .tySize), (.usize, .tyAlign), (.ptr, .fn .clone .needsClone (some .clone)),
       (.ptr, .fn .drop .needsDrop (some .drop)), (.ptr, .fn .eq .sized (some .eq))] ⟨false, false, false⟩) .eq .direct = .segv := by
  decide

/-- Necessity: the same for a clone slot left 0 for a type that needs clone — no jump to 0 (the use
    is guarded) but a bitwise copy of an owning value: `safeFor` rejects it. -/
theorem clone_never_filled_is_rejected :
    safeFor vtableFields
      [(.usize, .tySize), (.usize, .tyAlign), (.ptr, .fn .clone .sized (some .clone)),
       (.ptr, .fn .drop .needsDrop (some .drop)), (.ptr, .fn .eq .always (some .eq))] listUses ⟨false, true, true⟩ = false := by
  decide

/-- Necessity: two callbacks written in each other's slot are rejected. -/
theorem swapped_slots_rejected :
    layoutAgrees vtableReprC vtableFields
      [(.usize, .tySize), (.usize, .tyAlign), (.ptr, .fn .drop .needsDrop (some .drop)),
       (.ptr, .fn .clone .needsClone (some .clone)), (.ptr, .fn .eq .always (some .eq))] = false := by
  decide

end RotoV.C10V
