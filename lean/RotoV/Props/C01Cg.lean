/-
  C01, code-generation layer: the control flow `FuncGen::instruction` (src/codegen/mod.rs) emits
  for scalar LIR computes what the LIR computes.

  Full statement (C01 below LIR): for every LIR program the pipeline produces, the machine code
  Cranelift makes of the function `FuncGen` builds returns the value the LIR semantics define —
  all instruction kinds (memory, calls of runtime functions, strings, lists), all `IrType`s, the
  entry block's parameter passing, Cranelift's own lowering and the ABI included.

  Proved here (`_partial`): the statement for the builder-level code (cranelift-frontend's view:
  variables, SSA constants, one terminator per block; `Model/C01Cg`) of the scalar vocabulary of
  `Model/C01Lir` (`Assign`, the operator instructions, `Not`, `Negate`, calls of script functions,
  `Jump`, `Switch`, `Return`; `i32` / `bool` / zero-sized values).  The arms `Jump`, `Switch`,
  `Assign`, `Return(Some(v))`, `Return(None)` are the scripts the translator target `c01cg`
  re-translates from the source on every run (`Generated/C01Cg`); the operator instructions mean
  the generated arms of `Generated/OpTables`.  Missing for the full statement: the other
  instruction kinds and types, `FuncGen::entry_block` (parameters, stack slots), the expansion of
  `cranelift_frontend::Switch` into `br_table` / `brif` chains and everything below it
  (`Model/C01CgBase` states the reading of `Switch::set_entry` / `emit` that is trusted).
  A call whose result is assigned although the callee returns nothing has NO emitted code in the
  model (`cg_call_without_result_has_no_code`: the real builder panics on `inst_results(inst)[0]`);
  the simulation therefore carries the decidable hypothesis `callsOk L` (every assigned call names
  a function without `Return(None)`), which the driver evaluates on the LIR of every program of
  the tie; `lower_assigns_only_existing_results`: `C01Lir.lowerProg` only produces such programs
  (for `rv` = what `retInfoOf P` says), so `mir_to_code_partial` needs `namesOk P` only.
-/
import RotoV.Lemmas.C01CgSim
import RotoV.Lemmas.C01CgCalls
import RotoV.Lemmas.C01LirSim
import RotoV.Model.NativeFloat

namespace RotoV.C01CgProps
open RotoV RotoV.Gen RotoV.Gen.OpTables RotoV.C01Lir RotoV.C01CgBase RotoV.C01Cg RotoV.Gen.C01Cg RotoV.C01CgSim
open RotoV.TraceSpec (Val)

section
variable [FloatOps]

/-- **The `Switch` arm selects by equality with the case index.**  Whatever the generated script
    of the arm `lir::Instruction::Switch` emits for a LIR switch is ONE
    `cranelift_frontend::Switch` on the operand of the examinee whose entries are exactly the
    branches of the LIR switch, in order, with the LIR default as fallback — for every examinee,
    every list of branches and every default.  (A fast path that turns some switches into a
    conditional branch, an entry keyed by another expression than the case index, a dropped or
    duplicated entry, another fallback: the script changes and this fails.) -/
theorem cg_switch_is_the_lir_switch (x : LOp) (brs : List (Nat × Nat)) (d : Nat) (ci : CIns)
    (h : cg_Switch x brs d = some ci) :
    ∃ c, B.operand x = some (c, ()) ∧ ci = CIns.switch c brs d :=
  cg_Switch_eq h

/-- non-vacuity: the script is defined on a switch with one case (index 1) and a default — the
    shape `match` on an enum with one named variant and `_` lowers to. -/
example : (letI : FloatOps := nativeFloatOps; cg_Switch (.var (.t 0)) [(1, 7)] 9) = some (CIns.switch (.use (.t 0)) [(1, 7)] 9) :=
  rfl

/-- **The emitted switch goes where the LIR switch goes**, for every examinee value the LIR
    semantics switches on (`true` = 1, `false` = 0, a non-negative `i32`), every branch list and
    default: the block selected by the BIT PATTERN of the examinee's SSA value among the entries
    of the emitted `Switch` is the block the LIR switch selects by `switchKey`. -/
theorem cg_switch_target (x : LOp) (brs : List (Nat × Nat)) (d : Nat) (ci : CIns)
    (σl : Store) (σc : CStore) (hrel : Rel σl σc) (k : Nat)
    (h : cg_Switch x brs d = some ci) (hk : switchKey (lVal σl x) = some k)
    (call : String → List CVal → Option (Option CVal)) :
    ∃ σ', cExec call [ci] σc = some (.goto ((selectBr k brs).getD d) σ') := by
  obtain ⟨c, hop, rfl⟩ := cg_Switch_eq h
  have hkey := enc_switchKey (enc_operand hrel hop) hk
  exact ⟨σc, by simp only [cExec, hkey]⟩

/-- non-vacuity: discriminant 2 on the one-case switch `[(1, 7)]` with default 9 goes to 9
    (a conditional branch on "non-zero" would go to 7). -/
example : (letI : FloatOps := nativeFloatOps
    match cExec (fun _ _ => none) [CIns.switch (.const ⟨.I8, 2⟩) [(1, 7)] 9] (fun _ => ⟨.I8, 0⟩) with
    | some (.goto l _) => l
    | _ => 0) = 9 := by
  decide +kernel

/-- **Code generation preserves execution (scalar LIR, builder level).**  For every LIR program
    `L` of the scalar vocabulary on which the code-generation model is defined, every function
    `f`, all argument values, their SSA encodings and every fuel: if the LIR function returns `w`,
    the emitted function returns — with the same fuel — the SSA value that encodes `w`
    (`⟨I32, n mod 2^32⟩` for the `i32` `n`, `⟨I8, 1 | 0⟩` for a boolean), and no value when the
    LIR function returns `()` through `Return(None)`. -/
theorem cg_preserves_partial (L : List LFn) (C : List CFn) (h : cgProg L = some C) (hok : callsOk L = true)
    (n : Nat) (f : String) (args : List Val) (cs : List CVal) (w : Val)
    (henc : EncAll args cs) (hl : lRun L n f args = some w) :
    ∃ r, cRun C n f cs = some r ∧ RetRel w r := by
  obtain ⟨r, hr, hrr, _⟩ := cg_sim L C h (rvOf L) hok n f args cs w henc hl
  exact ⟨r, hr, hrr⟩

/-- **An assigned call of a function that hands back no value has no code.**  `FuncGen::instruction`
    takes `inst_results(inst)[0]` for a LIR call with a `to`; when the callee's call instruction
    has no result the builder panics.  In the model: whatever follows, a block that reaches such a
    call has no execution (it is not let through with the variable unchanged). -/
theorem cg_call_without_result_has_no_code (call : String → List CVal → Option (Option CVal))
    (t : Name) (ty : CTy) (f : String) (args : List COp) (rest : List CIns) (σ : CStore)
    (h : call f (args.map (cVal σ)) = some none) :
    cExec call (CIns.call (some (t, ty)) f args :: rest) σ = none := by
  simp only [cExec, h]

/-- **Functions that `callsOk` relies on do return a value**: under `callsOk L`, a function of `L`
    without `Return(None)` (`rvOf L f`) that returns in LIR returns an SSA value in the emitted code
    — the `inst_results(inst)[0]` of every assigned call exists. -/
theorem cg_assigned_calls_have_results (L : List LFn) (C : List CFn) (h : cgProg L = some C) (hok : callsOk L = true)
    (n : Nat) (f : String) (args : List Val) (cs : List CVal) (w : Val)
    (henc : EncAll args cs) (hl : lRun L n f args = some w) (hf : rvOf L f = true) :
    ∃ c, cRun C n f cs = some (some c) ∧ Enc w c := by
  obtain ⟨r, hr, hrr, hs⟩ := cg_sim L C h (rvOf L) hok n f args cs w henc hl
  cases r with
  | none => exact absurd (hs hf) (by simp)
  | some c => exact ⟨c, hr, hrr⟩

/-- **From the compiler's MIR to the emitted code (scalar vocabulary).**  The LIR layer
    (`lir_lower_preserves_partial`: the model of `lir::lower`, instruction selection by the generated
    `lower_binop`) composed with the code-generation layer: for every MIR program `P` on which both
    models are defined and in which every function is the one its name finds (`namesOk`; with
    `lower_assigns_only_existing_results` this discharges the hypothesis of `cg_preserves_partial`),
    every function `f` (parameter mask `mask`, `rv`: returns a value), all
    arguments, the SSA encodings of the non-zero-sized ones and every fuel: if the MIR function
    returns `v`, the emitted function returns the SSA value of `v` (nothing when `v` is zero-sized
    and the function ends in `Return(None)`), with the same fuel. -/
theorem mir_to_code_partial (P : List MFn) (L : List LFn) (C : List CFn)
    (h1 : lowerProg P = some L) (h2 : cgProg L = some C)
    (n : Nat) (f : String) (mask : List Bool) (rv : Bool) (args : List Val) (cs : List CVal) (v : Val)
    (hf : retInfoOf P f = some (mask, rv)) (hlen : args.length = mask.length)
    (henc : EncAll (C01LirSim.filterMask mask args) cs)
    (hnames : namesOk P = true)
    (hm : mRun P n f args = some v) :
    ∃ r, cRun C n f cs = some r ∧ RetRel (C01LirSim.fixVal rv v) r := by
  obtain ⟨r, hr, hrr, _⟩ := cg_sim L C h2 (rvM P) (C01CgCalls.lowerProg_progOk P L hnames h1) n f _ cs _ henc
    (C01LirSim.lir_sim P L h1 n f mask rv args v hf hlen hm)
  exact ⟨r, hr, hrr⟩

/-- **`lir::lower` never assigns a result that does not exist.**  For every MIR program `P` in which
    every function is the one its name finds (`namesOk`: the compiler rejects a second function of
    the same name) and on which the model of `lir::lower` is defined: in the LIR it produces, every
    call with a `to` names a function `retInfoOf P` says returns a value, and no function of which
    it says so contains `Return(None)` — the condition (`progOk`) under which the `Call` arm's
    `inst_results(inst)[0]` exists (`cg_assigned_calls_have_results`). -/
theorem lower_assigns_only_existing_results (P : List MFn) (L : List LFn)
    (hnames : namesOk P = true) (h : lowerProg P = some L) : progOk (rvM P) L = true :=
  C01CgCalls.lowerProg_progOk P L hnames h

/-- a LIR function with a loop-free diamond: `fn f(x) { if x == 1 then 10 else 20 }` on a
    one-case switch -/
def exFn : LFn :=
  { name := "f", params := [.e "x" 0], newTmps := [(.t 0, .bool)],
    blocks := [(0, [.instr (.t 0) (.IntCmp .Bool .Eq .lhs .rhs) (.var (.e "x" 0)) (.int 1), .switch (.var (.t 0)) [(1, 1)] 2]),
               (1, [.assign (.e "r" 0) (.int 10) .i32, .jump 3]),
               (2, [.assign (.e "r" 0) (.int 20) .i32, .jump 3]),
               (3, [.ret (some (.var (.e "r" 0)))])] }

/-- non-vacuity of `cg_preserves_partial`: the model is defined on `exFn`, the LIR run returns a
    value, and the arguments are encoded. -/
example : (letI : FloatOps := nativeFloatOps; (cgProg [exFn]).isSome) = true := by decide +kernel
example : callsOk [exFn] = true := by decide +kernel
example : (letI : FloatOps := nativeFloatOps; lRun [exFn] 10 "f" [.int 1]) = some (.int 10) := by decide +kernel
example : (letI : FloatOps := nativeFloatOps; lRun [exFn] 10 "f" [.int 5]) = some (.int 20) := by decide +kernel
example : EncAll [.int 1] [C01MirRun.cvI32 1] := EncAll.cons ⟨by decide, rfl⟩ EncAll.nil
/-- and the emitted code, run on the encoded argument, returns the encoded result -/
example : (letI : FloatOps := nativeFloatOps
    (cgProg [exFn]).bind fun C => cRun C 10 "f" [C01MirRun.cvI32 5]) = some (some (C01MirRun.cvI32 20)) := by
  decide +kernel

/-- non-vacuity of `mir_to_code_partial`: `fn g(x: i32, u: ()) -> i32 { if x < 10 { x + 1 } else { -x } }` as a MIR
    control-flow graph — both models are defined on it, the MIR run returns a value, and the emitted
    code returns its encoding. -/
def exM : MFn :=
  { name := "g", params := [.e "x" 1, .e "u" 1], tmpIdx := 6,
    types := [(.e "x" 1, .i32), (.t 0, .i32), (.t 1, .bool), (.t 2, .i32), (.t 3, .i32), (.t 4, .i32)],
    retVal := true,
    blocks := [(0, [.assign (.t 0) (.constInt 10), .assign (.t 1) (.binop (.e "x" 1) .Lt .i32 (.t 0)), .assign (.t 5) .constUnit,
                    .switch (.t 1) [(1, 1), (0, 2)] none]),
               (1, [.assign (.t 2) (.constInt 1), .assign (.t 4) (.binop (.e "x" 1) .Add .i32 (.t 2)), .jump 3]),
               (2, [.assign (.t 4) (.neg (.e "x" 1)), .jump 3]),
               (3, [.drop (.t 1), .ret (.t 4)])] }

example : retInfoOf [exM] "g" = some ([true, false], true) := by decide
example : ((lowerProg [exM]).map callsOk) = some true := by decide +kernel
example : namesOk [exM] = true := by decide +kernel
/-- `namesOk` rejects a second function of the same name with another `retVal` -/
example : namesOk [exM, { exM with retVal := false }] = false := by decide +kernel
example : (letI : FloatOps := nativeFloatOps; mRun [exM] 10 "g" [.int 30, .unit]) = some (.int (-30)) := by decide +kernel
example : (letI : FloatOps := nativeFloatOps
    ((lowerProg [exM]).bind fun L => cgProg L).bind fun C => cRun C 10 "g" [C01MirRun.cvI32 30])
    = some (some (C01MirRun.cvI32 (-30))) := by
  decide +kernel

/-- the hypothesis `callsOk` is needed, and `cg_call_without_result_has_no_code` /
    `cg_assigned_calls_have_results` are not vacuous: `fn u() { }  fn k() -> i32 { 7 }
    fn bad() -> i32 { let t = u(); 1 }  fn good() -> i32 { let t = k(); t }`. -/
def exCalls : List LFn :=
  [ { name := "u", params := [], newTmps := [], blocks := [(0, [.ret none])] },
    { name := "k", params := [], newTmps := [], blocks := [(0, [.ret (some (.int 7))])] },
    { name := "bad", params := [], newTmps := [(.t 0, .i32)],
      blocks := [(0, [.call (some (.t 0, .i32)) "u" [], .ret (some (.int 1))])] },
    { name := "good", params := [], newTmps := [(.t 0, .i32)],
      blocks := [(0, [.call (some (.t 0, .i32)) "k" [], .ret (some (.var (.t 0)))])] } ]

/-- the check rejects the program with `bad` and accepts it without -/
example : callsOk exCalls = false := by decide +kernel
example : callsOk (exCalls.filter (fun fn => fn.name != "bad")) = true := by decide +kernel
example : rvOf exCalls "k" = true ∧ rvOf exCalls "u" = false := by decide +kernel
/-- the LIR semantics lets `bad` through, the emitted code has no execution (the builder panics) … -/
example : (letI : FloatOps := nativeFloatOps; lRun exCalls 10 "bad" []) = some (.int 1) := by decide +kernel
example : (letI : FloatOps := nativeFloatOps
    (cgProg exCalls).bind fun C => cRun C 10 "bad" []) = none := by decide +kernel
/-- … and `good` returns the callee's value in both -/
example : (letI : FloatOps := nativeFloatOps; lRun exCalls 10 "good" []) = some (.int 7) := by decide +kernel
example : (letI : FloatOps := nativeFloatOps
    (cgProg (exCalls.filter (fun fn => fn.name != "bad"))).bind fun C => cRun C 10 "good" [])
    = some (some (C01MirRun.cvI32 7)) := by decide +kernel
/-- non-vacuity of `cg_call_without_result_has_no_code`: a `call` that answers `some none` -/
example : (letI : FloatOps := nativeFloatOps
    (cExec (fun _ _ => some none) [CIns.call (some (.t 0, .I32)) "u" [], .ret []] (fun _ => ⟨.I8, 0⟩)).isNone) = true := by
  decide +kernel

end

end RotoV.C01CgProps
