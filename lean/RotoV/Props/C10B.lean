/-
  C10 (built-ins part): well-typed built-ins cannot kill the host process.

  Every theorem is stated over `RotoV.Gen.C10Builtins` — the transliteration of
  the bindings in `src/runtime/basic.rs`, of the view methods in
  `src/value/string.rs` and of `RawList::get/swap` in `src/value/list.rs`,
  regenerated on every run — for **all** arguments, both overflow profiles
  (`dbg`) and every pointer width (`[Target]`).  `Res.panic` is a Rust panic
  (slice index out of range / not on a char boundary, `unwrap` on `None`/`Err`,
  arithmetic overflow in a debug profile); inside an `extern "C"` trampoline it
  aborts the process.

  The arithmetic-trap theorems of C10 live in `Props/C10.lean`.
-/
import RotoV.Generated.C10Builtins
import RotoV.Lemmas.Builtins

namespace RotoV.C10B
open RotoV RotoV.Gen.C10Builtins

variable [Target]

/-! ### string views: `len`, `get`, `slice` never panic -/

theorem bytes_len_no_panic (dbg : Bool) (s : Str) : bind_StringBytes_len dbg s ≠ .panic := by
  simp [bind_StringBytes_len, StringBytes_len]
theorem chars_len_no_panic (dbg : Bool) (s : Str) : bind_StringChars_len dbg s ≠ .panic := by
  simp [bind_StringChars_len, StringChars_len]
theorem lines_len_no_panic (dbg : Bool) (s : Str) : bind_StringLines_len dbg s ≠ .panic := by
  simp [bind_StringLines_len, StringLines_len]

/-- `s.bytes().get(idx)`: a value or `None` for every `idx : u64` — including
    offsets inside a character, past the end, and beyond `usize::MAX`. -/
theorem bytes_get_no_panic (dbg : Bool) (s : Str) (idx : U64) : bind_StringBytes_get dbg s idx ≠ .panic := by
  unfold bind_StringBytes_get RQ.bind
  cases RInt.try_into idx <;> simp [StringBytes_get]
theorem chars_get_no_panic (dbg : Bool) (s : Str) (idx : U64) : bind_StringChars_get dbg s idx ≠ .panic := by
  unfold bind_StringChars_get RQ.bind
  cases RInt.try_into idx <;> simp [StringChars_get]
theorem lines_get_no_panic (dbg : Bool) (s : Str) (idx : U64) : bind_StringLines_get dbg s idx ≠ .panic := by
  unfold bind_StringLines_get RQ.bind
  cases RInt.try_into idx <;> simp [StringLines_get]

theorem bytes_slice_no_panic (dbg : Bool) (s : Str) (i j : U64) : bind_StringBytes_slice dbg s i j ≠ .panic := by
  unfold bind_StringBytes_slice RQ.bind
  cases RInt.try_into i <;> cases RInt.try_into j <;> simp [StringBytes_slice]

/-- `StringChars::slice` indexes the string with `&s[byte_i..byte_j]`; both
    offsets come from the char-boundary iterator in ascending order, so the
    index expression cannot panic — for every string and all `i`, `j`. -/
theorem chars_slice_inner_no_panic (dbg : Bool) (s : Str) (i j : USz) : StringChars_slice dbg s i j ≠ .panic := by
  unfold StringChars_slice RQ.bind
  cases RInt.checked_sub j i with
  | none => simp
  | some len =>
    simp only [RIter.nthQ, Str.boundary_iter]
    cases hi : (Str.boundariesFrom 0 s.chars)[ToOff.toOff i]? with
    | none => simp
    | some bi =>
      simp only []
      cases RInt.checked_sub len 1 with
      | none => simp
      | some idx =>
        simp only []
        cases hj : (List.drop (ToOff.toOff i + 1) (Str.boundariesFrom 0 s.chars))[ToOff.toOff idx]? with
        | none => simp
        | some bj =>
          have h := Str.index_range_boundaries s (ToOff.toOff i) (ToOff.toOff idx) bi bj hi hj
          obtain ⟨t, ht⟩ := h
          simp [ht]

theorem chars_slice_no_panic (dbg : Bool) (s : Str) (i j : U64) : bind_StringChars_slice dbg s i j ≠ .panic := by
  unfold bind_StringChars_slice RQ.bind
  cases RInt.try_into i with
  | none => simp
  | some i' =>
    cases RInt.try_into j with
    | none => simp
    | some j' =>
      have h := chars_slice_inner_no_panic dbg s i' j'
      simp only []
      cases hr : StringChars_slice dbg s i' j' with
      | ok v => simp
      | panic => exact absurd hr h

/-- `StringLines::slice`, transliterated statement by statement (its two skip/take loops read as
    `Str.advanceR`, the newline-offset iterator named): it indexes with `&s[start_idx..end_idx]`; both
    offsets are 0, an offset just after a newline, or the string's length, taken in ascending order —
    always char boundaries — so the index expression cannot panic, for every string and all `i`, `j`
    (reversed ranges and out-of-range line numbers included: `checked_sub` / a dry iterator answer `None`). -/
theorem lines_slice_inner_no_panic (dbg : Bool) (s : Str) (i j : USz) : StringLines_slice dbg s i j ≠ .panic := by
  unfold StringLines_slice RQ.bind
  cases RInt.checked_sub j i with
  | none => simp
  | some num =>
    simp only []
    have h0 : Str.Good s.chars (Str.byteLenL s.chars) 0 (Str.afterNewlinesFrom 0 s.chars) := by
      have := Str.afterNewlines_good [] s.chars 0 ⟨0, by simp, by simp [Str.byteLenL]⟩ (by simp [Str.byteLenL])
      simpa [Str.byteLenL] using this
    have hub : Str.isB s.chars (Str.byteLenL s.chars) := ⟨s.chars.length, Nat.le_refl _, by simp⟩
    by_cases he : s.ends_with_nl <;> simp only [he, Str.advanceR, Str.after_newlines, Str.chain_opt] <;>
    (cases h1 : Str.advance (Str.afterNewlinesFrom 0 s.chars) (ToOff.toOff i - ToOff.toOff (0 : Nat)) 0 with
     | none => simp
     | some p =>
       obtain ⟨start_idx, iter⟩ := p
       have hg1 := Str.advance_good _ _ _ _ _ h0 h1
       have hg2e : Str.Good s.chars (Str.byteLenL s.chars) start_idx (iter ++ [s.byteLen]) := by
         simpa [Str.byteLen] using Str.good_append iter start_idx hg1.2 hub
       by_cases hn : num = 0
       · simp [hn, REq.eq]
       · simp [hn, REq.eq]
         split
         · rename_i a h2
           have hg3 := Str.advance_good _ _ _ a.fst a.snd (by first | exact hg1.2 | exact hg2e) h2
           obtain ⟨t, ht⟩ := Str.range_isB s.chars start_idx a.fst hg1.2.isB hg3.2.isB hg3.1
           have : Str.index_range s start_idx a.fst = .ok t := ht
           simp [this]
         · simp)

theorem lines_slice_no_panic (dbg : Bool) (s : Str) (i j : U64) : bind_StringLines_slice dbg s i j ≠ .panic := by
  unfold bind_StringLines_slice RQ.bind
  cases RInt.try_into i with
  | none => simp
  | some i' =>
    cases RInt.try_into j with
    | none => simp
    | some j' =>
      have h := lines_slice_inner_no_panic dbg s i' j'
      simp only []
      cases hr : StringLines_slice dbg s i' j' with
      | ok v => simp
      | panic => exact absurd hr h

/-! ### `Prefix.new`: the one built-in that unwraps -/

omit [Target] in
/-- The exact panic condition: `Prefix.new(ip, len)` (and the `/` operator on
    `IpAddr × u8`) panics iff `len` exceeds the family's maximum. -/
theorem prefix_new_panics_iff (dbg : Bool) (ip : IpAddr) (len : U8) :
    bind_Prefix_new dbg ip len = .panic ↔ len.toNat > Prefix.maxLen ip := by
  unfold bind_Prefix_new Prefix.new_relaxed Prefix.maxLen
  cases ip <;> simp only [] <;> split <;> simp_all [ROpt.unwrap]

omit [Target] in
/-- Refutation of "built-ins never panic" on this tree: `1.1.1.1 / 40`. -/
theorem prefix_new_can_panic :
    ∃ (ip : IpAddr) (len : U8), bind_Prefix_new false ip len = .panic :=
  ⟨.v4 0x01010101#32, ⟨40#8⟩, by decide⟩

omit [Target] in
/-- …and `::1 / 129`. -/
theorem prefix_new_can_panic_v6 : bind_Prefix_new false (.v6 1#128) ⟨129#8⟩ = .panic := by decide

omit [Target] in
/-- Within the family maximum it returns a prefix. -/
theorem prefix_new_ok_of_le (dbg : Bool) (ip : IpAddr) (len : U8) (h : len.toNat ≤ Prefix.maxLen ip) :
    ∃ p, bind_Prefix_new dbg ip len = .ok p := by
  cases hr : bind_Prefix_new dbg ip len with
  | ok p => exact ⟨p, rfl⟩
  | panic => exact absurd ((prefix_new_panics_iff dbg ip len).mp hr) (by omega)

example : bind_Prefix_new false (.v4 0x01010101#32) ⟨8#8⟩ = .ok ⟨true, 0x01000000#128 <<< 96, 8⟩ := by decide

/-! ### counts: `repeat`, `splitn`, `rsplitn` -/

theorem repeat_no_panic (dbg : Bool) (s : Str) (n : U64) : bind_RotoString_repeat dbg s n ≠ .panic := by
  simp [bind_RotoString_repeat, RotoString_repeat]
/-- `repeat` hits the documented memory limit exactly when the result would
    not fit `isize::MAX` bytes; otherwise it returns a value. -/
theorem repeat_limit_iff (dbg : Bool) (s : Str) (n : U64) :
    bind_RotoString_repeat dbg s n = .ok .limit ↔
      s.byteLen * (RCast.cast n : USz).toNat ≥ 2 ^ (Target.usizeBits - 1) := by
  simp only [bind_RotoString_repeat, RotoString_repeat, Str.repeat]
  constructor
  · intro h
    by_cases hc : s.byteLen * (RCast.cast n : USz).toNat ≥ 2 ^ (Target.usizeBits - 1)
    · exact hc
    · simp [hc] at h
      split at h <;> simp at h
  · intro h; simp [h]
theorem splitn_no_panic (dbg : Bool) (s : Str) (n : U64) (sep : Str) : bind_RotoString_splitn dbg s n sep ≠ .panic := by
  simp [bind_RotoString_splitn, RotoString_splitn]
theorem rsplitn_no_panic (dbg : Bool) (s : Str) (n : U64) (sep : Str) : bind_RotoString_rsplitn dbg s n sep ≠ .panic := by
  simp [bind_RotoString_rsplitn, RotoString_rsplitn]

/-! ### `List.get` / `List.swap`: index validation and offset arithmetic -/

omit [Target] in
theorem val_nonneg_unsigned {w} (x : RInt false w) : 0 ≤ x.val := by
  simp [RInt.val]

/-- The allocation invariant of a live `RawList`: its `size * len` bytes are
    addressable (`len ≤ capacity` and `Layout::array(size, capacity)` succeeded). -/
def wf (l : RawListS) : Prop := l.size.val * l.len.val ≤ RInt.maxVal false Target.usizeBits

theorem offset_no_panic (dbg : Bool) (l : RawListS) (h : wf l) (i : USz) (hi : i.val < l.len.val) :
    ∃ o, RawList_offset_of dbg l i = .ok o := by
  unfold RawList_offset_of
  simp only [RArith.mul, RInt.mul, RInt.arith]
  have h0 := val_nonneg_unsigned l.size
  have h1 := val_nonneg_unsigned i
  have hle : l.size.val * i.val ≤ l.size.val * l.len.val := Int.mul_le_mul_of_nonneg_left (Int.le_of_lt hi) h0
  have hin : RInt.inRange false Target.usizeBits (l.size.val * i.val) = true := by
    unfold wf at h
    simp [RInt.inRange, RInt.minVal]
    exact ⟨Int.mul_nonneg h0 h1, Int.le_trans hle h⟩
  simp [hin]

theorem raw_get_no_panic (dbg : Bool) (l : RawListS) (h : wf l) (i : USz) : RawList_get dbg l i ≠ .panic := by
  unfold RawList_get
  simp only [ROrd.ge, RInt.ge]
  by_cases hc : i.val ≥ l.len.val
  · simp [hc]
  · have hi : i.val < l.len.val := by omega
    obtain ⟨o, ho⟩ := offset_no_panic dbg l h i hi
    simp [hc, ho]

/-- `List.get(idx)` for every `idx : u64`: the conversion `try_into().ok()` and
    the bounds check `idx >= self.len` guard the offset multiplication, which
    therefore cannot overflow (debug profile) on a well-formed list. -/
theorem list_get_no_panic (dbg : Bool) (l : RawListS) (h : wf l) (idx : U64) : list_get_lookup dbg l idx ≠ .panic := by
  unfold list_get_lookup
  cases RInt.try_into idx with
  | none => simp [RQ.bind]
  | some i =>
    have := raw_get_no_panic dbg l h i
    cases hr : RawList_get dbg l i with
    | ok v => simp [RQ.bind, hr]
    | panic => exact absurd hr this

theorem raw_swap_no_panic (dbg : Bool) (l : RawListS) (h : wf l) (i j : USz) : RawList_swap dbg l i j ≠ .panic := by
  unfold RawList_swap
  simp only [ROrd.ge, RInt.ge, REq.eq]
  by_cases hi : i.val ≥ l.len.val
  · simp [hi]
  · by_cases hj : j.val ≥ l.len.val
    · simp [hi, hj]
    · obtain ⟨oi, hoi⟩ := offset_no_panic dbg l h i (by omega)
      obtain ⟨oj, hoj⟩ := offset_no_panic dbg l h j (by omega)
      by_cases he : i = j
      · simp [hj, he]
      · simp [hi, hj, he, hoi, hoj]

/-- `List.swap(i, j)` for all `i, j : u64` (`i as usize`, `j as usize`). -/
theorem list_swap_no_panic (dbg : Bool) (l : RawListS) (h : wf l) (i j : U64) : bind_ErasedList_swap dbg l i j ≠ .panic := by
  unfold bind_ErasedList_swap
  have := raw_swap_no_panic dbg l h (RCast.cast i : USz) (RCast.cast j : USz)
  cases hr : RawList_swap dbg l (RCast.cast i : USz) (RCast.cast j : USz) with
  | ok v => simp
  | panic => exact absurd hr this

-- the invariant is satisfiable, and it is needed (the bounds check alone does
-- not bound `size * idx` in a debug profile):
@[reducible] def t64 : Target := ⟨64⟩
omit [Target] in
example : @wf t64 (@RawListS.mk t64 ⟨BitVec.ofNat 64 8⟩ ⟨BitVec.ofNat 64 5⟩ ⟨BitVec.ofNat 64 8⟩) := by
  unfold wf; decide
omit [Target] in
example : @RawList_get t64 true (@RawListS.mk t64 ⟨BitVec.ofNat 64 (2 ^ 63)⟩ ⟨BitVec.ofNat 64 3⟩ ⟨BitVec.ofNat 64 4⟩)
    (⟨BitVec.ofNat 64 2⟩ : @USz t64) = .panic := by decide

-- non-vacuity of the line-slice theorems: lines 1..2 of "a\nb\n" are "b\n"; a reversed range and a line
-- number past the end answer `None`
omit [Target] in
example : @StringLines_slice t64 false ⟨['a', '\n', 'b', '\n']⟩ ⟨BitVec.ofNat 64 1⟩ ⟨BitVec.ofNat 64 2⟩ = .ok (some ⟨['b', '\n']⟩)
    ∧ @StringLines_slice t64 false ⟨['a', '\n', 'b', '\n']⟩ ⟨BitVec.ofNat 64 2⟩ ⟨BitVec.ofNat 64 1⟩ = .ok none
    ∧ @StringLines_slice t64 false ⟨['a', '\n', 'b']⟩ ⟨BitVec.ofNat 64 1⟩ ⟨BitVec.ofNat 64 3⟩ = .ok none
    ∧ @StringLines_slice t64 false ⟨['a', '\n', 'b']⟩ ⟨BitVec.ofNat 64 1⟩ ⟨BitVec.ofNat 64 2⟩ = .ok (some ⟨['b']⟩) := by
  decide

/-! ### `List.join`: no size arithmetic, no panic — for every list, the empty one included -/

omit [Target] in
/-- `List.join(sep)` returns a string for EVERY list of strings (empty,
    singleton, longer) and every separator.  The binding is transliterated: any
    length / capacity precomputation written into it (`parts.len() - 1` …)
    appears here as checked arithmetic and has to be proved not to panic. -/
theorem join_no_panic (dbg : Bool) (l : List Str) (sep : Str) : bind_ErasedList_join dbg l sep ≠ .panic := by
  simp [bind_ErasedList_join]

omit [Target] in
/-- …and it is `<[_]>::join`: on the empty list the empty string, on a singleton its element. -/
theorem join_empty (dbg : Bool) (sep : Str) : bind_ErasedList_join dbg [] sep = .ok ⟨[]⟩ := by
  simp [bind_ErasedList_join, Str.join, List.intercalate]
omit [Target] in
theorem join_singleton (dbg : Bool) (a sep : Str) : bind_ErasedList_join dbg [a] sep = .ok a := by
  simp [bind_ErasedList_join, Str.join, List.intercalate]

/-! ### the substring family: `contains`, `starts_with`, `ends_with`, `strip_prefix`, `strip_suffix`, `split`

Transliterated from `RotoString::*` (src/value/string.rs) and their bindings.  On this tree each is one
call of the `str` method of the same name; a replacement written with byte offsets (`len()`,
`checked_sub`, `split_at`, `is_char_boundary`, `&s[a..b]`) is transliterated into checked code
(`Str.split_at` panics off a character boundary) and these theorems then have to be proved for it. -/

omit [Target] in
/-- for ALL subjects and needles — multi-byte subjects with a needle whose length puts
    `len - needle.len()` inside a character included — the six built-ins return a value. -/
theorem substring_builtins_no_panic (dbg : Bool) (s t : Str) :
    bind_RotoString_contains dbg s t ≠ .panic ∧ bind_RotoString_starts_with dbg s t ≠ .panic ∧
    bind_RotoString_ends_with dbg s t ≠ .panic ∧ bind_RotoString_strip_prefix dbg s t ≠ .panic ∧
    bind_RotoString_strip_suffix dbg s t ≠ .panic ∧ bind_RotoString_split dbg s t ≠ .panic := by
  simp [bind_RotoString_contains, bind_RotoString_starts_with, bind_RotoString_ends_with,
    bind_RotoString_strip_prefix, bind_RotoString_strip_suffix, bind_RotoString_split,
    RotoString_contains, RotoString_starts_with, RotoString_ends_with, RotoString_strip_prefix,
    RotoString_strip_suffix, RotoString_split]

omit [Target] in
/-- …and they are the `str` functions: `strip_suffix` answers `None` exactly when the subject does
    not end with the suffix (never a panic, wherever `len - suffix.len()` falls). -/
theorem strip_suffix_is_std (dbg : Bool) (s t : Str) :
    bind_RotoString_strip_suffix dbg s t = .ok (Str.strip_suffix s t)
    ∧ bind_RotoString_strip_prefix dbg s t = .ok (Str.strip_prefix s t)
    ∧ (Str.strip_suffix s t = none ↔ Str.ends_with s t = false) := by
  refine ⟨?_, ?_, ?_⟩
  · simp [bind_RotoString_strip_suffix, RotoString_strip_suffix]
  · simp [bind_RotoString_strip_prefix, RotoString_strip_prefix]
  · unfold Str.strip_suffix; split <;> simp_all

-- non-vacuity, and the class a byte-offset replacement gets wrong: "é" (2 bytes) against "x":
-- `len - 1 = 1` is inside the character; the built-in answers `None`, `split_at` there panics
omit [Target] in
example : bind_RotoString_strip_suffix false ⟨['é']⟩ ⟨['x']⟩ = .ok none
    ∧ bind_RotoString_strip_suffix false ⟨['a', 'é']⟩ ⟨['é']⟩ = .ok (some ⟨['a']⟩)
    ∧ Str.split_at (⟨['é']⟩ : Str) (1 : Nat) = .panic
    ∧ Str.split_at (⟨['a', 'é']⟩ : Str) (1 : Nat) = .ok (⟨['a']⟩, ⟨['é']⟩) := by decide

/-! ### the panic surface of *every* binding and of every `string.rs` method -/

/-- what counts as a panic site: the syntactic constructs, a call of a std function that is
    documented to panic on some arguments (`split_at`, `remove`, `with_capacity`, `sum`, `repeat` …)
    and a call of any function the translator's table of TOTAL std functions does not list.
    `lock_unwrap` (`m.lock().unwrap()`: fails only on a poisoned mutex, assumed away as in C10C),
    casts and `unsafe` blocks are recorded but are not panic sites. -/
def panics : Risk → Bool
  | .unwrap | .expect | .index | .panic_macro | .arith | .partial_call | .unknown_call => true
  | .cast | .unsafe_ | .lock_unwrap => false

omit [Target] in
/-- Of all functions registered by `basic.rs`'s `library!` blocks (the macro
    bodies for the float and `to_string` families included), the only body
    containing `unwrap`/`expect`/indexing/a panic macro/integer arithmetic, a call of a std
    function documented to panic on some arguments, or a call of a function that is not in the
    translator's table of total functions, is `Prefix.new`.  A new `unwrap` — or a new
    `split_at`/`with_capacity`/`.sum()` — in any binding breaks this theorem. -/
theorem binding_panic_surface (b : Binding) : (b.surface.any panics = true) ↔ b = .Prefix_new := by
  cases b <;> decide

omit [Target] in
/-- In `string.rs` and `string_buf.rs`, only `StringChars::slice` and `StringLines::slice`
    contain a construct that can panic (their `&s[a..b]`; `byte + 1`) — exactly the two covered by
    `chars_slice_no_panic` and `lines_slice_no_panic` — and only `RotoString::repeat` calls a std
    function documented to panic (`str::repeat`: capacity overflow, the documented memory limit,
    characterised by `repeat_limit_iff`).  EVERY other call in every method is to a function of the
    translator's table of total std functions or to another method of these files: a hand-written
    replacement that goes through `split_at`, `remove`, `String::with_capacity`, an index … breaks
    this theorem. -/
theorem strfn_panic_surface (f : StrFn) :
    (f.surface.any panics = true) ↔
      (f = .StringChars_slice ∨ f = .StringLines_slice ∨ f = .RotoString_repeat) := by
  cases f <;> decide

example : (Binding.Prefix_new).surface.any panics = true := by decide
example : Binding.all.length ≥ 60 := by decide
example : StrFn.all.length ≥ 37 ∧ (StrFn.StringBuf_push_char).surface = [.lock_unwrap]
    ∧ (StrFn.RotoString_repeat).surface = [.partial_call] := by decide

/-! ### summary -/

/-- **builtin_no_panic**: every built-in of the default runtime that validates
    its arguments returns a value or the documented `None` — never a panic —
    for ALL arguments, in both overflow profiles, on every target; the list
    operations under the allocation invariant `wf`.  The one exception on this
    tree is `Prefix.new` (`prefix_new_panics_iff`, `prefix_new_can_panic`).
    Built-ins without argument validation contain no panicking construct at
    all (`binding_panic_surface`). -/
theorem builtin_no_panic (dbg : Bool) (s sep : Str) (i j n : U64) (l : RawListS) (hl : wf l) :
    bind_StringBytes_len dbg s ≠ .panic ∧ bind_StringBytes_get dbg s i ≠ .panic ∧ bind_StringBytes_slice dbg s i j ≠ .panic ∧
    bind_StringChars_len dbg s ≠ .panic ∧ bind_StringChars_get dbg s i ≠ .panic ∧ bind_StringChars_slice dbg s i j ≠ .panic ∧
    bind_StringLines_len dbg s ≠ .panic ∧ bind_StringLines_get dbg s i ≠ .panic ∧ bind_StringLines_slice dbg s i j ≠ .panic ∧
    bind_RotoString_repeat dbg s n ≠ .panic ∧ bind_RotoString_splitn dbg s n sep ≠ .panic ∧
    bind_RotoString_rsplitn dbg s n sep ≠ .panic ∧
    list_get_lookup dbg l i ≠ .panic ∧ bind_ErasedList_swap dbg l i j ≠ .panic ∧
    (∀ parts : List Str, bind_ErasedList_join dbg parts sep ≠ .panic) ∧
    (∀ b : Binding, b ≠ .Prefix_new → b.surface.any panics = false) :=
  ⟨bytes_len_no_panic dbg s, bytes_get_no_panic dbg s i, bytes_slice_no_panic dbg s i j,
   chars_len_no_panic dbg s, chars_get_no_panic dbg s i, chars_slice_no_panic dbg s i j,
   lines_len_no_panic dbg s, lines_get_no_panic dbg s i, lines_slice_no_panic dbg s i j,
   repeat_no_panic dbg s n, splitn_no_panic dbg s n sep, rsplitn_no_panic dbg s n sep,
   list_get_no_panic dbg l hl i, list_swap_no_panic dbg l hl i j,
   fun parts => join_no_panic dbg parts sep,
   fun b hb => by
     cases h : b.surface.any panics with
     | false => rfl
     | true => exact absurd ((binding_panic_surface b).mp h) hb⟩

end RotoV.C10B
