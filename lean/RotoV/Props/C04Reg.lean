/-
  C04 — what the type registry records about a requested Rust type.

  Own module (own regenerated definitions, `RotoV.Gen.GateReg`).

  `check_roto_type_reflect::<T>` starts from `TypeRegistry::resolve::<T>()`,
  and the recursive comparison looks the components up by `TypeId`. The model
  (`RotoV.Gate.RustTy`) takes the registry's entry for `T` to be the structure
  of `T` itself: `Result<A, B>` is described as `Result` of the entries of `A`
  and `B`, for every instantiation, whatever was resolved before. That rests
  on the body of each `Value::resolve`, which the translator reads:
  every `impl Value for X` resolves each of its type parameters, builds the
  description from exactly those, in order, and stores it under `Self`;
  nothing else happens — no cache, no branch (a `static` inside a generic impl
  is shared by all instantiations).
-/
import RotoV.Model.Gate
import RotoV.Generated.GateReg
open RotoV.Gate
namespace RotoV.C04Reg

/-- the compound entries the model's `RustTy` has a constructor for -/
def compound : List (Ident × Ident × List Nat) :=
  [(id% "Verdict<A,R>", id% "Verdict", [0, 1]), (id% "Result<T,E>", id% "Result", [0, 1]),
   (id% "Option<T>", id% "Option", [0]), (id% "List<T>", id% "List", [0]), (id% "Val<T>", id% "Val", [100])]

/-- Every `Value::resolve` stores, under its own type, either `Leaf` or the
    description built from the registry entries of its own type parameters in
    declaration order (`Val<T>`: the `TypeId` of `T`), and each of the five
    compound descriptions has exactly one such impl. -/
theorem registry_describes_the_type :
    (∀ s ∈ Gen.GateReg.resolveShapes, (s.2.1 = id% "Leaf" ∧ s.2.2 = []) ∨ s ∈ compound) ∧
    (∀ c ∈ compound, (Gen.GateReg.resolveShapes.filter (fun s => s.2.1 == c.2.1)) = [c]) := by
  decide

/-- the leaves the gate names are registered as leaves -/
theorem public_leaves_are_leaves :
    ∀ n ∈ [id% "IpAddr", id% "Prefix", id% "RotoString", id% "()"],
      (n, id% "Leaf", ([] : List Nat)) ∈ Gen.GateReg.resolveShapes := by
  decide

example : (id% "Result<T,E>", id% "Result", [0, 1]) ∈ Gen.GateReg.resolveShapes := by decide

end RotoV.C04Reg
