/-
  C02 — aggregates are values, lists are shared, components are addressed
  exactly.  Property theorems (DESIGN.md §4 C02).

  The layout arithmetic (`Layout`, `LayoutBuilder.add/finish`, `union`, the
  asserts of `Layout::new`) is `RotoV.Gen.LayoutGen`, regenerated from
  `src/runtime/layout.rs` on every run; `layout_of` and the offset loops of the
  lowerer are `RotoV.Model.Layout` / `LayoutOps`, modelled as written and
  compared with the real lowerer's answers on every run.
-/
import RotoV.Lemmas.Layout
import RotoV.Lemmas.LayoutPath
import RotoV.Lemmas.LayoutClone
import RotoV.Lemmas.LayoutEq
import RotoV.Lemmas.LayoutTotal
import RotoV.Lemmas.LayoutDrop
import RotoV.Lemmas.LayoutRead
import RotoV.Lemmas.LayoutWrite
import RotoV.Lemmas.LayoutListEq
import RotoV.Lemmas.ValueCtor
import RotoV.Lemmas.ValueMatch
import RotoV.Lemmas.ValueMir
import RotoV.Generated.ValueMatchGen

namespace RotoV.C02
open RotoV RotoV.Layout RotoV.LayoutStd RotoV.Gen.LayoutGen RotoV.Gen.LayoutListEq

/-- **T1 `layout_wf`** — for every type tree whose leaves report layouts that
    pass `Layout::new`'s asserts, the layout `layout_of` computes passes them
    too: `align > 0`, `align` a power of two, `size` a multiple of `align`
    (so `Layout::new` inside `finish` never panics, and no
    `next_multiple_of` is ever called with 0). -/
theorem layout_wf (t : Ty) (hl : leavesWf t = true) (l : Layout) (h : layoutOf t = some l) :
    Layout.wf l = true :=
  (wf_iff l).2 (layoutOf_wf t hl l h)

example : ∃ t l, leavesWf t = true ∧ layoutOf t = some l ∧ l = { size := 24, align := 8 } :=
  ⟨.record (.cons (.leaf .int 1 1) (.cons (.enum (.cons (.cons (.leaf .int 8 8) .nil) (.cons .nil .nil))) .nil)),
   _, by decide, rfl, by decide⟩

/-- one component placed by a field loop: it has a layout, starts at or after
    `lo`, ends at or before `hi`, and its offset is a multiple of its alignment -/
def ComponentOk (lo hi : Nat) (v : Visit) : Prop :=
  ∃ l, layoutOf v.2.2 = some l ∧ lo ≤ v.2.1 ∧ v.2.1 + l.size ≤ hi ∧ (0 < l.align → v.2.1 % l.align = 0)

/-- two components in field order do not overlap -/
def InOrder (a b : Visit) : Prop := ∀ la, layoutOf a.2.2 = some la → a.2.1 + la.size ≤ b.2.1

/-- **T2 `fields_disjoint` (records)** — in every inhabited record, for every
    field mixture (no hypothesis on the leaves for disjointness and bounds;
    alignment holds for every field whose alignment is positive, i.e. always
    under `layout_wf`): `layout_of` places all fields, each inside
    `[0, size)`, each at a multiple of its alignment, pairwise disjoint. -/
theorem fields_disjoint_record (fs : Tys) (L : Layout) (h : layoutOf (.record fs) = some L) :
    ∃ vs, placement fs 0 LayoutBuilder.new = some vs ∧ vs.length = fs.length ∧
      (∀ v ∈ vs, ComponentOk 0 L.size v) ∧ vs.Pairwise InOrder := by
  obtain ⟨vs, hvs, hlen, hp⟩ := record_placed fs L h
  obtain ⟨h1, h2⟩ := placed_explicit hp
  exact ⟨vs, hvs, hlen, h1, h2⟩

/-- **T2 `fields_disjoint` (enums)** — in every enum, every inhabited variant's
    fields lie after the `u8` tag at offset 0 (`1 ≤ offset`), inside
    `[0, size)` of the whole enum, aligned, pairwise disjoint. -/
theorem fields_disjoint_variant (vs : Vars) (L : Layout) (h : layoutOf (.enum vs) = some L)
    (k : Nat) (fields : Tys) (hk : vs.get? k = some fields) (ls : List (Ty × Layout))
    (hinh : collectLayouts fields = some ls) :
    ∃ ps, placement fields 0 variantStart = some ps ∧ ps.length = fields.length ∧
      (∀ v ∈ ps, ComponentOk 1 L.size v) ∧ ps.Pairwise InOrder := by
  obtain ⟨ps, hps, hlen, hp⟩ := variant_placed vs L h k fields hk ls hinh
  obtain ⟨h1, h2⟩ := placed_explicit hp
  exact ⟨ps, hps, hlen, h1, h2⟩

example : ∃ vs, placement (.cons (.leaf .int 1 1) (.cons (.leaf .int 8 8) (.cons .unit (.cons (.leaf .int 2 2) .nil))))
    0 LayoutBuilder.new = some vs ∧ vs.map (·.2.1) = [0, 8, 16, 16] := ⟨_, rfl, by decide⟩

/-- **T3 `offsets_agree` (records)** — whenever `Lowerer::get_field` computes
    an offset for field `n` (which it does exactly when fields `0..n` are
    inhabited), the generated clone function and the generated eq function
    touch field `n` at that very offset, the generated drop function does if
    the field needs dropping, and so does `layout_of`'s own placement whenever
    the record has a layout — for ALL field lists, including zero-sized and
    uninhabited fields (where `clone`/`eq`/`drop` `continue` before `add`,
    `get_field` unwraps and `layout_of` gives up). -/
theorem offsets_agree_record (fs : Tys) (n off : Nat) (t : Ty)
    (h : getField fs n LayoutBuilder.new = .ok (off, t)) :
    (n, off, t) ∈ cloneRecordVisits fs ∧ (n, off, t) ∈ eqRecordVisits fs ∧
    (needsDrop t = true → (n, off, t) ∈ dropRecordVisits fs) ∧
    (∀ vs, placement fs 0 LayoutBuilder.new = some vs → (n, off, t) ∈ vs) := by
  refine ⟨?_, ?_, ?_, ?_⟩
  · simpa [cloneRecordVisits] using getField_mem_clone fs n 0 _ off t h
  · simpa [eqRecordVisits] using getField_mem_eq fs n 0 _ off t h
  · intro hd; simpa [dropRecordVisits] using getField_mem_drop fs n 0 _ off t h hd
  · intro vs hvs; simpa using getField_mem_placement fs n 0 _ off t vs h hvs

/-- **T3 (records, inhabited)** — on a record that has a layout the four
    computations coincide completely: `get_field` succeeds for every field
    index, and clone, eq and (filtered by `needs_drop`) drop visit exactly the
    list of `(index, offset, type)` `layout_of` placed. -/
theorem offsets_agree_record_total (fs : Tys) (L : Layout) (h : layoutOf (.record fs) = some L) :
    ∃ vs, placement fs 0 LayoutBuilder.new = some vs ∧
      cloneRecordVisits fs = vs ∧ eqRecordVisits fs = vs ∧
      dropRecordVisits fs = vs.filter (fun v => needsDrop v.2.2) ∧
      ∀ n, n < fs.length → ∃ off t, getField fs n LayoutBuilder.new = .ok (off, t) ∧
        fs.get? n = some t ∧ (n, off, t) ∈ vs := by
  obtain ⟨vs, hvs, _, _, _⟩ := fields_disjoint_record fs L h
  obtain ⟨h1, h2, h3⟩ := placement_loops fs 0 _ vs hvs
  refine ⟨vs, hvs, h1, h2, h3, ?_⟩
  intro n hn
  obtain ⟨off, t, a, b, c⟩ := getField_total fs n 0 _ vs hvs hn
  exact ⟨off, t, a, b, by simpa using c⟩

/-- **T3 (the five enum loops start alike)** — `layout_of`, `Lowerer::location`,
    `generate_clone_body_enum`, `generate_drop_body_enum` and
    `generate_eq_body_enum` each begin their per-variant loop with their own
    `builder.add(&Layout::of::<u8>())`; over the constants regenerated from
    each function's own source the five start states coincide (tag = 1 byte,
    align 1), and `()` is `size 0, align 1`. -/
theorem enum_loops_start_alike :
    variantStartLoc = variantStart ∧ variantStartClone = variantStart ∧
    variantStartDrop = variantStart ∧ variantStartEq = variantStart ∧
    tagLayout = Layout.new 1 1 ∧ Gen.LayoutLoops.unit_layout = Layout.new 0 1 :=
  loop_constants_agree

/-- **T3 `offsets_agree` (enum variants)** — for every inhabited variant, the
    `VariantField` loop of `Lowerer::location` finds every field at the offset
    `layout_of` placed it, and the per-variant loops of the generated clone,
    drop and eq functions visit exactly that placement. -/
theorem offsets_agree_variant (vs : Vars) (k : Nat) (fields : Tys) (hk : vs.get? k = some fields)
    (ls : List (Ty × Layout)) (hinh : collectLayouts fields = some ls) :
    ∃ ps, placement fields 0 variantStart = some ps ∧
      cloneVariantVisits fields = ps ∧ dropVariantVisits fields = ps ∧ eqVariantVisits fields = ps ∧
      ∀ n, n < fields.length → ∃ off t, variantField vs k n = .ok (some (off, t)) ∧
        fields.get? n = some t ∧ (n, off, t) ∈ ps := by
  obtain ⟨ps, hps⟩ := collectLayouts_placement fields 0 variantStart ls hinh
  obtain ⟨ls', h0, h1, h2, h3⟩ := placement_variant_loops fields 0 _ ps hps
  refine ⟨ps, hps, by simp [cloneVariantVisits, h0, h1], by simp [dropVariantVisits, h0, h2],
    by simp [eqVariantVisits, h0, h3], ?_⟩
  intro n hn
  obtain ⟨off, t, a, b, c⟩ := getField_total fields n 0 _ ps hps hn
  refine ⟨off, t, ?_, b, by simpa using c⟩
  simp [variantField, hk, variantFieldLoop_of_getField fields n _ none (off, t) a]

/-- **T3 (uninhabited variants)** — a variant with an uninhabited field is
    skipped by all three generated functions and by `layout_of`. -/
theorem uninhabited_variant_skipped (fields : Tys) (h : collectLayouts fields = none) :
    cloneVariantVisits fields = [] ∧ dropVariantVisits fields = [] ∧ eqVariantVisits fields = [] ∧
    buildFields fields variantStart = none := by
  simp [cloneVariantVisits, dropVariantVisits, eqVariantVisits, h,
    (collectLayouts_none_placement fields 0 variantStart h).2]

/-- non-vacuity: `get_field` does compute offsets (here behind a zero-sized
    field), and with an uninhabited field in front the loops really differ:
    `get_field` panics, clone / eq skip the field and continue at offset 0 -/
example : getField (.cons .unit (.cons (.leaf .int 4 4) .nil)) 1 LayoutBuilder.new = .ok (0, .leaf .int 4 4) := rfl
example : getField (.cons .never (.cons (.leaf .int 4 4) .nil)) 1 LayoutBuilder.new = .panic ∧
    cloneRecordVisits (.cons .never (.cons (.leaf .int 4 4) .nil)) = [(1, 0, .leaf .int 4 4)] := ⟨rfl, rfl⟩
example : variantField (.cons (.cons (.leaf .int 1 1) (.cons (.leaf .int 8 8) .nil)) .nil) 0 1
    = .ok (some (8, .leaf .int 8 8)) := rfl

/-- **`location_total`** (used by T4) — on an inhabited type, for every
    projection path to a component that exists at run time (`PathOk`: fields
    exist, variants walked through are inhabited), `Lowerer::location` does not
    panic and does not answer "uninhabited"; the component has a layout and its
    bytes lie inside the bytes of the whole value. -/
theorem location_total (t : Ty) (p : List Proj) (t' : Ty) (hp : PathOk t p t') (L : Layout)
    (hL : layoutOf t = some L) :
    ∃ off l', locate t p 0 = .ok (some (off, t')) ∧ layoutOf t' = some l' ∧ off + l'.size ≤ L.size := by
  obtain ⟨off, l', a, b, _, d⟩ := locate_ok t p t' hp L hL 0
  exact ⟨off, l', a, b, by omega⟩

/-- **`location_compositional`** (T4) — the byte offset `Lowerer::location`
    computes for a path `p ++ q` is the offset of `p` plus the offset of `q`
    inside the component `p` addresses (and a panic / `uninhabited` of either
    part is one of the whole). The harness checks the same identity on the real
    lowerer's answers (`nested-offset`). -/
theorem location_compositional (t : Ty) (p q : List Proj) (o : Nat) :
    locate t (p ++ q) o =
      match locate t p o with
      | .panic => .panic
      | .ok none => .ok none
      | .ok (some (op, tp)) => locate tp q op :=
  locate_append p q t o

/-- **T4 `write_read`** — over a byte memory holding a value of type `t` at
    address `base`: writing component `p` (any bytes of the component's size)
    and reading it back returns what was written; reading any independent
    component `q` (`Indep`: the paths part at two fields of one record or of
    one variant — arbitrarily deep, arbitrary nesting below) returns what was
    there before. -/
theorem write_read (t : Ty) (L : Layout) (hL : layoutOf t = some L) (p q : List Proj) (tp tq : Ty)
    (hp : PathOk t p tp) (hq : PathOk t q tq) (hi : Indep t p q) (base : Nat) (m : Mem) (bs : List Nat) :
    ∃ op oq lp lq, locate t p 0 = .ok (some (op, tp)) ∧ locate t q 0 = .ok (some (oq, tq)) ∧
      layoutOf tp = some lp ∧ layoutOf tq = some lq ∧
      (m.write (base + op) bs).read (base + op) bs.length = bs ∧
      (bs.length = lp.size →
        (m.write (base + op) bs).read (base + oq) lq.size = m.read (base + oq) lq.size) := by
  obtain ⟨op, lp, a1, a2, _, _⟩ := locate_ok t p tp hp L hL 0
  obtain ⟨oq, lq, b1, b2, _, _⟩ := locate_ok t q tq hq L hL 0
  refine ⟨op, oq, lp, lq, a1, b1, a2, b2, Mem.read_write_same _ _ _, ?_⟩
  intro hlen
  have := paths_disjoint t p q hi tp tq hp hq L hL 0 op oq lp lq a1 b1 a2 b2
  apply Mem.read_write_disjoint
  omega

/-- non-vacuity of T4: `r.b.0` (field 0 of variant 0 of field 1) and `r.c` of
    `{a: u8, b: enum { V(u64, u16) }, c: u32}` are independent, at offsets 16 and 32 -/
example :
    let e := Ty.enum (.cons (.cons (.leaf .int 8 8) (.cons (.leaf .int 2 2) .nil)) .nil)
    let r := Ty.record (.cons (.leaf .int 1 1) (.cons e (.cons (.leaf .int 4 4) .nil)))
    Indep r [.field 1, .variantField 0 0] [.field 2] ∧
    locate r [.field 1, .variantField 0 0] 0 = .ok (some (16, .leaf .int 8 8)) ∧
    locate r [.field 2] 0 = .ok (some (32, .leaf .int 4 4)) :=
  ⟨.field_ne (by decide), rfl, rfl⟩

/-- **T5 `clone_independent`** — for every inhabited type tree, running the
    generated clone function (`cloneTy`: `call_clone_function` +
    `generate_clone_body_*`, field by field and variant by variant as the
    lowerer emits them) from `src` into a disjoint slot `dst`:
    1. the destination decodes to the same value as the source (tag, the
       selected variant's fields, every leaf — whatever the padding held);
    2. no byte outside the destination changes (the source is intact);
    3. afterwards, overwriting ANY component of one copy (any valid path, any
       bytes of the component's size) leaves the value decoded from the other
       copy unchanged — in both directions. -/
theorem clone_independent (t : Ty) (L : Layout) (hL : layoutOf t = some L) (src dst : Nat) (m : Mem)
    (hd : src + L.size ≤ dst ∨ dst + L.size ≤ src) :
    decode (cloneTy t src dst m) t dst = decode m t src ∧
    (∀ x, (x < dst ∨ dst + L.size ≤ x) → cloneTy t src dst m x = m x) ∧
    (∀ (p : List Proj) (tp : Ty), PathOk t p tp → ∀ (bs : List Nat),
      ∃ op lp, locate t p 0 = .ok (some (op, tp)) ∧ layoutOf tp = some lp ∧
        (bs.length = lp.size →
          decode ((cloneTy t src dst m).write (dst + op) bs) t src = decode m t src ∧
          decode ((cloneTy t src dst m).write (src + op) bs) t dst = decode m t src)) := by
  have hdec := cloneTy_decode t L hL src dst m hd
  have hfr := cloneTy_frame t L hL src dst m
  refine ⟨hdec, hfr, ?_⟩
  intro p tp hp bs
  obtain ⟨op, lp, a1, a2, _, a4⟩ := locate_ok t p tp hp L hL 0
  refine ⟨op, lp, a1, a2, ?_⟩
  intro hlen
  constructor
  · apply decode_congr _ m t L hL src src
    intro i hi
    rw [Mem.write_outside _ _ _ _ (by omega)]
    exact hfr _ (by omega)
  · rw [← hdec]
    apply decode_congr _ _ t L hL dst dst
    intro i hi
    exact Mem.write_outside _ _ _ _ (by omega)

/-- **T5 (lists)** — the clone of a `List` is the SAME handle: the bytes of the
    handle (the `Arc` pointer to the shared storage) are reproduced verbatim,
    so `push` / `swap` through either copy act on the one shared storage
    (C15's list model) and are visible through both. -/
theorem clone_list_same_handle (s a src dst : Nat) (m : Mem) :
    (cloneTy (.leaf .list s a) src dst m).read dst s = m.read src s := by
  simp only [cloneTy, Mem.copy]
  have := Mem.read_write_same m dst (m.read src s)
  simpa [Mem.read_length] using this

/-- non-vacuity of T5: an enum value `V1(0x2A)` of `enum { V0, V1(u8) }`
    inside a record with a `String`-like clone leaf is decoded, cloned, and the
    clone decodes to the same value -/
example :
    let t := Ty.record (.cons (.leaf .string 2 1) (.cons (.enum (.cons .nil (.cons (.cons (.leaf .int 1 1) .nil) .nil))) .nil))
    let m : Mem := fun x => if x = 2 then 1 else if x = 3 then 42 else 7
    needsClone t = true ∧ layoutOf t = some { size := 4, align := 1 } ∧
    decode m t 0 = some (.rec_ (.cons (.leaf .string [7, 7]) (.cons (.enm 1 (.cons (.leaf .int [42]) .nil)) .nil))) ∧
    decode (cloneTy t 0 10 m) t 10 = decode m t 0 := by
  refine ⟨rfl, rfl, rfl, ?_⟩
  exact (clone_independent _ _ rfl 0 10 _ (by decide)).1

/-- **T6 `eq_structural`** — for every inhabited type tree and any two stored
    values of it that decode (valid tags), running the generated equality
    function (`eqTy`: `generate_eq_body_*` with the discriminant test, the
    per-variant field chains, `call_eq_by_ptr`'s zero-size shortcut) returns
    exactly the structural equality of the two decoded values: tags equal and
    fields pairwise equal, leaves compared by `le` — `IntCmp::Eq` on the loaded
    bytes for integer-like leaves, `FloatCmp::Eq` for floats (IEEE `==`, which
    is why `le` is a parameter and not byte equality), the runtime's eq
    function for String / List / registered types. The only assumption on `le`
    is that comparing zero bytes yields true. Padding and the storage of
    unselected variants never influence the result. -/
theorem eq_structural (le : LeafKind → List Nat → List Nat → Bool) (hle0 : ∀ k, le k [] [] = true)
    (t : Ty) (L : Layout) (hL : layoutOf t = some L) (m : Mem) (a b : Nat) (va vb : V)
    (ha : decode m t a = some va) (hb : decode m t b = some vb) :
    eqTy le m t a b = veq le va vb :=
  eqTy_veq le hle0 m t L hL a b va vb ha hb

/-- **T6 (float-free reading)** — when every leaf comparison is equality of
    the leaf's bytes (all leaves except floats, whose `==` is IEEE, and lists,
    whose `==` compares the shared storages' contents), the generated function
    returns true iff the two decoded values are equal. -/
theorem eq_structural_exact (le : LeafKind → List Nat → List Nat → Bool)
    (hle : ∀ k x y, le k x y = true ↔ x = y)
    (t : Ty) (L : Layout) (hL : layoutOf t = some L) (m : Mem) (a b : Nat) (va vb : V)
    (ha : decode m t a = some va) (hb : decode m t b = some vb) :
    eqTy le m t a b = true ↔ va = vb := by
  rw [eq_structural le (fun k => (hle k [] []).2 rfl) t L hL m a b va vb ha hb]
  exact veq_iff_eq le hle va vb

/-- non-vacuity of T6: two `{a: u8, b: u32}` values with equal fields but
    different padding bytes differ as byte strings and still compare equal -/
example :
    let t := Ty.record (.cons (.leaf .int 1 1) (.cons (.leaf .int 4 4) .nil))
    let m : Mem := fun x => if x = 0 ∨ x = 8 then 5 else if 1 ≤ x ∧ x < 4 then 99 else 0
    let le : LeafKind → List Nat → List Nat → Bool := fun _ x y => decide (x = y)
    layoutOf t = some { size := 8, align := 4 } ∧ m.read 0 8 ≠ m.read 8 8 ∧ eqTy le m t 0 8 = true := by
  refine ⟨rfl, by decide, by decide⟩

/-- **model coherence** — the executed clone / eq loops (`cloneFields`,
    `eqFields`: what T5 / T6 are about) touch exactly the components the
    op-level loops (`cloneRecordLoop`, `eqRecordLoop`: what is compared with the
    real lowerer's generated functions on every run) list, at the same
    offsets, in the same order. -/
theorem executed_loops_are_the_listed_visits (le : LeafKind → List Nat → List Nat → Bool)
    (fs : Tys) (src dst : Nat) (m : Mem) :
    cloneFields fs LayoutBuilder.new src dst m =
      (cloneRecordVisits fs).foldl (fun m v => cloneTy v.2.2 (src + v.2.1) (dst + v.2.1) m) m ∧
    eqFields le m fs LayoutBuilder.new src dst =
      (eqRecordVisits fs).all (fun v =>
        match layoutOf v.2.2 with
        | some _ => if noIrValue v.2.2 then true else eqTy le m v.2.2 (src + v.2.1) (dst + v.2.1)
        | none => true) :=
  ⟨cloneFields_eq_visits fs 0 _ src dst m, eqFields_eq_visits le m fs 0 _ src dst⟩

/-- **refutation on the tree as found** — before the repair (`fixed = false`:
    `lower_type(ty).unwrap()` in `call_eq_by_ptr`) generating the equality
    function of ANY aggregate with a zero-sized component panicked the
    compiler; with the repair it is generated. Witnesses: `Option[()]` and
    `{a: (), b: i32}` (replayed on the real code from `corpus/C02`). -/
theorem eq_zero_sized_refuted_before_fix :
    eqOps false (.enum (.cons (.cons .unit .nil) (.cons .nil .nil))) = .panic ∧
    eqOps false (.record (.cons .unit (.cons (.leaf .int 4 4) .nil))) = .panic ∧
    (eqOps true (.enum (.cons (.cons .unit .nil) (.cons .nil .nil)))).isPanic = false ∧
    (eqOps true (.record (.cons .unit (.cons (.leaf .int 4 4) .nil)))).isPanic = false := by
  refine ⟨rfl, rfl, rfl, rfl⟩

/-- **`generated_functions_total`** — for EVERY type tree (inhabited or not,
    any mixture of zero-sized / uninhabited components) generating the clone,
    the drop and the (repaired) equality function hits no `unwrap()` on `None`
    and no `ice!()` of the lowerer; `lower_type`'s final
    `ice!("could not lower")` is unreachable. With
    `eq_zero_sized_refuted_before_fix` this is exactly the difference the
    repair `f353f18` makes. -/
theorem generated_functions_total (t : Ty) :
    (cloneOps t).isPanic = false ∧ (dropOps t).isPanic = false ∧ (eqOps true t).isPanic = false ∧
    lowerType t ≠ .panic :=
  ⟨(generated_ops_total t).1, (generated_ops_total t).2.1, (generated_ops_total t).2.2, lowerType_total t⟩

/-- **T7 `drop_releases_each_handle_once`** — for every inhabited type tree and
    every stored value that decodes, running the generated drop function
    (`dropTy`: `call_drop_of` + `generate_drop_body_record/_enum`, with the
    `needs_drop` tests and the `Switch` whose default is the last variant)
    performs exactly one runtime drop per owned handle of the value — every
    String / List / registered `Clone` leaf reachable through records and the
    variant the tag selects, at the address `layout_of` places it — in field
    order, and nothing else (nothing in padding, nothing in the storage of
    another variant, nothing twice). Together with T5 (a clone reproduces every
    handle) this is what lets C03 count clones and drops per leaf. -/
theorem drop_releases_each_handle_once (t : Ty) (L : Layout) (hL : layoutOf t = some L) (m : Mem) (a : Nat)
    (v : V) (hv : decode m t a = some v) :
    dropTy m t a = handles m t a :=
  dropTy_handles m t L hL a v hv

/-- the executed drop loop is the listed one (cf. `executed_loops_are_the_listed_visits`) -/
theorem executed_drop_loop_is_the_listed_visits (fs : Tys) (m : Mem) (a : Nat) :
    dropFields m fs LayoutBuilder.new a =
      (dropRecordVisits fs).flatMap (fun v => dropTy m v.2.2 (a + v.2.1)) :=
  dropFields_eq_visits m fs 0 _ a

/-- non-vacuity of T7: `{s: String, e: enum { V0(List), V1(u8) }}` holding
    `V0` drops the string and the list; holding `V1` only the string -/
example :
    let t := Ty.record (.cons (.leaf .string 2 1)
      (.cons (.enum (.cons (.cons (.leaf .list 1 1) .nil) (.cons (.cons (.leaf .int 1 1) .nil) .nil))) .nil))
    let m0 : Mem := fun _ => 0
    let m1 : Mem := fun x => if x = 2 then 1 else 0
    dropTy m0 t 0 = [(.string, 0), (.list, 3)] ∧ dropTy m1 t 0 = [(.string, 0)] := by
  exact ⟨rfl, rfl⟩

/-- **`reference_types_are_pointers`** — `is_reference_type` (which decides
    whether `Lowerer::location` hands out a variable or a pointer, and whether a
    value is moved by `memcpy` or by a register write) and `lower_type` agree:
    a type is by-reference iff it is lowered to `Pointer`; a by-value type is
    lowered to an integer / float scalar, or to nothing when it is zero-sized.
    Both functions are the GENERATED ones (`RotoV.Gen.LayoutDecide`). -/
theorem reference_types_are_pointers (t : Ty) :
    (isReferenceType t = some true ↔ lowerType t = .ok (some .pointer)) ∧
    (isReferenceType t = some false →
      lowerType t = .ok none ∨ (∃ s, lowerType t = .ok (some (.int s))) ∨
        (∃ s, lowerType t = .ok (some (.float s)))) :=
  reference_iff_pointer t

/-- **`read_component`** (T4 at the level of values) — field reads, match
    bindings and `?` read exactly the component the source names: if the bytes
    at `a` decode to `val` at type `t`, and the projection path `p` fits `val`
    (every field exists; every variant step names the variant that is live in
    `val`), then `Lowerer::location` neither panics nor answers `uninhabited`,
    and the bytes at the offset it yields decode — at the type it yields — to
    exactly the component `val.project p`. For all type trees, paths of any
    depth, and memories. -/
theorem read_component (m : Mem) (t : Ty) (a : Nat) (val comp : V) (p : List Proj)
    (hd : decode m t a = some val) (hp : val.project p = some comp) :
    ∃ off tp, locate t p 0 = .ok (some (off, tp)) ∧ decode m tp (a + off) = some comp := by
  obtain ⟨off, tp, h1, h2⟩ := decode_project m p t a 0 val comp hd hp
  exact ⟨off, tp, by simpa using h1, h2⟩

/-- non-vacuity: reading `.1.V1.0` of `{a: u8, e: enum { V0, V1(u8) }}` holding `V1(42)` -/
example :
    let t := Ty.record (.cons (.leaf .int 1 1) (.cons (.enum (.cons .nil (.cons (.cons (.leaf .int 1 1) .nil) .nil))) .nil))
    let m : Mem := fun x => if x = 1 then 1 else if x = 2 then 42 else 7
    ∃ val, decode m t 0 = some val ∧ val.project [.field 1, .variantField 1 0] = some (.leaf .int [42]) ∧
      locate t [.field 1, .variantField 1 0] 0 = .ok (some (2, .leaf .int 1 1)) :=
  ⟨_, rfl, rfl, rfl⟩

/-- **`write_component`** (T4 at the level of values) — nested field writes
    write exactly the component the source names: let the bytes at `a` decode
    to `val` at an inhabited type `t`, let the path `p` fit `val`, and let `m'`
    differ from `m` only inside the byte range `Lowerer::location` computes for
    `p` (offset `off`, size of the component's layout), where it now holds
    bytes that decode to `new`. Then the whole value decodes to
    `val.update p new`: the named component is replaced, every other field,
    every enclosing tag and every sibling at every depth is unchanged. For all
    type trees, paths of any depth (through records and live variants), and
    memories. -/
theorem write_component (m m' : Mem) (t : Ty) (L : Layout) (hL : layoutOf t = some L) (a : Nat)
    (val old new : V) (p : List Proj) (hd : decode m t a = some val) (hp : val.project p = some old)
    (off : Nat) (tp : Ty) (lp : Layout) (hloc : locate t p 0 = .ok (some (off, tp)))
    (hlp : layoutOf tp = some lp)
    (hout : ∀ x, (x < a + off ∨ a + off + lp.size ≤ x) → m' x = m x)
    (hnew : decode m' tp (a + off) = some new) :
    decode m' t a = val.update p new :=
  decode_update m m' p t L a 0 val old new off tp lp hL hd hp (by simpa using hloc) hlp hout hnew

/-- non-vacuity of `write_component`: overwriting `.1.V1.0` of
    `{a: u8, e: enum { V0, V1(u8) }}` holding `(7, V1(42))` with 9 -/
example :
    let t := Ty.record (.cons (.leaf .int 1 1) (.cons (.enum (.cons .nil (.cons (.cons (.leaf .int 1 1) .nil) .nil))) .nil))
    let m : Mem := fun x => if x = 1 then 1 else if x = 2 then 42 else 7
    decode (m.write 2 [9]) t 0 =
      some (.rec_ (.cons (.leaf .int [7]) (.cons (.enm 1 (.cons (.leaf .int [9]) .nil)) .nil))) := rfl

/-! ### `==` on lists (the runtime side: src/value/list.rs, regenerated as `Gen.LayoutListEq`) -/

/-- **`list_eq_structural`** — `==` on two Roto lists (`impl PartialEq for
    ErasedList`, run statement by statement as regenerated from the source:
    the `Arc::ptr_eq` shortcut, both locks, the length test, the loop over
    `this.get(i).unwrap()` / `other.get(i).unwrap()`, the element type's
    `eq_fn` = the generated equality function `eqTy` of T6) never panics (no
    `unwrap()` of `None`, no mutex locked twice) and returns: `true` for one
    and the same storage; otherwise equal lengths and, element by element, the
    STRUCTURAL equality `veq` of the decoded element values. Nothing else
    enters: not the padding inside or after an element, not the storage of the
    variants that are not live, not the bit pattern of a float (`le`). -/
theorem list_eq_structural (le : LeafKind → List Nat → List Nat → Bool) (hle0 : ∀ k, le k [] [] = true)
    (t : Ty) (L : Layout) (hL : layoutOf t = some L) (m : Mem) (a b : RawBuf) (va vb : Nat → V)
    (ha : ∀ i, i < a.len → decode m t (a.ptr + L.size * i) = some (va i))
    (hb : ∀ i, i < b.len → decode m t (b.ptr + L.size * i) = some (vb i)) :
    listEq (eqTy le m t) L.size a b =
      .ok (if a.handle = b.handle then true
           else decide (a.len = b.len) && (List.range a.len).all (fun i => veq le (va i) (vb i))) := by
  rw [listEq_spec]
  by_cases hh : a.handle = b.handle
  · simp [hh]
  · by_cases hl : a.len = b.len
    · have hl' : (a.len = b.len) = True := eq_true hl
      simp only [hh, if_false, hl', decide_true, Bool.true_and]
      congr 1
      exact all_range_congr (fun j hj =>
        eq_structural le hle0 t L hL m _ _ _ _ (ha j hj) (hb j (hl ▸ hj)))
    · simp [hh, hl]

/-- **`list_contains_index_structural`** — `list.contains(x)` / `list.index(x)`
    (`RawList::contains` / `index`, regenerated) never panic and answer by the
    structural equality of the decoded element values with the decoded item:
    whether / where the first structurally equal element is. -/
theorem list_contains_index_structural (le : LeafKind → List Nat → List Nat → Bool) (hle0 : ∀ k, le k [] [] = true)
    (t : Ty) (L : Layout) (hL : layoutOf t = some L) (m : Mem) (a : RawBuf) (item : Nat) (va : Nat → V) (vi : V)
    (ha : ∀ i, i < a.len → decode m t (a.ptr + L.size * i) = some (va i))
    (hi : decode m t item = some vi) :
    listContains (eqTy le m t) L.size a item =
        .ok (.bool ((List.range a.len).find? (fun j => veq le (va j) vi)).isSome) ∧
      listIndex (eqTy le m t) L.size a item =
        .ok (.idx ((List.range a.len).find? (fun j => veq le (va j) vi))) := by
  have hc : (List.range a.len).find? (fun j => eqTy le m t (a.ptr + L.size * j) item) =
      (List.range a.len).find? (fun j => veq le (va j) vi) :=
    find_range_congr (fun j hj => eq_structural le hle0 t L hL m _ _ _ _ (ha j hj) hi)
  rw [listContains_spec, listIndex_spec, hc]
  exact ⟨rfl, rfl⟩

/-- **`list_vtable_wiring`** — the element functions a list is given
    (`Lowerer::call_runtime`, regenerated: the vtable written for a type
    parameter of a runtime function, field by field of `struct VTable`): the
    `eq_fn` of the elements is ALWAYS the address of the generated equality
    function of the element type (`::generated::eq_<type_id>`, the `eqTy` of
    `list_eq_structural`) — not chosen under any condition; the element size
    and alignment are `layout_of`'s (the `L.size` of `list_eq_structural`);
    `clone_fn` / `drop_fn` are the generated clone / drop functions exactly
    when `needs_clone` / `needs_drop` say so (T5 / T7), null otherwise. -/
theorem list_vtable_wiring :
    vtableSlot vtableFields vtableWrites .eqFn = some (.generated .eq none) ∧
      vtableSlot vtableFields vtableWrites .size = some .layoutSize ∧
      vtableSlot vtableFields vtableWrites .align = some .layoutAlign ∧
      vtableSlot vtableFields vtableWrites .cloneFn = some (.generated .clone (some .needsClone)) ∧
      vtableSlot vtableFields vtableWrites .dropFn = some (.generated .drop (some .needsDrop)) := by
  decide

/-- **`bytewise_list_comparison_refuted`** — why the elements must go through
    `eq_fn`: two one-element lists of `Option[u32]`-shaped values (`enum {
    V0(u32), V1 }`, 8 bytes) both holding `V1` — the same value — whose element
    buffers differ as bytes (the unused payload holds 7 in one and 9 in the
    other); `==` as regenerated from the source says `true`, a comparison of
    the buffers' bytes would say `false`. -/
theorem bytewise_list_comparison_refuted :
    let t := Ty.enum (.cons (.cons (.leaf .int 4 4) .nil) (.cons .nil .nil))
    let m : Mem := fun x => if x = 0 ∨ x = 8 then 1 else if x = 4 then 7 else if x = 12 then 9 else 0
    let le : LeafKind → List Nat → List Nat → Bool := fun _ x y => decide (x = y)
    let a : RawBuf := { handle := 1, ptr := 0, len := 1 }
    let b : RawBuf := { handle := 2, ptr := 8, len := 1 }
    layoutOf t = some { size := 8, align := 4 } ∧
      decode m t a.ptr = some (.enm 1 .nil) ∧ decode m t b.ptr = some (.enm 1 .nil) ∧
      m.read a.ptr (8 * a.len) ≠ m.read b.ptr (8 * b.len) ∧
      listEq (eqTy le m t) 8 a b = .ok true := by
  refine ⟨rfl, rfl, rfl, by decide, by decide⟩

/-- non-vacuity of `list_eq_structural` / `list_contains_index_structural`:
    two distinct two-element lists of `{a: u8, b: u32}` with pairwise equal
    elements and different padding; and a longer list is not equal to a shorter -/
example :
    let t := Ty.record (.cons (.leaf .int 1 1) (.cons (.leaf .int 4 4) .nil))
    let m : Mem := fun x => if x % 8 = 0 then 5 else if x % 8 < 4 then x else 0
    let le : LeafKind → List Nat → List Nat → Bool := fun _ x y => decide (x = y)
    let a : RawBuf := { handle := 1, ptr := 0, len := 2 }
    let b : RawBuf := { handle := 2, ptr := 16, len := 2 }
    let c : RawBuf := { handle := 3, ptr := 16, len := 3 }
    listEq (eqTy le m t) 8 a b = .ok true ∧ listEq (eqTy le m t) 8 a c = .ok false ∧
      listEq (eqTy le m t) 8 c c = .ok true ∧
      listContains (eqTy le m t) 8 a 16 = .ok (.bool true) ∧ listIndex (eqTy le m t) 8 a 24 = .ok (.idx (some 0)) := by
  refine ⟨by decide, by decide, by decide, by decide, by decide⟩

/-! ### further non-vacuity examples (hypotheses of the theorems above are satisfiable) -/

/-- `fields_disjoint_variant` / `offsets_agree_variant`: an enum with an inhabited
    variant `V1(u8, u64)` next to an uninhabited one `V0(!)` has a layout -/
example :
    let vs := Vars.cons (.cons .never .nil) (.cons (.cons (.leaf .int 1 1) (.cons (.leaf .int 8 8) .nil)) .nil)
    layoutOf (.enum vs) = some { size := 16, align := 8 } ∧
    vs.get? 1 = some (.cons (.leaf .int 1 1) (.cons (.leaf .int 8 8) .nil)) ∧
    (collectLayouts (.cons (.leaf .int 1 1) (.cons (.leaf .int 8 8) .nil))).isSome = true ∧
    placement (.cons (.leaf .int 1 1) (.cons (.leaf .int 8 8) .nil)) 0 variantStart
      = some [(0, 1, .leaf .int 1 1), (1, 8, .leaf .int 8 8)] :=
  ⟨rfl, rfl, rfl, rfl⟩

/-- `uninhabited_variant_skipped`: `V0(!)` is such a variant -/
example : collectLayouts (.cons .never .nil) = none := rfl

/-- `location_total` / `read_component`: a valid path through a record and an inhabited variant -/
example :
    let e := Ty.enum (.cons (.cons (.leaf .int 8 8) .nil) .nil)
    PathOk (.record (.cons (.leaf .int 1 1) (.cons e .nil))) [.field 1, .variantField 0 0] (.leaf .int 8 8) :=
  .field rfl (.variant (ls := [(.leaf .int 8 8, Layout.new 8 8)]) rfl rfl rfl (.nil _))

/-- `eq_structural_exact`: byte equality is a leaf comparison satisfying its hypothesis -/
example : ∀ (k : LeafKind) (x y : List Nat), (fun _ x y => decide (x = y)) k x y = true ↔ x = y := by
  intro k x y; simp

/-- `clone_list_same_handle`: an 8-byte list handle is reproduced verbatim -/
example :
    let m : Mem := fun x => x
    (cloneTy (.leaf .list 8 8) 16 64 m).read 64 8 = [16, 17, 18, 19, 20, 21, 22, 23] := by decide

/-- `generated_functions_total` / `reference_types_are_pointers`: what the model
    answers for `{a: (), b: String}` -/
example :
    let t := Ty.record (.cons .unit (.cons (.leaf .string 16 8) .nil))
    isReferenceType t = some true ∧ lowerType t = .ok (some .pointer) ∧
    isReferenceType .unit = some false ∧ lowerType .unit = .ok none := ⟨rfl, rfl, rfl, rfl⟩

/-- **`registered_types_are_references`** — a registered type is a reference
    type and is lowered to `Pointer` WHATEVER its size (the Rust side always
    passes `*mut T` for `Val<T>`), over the generated `is_reference_type` /
    `lower_type`; every other zero-sized inhabited type has no IR value and is
    not a reference type. -/
theorem registered_types_are_references (t : Ty) :
    (t.kind = .runtime → isReferenceType t = some true ∧ lowerType t = .ok (some .pointer)) ∧
    (t.kind ≠ .runtime → ∀ l, layoutOf t = some l → l.get_size = 0 →
      isReferenceType t = some false ∧ lowerType t = .ok none) := by
  constructor
  · intro hk
    have h1 : isReferenceType t = some true := by rw [isReferenceType_eq]; simp [hk]
    exact ⟨h1, (reference_iff_pointer t).1.1 h1⟩
  · intro hk l hl hz
    have hn : noIrValue t = true := by simp [noIrValue, sizeZero, hl, hz, hk]
    constructor
    · rw [isReferenceType_eq]; simp [hk, hl, hz]
    · rw [lowerType_eq]; simp [hn]

example : (Ty.leaf .rtCopy 0 1).kind = .runtime ∧ (Ty.leaf .rtClone 24 8).kind = .runtime ∧
    Ty.unit.kind ≠ .runtime ∧ layoutOf .unit = some { size := 0, align := 1 } := by decide

/-- **`zero_sized_registered_component_ops`** — what the generated functions
    do with a zero-sized registered component at offset `off`, as written:
    a `Clone` one is cloned and dropped through its registered functions
    (`needs_clone` does not look at the size), a `Copy` one is neither copied
    (a 0-byte `memcpy` is not emitted) nor dropped, and BOTH are compared
    through the registered eq function (the component is a reference type, so
    `call_eq_by_ptr` goes to `call_eq_of` with the two addresses). -/
theorem zero_sized_registered_component_ops (off a : Nat) :
    fieldCloneOps off (.leaf .rtClone 0 a) = .ok [.clone off] ∧
    fieldDropOps off (.leaf .rtClone 0 a) = .ok [.drop off] ∧
    fieldEqOps true off (.leaf .rtClone 0 a) = .ok [.eq off] ∧
    fieldCloneOps off (.leaf .rtCopy 0 a) = .ok [] ∧
    fieldDropOps off (.leaf .rtCopy 0 a) = .ok [] ∧
    fieldEqOps true off (.leaf .rtCopy 0 a) = .ok [.eq off] := by
  refine ⟨?_, ?_, ?_, ?_, ?_, ?_⟩ <;>
    simp [fieldCloneOps, fieldDropOps, fieldEqOps, eqOfOps, needsDrop, needsClone, hasRuntimeClone, hasRuntimeEq,
      isReferenceType_eq, lowerType_eq, noIrValue, Ty.kind, layoutOf, Layout.new, Layout.get_size]

/-- non-vacuity: the whole functions generated for `{z: Z, x: u32}` with a
    zero-sized registered `Clone` type `Z` -/
example :
    let t := Ty.record (.cons (.leaf .rtClone 0 1) (.cons (.leaf .int 4 4) .nil))
    cloneOps t = .ok [.clone 0, .copy 0 4] ∧ dropOps t = .ok [.drop 0] ∧
    eqOps true t = .ok [.eq 0, .read .left 0 4, .read .right 0 4, .icmp, .ret true, .ret false] :=
  ⟨rfl, rfl, rfl⟩

/-- **`zero_sized_aggregate_of_registered_has_no_storage`** (refutation on the
    unchanged tree, finding `C02-zero-sized-aggregate-of-registered`) — for
    `record R0 { z: Z }` with a zero-sized registered `Clone` type `Z`: `R0` is
    zero-sized and not a registered type, so it is no reference type and has
    no IR value — a variable of type `R0` is not declared at all — while its
    component `z` IS a reference type that `Lowerer::location` places behind
    the pointer `r + 0`, and `R0` needs its generated clone / drop function
    to run. Building, copying, passing or comparing such a value makes the
    lowerer emit `r + 0` for a variable that does not exist: the code
    generator stops with "did not find Var" (replayed by the harness battery
    `zst`, keys `zst0agg:…:ice-did-not-find-var`). -/
theorem zero_sized_aggregate_of_registered_has_no_storage :
    let z := Ty.leaf .rtClone 0 1
    let r0 := Ty.record (.cons z .nil)
    layoutOf r0 = some { size := 0, align := 1 } ∧
    isReferenceType r0 = some false ∧ lowerType r0 = .ok none ∧
    needsClone r0 = true ∧ needsDrop r0 = true ∧
    locate r0 [.field 0] 0 = .ok (some (0, z)) ∧
    isReferenceType z = some true ∧ lowerType z = .ok (some .pointer) ∧
    cloneOps r0 = .ok [.clone 0] ∧ dropOps r0 = .ok [.drop 0] :=
  ⟨rfl, rfl, rfl, rfl, rfl, rfl, rfl, rfl, rfl, rfl⟩

/-! ### T8 — constructors: components are evaluated left to right and HOLD their values

The behavioural half of the property ("storing … yields an independent copy, so a later write
through one name is never visible through another"; "constructor arguments … read exactly the
component the source names") inside a constructor whose LATER component writes to what an
EARLIER component read: `W { first: n, second: { n = 9; 1 } }`.  The lowerer's values are lazy
(`path_value` returns `Value::Clone(place)` and emits nothing: the read happens when the value
is assigned), so the question is decided by WHEN each component is stored.
`Model/ValueCtor`: the source core, its value-semantics `eval`, and `lower`, the statement by
statement transliteration of `Lowerer::record` / `binop` / `assign` / `block` / `block_expr` /
`function_like` (src/mir/lower.rs) over MIR instructions with their executed meaning. -/

open RotoV.ValueCtor in
/-- **T8 `constructor_lowering_holds_values`** — for EVERY expression of the source core
    (literals, reads of variables / field paths / nested paths / whole records, constructors of
    any number of components nested to any depth, `+`, blocks that assign to a variable or to a
    field path of one before yielding a value — in every position) and EVERY store: the MIR the
    lowerer emits for a function body `{ e }`, executed, returns exactly the value the
    value-semantics spec gives and leaves exactly the spec's store.  In particular every
    component of every constructor holds the value its expression had when it was evaluated,
    left to right, whatever the components after it write.
    (Model level: `lower` is a hand transliteration; the real lowerer's MIR for generated
    programs of this core is run against `eval` on every check run — `c02 ctor`.) -/
theorem constructor_lowering_holds_values (e : CE) (σ : Store) : runBody true e σ = eval e σ :=
  runBody_eq_eval e σ

open RotoV.ValueCtor in
example : runBody true (.ctor (.cons (.read 0 [1]) (.cons (.blk 0 [1] (.lit (.int 9)) (.read 0 [])) .nil)))
    [.cons (.int 1) (.cons (.int 2) .nil)] =
    (.cons (.int 2) (.cons (.cons (.int 1) (.cons (.int 9) .nil)) .nil), [.cons (.int 1) (.cons (.int 9) .nil)]) := by
  decide

open RotoV.ValueCtor in
/-- the components of the spec, one at a time: the value of component `k` and the store it
    leaves behind -/
def componentAt : CEs → Nat → Store → Option (ValueCtor.V × Store)
  | .nil, _, _ => none
  | .cons c _, 0, σ => some (eval c σ)
  | .cons c cs, k + 1, σ => componentAt cs k (eval c σ).2

open RotoV.ValueCtor in
/-- **`components_left_to_right`** — what the spec says about a constructor, spelled out:
    component `k` of the value is the value of the `k`-th expression in the store the
    components BEFORE it left behind; nothing a component AFTER it does enters it. -/
theorem components_left_to_right : ∀ (cs : CEs) (k : Nat) (σ : Store) (r : ValueCtor.V × Store),
    componentAt cs k σ = some r → (eval (.ctor cs) σ).1.get k = r.1
  | .nil, _, _, _, h => by simp [componentAt] at h
  | .cons c cs, 0, σ, r, h => by
    simp only [componentAt, Option.some.injEq] at h
    subst h
    simp [eval, evals, ValueCtor.V.get]
  | .cons c cs, k + 1, σ, r, h => by
    simp only [componentAt] at h
    have ih := components_left_to_right cs k (eval c σ).2 r h
    simpa [eval, evals, ValueCtor.V.get] using ih

open RotoV.ValueCtor in
/-- **`earlier_component_unaffected_by_later_write`** — the class of seeded change C02-7 as a
    statement about the compiled code: a constructor whose first component reads `x.p`
    holds, in the MIR the lowerer emits, the value `x.p` had BEFORE the constructor — for every
    list of later components, blocks that assign to `x` or to any component of it included. -/
theorem earlier_component_unaffected_by_later_write (x : Nat) (p : List Nat) (cs : CEs) (σ : Store) :
    (runBody true (.ctor (.cons (.read x p) cs)) σ).1.get 0 = (σ.read x).proj p := by
  rw [constructor_lowering_holds_values]
  exact components_left_to_right (.cons (.read x p) cs) 0 σ _ rfl

open RotoV.ValueCtor in
example : ∃ cs σ x p, (eval (.ctor (.cons (.read x p) cs)) σ).2.read x ≠ σ.read x ∧
    (runBody true (.ctor (.cons (.read x p) cs)) σ).1.get 0 = (σ.read x).proj p :=
  ⟨.cons (.blk 0 [] (.lit (.int 9)) (.lit (.int 1))) .nil, [.int 3], 0, [], by decide, by decide⟩

open RotoV.ValueCtor in
/-- **`unmaterialised_component_refuted`** — the other answer to the one decision
    (`lower false`: a component that is a plain read of a variable or a constant is not stored
    in a variable of its own; the lazy value is written into the record after all components
    were lowered — seeded change C02-7) does NOT compute the spec:
    `W { first: n, second: { n = 9; 1 } }` with `n = 3` yields `first = 9`. -/
theorem unmaterialised_component_refuted :
    ∃ (e : CE) (σ : Store), runBody false e σ ≠ eval e σ ∧
      (runBody false e σ).1.get 0 = .int 9 ∧ (eval e σ).1.get 0 = .int 3 :=
  ⟨.ctor (.cons (.read 0 []) (.cons (.blk 0 [] (.lit (.int 9)) (.lit (.int 1))) .nil)), [.int 3],
    by decide, by decide, by decide⟩

/-- **T9 `match_examinee_is_a_copy`** — "pattern-binding one yields an independent copy … match
    bindings (with guards and `_` arms) read exactly the component the source names": the `match`
    `Lowerer::match` emits — discriminant read once, then per candidate arm the bindings RE-READ
    from the examinee variable after the guards of the earlier arms have run — is value semantics
    on the value the examinee had when the match started: same arm, same bindings, same store
    (plus the temporary), for EVERY list of arms (guards are arbitrary state transformers: they may
    assign the matched variable, move it to another variant, …) that cannot name the lowerer's
    temporary. Stated over `Gen.ValueMatchGen.examineeSteps`, the `let examinee = …;` statements
    the translator reads off `src/mir/lower/match_expr.rs` on every run: if the examinee stops
    being materialised (for some shape of expression) the definition changes — or leaves the
    subset — and this proof breaks. Model-level: that `lowArms` is what `match_case` emits is
    validated by the behavioural run (176 held-copy representatives + generated guards). -/
theorem match_examinee_is_a_copy (x tmp : Nat) (arms : List ValueMatch.Arm) (s : ValueMatch.St)
    (hb : ValueMatch.armsBlindTo arms tmp) :
    ValueMatch.lowMatch Gen.ValueMatchGen.examineeSteps x tmp arms s
      = (ValueMatch.specMatch x arms s).map fun p => (p.1, p.2.setEnum tmp (s.enums x)) :=
  ValueMatch.lowMatch_copied x tmp arms s hb

/-- not vacuous: arms whose guard overwrites the matched variable and says no are blind to the
    temporary; the spec then takes the second arm with the ORIGINAL payload while `x` is changed -/
example : ValueMatch.armsBlindTo ValueMatch.wArms 7 ∧
    (ValueMatch.specMatch 0 ValueMatch.wArms ValueMatch.wStore).map
      (fun p => (p.1, p.2.leaves 2, (p.2.enums 0).fs)) = some (1, 5, [105]) :=
  ⟨ValueMatch.wArms_blind, by decide⟩

/-- **`match_arm_and_bindings_are_of_the_matched_value`** — T9 as an observation: the arm taken,
    every pattern variable and every variable other than the temporary agree with value semantics. -/
theorem match_arm_and_bindings_are_of_the_matched_value (x tmp : Nat) (arms : List ValueMatch.Arm)
    (s : ValueMatch.St) (hb : ValueMatch.armsBlindTo arms tmp) :
    ValueMatch.observe tmp (ValueMatch.lowMatch Gen.ValueMatchGen.examineeSteps x tmp arms s)
      = ValueMatch.observe tmp (ValueMatch.specMatch x arms s) := by
  rw [match_examinee_is_a_copy x tmp arms s hb, ValueMatch.observe_setEnum]

example : ValueMatch.observe 7 (ValueMatch.lowMatch Gen.ValueMatchGen.examineeSteps 0 7 ValueMatch.wArms ValueMatch.wStore)
    = ValueMatch.observe 7 (ValueMatch.specMatch 0 ValueMatch.wArms ValueMatch.wStore) :=
  match_arm_and_bindings_are_of_the_matched_value 0 7 _ _ ValueMatch.wArms_blind

/-- **`match_on_the_variable_itself_refuted`** — the other answer to the one decision (seeded change
    C02-8: for a plain variable the examinee is the user's variable itself, steps `[evalExpr]`)
    does NOT compute the spec: `match x { Some(a) if { x = Some(105); false } => …, Some(b) => b }`
    with `x = Some(5)` binds `b = 105`; value semantics binds `b = 5`. -/
theorem match_on_the_variable_itself_refuted :
    ∃ (arms : List ValueMatch.Arm) (s : ValueMatch.St), ValueMatch.armsBlindTo arms 7 ∧
      (ValueMatch.lowMatch [.evalExpr] 0 7 arms s).map (fun p => (p.1, p.2.leaves 2)) = some (1, 105) ∧
      (ValueMatch.specMatch 0 arms s).map (fun p => (p.1, p.2.leaves 2)) = some (1, 5) :=
  ⟨ValueMatch.wArms, ValueMatch.wStore, ValueMatch.wArms_blind, by decide, by decide⟩

/-- **`match_bindings_read_the_switched_value_mir`** — soundness of the checker `matchIsOnCopy` that
    every MIR item of every generated script goes through (the REAL lowerer's output, hook dump,
    `c02 mirmatch`): if the checker accepts an item then, on EVERY path of its control-flow graph —
    every combination of guards saying yes or no, every iteration of an enclosing loop —, between a
    node `d` that reads the discriminant of a variable `v` and a later node `r` that extracts a
    pattern binding from `v` (no other discriminant read of `v` in between), NO node writes `v` or a
    part of it, sets its discriminant, drops or moves it. The quantifier over the paths through the
    guards is this theorem; the quantifier over programs is sampled on compiler output. This closes
    the gap T9 left open (`lowArms` = what `match_case` emits): whatever `match_case` emits, the
    bindings of every arm are components of the value whose discriminant was switched on. -/
theorem match_bindings_read_the_switched_value_mir (it : ValueMir.Item)
    (h : ValueMir.matchIsOnCopy it = true) (v d : Nat) (mid : List Nat) (r : Nat)
    (hp : ValueMir.IsPath (ValueMir.flatten it) (d :: (mid ++ [r])))
    (hr : v ∈ (ValueMir.node (ValueMir.flatten it) r).binds)
    (hmid : ∀ m ∈ mid, v ∉ (ValueMir.node (ValueMir.flatten it) m).discr) :
    ∀ m ∈ mid, v ∉ (ValueMir.node (ValueMir.flatten it) m).affects :=
  ValueMir.graphOk_bindings_of_switched_value h v d mid r hp hr hmid

/-- not vacuous: the item `wOnCopy` (a guard writes the matched variable `x` between two binding
    extractions from the copy `$1`) is accepted, nodes 1 … 6 are a path from the discriminant read
    to the second extraction, and a node on it does affect ANOTHER variable (`x`) -/
example : ValueMir.matchIsOnCopy ValueMir.wOnCopy = true ∧
    ValueMir.IsPath (ValueMir.flatten ValueMir.wOnCopy) [1, 2, 3, 4, 5, 6] ∧
    1 ∈ (ValueMir.node (ValueMir.flatten ValueMir.wOnCopy) 1).discr ∧
    1 ∈ (ValueMir.node (ValueMir.flatten ValueMir.wOnCopy) 6).binds ∧
    0 ∈ (ValueMir.node (ValueMir.flatten ValueMir.wOnCopy) 4).affects := by decide

/-- **`match_write_then_binding_rereads_discriminant_mir`** — the same soundness, read from the
    write: after any node that affects `v`, no binding is extracted from `v` before the
    discriminant of `v` has been read again. -/
theorem match_write_then_binding_rereads_discriminant_mir (it : ValueMir.Item)
    (h : ValueMir.matchIsOnCopy it = true) (v a : Nat) (mid : List Nat) (r : Nat)
    (hp : ValueMir.IsPath (ValueMir.flatten it) (a :: (mid ++ [r])))
    (ha : v ∈ (ValueMir.node (ValueMir.flatten it) a).affects)
    (hr : v ∈ (ValueMir.node (ValueMir.flatten it) r).binds) :
    ∃ m ∈ mid, v ∈ (ValueMir.node (ValueMir.flatten it) m).discr :=
  ValueMir.graphOk_sound h v a mid r hp ha hr

example : ∃ m ∈ [1, 2], 1 ∈ (ValueMir.node (ValueMir.flatten ValueMir.wOnCopy) m).discr :=
  match_write_then_binding_rereads_discriminant_mir ValueMir.wOnCopy (by decide) 1 0 [1, 2] 3
    (by decide) (by decide) (by decide)

/-- **`mir_checker_rejects_match_on_the_variable`** — the checker is not trivially `true`: the MIR
    shape seeded change C02-8 produces (discriminant and bindings read from the user's variable,
    which a guard assigns between two extractions) is rejected, and on it the conclusion of the
    soundness theorem indeed fails (node 4 writes `x` between the discriminant read and the second
    extraction). -/
theorem mir_checker_rejects_match_on_the_variable :
    ValueMir.matchIsOnCopy ValueMir.wOnVariable = false ∧
    ValueMir.IsPath (ValueMir.flatten ValueMir.wOnVariable) [0, 1, 2, 3, 4, 5] ∧
    0 ∈ (ValueMir.node (ValueMir.flatten ValueMir.wOnVariable) 0).discr ∧
    0 ∈ (ValueMir.node (ValueMir.flatten ValueMir.wOnVariable) 5).binds ∧
    0 ∈ (ValueMir.node (ValueMir.flatten ValueMir.wOnVariable) 3).affects := by decide

/-- **`call_arguments_are_consumed_mir`** — a parameter is a copy (statement: "passing … yields an
    independent copy, so a later write through one name is never visible through another"), as a
    verified check of the REAL lowerer's MIR (every item of every generated script, hook dump,
    `c02 mirmatch`): if `argumentsAreConsumed` accepts an item then, on EVERY path of its
    control-flow graph — every order of branches, every iteration of a loop, so also a call inside a
    `for` body or a guard — after a node hands a variable `v` of a record / enum / owned type to a
    call, `v` is assigned again as a whole before ANY node reads it or a part of it, reads its
    discriminant, drops, moves, passes or returns it. So whatever the callee does to its parameter
    (it owns and may write it in place) can be observed through no name of the caller: what was
    handed over was a value of its own (`normalized_function_call`'s temporaries; the copy the
    `for` loop hands to `get` on every iteration). About `flatten` of the dumped item (trusted: that
    reading and the dump); which arguments count is read off the item's own type table (`dType`). -/
theorem call_arguments_are_consumed_mir (it : ValueMir.Item)
    (h : ValueMir.argumentsAreConsumed it = true) (v a : Nat) (mid : List Nat) (r : Nat)
    (hp : ValueMir.IsPath (ValueMir.flatten it) (a :: (mid ++ [r])))
    (ha : v ∈ (ValueMir.node (ValueMir.flatten it) a).hands)
    (hr : v ∈ (ValueMir.node (ValueMir.flatten it) r).uses) :
    ∃ m ∈ mid, v ∈ (ValueMir.node (ValueMir.flatten it) m).defs :=
  ValueMir.argsOk_sound h v a mid r hp ha hr

/-- non-vacuity: a call in a loop, handed a fresh copy of `x` on every iteration — accepted; the path
    once round the loop from the call (node 1) back to it passes the assignment of the copy
    (node 0), and `x` is read after the loop. -/
example : ValueMir.argumentsAreConsumed ValueMir.wArgCopy = true ∧
    ValueMir.IsPath (ValueMir.flatten ValueMir.wArgCopy) [1, 2, 3, 0, 1] ∧
    1 ∈ (ValueMir.node (ValueMir.flatten ValueMir.wArgCopy) 1).hands ∧
    1 ∈ (ValueMir.node (ValueMir.flatten ValueMir.wArgCopy) 1).uses ∧
    1 ∈ (ValueMir.node (ValueMir.flatten ValueMir.wArgCopy) 0).defs ∧
    0 ∈ (ValueMir.node (ValueMir.flatten ValueMir.wArgCopy) 4).uses := by decide

example : ∃ m ∈ [2, 3, 0], 1 ∈ (ValueMir.node (ValueMir.flatten ValueMir.wArgCopy) m).defs :=
  call_arguments_are_consumed_mir ValueMir.wArgCopy (by decide) 1 1 [2, 3, 0] 1
    (by decide) (by decide) (by decide)

/-- **`mir_checker_rejects_argument_passed_itself`** — the second checker is not trivially `true`:
    when the lowerer hands the user's variable itself to the callee (`f(x)` without the temporary)
    and the next statement reads `x.0`, the item is rejected, and on it the conclusion of the
    soundness theorem indeed fails (node 1 reads `x` right after node 0 handed it over). -/
theorem mir_checker_rejects_argument_passed_itself :
    ValueMir.argumentsAreConsumed ValueMir.wArgItself = false ∧
    ValueMir.IsPath (ValueMir.flatten ValueMir.wArgItself) [0, 1] ∧
    0 ∈ (ValueMir.node (ValueMir.flatten ValueMir.wArgItself) 0).hands ∧
    0 ∈ (ValueMir.node (ValueMir.flatten ValueMir.wArgItself) 1).uses := by decide

end RotoV.C02
