/-
  C02 — aggregates are values, lists are shared, components are addressed
  exactly.  Property theorems (DESIGN.md §4 C02).

  The layout arithmetic (`Layout`, `LayoutBuilder.add/finish`, `union`, the
  asserts of `Layout::new`) is `RotoV.Gen.LayoutGen`, regenerated from
  `src/runtime/layout.rs` on every run; `layout_of` and the offset loops of the
  lowerer are `RotoV.Model.Layout` / `LayoutOps`, modelled as written and
  compared with the real lowerer's answers on every run.
-/
import RotoV.Lemmas.Layout

namespace RotoV.C02
open RotoV RotoV.Layout RotoV.LayoutStd RotoV.Gen.LayoutGen

/-- **T1 `layout_wf`** — for every type tree whose leaves report layouts that
    pass `Layout::new`'s asserts, the layout `layout_of` computes passes them
    too: `align > 0`, `align` a power of two, `size` a multiple of `align`
    (so `Layout::new` inside `finish` never panics, and no
    `next_multiple_of` is ever called with 0). -/
theorem layout_wf (t : Ty) (hl : leavesWf t = true) (l : Layout) (h : layoutOf t = some l) :
    Layout.wf l = true :=
  (wf_iff l).2 (layoutOf_wf t hl l h)

example : ∃ t l, leavesWf t = true ∧ layoutOf t = some l ∧ l = { size := 24, align := 8 } :=
  ⟨.record (.cons (.leaf .int 1 1) (.cons (.enum (.cons (.cons (.leaf .int 8 8) .nil) (.cons .nil .nil))) .nil)),
   _, by decide, rfl, by decide⟩

end RotoV.C02
