/-
  C07 — ill-typed scripts never compile; the rule "unknown or out-of-scope
  name" for packages of SEVERAL modules.

  Own module, so that a change of name lookup (`ScopeGraph::resolve_name`,
  `resolve_module_part_of_path`) breaks exactly these obligations.

  `Model/TcModules.lean` is the documented scoping rule as an executable judge
  (the module layer of the oracle `D`: what a path denotes at a site, or nothing).
  Here: what the rule says about names a module merely IMPORTS (they are not its
  members: no path leads through the module to them), and the tie of that clause
  to the source — the order in which one iteration of `resolve_name` consults the
  scope's declarations, the `recurse` exit and the scope's imports, and the values
  `resolve_module_part_of_path` gives to `recurse`, both regenerated from
  src/typechecker/{scope,expr}.rs on every run (`Generated/C07Facts.lean`).

  NOT proved here (tested on every run, phases `mods` / `mods-gen`: 20 700 class
  representatives compared both ways, then generated packages with scope-breaking
  edits): that the type checker as a whole accepts a package only if every path
  in it denotes something under `TcModules.resolve`. The full-strength statement
  would be
      theorem scope_rule_enforced (p : Pkg) (u : Use) :
        checkUse p u = .notInScope → the type checker rejects every package with
        skeleton p that contains the use u
  over a model of `check_module_tree`; property C13 proves the lookup rules about
  its model of the scope graph (`Props/C13.lean`: `lookup_spec`, `path_spec`,
  `unreachable_member_is_error`), this module only the clause below.
-/
import RotoV.Lemmas.TcModules
import RotoV.Generated.C07Facts

namespace RotoV.C07Scope
open RotoV.TcModules RotoV.Gen

/-! ## the clause "what a module imports is not its member" in the rule -/

/-- A direct member of a module is one of its child modules or an item the
    module declares — nothing else. -/
theorem member_declared (p : Pkg) (i : Nat) (x : Ident) (e : Entity) (h : member p i x = some e) :
    (x, e) ∈ childrenOf p i ∨ (x ∈ itemsOf p i ∧ e = .item i x) := by
  unfold member moduleDecls at h
  have hm := mem_of_lookup _ _ _ h
  rcases List.mem_append.mp hm with hc | hi
  · exact Or.inl hc
  · right
    obtain ⟨y, hy, hyx⟩ := List.mem_filterMap.mp hi
    cases y <;> simp at hyx <;> obtain ⟨rfl, rfl⟩ := hyx <;> exact ⟨hy, rfl⟩

example : member ⟨[⟨0, none, [.fn 0], []⟩, ⟨1, some 0, [.fn 1], []⟩], []⟩ 0 (.mod 1) = some (.module 1) := by decide

/-- **The members of a module do not depend on what any module imports.** -/
theorem member_ignores_imports (p : Pkg) (i : Nat) (x : Ident) :
    member (eraseImports p) i x = member p i x := by
  unfold member moduleDecls
  rw [childrenOf_eraseImports, itemsOf_eraseImports]

/-- **Later path segments never see an import**: walking from an entity along a
    path gives the same result in the package with every module-level import
    erased. So `m.x` denotes something only if `m` DECLARES `x` (or `x` is a
    child module of `m`); a name `m` merely imports is out of scope there. -/
theorem walk_ignores_imports (p : Pkg) (e : Entity) (path : Path) :
    walk (eraseImports p) e path = walk p e path := by
  induction path generalizing e with
  | nil => cases e <;> rfl
  | cons x rest ih =>
    cases e with
    | module i =>
      simp only [walk, member_ignores_imports]
      cases member p i x with
      | none => rfl
      | some e' => exact ih e'
    | item m y =>
      cases y <;> cases rest <;> cases x <;> simp [walk, eraseImports]
    | variant m t k => simp [walk]

example : walk ⟨[⟨0, none, [], []⟩, ⟨1, some 0, [.fn 1], []⟩], []⟩ (.module 0) [.mod 1, .fn 1] = some (.item 1 (.fn 1)) := by
  decide

/-- the same for the segments after leading `super`s -/
theorem afterSuper_ignores_imports (p : Pkg) (m : Nat) (path : Path) :
    afterSuper (eraseImports p) m path = afterSuper p m path := by
  induction path generalizing m with
  | nil => rfl
  | cons x rest ih =>
    have hpar : parentOf (eraseImports p) m = parentOf p m := by
      unfold parentOf eraseImports
      simp only [List.getElem?_map]
      cases p.mods[m]? <;> rfl
    cases x <;> simp only [afterSuper, hpar, member_ignores_imports, walk_ignores_imports]
    cases parentOf p m with
    | none => rfl
    | some q => exact ih q

/-- **A path through a module reaches only what the module declares.** If a path
    whose first segment denotes module `i` has a second segment `x` and denotes
    anything at all, then `x` is a child module of `i` or an item `i` declares. -/
theorem path_through_module_names_member (p : Pkg) (m : Nat) (blocks : List Table) (tbl : Table)
    (y x : Ident) (rest : Path) (i : Nat) (e : Entity) (hy : y ≠ .sup)
    (hfirst : lexical p m blocks tbl y = some (.module i))
    (h : resolve p m blocks tbl (y :: x :: rest) = some e) :
    ∃ e', member p i x = some e' ∧ ((x, e') ∈ childrenOf p i ∨ (x ∈ itemsOf p i ∧ e' = .item i x)) := by
  cases y <;> simp_all [resolve, walk] <;>
  · cases hm : member p i x with
    | none => simp [hm] at h
    | some e' => exact ⟨e', rfl, member_declared p i x e' hm⟩

/-- the hypotheses of `path_through_module_names_member` are satisfiable: `m1.f1` written in the root -/
example : ∃ e, lexical ⟨[⟨0, none, [], []⟩, ⟨1, some 0, [.fn 1], []⟩], []⟩ 0 [] [] (.mod 1) = some (.module 1) ∧
    resolve ⟨[⟨0, none, [], []⟩, ⟨1, some 0, [.fn 1], []⟩], []⟩ 0 [] [] [.mod 1, .fn 1] = some e :=
  ⟨.item 1 (.fn 1), by decide, by decide⟩

/-- `super.f0` written in a child: a path after `super` that does denote something -/
example : afterSuper ⟨[⟨0, none, [.fn 0], []⟩, ⟨1, some 0, [], [[.sup, .fn 0]]⟩], []⟩ 0 [.fn 0] = some (.item 0 (.fn 0)) := by
  decide

/-- a module with an import has the same members as without it -/
example : member ⟨[⟨0, none, [.fn 0], [[.mod 1, .fn 1]]⟩, ⟨1, some 0, [.fn 1], []⟩], []⟩ 0 (.fn 1) = none
    ∧ member ⟨[⟨0, none, [.fn 0], [[.mod 1, .fn 1]]⟩, ⟨1, some 0, [.fn 1], []⟩], []⟩ 0 (.fn 0) = some (.item 0 (.fn 0)) := by
  decide

/-! ### the seeded defect's shape, decided by the rule

  `pkg` { m1 declares f1; m2 only imports it }: `m1.f1` is in scope in `pkg`,
  `m2.f1` is not — although `f1` is in scope INSIDE m2. -/

def demo : Pkg :=
  ⟨[⟨0, none, [.fn 0], []⟩, ⟨1, some 0, [.fn 1], []⟩, ⟨2, some 0, [.fn 2], [[.sup, .mod 1, .fn 1]]⟩], []⟩

theorem demo_through_import_out_of_scope : checkUse demo ⟨0, [], [.mod 2, .fn 1]⟩ = .notInScope := by decide
theorem demo_declaring_module_in_scope : checkUse demo ⟨0, [], [.mod 1, .fn 1]⟩ = .ok (.item 1 (.fn 1)) := by decide
theorem demo_importer_sees_it : checkUse demo ⟨2, [], [.fn 1]⟩ = .ok (.item 1 (.fn 1)) := by decide
theorem demo_sibling_bare_out_of_scope : checkUse demo ⟨1, [], [.fn 2]⟩ = .notInScope := by decide
/-- a block-level import is visible in its block, not after it -/
theorem demo_block_import : checkUse demo ⟨0, [[[.mod 1, .fn 1]]], [.fn 1]⟩ = .ok (.item 1 (.fn 1))
    ∧ checkUse demo ⟨0, [], [.fn 1]⟩ = .notInScope := by decide

/-! ## the tie to the source -/

/-- **A path segment after the first is looked up among the scope's
    declarations only** — `resolve_name` as written (the regenerated order of what
    one iteration consults), called with `recurse = false`, answers exactly the
    scope's own declaration of the name: found, or `None`; the scope's imports
    and the parent scope are never reached. (The seeded change C07-6 moves the
    imports before the `!recurse` exit: the regenerated list changes and this
    stops checking.) -/
theorem path_segment_lookup_declared_only (sc : ScopeView) (x : Ident) :
    runSteps sc x false C07Facts.resolveNameSteps = some (sc.decls.lookup x) := by
  simp only [C07Facts.resolveNameSteps, runSteps]
  cases sc.decls.lookup x <;> simp

example : runSteps ⟨[(.fn 1, .item 0 (.fn 1))], []⟩ (.fn 1) false C07Facts.resolveNameSteps
    = some (some (.item 0 (.fn 1))) := by decide

/-- … so, on a module's scope, it answers the module's MEMBER of that name and
    nothing the module imports. -/
theorem member_as_coded (p : Pkg) (i : Nat) (x : Ident) :
    runSteps (moduleView p i) x false C07Facts.resolveNameSteps = some (member p i x) :=
  path_segment_lookup_declared_only (moduleView p i) x

example : runSteps (moduleView demo 2) (.fn 1) false C07Facts.resolveNameSteps = some none := by
  rw [member_as_coded]; decide

/-- **The first segment**: declarations of the scope, then its imports, then
    the parent scope (`none` = the loop goes on with the parent). -/
theorem first_segment_lookup_order (sc : ScopeView) (x : Ident) :
    runSteps sc x true C07Facts.resolveNameSteps =
      match sc.decls.lookup x with
      | some e => some (some e)
      | none => match sc.imports.lookup x with
        | some e => some (some e)
        | none => none := by
  simp only [C07Facts.resolveNameSteps, runSteps]
  cases sc.decls.lookup x <;> cases sc.imports.lookup x <;> simp

example : runSteps (moduleView demo 2) (.fn 1) true C07Facts.resolveNameSteps = some (some (.item 1 (.fn 1))) := by
  decide

/-- **Only the first segment is looked up through imports and enclosing
    scopes**: `resolve_module_part_of_path` starts with `recurse = true` and sets
    it to `false` after a leading `super` and after every segment. -/
theorem later_segments_not_recursive : C07Facts.pathRecurseValues = [true, false, false] := rfl

end RotoV.C07Scope
