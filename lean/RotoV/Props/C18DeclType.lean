/-
  C18, part 6 — the decision of `Rt::declare_type`: "a Rust type is registered
  twice" is decided on the Rust type alone.

  `Generated/DeclType.lean` is regenerated from `src/runtime/mod.rs` on every
  run (translator target `decltype`, `extract/src/targets/c18.rs`, `mod decl`):
  every guard of `declare_type` — a scan of `self.types` with a predicate over
  one registered entry — as a Boolean function of the three facts the
  predicate can see of that entry (`t` same Rust type, `i` same identifier,
  `s` same scope).  The theorems of this module are the ones that mention it,
  in a module of their own so that a change to that decision (a guard narrowed
  by the identifier or by the scope, the two guards merged or dropped) breaks
  exactly these obligations.
-/
import RotoV.Model.RegistrationDeclType
import RotoV.Lemmas.RegistrationTypeIndex
import RotoV.Generated.DeclType

namespace RotoV.C18
open RotoV.Reg RotoV.Reg.Src
open RotoV.Gen.DeclType (guards facts lookup)

/-- **`declare_type` is written as modelled**: two guards over the registered
    entries, then the declaration in the type checker, then the new entry —
    both under the registration's own scope, identifier and type id. -/
theorem declare_type_as_modelled : facts = declTypeAsModelled := by decide

/-- **The decision, exactly** (all eight combinations of facts about a
    registered entry): the entry stops the registration iff it has the Rust
    type of the new registration — whatever its identifier and whatever its
    scope — or its resolved name (identifier AND scope) is the new one. -/
theorem declare_type_rejects_entry_iff (t i s : Bool) :
    rejectsEntry guards t i s = (t || (i && s)) := by
  cases t <;> cases i <;> cases s <;> rfl

/-- Clause (3) of the property at the level of one entry: an entry with the
    same Rust type stops the registration under EVERY identifier and in EVERY
    scope (same name in a sibling module, in a nested module, at the root
    after a module, …), and it is reported by the first guard (the error is
    "already registered", not a name clash). -/
theorem declare_type_same_rust_type_always_rejected (i s : Bool) :
    rejectsEntry guards true i s = true ∧ firstGuard guards true i s = some 0 := by
  cases i <;> cases s <;> exact ⟨rfl, rfl⟩

/-- … and nothing but the Rust type and the full resolved name matters: an
    entry of another Rust type is no obstacle unless BOTH identifier and scope
    coincide (the same identifier in another scope, or another identifier in
    the same scope, register fine), and then it is the second guard that
    reports it. -/
theorem declare_type_other_rust_type (i s : Bool) :
    rejectsEntry guards false i s = (i && s) ∧
    firstGuard guards false i s = (if i && s then some 1 else none) := by
  cases i <;> cases s <;> exact ⟨rfl, rfl⟩

/-- **The guards on a runtime = the two early exits of the model's
    `declareType`.**  For every runtime whose two indexes of `Vec<RuntimeType>`
    agree (`NamesOfTypes`), every scope, identifier and Rust type: some
    registered entry trips a generated guard iff the Rust type is registered
    (`st.types id`, the model's `typeTwice` exit) or the resolved name is that
    of a registered type (`st.typeNames`, the model's first `nameTaken` exit). -/
theorem declare_type_guards_as_modelled (st : St) (hn : NamesOfTypes st)
    (scope : ScopeId) (n : Name) (id : TyId) :
    SomeEntryRejects guards st scope n id ↔
      ((st.types id).isSome = true ∨ st.typeNames ⟨scope, n⟩ = true) := by
  unfold SomeEntryRejects entryFacts
  constructor
  · rintro ⟨id', nm, hreg, hrej⟩
    rw [declare_type_rejects_entry_iff] at hrej
    simp only [Bool.or_eq_true, Bool.and_eq_true, decide_eq_true_eq] at hrej
    rcases hrej with h | ⟨hi, hs⟩
    · subst h; left; simp [hreg]
    · right
      have : nm = ⟨scope, n⟩ := by cases nm; simp_all
      exact (hn _).2 ⟨id', this ▸ hreg⟩
  · rintro (h | h)
    · obtain ⟨nm, hnm⟩ := Option.isSome_iff_exists.1 h
      refine ⟨id, nm, hnm, ?_⟩
      rw [declare_type_rejects_entry_iff]; simp
    · obtain ⟨id', hid⟩ := (hn _).1 h
      refine ⟨id', _, hid, ?_⟩
      rw [declare_type_rejects_entry_iff]; simp

/-- T2, clause (3), from the generated guards down to the model's verdict: in
    any such runtime a type item whose Rust type some entry already has is
    answered `typeTwice` by `declareType` — under every name, in every scope —
    and one that trips no guard gets past both early exits. -/
theorem declare_type_registered_rust_type_rejected (st : St) (scope : ScopeId) (n : Name) (id : TyId)
    (nm : RName) (h : st.types id = some nm) :
    SomeEntryRejects guards st scope n id ∧ declareType Cfg.fixed scope n id st = .err .typeTwice := by
  refine ⟨⟨id, nm, h, ?_⟩, ?_⟩
  · rw [declare_type_rejects_entry_iff]; simp [entryFacts]
  · simp [declareType, h]

/-- `NamesOfTypes` is an invariant of registration: the entry `declare_type`
    pushes keeps the two indexes in step. -/
theorem names_of_types_insert (st : St) (hn : NamesOfTypes st) (id : TyId) (nm : RName)
    (hfree : st.types id = none) : NamesOfTypes (st.insertType id nm) :=
  namesOfTypes_insertType st hn id nm hfree

/-! ## `NamesOfTypes` is a fact about every reachable runtime, not a hypothesis

  (growth round, branch wt-h18)  `declare_type_guards_as_modelled` assumed the
  invariant that ties the model's two indexes of `Vec<RuntimeType>`; it was
  proved kept by the one entry `declare_type` pushes and never established.
  `Lemmas/RegistrationTypeIndex.lean` establishes it for the initial runtime
  and carries it through `register` (closed form of pass 2) and histories. -/

/-- **The initial runtime has the invariant** when no Rust type is listed as a
    primitive under two names (the built-in library registers each primitive
    once; the harness's table is `u64 u32 String bool`). -/
theorem names_of_types_init (prims : List (Name × TyId)) (others : List Name)
    (hone : ∀ p ∈ prims, ∀ q ∈ prims, p.2 = q.2 → p.1 = q.1) : NamesOfTypes (St.init prims others) :=
  namesOfTypes_init prims others hone

/-- … and the side condition is needed: one Rust type listed under two names is
    found by its first name only, the second name answers `typeNames` without
    any entry of `types` carrying it. -/
theorem names_of_types_init_needs_one_name :
    ¬ NamesOfTypes (St.init [(1, 100), (2, 100)] []) := by
  intro h
  obtain ⟨id, hid⟩ := (h ⟨[], 2⟩).1 (by decide)
  simp only [St.init] at hid
  by_cases h100 : id = 100
  · subst h100; simp at hid
  · have : List.find? (fun p : Name × TyId => decide (p.2 = id)) [(1, 100), (2, 100)] = none := by
      simp [List.find?, Ne.symm h100]
    rw [this] at hid; cases hid

/-- **Every successful registration keeps it** (any library, any lexer verdict,
    any well-formed runtime): only pass 2 writes the two indexes, one entry per
    `type` item, each for a Rust type that had none. -/
theorem names_of_types_register (lex : Name → Lex) (st st' : St) (hw : WF st) (hn : NamesOfTypes st)
    (items : Items) (h : register Cfg.fixed lex st items = .ok st') : NamesOfTypes st' :=
  namesOfTypes_register lex st st' hw hn items h

/-- **… and every history of adds** on the initial runtime, rejected adds included. -/
theorem names_of_types_history (lex : Name → Lex) (prims : List (Name × TyId)) (others : List Name)
    (hone : ∀ p ∈ prims, ∀ q ∈ prims, p.2 = q.2 → p.1 = q.1) (libs : List Items) :
    NamesOfTypes (session Cfg.fixed lex (St.init prims others) libs).1 :=
  (namesOfTypes_session lex libs _ (wf_init prims others) (namesOfTypes_init prims others hone)).2

/-- **The guards of `declare_type` = the model's two early exits, on every
    runtime a host can reach** (full form of `declare_type_guards_as_modelled`:
    no hypothesis on the runtime is left).  After ANY history of libraries
    offered to the initial runtime, for every scope, identifier and Rust type:
    some registered entry trips a regenerated guard iff the model's
    `declareType` takes its `typeTwice` exit or its first `nameTaken` exit. -/
theorem declare_type_guards_as_modelled_reachable (lex : Name → Lex) (prims : List (Name × TyId))
    (others : List Name) (hone : ∀ p ∈ prims, ∀ q ∈ prims, p.2 = q.2 → p.1 = q.1)
    (libs : List Items) (scope : ScopeId) (n : Name) (id : TyId) :
    SomeEntryRejects guards (session Cfg.fixed lex (St.init prims others) libs).1 scope n id ↔
      (((session Cfg.fixed lex (St.init prims others) libs).1.types id).isSome = true ∨
        (session Cfg.fixed lex (St.init prims others) libs).1.typeNames ⟨scope, n⟩ = true) :=
  declare_type_guards_as_modelled _ (names_of_types_history lex prims others hone libs) scope n id

/-- the harness's initial runtime: `u64 u32 String bool` (names 0–3) as Rust types 100–103 -/
def harnessPrims : List (Name × TyId) := [(0, 100), (1, 101), (2, 102), (3, 103)]

theorem harnessPrims_one_name : ∀ p ∈ harnessPrims, ∀ q ∈ harnessPrims, p.2 = q.2 → p.1 = q.1 := by
  decide

/-- non-vacuity: the initial runtime of the correspondence run has the invariant -/
example : NamesOfTypes (St.init harnessPrims [4, 5]) :=
  names_of_types_init _ _ harnessPrims_one_name

/-- non-vacuity of the history form: a library that registers Rust type 7 as
    `Meters` (name 6) in module 9 is accepted, and afterwards the same Rust type
    under the same identifier at the root trips a guard *through an entry that
    the history itself pushed*. -/
example : SomeEntryRejects guards
    (session Cfg.fixed (fun _ => ⟨some (some .ident), false, true⟩) (St.init harnessPrims [4, 5])
      [.cons (.module 9 (.cons (.type 6 7) .nil)) .nil]).1 [] 6 7 := by
  rw [declare_type_guards_as_modelled_reachable _ _ _ harnessPrims_one_name]
  left
  decide

/-- **`declare_type` decided by the regenerated guards, end to end** (every
    runtime reachable by a history of adds, every type item): the registration
    of `type n = <Rust type id>` in `scope` succeeds iff NO registered entry
    trips a guard regenerated from the source and the name is free in its own
    scope or that of a pre-declared primitive — and then the runtime is
    extended by exactly that declaration and that entry (`TOp.apply`). -/
theorem declare_type_ok_iff_no_guard_reachable (lex : Name → Lex) (prims : List (Name × TyId))
    (others : List Name) (hone : ∀ p ∈ prims, ∀ q ∈ prims, p.2 = q.2 → p.1 = q.1)
    (libs : List Items) (t : TOp) (st' : St) :
    declareType Cfg.fixed t.scope t.n t.id (session Cfg.fixed lex (St.init prims others) libs).1 = .ok st' ↔
      (¬ SomeEntryRejects guards (session Cfg.fixed lex (St.init prims others) libs).1 t.scope t.n t.id ∧
        ((session Cfg.fixed lex (St.init prims others) libs).1.decls t.nm = none ∨
          ∃ d, (session Cfg.fixed lex (St.init prims others) libs).1.decls t.nm = some d ∧ d.kind = .prim)) ∧
      st' = t.apply (session Cfg.fixed lex (St.init prims others) libs).1 := by
  rw [declare_type_guards_as_modelled_reachable lex prims others hone libs]
  generalize (session Cfg.fixed lex (St.init prims others) libs).1 = st
  have h := TOp.run_ok_iff t st st'
  unfold TOp.run at h
  rw [h]
  unfold TOp.free TOp.nm
  cases ht : st.types t.id <;> cases hn : st.typeNames ⟨t.scope, t.n⟩ <;> simp

/-- non-vacuity: after the history that registers `Meters`, another Rust type
    under a free name in a sibling module is registered -/
example : ∃ st', declareType Cfg.fixed [2] 6 8
    (session Cfg.fixed (fun _ => ⟨some (some .ident), false, true⟩) (St.init harnessPrims [4, 5])
      [.cons (.module 9 (.cons (.type 6 7) .nil)) .nil]).1 = .ok st' :=
  ⟨_, (declare_type_ok_iff_no_guard_reachable _ _ _ harnessPrims_one_name _ ⟨[2], 6, 8⟩ _).2
    ⟨⟨by rw [declare_type_guards_as_modelled_reachable _ _ _ harnessPrims_one_name]; decide, Or.inl (by decide)⟩, rfl⟩⟩

/-! ## non-vacuity, and what a narrowed guard does -/

/-- a runtime with `Meters` (Rust type 7) registered in module `[1]` under the name 5 -/
def stMeters : St := (St.init [] []).insertType 7 ⟨[1], 5⟩

example : NamesOfTypes (St.init [] []) := by
  intro nm; simp [St.init]
theorem stMeters_names : NamesOfTypes stMeters :=
  names_of_types_insert _ (by intro nm; simp [St.init]) 7 _ (by simp [St.init])

/-- the same Rust type under the same identifier in a sibling module `[2]`: rejected -/
example : SomeEntryRejects guards stMeters [2] 5 7 ∧
    declareType Cfg.fixed [2] 5 7 stMeters = .err .typeTwice :=
  declare_type_registered_rust_type_rejected stMeters [2] 5 7 ⟨[1], 5⟩ (by simp [stMeters, St.insertType])

/-- another Rust type under that identifier in the sibling module: no guard fires -/
example : ¬ SomeEntryRejects guards stMeters [2] 5 8 := by
  rw [declare_type_guards_as_modelled stMeters stMeters_names]
  simp [stMeters, St.insertType, St.init]

/-- **`Rt::get_runtime_type` finds a registered type by its Rust type alone**
    (regenerated from the source): signatures, constants and impl blocks
    resolve a Rust type to the entry that has this Rust type, whatever name it
    is registered under and wherever. -/
theorem runtime_type_lookup_by_rust_type_alone (t i s : Bool) : lookup t i s = t := by
  cases t <;> cases i <;> cases s <;> rfl

/-- … which is the model's `st.types id` (the lookup `convTy` and `implScope`
    make): on every runtime the generated lookup finds an entry iff the model's
    table has one for this Rust type. -/
theorem runtime_type_lookup_as_modelled (st : St) (scope : ScopeId) (n : Name) (id : TyId) :
    (∃ id' nm, st.types id' = some nm ∧
      lookup (entryFacts scope n id id' nm).1 (entryFacts scope n id id' nm).2.1
        (entryFacts scope n id id' nm).2.2 = true)
    ↔ (st.types id).isSome = true := by
  constructor
  · rintro ⟨id', nm, hreg, h⟩
    rw [runtime_type_lookup_by_rust_type_alone] at h
    simp only [entryFacts, decide_eq_true_eq] at h
    subst h; simp [hreg]
  · intro h
    obtain ⟨nm, hnm⟩ := Option.isSome_iff_exists.1 h
    exact ⟨id, nm, hnm, by rw [runtime_type_lookup_by_rust_type_alone]; simp [entryFacts]⟩

example : ∃ id' nm, stMeters.types id' = some nm ∧
    lookup (entryFacts [2] 9 7 id' nm).1 (entryFacts [2] 9 7 id' nm).2.1 (entryFacts [2] 9 7 id' nm).2.2 = true :=
  (runtime_type_lookup_as_modelled stMeters [2] 9 7).2 (by simp [stMeters, St.insertType])

/-- **What narrowing the first guard by the identifier does** (the shape
    `old.type_id == ty.type_id && old.name.ident != ty.ident`, "the name clash
    check takes over"): the name-clash guard compares the FULL resolved name,
    so an entry of the same Rust type with the same identifier in another scope
    trips neither guard — a Rust type registered twice is accepted. -/
def narrowedGuards : List (Bool → Bool → Bool → Bool) :=
  [fun t i _ => t && !i, fun _ i s => i && s]

theorem narrowed_guard_accepts_type_twice :
    rejectsEntry narrowedGuards true true false = false ∧
    ¬ SomeEntryRejects narrowedGuards stMeters [2] 5 7 := by
  refine ⟨rfl, ?_⟩
  rintro ⟨id', nm, hreg, hrej⟩
  simp only [stMeters, St.insertType, St.init] at hreg
  by_cases h : id' = 7
  · simp [h] at hreg; subst hreg; subst h
    simp [rejectsEntry, narrowedGuards, entryFacts] at hrej
  · simp [h] at hreg

end RotoV.C18
