/-
  C11 — function handles keep alive exactly what they need (hot reload safe).
  (first claim: the generated field order; the invariants follow)
-/
import RotoV.Model.Lifetime
import RotoV.Lemmas.Lifetime
import RotoV.Generated.Lifetime

namespace RotoV.C11
open RotoV.Lifetime RotoV.Gen.Lifetime

theorem consts_before_code_order : constsBeforeCode facts.moduleFields = true := by decide

end RotoV.C11
