/-
  C11 — function handles keep alive exactly what they need (hot reload safe).

  Model: RotoV/Model/Lifetime.lean (explicit reference counts; a module's drop
  runs its fields in declaration order; a script constant's drop function needs
  Code k mapped; use-after-free is an explicit `Fault`).
  The declaration-level mechanism — field order of `ModuleData`, `TypedFunc`
  owning `self.inner.clone()`, what `codegen` clones into the module, who calls
  `free_memory`, what the closure made by `TypedFunc::into_func` captures, that a
  `TestCase` stores the handle of its test function, and
  which struct owns every piece of data whose address the code generator bakes
  into the machine code — is `Gen.Lifetime.facts`, regenerated from src/codegen/mod.rs,
  src/pipeline.rs and src/runtime/func.rs on every run.  Every theorem below is
  about `run facts ops` for ALL operation lists `ops` (induction over the list,
  Lemmas/Lifetime*.lean) and is discharged through `facts_good : goodB facts`,
  a `decide` on the generated facts: a handle that stops owning the `Arc`, a
  JIT-first field order, a constant that is no longer cloned, a second
  `free_memory` site, an `into_func` closure that captures only the function
  pointer, code-referenced data owned by the package instead of the shared
  `ModuleData` / the JIT module, a `Drop for RotoConstant` that skips the drop
  function for some size class of constant, or a keep-alive collection of
  registered functions with one entry per Rust type instead of one per `Arc`
  makes `facts_good` — hence every theorem — fail to check.
  Script constants come in two size classes (`ModInfo.nzst` of them are of a
  zero-sized type): T1–T3 hold for both, because the generated body of
  `RotoConstant::drop` calls the drop function whatever the size.
-/
import RotoV.Model.Lifetime
import RotoV.Lemmas.Lifetime
import RotoV.Lemmas.LifetimeOps
import RotoV.Lemmas.LifetimeKeep
import RotoV.Lemmas.LifetimeAddr
import RotoV.Generated.Lifetime

namespace RotoV.C11
open RotoV.Lifetime RotoV.Gen.Lifetime

/-- the generated facts are admissible (this is where a mutated declaration breaks the proofs) -/
theorem facts_good : goodB facts = true := by decide

theorem inv (ops : List Op) : Inv (run facts ops) := inv_run (good_of_goodB facts_good) ops

/-- **T1.** After any history, every live handle — also one that was turned
    into a closure by `into_func`, and the one inside a `TestCase` handed out by
    `get_tests` — has its module, code, script constants and
    (if its script uses them) registered constant and closure never released and
    every piece of out-of-line data its code refers to still there, a call
    through it returns what it returned when
    the handle was created — the script's value — and no use-after-free or
    double free has happened anywhere. -/
theorem live_handle_callable (ops : List Op) (i : Nat) (h : Handle)
    (hi : (run facts ops).hs[i]? = some h) :
    let s := run facts ops
    0 < s.strong h.k ∧ h.k ∈ s.alive ∧ s.mapped h.k = true
      ∧ s.relCount (.code h.k) = 0
      ∧ (∀ c, s.relCount (.scriptConst h.k c) = 0)
      ∧ ((s.info h.k).useConst = true → s.relCount (.regConst (s.info h.k).rt) = 0)
      ∧ ((s.info h.k).useClos = true → s.relCount (.closure (s.info h.k).rt) = 0)
      ∧ dataAlive s h.k = true
      ∧ callHandle s i = some h.expect
      ∧ h.expect = .ok (s.info h.k).value
      ∧ s.faults = [] := by
  intro s
  have hI : Inv s := inv ops
  have hc := hI.toInvCore
  have hmem : h ∈ s.hs := List.mem_of_getElem? hi
  have hk := hI.strong_pos_of_handle hmem
  have hne : ¬ s.strong h.k = 0 := by omega
  have hex := hc.expect_ok h hmem
  refine ⟨hk, hc.mem_alive hk, ?_, ?_, hc.sc_alive hk, ?_, ?_, dataAlive_of_mapped hc hk, ?_, hex, hc.no_fault⟩
  · rw [hc.mapped_eq]; simpa using hk
  · rw [hc.code_rel]; simp [hne]
  · intro hu; exact hc.const_alive hk ((hc.uses h.k).1 hu)
  · intro hu; exact hc.clos_alive hk ((hc.uses h.k).2.1 hu)
  · show (s.hs[i]?).map (fun h => callRes s h.k) = some h.expect
    rw [hi, Option.map_some, callRes_ok hc hk, hex]

/- `RefersModule s k` (a live package or handle of version k), `RefersConst s r` / `RefersClos s r` (the live
   runtime that registered it, or a module somebody still refers to that cloned it) and
   `ExactlyOnce n Gone := (n = 1 ↔ Gone) ∧ (n = 0 ↔ ¬Gone) ∧ n ≤ 1` are defined in Lemmas/LifetimeOps.lean. -/

/-- **T2.** After any history (hence after every prefix of every history),
    each resource has been released exactly once if it was created and no live
    package / handle / runtime refers to it any more, and not at all otherwise:
    released at the step that drops the last referrer, never earlier, never twice. -/
theorem freed_exactly_once (ops : List Op) :
    let s := run facts ops
    (∀ k, ExactlyOnce (s.relCount (.code k)) (k ∈ s.compiled ∧ ¬ RefersModule s k))
    ∧ (∀ k c, ExactlyOnce (s.relCount (.scriptConst k c))
        (k ∈ s.compiled ∧ c < (s.info k).nconst ∧ ¬ RefersModule s k))
    ∧ (∀ r, ExactlyOnce (s.relCount (.regConst r)) (r ∈ s.constEver ∧ ¬ RefersConst s r))
    ∧ (∀ r, ExactlyOnce (s.relCount (.closure r)) (r ∈ s.closEver ∧ ¬ RefersClos s r)) := by
  intro s
  have hI : Inv s := inv ops
  refine ⟨?_, ?_, ?_, ?_⟩
  · intro k
    exact exactly_once_of (hI.code_rel k) (by rw [strong_zero_iff hI])
  · intro k c
    refine exactly_once_of (hI.sc_rel k c) ?_
    rw [strong_zero_iff hI]
    constructor
    · rintro ⟨a, b, d⟩; exact ⟨a, d, b⟩
    · rintro ⟨a, b, d⟩; exact ⟨a, d, b⟩
  · intro r
    exact exactly_once_of (hI.const_rel r) (by rw [constRc_zero_iff hI])
  · intro r
    exact exactly_once_of (hI.clos_rel r) (by rw [closRc_zero_iff hI])

/-- **T3.** The generated field order of `ModuleData` drops the script
    constants before the JIT module, and therefore inside the drop of a module
    whose code is mapped every script constant's drop function runs exactly
    once while Code k is still mapped (no `dropFnUnmapped` fault), and only then
    is the code freed.  (Fails to check if `cranelift_jit` is declared first.) -/
theorem consts_before_code (s : St) (k : Nat) (hm : s.mapped k = true) :
    constsBeforeCode facts.moduleFields = true
      ∧ (dropModule facts k s).faults = s.faults
      ∧ (∀ c, c < (s.info k).nconst →
          (dropModule facts k s).relCount (.scriptConst k c) = s.relCount (.scriptConst k c) + 1)
      ∧ (dropModule facts k s).mapped k = false
      ∧ (dropModule facts k s).relCount (.code k) = s.relCount (.code k) + 1 := by
  have D := dropModule_spec (good_of_goodB facts_good) k s hm
  refine ⟨by decide, D.faults, ?_, ?_, ?_⟩
  · intro c hc; rw [D.rel]; simp [scHit, hc]
  · rw [D.mapped, upd_same]
  · rw [D.rel]; simp [scHit]

/-- **T4.** Packages compiled independently never influence each other: an
    operation on package k (compile k, get / clone / call / drop a handle of k,
    drop package k), performed after any history, changes nothing observable
    about any other version j — its package, its code, its script constants,
    and the result of calling each of its live handles (`obs`). -/
theorem independent (ops : List Op) (op : Op) (k j : Nat)
    (ht : target (run facts ops) op = some k) (hjk : j ≠ k) :
    obs (stepV facts (run facts ops) op) j = obs (run facts ops) j := by
  have hG := good_of_goodB facts_good
  have hI := inv ops
  unfold stepV
  split
  · rename_i hv
    obtain ⟨hp, hh, hinfo, hcomp⟩ := frame hG hI op hv k j ht hjk
    exact obs_eq_of_frame hI (step_inv hG hI op hv) j hp hh hinfo hcomp
  · rfl

/-- **T5.** `into_func` hands everything the handle owned to the closure: after
    any history, turning live handle i into a closure releases nothing, changes
    no reference count and no fault log, leaves every other handle as it was, and
    the closure sits where the handle was, for the same version, owning the
    `Arc`, returning what the handle returned.  (Fails to check when the generated
    capture fact says the closure captures only the function pointer.) -/
theorem into_func_keeps (ops : List Op) (i : Nat) (h : Handle)
    (hi : (run facts ops).hs[i]? = some h) (hf : h.isFn = false) :
    let s := run facts ops
    let s' := stepV facts s (.intoFunc i)
    s'.released = s.released ∧ s'.strong = s.strong ∧ s'.faults = s.faults ∧ s'.pkgs = s.pkgs
      ∧ s'.hs = s.hs.set i { h with isFn := true }
      ∧ s'.hs[i]? = some { h with isFn := true }
      ∧ callHandle s' i = callHandle s i := by
  intro s s'
  have hi' : s.hs[i]? = some h := hi
  have hv : valid s (.intoFunc i) = true := by
    show (s.hs[i]?).any (fun h => !h.isFn) = true
    rw [hi']; simp [hf]
  have hcl : facts.closureKeepsArc = true := (good_of_goodB facts_good).closure
  have hs' : s' = { s with hs := s.hs.set i { h with isFn := true } } := by
    show stepV facts s (.intoFunc i) = _
    simp only [stepV, hv, if_true, step, hcl]
    rw [hi']
  obtain ⟨hlt, _⟩ := List.getElem?_eq_some_iff.1 hi'
  have hget : (s.hs.set i { h with isFn := true })[i]? = some { h with isFn := true } := by
    rw [List.getElem?_set_self hlt]
  refine ⟨by rw [hs'], by rw [hs'], by rw [hs'], by rw [hs'], by rw [hs'], by rw [hs']; exact hget, ?_⟩
  rw [hs']
  show ((s.hs.set i { h with isFn := true })[i]?).map _ = (s.hs[i]?).map _
  rw [hget, hi']
  rfl

/-- **T6.** A runtime may hold any number of registered functions with captured
    state, several of them made by one closure expression (one Rust type).  After
    any history (`KOp`: the operations of the main model, compilations naming the
    further functions their script calls, and the registration of such
    functions), a call through any live handle reaches the state of EVERY
    registered function its script calls: the module is still allocated and its
    keep-alive collection holds each of their `Arc`s (`sibCallOk`: each is held
    by a live runtime or an allocated module).  (Fails to check when the
    generated collection has one entry per Rust type.) -/
theorem live_handle_reaches_called_fns (ops : List KOp) (h : Handle)
    (hh : h ∈ (krun facts ops).1.hs) :
    sibCallOk (krun facts ops).1 (krun facts ops).2 h.k = true := by
  have hG := good_of_goodB facts_good
  have hI := kinv_run hG ops
  exact sibCallOk_of_alive hG hI h.k (hI.main.toInvCore.mem_alive (hI.main.strong_pos_of_handle hh))

/-- **T6'.** … and that is exactly the `Vec` discipline: the collection holds every
    called function for every set of called functions iff it has one entry per `Arc`;
    the generated one has. -/
theorem called_fns_kept :
    (∀ (called : List Sib) (f : Sib), f ∈ called → f ∈ keep facts.fnsKeep called)
      ∧ ∀ key, (∀ (called : List Sib) (f : Sib), f ∈ called → f ∈ keep key called) ↔ key = .perArc :=
  ⟨(keep_holds_called_iff facts.fnsKeep).2 (good_of_goodB facts_good).keep, keep_holds_called_iff⟩

/-- **T7.** Unchanged constants: for a script with any number `n` of script constants — constants and the
    functions reading them generated interleaved, the constant table growing as it must — every constant
    address baked into the code is still valid when `codegen` is done and for as long as the module lives,
    because (generated fact `constStore`) the value lives in an allocation of its own that the
    `RotoConstant` owns until it is dropped with the module (T2), and that allocation never moves. -/
theorem baked_const_addresses_stay_valid (n : Nat) : allBakedValid constStore n = true := by
  have h : constStore = .ownAlloc := by decide
  rw [h]; exact ownAlloc_all_valid n

/-- **T7'.** … and that is exactly the discipline needed: the baked addresses stay valid for every number of
    constants iff the values do not live inside the table's entries (with 4 or more constants the first bucket
    array, into which the getter of constant 0 points, has been freed). -/
theorem baked_addresses_need_own_alloc (st : ConstStore) : (∀ n, allBakedValid st n = true) ↔ st = .ownAlloc := by
  constructor
  · intro h
    cases st with
    | ownAlloc => rfl
    | inMapEntry =>
      have h4 := h 4
      rw [inMapEntry_stale 4 (Nat.le_refl 4)] at h4
      exact absurd h4 (by decide)
  · rintro rfl n
    exact ownAlloc_all_valid n

/-- **T8.** State captured by registered closures is released while the module's code still exists: inside the
    drop of a module whose code is mapped, nothing frees the code ahead of the fields (no `free_memory` in a
    `Drop for ModuleData`), and after the fields declared before `_registered_fns` have been dropped the code
    is still mapped — so when the module holds the last `Arc` of a closure whose state kept script-built values
    (a `List[String]`: its drop glue is code of this module), that state is dropped by working code; the code
    is freed afterwards.  (Fails to check when the JIT module is declared before `_registered_fns`, or the
    code is freed in `Drop for ModuleData`.) -/
theorem closure_state_released_before_code (s : St) (k : Nat) (hm : s.mapped k = true) :
    fnsBeforeCodeB facts = true
      ∧ FreeSite.moduleDataDrop ∉ facts.freeSites
      ∧ (dropFields facts k (beforeFns facts.moduleFields) s).mapped k = true
      ∧ (dropModule facts k s).mapped k = false := by
  have D := dropModule_spec (good_of_goodB facts_good) k s hm
  refine ⟨by decide, by decide, ?_, ?_⟩
  · rw [dropFields_mapped_of_no_jit facts k _ s (by decide)]; exact hm
  · rw [D.mapped, upd_same]

/-! ### non-vacuity -/

/-- T7 has teeth: with the values inside the map's entries a script with 5 constants has stale addresses in its
    code (the two baked before the 4th insertion), one with 3 has none; with allocations of their own none -/
example : bakedValidity .inMapEntry 5 = [false, false, false, false, false, false, true, true, true, true]
    ∧ allBakedValid .inMapEntry 3 = true ∧ allBakedValid .inMapEntry 9 = false
    ∧ allBakedValid .inMapEntry 16 = false ∧ allBakedValid .inMapEntry 30 = false
    ∧ allBakedValid constStore 40 = true := by
  decide

/-- the table model grows where hashbrown does (compared with the real `std::collections::HashMap` on every run) -/
example : growthPoints 120 = [1, 4, 8, 15, 29, 57, 113] := by decide

/-- T8 has teeth: with the JIT module before `_registered_fns`, or the code freed by a `Drop for ModuleData`,
    the closure state would be released after the code; the hypothesis of T8 is that of T3 -/
example : fnsBeforeCodeB { facts with moduleFields := [.constants, .rotoConstants, .jit, .registeredFns] } = false
    ∧ fnsBeforeCodeB { facts with freeSites := [.moduleDataDrop] } = false
    ∧ goodB { facts with moduleFields := [.constants, .rotoConstants, .jit, .registeredFns] } = false
    ∧ goodB { facts with moduleFields := [.registeredFns, .rotoConstants, .jit, .constants] } = true := by
  decide

/-- a hot-reload history: runtime with constant and closure, version 1 compiled
    and a handle taken, version 2 compiled, then runtime, both packages dropped:
    the handle of version 1 is still there and callable -/
def reload : List Op :=
  [.buildRuntime 0, .registerConst 0, .registerClosure 0, .compile 0 1 2 1 true true true 1240, .getHandle 1,
   .compile 0 2 1 0 true true true 2238, .dropRuntime 0, .dropPackage 1, .dropPackage 2]

example : (run facts reload).hs.length = 1 ∧ callHandle (run facts reload) 0 = some (.ok 1240)
    ∧ (run facts reload).relCount (.code 2) = 1 ∧ (run facts reload).relCount (.scriptConst 2 0) = 1
    ∧ (run facts reload).relCount (.code 1) = 0 ∧ (run facts reload).relCount (.regConst 0) = 0 := by
  decide

/-- … and dropping that last handle releases everything exactly once -/
example : let s := run facts (reload ++ [.dropHandle 0])
    s.relCount (.code 1) = 1 ∧ s.relCount (.scriptConst 1 0) = 1 ∧ s.relCount (.scriptConst 1 1) = 1
      ∧ s.relCount (.regConst 0) = 1 ∧ s.relCount (.closure 0) = 1 ∧ s.faults = [] := by
  decide

/-- T3 has teeth: with the JIT module declared first the same drop runs the
    constants' drop functions on freed code -/
example : (run { facts with moduleFields := [.jit, .constants, .rotoConstants, .registeredFns] }
    (reload ++ [.dropHandle 0])).faults ≠ [] := by
  decide

/-- T1 has teeth: a handle that does not own the `Arc` is left dangling by the package drop -/
example : callHandle (run { facts with handleHoldsArc := false } reload) 0 = some .uaf := by
  decide

/-- a handle turned into a closure by `into_func` survives its package and the runtime like any handle … -/
def reloadFn : List Op :=
  [.buildRuntime 0, .registerConst 0, .registerClosure 0, .compile 0 1 2 1 true true true 1240, .getHandle 1,
   .intoFunc 0, .dropPackage 1, .dropRuntime 0]

example : (run facts reloadFn).hs.map (·.isFn) = [true] ∧ callHandle (run facts reloadFn) 0 = some (.ok 1240)
    ∧ (run facts reloadFn).relCount (.code 1) = 0 ∧ (run facts reloadFn).relCount (.closure 0) = 0
    ∧ (run facts (reloadFn ++ [.cloneHandle 0])).hs.length = 1
    ∧ (run facts (reloadFn ++ [.dropHandle 0])).relCount (.code 1) = 1
    ∧ (run facts (reloadFn ++ [.dropHandle 0])).relCount (.closure 0) = 1 := by
  decide

/-- a `TestCase` keeps its module alive like a handle, and releases it when dropped -/
example : let h := [Op.buildRuntime 0, .registerClosure 0, .compile 0 1 1 0 false true true 77, .getTest 1,
                    .dropPackage 1, .dropRuntime 0]
    callHandle (run facts h) 0 = some (.ok 77) ∧ (run facts h).relCount (.code 1) = 0
      ∧ (run facts h).relCount (.closure 0) = 0
      ∧ (run facts (h ++ [.dropHandle 0])).relCount (.code 1) = 1
      ∧ (run facts (h ++ [.dropHandle 0])).relCount (.closure 0) = 1
      ∧ callHandle (run { facts with testHoldsHandle := false } h) 0 = some .uaf := by
  decide

/-- T5's hypotheses are met by a freshly obtained handle -/
example : ∃ h, (run facts (reloadFn.take 5)).hs[0]? = some h ∧ h.isFn = false :=
  ⟨{ k := 1, holds := true, expect := .ok 1240 }, rfl, rfl⟩

/-- … and T1 has teeth there: a closure that captures only the function pointer lets the module go when
    `into_func` returns; the package drop then frees the code under the closure -/
example : callHandle (run { facts with closureKeepsArc := false } reloadFn) 0 = some .uaf
    ∧ (run { facts with closureKeepsArc := false } reloadFn).relCount (.closure 0) = 1 := by
  decide

/-- T1 has teeth for code-referenced data: literal bytes owned by the package die with it while the handle
    lives (the call's result depended on them) -/
example : callHandle (run { facts with dataHolders := [.jit, .package] } reload) 0 = some .uaf
    ∧ callHandle (run { facts with dataHolders := [.jit, .package] } (reload.take 7)) 0 = some (.ok 1240) := by
  decide

/-- fields of plain data in `ModuleData` (say, interned literal bytes kept where handles hold them) are
    admissible anywhere in the declaration order, and data held there is fine -/
example : goodB { facts with moduleFields := .plain :: facts.moduleFields ++ [.plain]
                             dataHolders := .moduleData :: facts.dataHolders } = true := by decide

/-- T2 has teeth for the size class: a `RotoConstant::drop` that returns early for `size == 0` never runs
    the drop function of a zero-sized script constant (constant 0 of version 1 here) — released zero
    times after everything is gone, while the sized constant next to it is released once; guarding only
    the deallocation is fine -/
example : let early : List (SizeGuard × DropAct) := [(.ifZst, .ret), (.always, .callDropFn), (.always, .dealloc)]
    let s := run { facts with constDrop := early } (reload ++ [.dropHandle 0])
    s.relCount (.scriptConst 1 0) = 0 ∧ s.relCount (.scriptConst 1 1) = 1 ∧ s.relCount (.code 1) = 1
      ∧ goodB { facts with constDrop := early } = false
      ∧ goodB { facts with constDrop := [(.always, .callDropFn), (.ifSized, .dealloc)] } = true
      ∧ goodB { facts with constDrop := [(.always, .dealloc), (.always, .callDropFn)] } = false := by
  decide

/-- … and on the generated facts the zero-sized constant of `reload` is released exactly once, with the last handle -/
example : (run facts reload).relCount (.scriptConst 1 0) = 0 ∧ ((run facts reload).info 1).nzst = 1
    ∧ (run facts (reload ++ [.dropHandle 0])).relCount (.scriptConst 1 0) = 1 := by
  decide

/-- T6's hypotheses are met, and it has teeth: a runtime with two closures of one Rust type (family members
    0 and 1) and a zero-sized one; version 1 calls all three; package and runtime go, the handle stays.  With
    one entry per `Arc` the call reaches all of them; keyed by the Rust type the second closure of the type
    was never held, and its state went with the runtime. -/
def siblings : List KOp :=
  [.main (.buildRuntime 0) [], .regSibs 0, .main (.compile 0 1 1 1 false false false 7) (family 0),
   .main (.getHandle 1) [], .main (.dropPackage 1) [], .main (.dropRuntime 0) []]

example : (krun facts siblings).1.hs.length = 1 ∧ sibCallOk (krun facts siblings).1 (krun facts siblings).2 1 = true
    ∧ (family 0).all (sibLive (krun facts siblings).1 (krun facts siblings).2) = true
    ∧ (family 0).all (sibLive (krun facts (siblings ++ [.main (.dropHandle 0) []])).1
        (krun facts (siblings ++ [.main (.dropHandle 0) []])).2) = false := by
  decide

example : let F := { facts with fnsKeep := .perRustType }
    sibCallOk (krun F siblings).1 (krun F siblings).2 1 = false
      ∧ (family 0).map (sibLive (krun F siblings).1 (krun F siblings).2) = [true, false, true]
      ∧ sibCallOk (krun F (siblings.take 5)).1 (krun F (siblings.take 5)).2 1 = true := by
  decide

/-- the mapped-code hypothesis of T3 is met by every freshly compiled module -/
example : (run facts [.buildRuntime 0, .compile 0 1 1 1 false false false 7]).mapped 1 = true := by decide

/-- T4 is not vacuous: with a live handle of version 1, dropping the package of
    version 2 is an operation on 2 ≠ 1, version 1 has a callable handle, and version 2's own
    observables do change -/
example : let s := run facts (reload.take 7)
    target s (.dropPackage 2) = some 2 ∧ (obs s 1).calls = [(.ok 1240, .ok 1240)]
      ∧ obs (stepV facts s (.dropPackage 2)) 2 ≠ obs s 2 := by
  decide

end RotoV.C11
