/-
  C12 — compiled functions are safe and deterministic under concurrent use.

  T1 `noninterference`     ∀ calls, ∀ schedules (= ∀ interleavings of the per-call
                           step lists): if every step of call `i` writes only
                           state owned by `i` and depends only on state owned by
                           `i` or by nobody, each call ends with exactly its solo
                           (single-threaded) result and shared state is unchanged;
                           the atomic host-value counter balances.
  T2 `frame_local_writes`  the LIR checker `Lir.check` is sound: in EVERY
                           execution (any path, any memory contents, any callee
                           results) of an item it accepts, every `Write`, `Copy`,
                           `Clone`, `InitString`, `Initialize`, `Drop`-in-place and
                           every pointer handed to a callee targets call-local
                           memory — never a constant, never the context.
                           The driver runs `Lir.accept` on the real LIR dump of
                           every generated program.
  T3 `sync_sound`          over the bound lists regenerated from the sources:
                           the decision `syncJustified` holds iff every type
                           admitted by the bounds of every kind of object
                           reachable through a shared handle is `Send + Sync`;
                           it holds for the current tree (`sync_holds_on_tree`)
                           and was false before the `+ Sync` fix
                           (`sync_refuted_on_base_tree`, witness: a `move`
                           closure capturing a `Cell`).

  T4 `share_sound`         what the `unsafe impl Send/Sync`s rest on, over facts
                           regenerated from the sources (`Generated/C12Sharing`):
                           (a) every acquisition of the list's lock under which a
                           writing `RawList` method runs is exclusive — then in
                           EVERY trace of the lock machine a write happens with
                           the writer as only holder and nobody else moves while
                           it is inside (`shared_list_write_exclusive`,
                           `exclusive_section_alone`); under a shared mode two
                           swaps race and lose an element
                           (`shared_lock_admits_racing_swaps`);
                           (b) no `Rc` / unlocked cell is reachable from an
                           `unsafe impl` type — atomic counts are exact and free
                           exactly once, at the last drop (`arc_frees_exactly_once`),
                           split load/store counts free a live payload
                           (`rc_count_frees_live_payload`);
                           (c) a closure built from a `TypedFunc` owns what it uses
                           and stays `Send + Sync` (`owning_closure_never_dangles`,
                           `non_owning_closure_dangles`).
                           `lock_discipline_on_tree`, `counts_atomic_on_tree`,
                           `closures_own_on_tree` are the generated obligations.

                           (d) the crate's process-global state: no `static mut`,
                           no unlocked interior mutability, every use of the type
                           registry is `lock()` (`globals_sound`,
                           `global_mutex_access_exclusive`,
                           `globals_disciplined_on_tree`).

  T5 `accepted_items_noninterfere`
                           THE COMPOSITION T2 ∘ T1: a machine semantics of LIR
                           items on one global store (Model/ConcExec: frames,
                           fresh stack slots per activation, loads / stores /
                           block copies, calls between items; arithmetic, control
                           and Rust callees as parameters). For every program
                           accepted by `acceptProg` (= `Lir.accept` on every item
                           + the call-site check), every behaviour of Rust callees
                           with `RtConfined`, every number of calls and EVERY
                           schedule: each machine step is a `LocalStep` of T1
                           (`accepted_steps_local`), so every call ends exactly as
                           in its solo run and shared memory is unchanged.
                           `rtConfined_of_sync` derives `RtConfined` from T3.
                           `c12_concurrent_use` / `c12_on_tree`: C12 as ONE theorem
                           — T5 ∧ T4's conclusions from the checker's verdict, the
                           generated obligations and the named trusted hypotheses.

  T6                       every `lir::Instruction` kind is inside the model
                           (`Generated/C12Instr`: kinds, fields, codegen and
                           interpreter operations): `instr_kinds_classified`,
                           `roles_match_model`, `okInstr_demands`,
                           `events_by_roles`, `regs_by_roles`,
                           `codegen_ops_match_model`, `eval_ops_match_model`.

  T7 `frame_sound`         where the MACHINE CODE puts the memory T5 gives an
                           activation (`Generated/C12Frame`, from
                           `ModuleBuilder::define_function` /
                           `FuncGen::entry_block` / every data object declared
                           under `src/codegen/`): the decision `slotsInFrame`
                           holds iff every arm of the match over
                           `lir::ValueOrSlot` (guards included) backs a slot
                           variable with a Cranelift explicit stack slot whose
                           address is taken with `stack_addr`, and the JIT module
                           holds no writable / thread-local data object. Then
                           (`frame_slots_private`) for any number of activations
                           — calls on any threads, recursive re-entries — and ANY
                           interleaving of their slot writes and reads, each
                           activation reads what it reads alone; with one block
                           per module two activations interfere
                           (`module_slot_interferes`). `slots_in_frame_on_tree`
                           is the generated obligation.

  T8                       process-global tables while other threads compile /
                           build runtimes, and several runtimes in one process.
                           Facts (target `c12globals`): the sections (acquisition
                           + lookup / insert operations) of every accessor of a
                           lock-shaped `static`, cells inside table entries, the
                           source of the Roto name in every arm of
                           `rust_type_to_roto_type`. Machine `Model/ConcIntern`:
                           get-or-insert under all schedules —
                           `checked_get_or_insert_sequential` vs
                           `unchecked_get_or_insert_duplicates`;
                           `global_insert_section_alone`;
                           `interner_observations_consistent` (the checker the
                           driver runs on the real interner's observations);
                           `names_per_runtime_isolated` vs
                           `name_cache_leaks_between_runtimes`; generated
                           obligations `globals_upgrades_rechecked_on_tree`,
                           `globals_inserts_exclusive_on_tree`,
                           `globals_entries_frozen_on_tree`,
                           `names_resolved_per_runtime_on_tree`.

  Not modelled (exercised by the stress harness only): data races inside the
  machine code itself (T5's machine is at the level of LIR instructions; that a
  Cranelift explicit stack slot is memory of the running activation is trusted —
  that slot variables ARE such slots is T7). The source of the external
  `symbol_table` interner is not modelled; its contract is checked (T8).
-/
import RotoV.Lemmas.Conc
import RotoV.Lemmas.ConcShare
import RotoV.Lemmas.ConcExec
import RotoV.Model.ConcInstr
import RotoV.Lemmas.ConcFrame
import RotoV.Lemmas.ConcIntern
import RotoV.Generated.C12Bounds
import RotoV.Generated.C12Sharing
import RotoV.Generated.C12Globals
import RotoV.Generated.C12Frame

namespace RotoV.C12
open RotoV.Conc

set_option linter.unusedSectionVars false

section T1
variable {ι A V : Type} [DecidableEq ι]

/-- **T1.** For every schedule whose steps are call-local: every call's own
state ends as if the call had run alone from the initial store, and shared
state is untouched. (Every schedule is an interleaving of its own projections,
so this quantifies over all interleavings; the explicit form is
`noninterference_interleaving`.) -/
theorem noninterference (owner : A → Option ι) (s : Sched ι A V)
    (hs : ∀ p ∈ s, LocalStep owner p.1 p.2) (m0 : A → V) :
    (∀ i a, owner a = some i → run s m0 a = runSolo (proj i s) m0 a)
    ∧ (∀ a, owner a = none → run s m0 a = m0 a) :=
  ⟨fun i a ha => run_agree owner i s m0 m0 hs (fun _ _ => rfl) a (Or.inl ha),
   fun a ha => run_shared owner s m0 hs a ha⟩

/-- **T1, explicit form.** `progs i` is the step list of call `i`; `s` is ANY
merge of these lists (N threads × M calls is the special case where the calls
of one thread are ordered, which only removes schedules). -/
theorem noninterference_interleaving (owner : A → Option ι)
    (progs : ι → List (Step A V)) (hloc : ∀ i, ∀ f ∈ progs i, LocalStep owner i f)
    (s : Sched ι A V) (hs : Interleaving progs s) (m0 : A → V) (i : ι) (a : A)
    (ha : owner a = some i) :
    run s m0 a = runSolo (progs i) m0 a := by
  have h := (noninterference owner s (fun p hp => hloc p.1 p.2 (interleaving_mem hs p hp)) m0).1 i a ha
  rw [interleaving_proj hs i] at h
  exact h

/-- **T1, against the single-threaded run.** Running the calls one after the
other on one thread (`sequential`, any order) gives call `i` the same result as
any interleaving `s` of the same step lists. -/
theorem concurrent_eq_single_threaded (owner : A → Option ι)
    (progs : ι → List (Step A V)) (hloc : ∀ i, ∀ f ∈ progs i, LocalStep owner i f)
    (s : Sched ι A V) (hs : Interleaving progs s) (order : List ι) (hnd : order.Nodup)
    (m0 : A → V) (i : ι) (hi : i ∈ order) (a : A) (ha : owner a = some i) :
    run s m0 a = run (sequential progs order) m0 a := by
  rw [noninterference_interleaving owner progs hloc s hs m0 i a ha]
  have h := (noninterference owner (sequential progs order)
    (fun p hp => hloc p.1 p.2 (mem_sequential progs order p hp)) m0).1 i a ha
  rw [proj_sequential progs i order hnd hi] at h
  exact h.symm

/-- **T1, accounting.** The live-value counter is updated atomically (each step
adds a delta): if every call balances on its own, any interleaving balances. -/
theorem accounting_balances : ∀ (s : List (ι × Int)),
    (∀ i, total (deltasOf i s) = 0) → total s = 0 := by
  intro s
  induction hn : s.length using Nat.strongRecOn generalizing s with
  | _ n ih =>
    cases s with
    | nil => intro _; rfl
    | cons p rest =>
      intro h
      obtain ⟨i, d⟩ := p
      rw [total_split i, h i, Int.zero_add]
      have hlen : (deltasNot i ((i, d) :: rest)).length < n := by
        have := deltasNot_length i rest
        simp [deltasNot] at *
        omega
      apply ih _ hlen _ rfl
      intro j
      by_cases hj : j = i
      · subst hj; rw [deltasOf_deltasNot_self]; rfl
      · rw [deltasOf_deltasNot hj]; exact h j

/-- the counter does not depend on the order of the steps at all -/
theorem accounting_order_free {s s' : List (ι × Int)} (h : s.Perm s') : total s = total s' := by
  induction h with
  | nil => rfl
  | cons x _ ih => obtain ⟨_, d⟩ := x; simp [total, ih]
  | swap x y l => obtain ⟨_, d⟩ := x; obtain ⟨_, e⟩ := y; simp [total]; omega
  | trans _ _ ih1 ih2 => exact ih1.trans ih2

end T1

/-! non-vacuity of T1: two calls on a 3-cell store (cell 0 shared, cell 1 owned
by call 0, cell 2 by call 1); each call adds the shared cell to its own. -/
section T1Example

def exOwner : Nat → Option Nat
  | 0 => none
  | 1 => some 0
  | 2 => some 1
  | _ => none

def exStep (own : Nat) : Step Nat Nat := fun m a => if a = own then m own + m 0 else m a

theorem exStep_local0 : LocalStep exOwner 0 (exStep 1) where
  frame := by
    intro m a ha
    unfold exStep
    by_cases h : a = 1
    · subst h; simp [exOwner] at ha
    · simp [h]
  reads := by
    intro m m' h a ha
    unfold exStep
    have h0 := h 0 (Or.inr rfl)
    have h1 := h 1 (Or.inl rfl)
    by_cases hh : a = 1
    · simp [hh, h0, h1]
    · simp only [hh, if_false]; exact h a (Or.inl ha)

theorem exStep_local1 : LocalStep exOwner 1 (exStep 2) where
  frame := by
    intro m a ha
    unfold exStep
    by_cases h : a = 2
    · subst h; simp [exOwner] at ha
    · simp [h]
  reads := by
    intro m m' h a ha
    unfold exStep
    have h0 := h 0 (Or.inr rfl)
    have h2 := h 2 (Or.inl rfl)
    by_cases hh : a = 2
    · simp [hh, h0, h2]
    · simp only [hh, if_false]; exact h a (Or.inl ha)

/-- the hypotheses of `noninterference` are satisfiable by a schedule that
really interleaves two calls, and the conclusion is the expected number -/
example :
    let s : Sched Nat Nat Nat := [(0, exStep 1), (1, exStep 2), (0, exStep 1), (1, exStep 2)]
    (∀ p ∈ s, LocalStep exOwner p.1 p.2) ∧ run s (fun _ => 5) 1 = 15 := by
  refine ⟨?_, by decide⟩
  intro p hp
  simp only [List.mem_cons, List.not_mem_nil, or_false] at hp
  rcases hp with rfl | rfl | rfl | rfl
  · exact exStep_local0
  · exact exStep_local1
  · exact exStep_local0
  · exact exStep_local1

example : total [((0 : Nat), (1 : Int)), (1, 1), (0, -1), (1, -1)] = 0 :=
  accounting_balances _ (by
    intro i
    by_cases h0 : i = 0
    · subst h0; decide
    · by_cases h1 : i = 1
      · subst h1; decide
      · have h0' : ¬ (0 : Nat) = i := fun e => h0 e.symm
        have h1' : ¬ (1 : Nat) = i := fun e => h1 e.symm
        simp [deltasOf, total, h0', h1'])

end T1Example

/-! ## T2 -/

open Lir in
/-- **T2.** Soundness of the LIR checker for every certificate it validates:
for every argument tuple, every sequence `tr` of instructions of the item (each
paired with an arbitrary value for what memory / a callee / arithmetic returns),
every region written during the execution is call-local. -/
theorem frame_local_writes (cert : Var → Cls) (it : Item) (h : check cert it = true)
    (args : Var → Int) (tr : List (Instr × Val)) (htr : ∀ p ∈ tr, p.1 ∈ it.instrs) :
    ∀ r ∈ events (initEnv it args) tr, r.isLocal = true := by
  simp only [check, Bool.and_eq_true] at h
  exact events_local it.instrs h.2 tr _ (init_inv h.1 args) htr

open Lir in
/-- what the driver runs: inference + validation -/
theorem accept_sound (it : Item) (h : accept it = true)
    (args : Var → Int) (tr : List (Instr × Val)) (htr : ∀ p ∈ tr, p.1 ∈ it.instrs) :
    ∀ r ∈ events (initEnv it args) tr, r.isLocal = true :=
  frame_local_writes (infer it) it h args tr htr

open Lir in
/-- in particular no execution of an accepted item writes to a constant or to
the context -/
theorem accepted_never_writes_shared (it : Item) (h : accept it = true)
    (args : Var → Int) (tr : List (Instr × Val)) (htr : ∀ p ∈ tr, p.1 ∈ it.instrs) :
    (∀ n, Region.const n ∉ events (initEnv it args) tr) ∧ Region.ctx ∉ events (initEnv it args) tr := by
  refine ⟨fun n hn => ?_, fun hn => ?_⟩
  · simpa [Region.isLocal] using accept_sound it h args tr htr _ hn
  · simpa [Region.isLocal] using accept_sound it h args tr htr _ hn

namespace T2Example
open Lir

/-- `fn f(r: Rec, n: u32) -> Rec` in the shape the lowerer produces: read a
field of the parameter, clone a constant into a slot, call a runtime function
with an out-slot, copy to `$return`. -/
def good : Item where
  slots := [10, 11]
  ret := some 1
  ctx := some 0
  params := [(2, true), (3, false)]
  instrs := [
    .read 4 false (.var 2),
    .constAddr 5 7,
    .clone (.var 10) (.var 5),
    .callRt [.var 11, .var 10, .var 4],
    .offset 6 (.var 1) 8,
    .copy (.var 6) (.var 11) 8,
    .nop]

/-- the same with the clone skipped: the constant's address is used as a place -/
def bad : Item := { good with instrs := [.constAddr 5 7, .write (.var 5) (.var 3)] }

/-- non-vacuity: the checker accepts a realistic item … -/
example : accept good = true := by decide

/-- … rejects a write through `ConstantAddress`, and that item really has an
execution that writes the constant (so the rejection is not spurious). -/
example : accept bad = false
    ∧ Region.const 7 ∈ events (initEnv bad (fun _ => 0))
        [(.constAddr 5 7, .undef), (.write (.var 5) (.var 3), .undef)] := by decide

/-- a write through the context is rejected as well -/
example : accept { good with instrs := [.offset 6 (.var 0) 4, .write (.var 6) .konst] } = false := by
  decide

end T2Example

/-! ## T3 -/

open Bounds in
/-- what "justified" means: every concrete type the bounds let through, for
every kind of object reachable by shared reference from another thread, is
`Sync` (it is accessed through `&`) and `Send` (the last handle may drop it on
that thread). -/
def SharingSound (f : Facts) : Prop :=
  f.registerableFnImpls ≠ [] ∧
  ∀ bs ∈ reachable f, ∀ t : Auto, admits bs t = true → t.send = true ∧ t.sync = true

open Bounds in
theorem admits_all_iff (bs : List Bound) :
    (∀ t : Auto, admits bs t = true → t.send = true ∧ t.sync = true) ↔ hasSendSync bs = true := by
  constructor
  · intro h
    have := h ⟨bs.contains .send, bs.contains .sync⟩ (by simp [admits])
    simpa [hasSendSync] using this
  · intro h t ht
    simp only [hasSendSync, Bool.and_eq_true] at h
    simp only [admits, h.1, h.2, Bool.not_true, Bool.false_or, Bool.and_eq_true] at ht
    exact ht

open Bounds in
/-- **T3.** The decision computed from the generated bound lists is exactly
the semantic condition: a claimed `Sync` handle is justified iff sharing is
sound for every admitted type. -/
theorem sync_sound (f : Facts) :
    syncJustified f = true ↔ (claimed f = true → SharingSound f) := by
  unfold syncJustified SharingSound
  cases hc : claimed f with
  | false => simp
  | true =>
    simp only [Bool.not_true, Bool.false_or, Bool.and_eq_true, forall_const, List.all_eq_true]
    constructor
    · rintro ⟨hne, hall⟩
      refine ⟨by intro h; simp [h] at hne, fun bs hbs => (admits_all_iff bs).mpr (hall bs hbs)⟩
    · rintro ⟨hne, hall⟩
      refine ⟨by cases h : f.registerableFnImpls <;> simp_all, fun bs hbs => (admits_all_iff bs).mp (hall bs hbs)⟩

open Bounds in
/-- **T3 on the current tree** (bounds regenerated from the sources): the claim
is made (`unsafe impl Sync for TypedFunc`) and it is justified. -/
theorem sync_holds_on_tree :
    claimed Gen.C12Bounds.facts = true ∧ syncJustified Gen.C12Bounds.facts = true := by
  decide

open Bounds in
theorem sharing_sound_on_tree : SharingSound Gen.C12Bounds.facts :=
  (sync_sound _).mp sync_holds_on_tree.2 sync_holds_on_tree.1

open Bounds in
/-- **Refutation on the tree before the fix** (`RegisterableFn: Send + 'static`):
the decision is false, and concretely a `move` closure capturing a `Cell`
(`Send`, not `Sync`) is admitted by the bounds of a reachable kind. The harness
replays this witness: registration compiles against the base bounds and 4 × 100 000
increments through a shared handle lose updates. -/
theorem sync_refuted_on_base_tree :
    syncJustified baseFacts = false
    ∧ claimed baseFacts = true
    ∧ ¬ SharingSound baseFacts
    ∧ ∃ bs ∈ reachable baseFacts, admits bs cellClosure = true ∧ cellClosure.sync = false := by
  refine ⟨by decide, by decide, ?_, ⟨[.other, .send, .static, .send, .static], by decide, by decide, rfl⟩⟩
  intro h
  have := (sync_sound baseFacts).mpr (fun _ => h)
  exact absurd this (by decide)

open Bounds in
/-- any tree whose closure bound lacks `Sync` is refuted the same way -/
theorem sync_refuted_without_sync (f : Facts) (hc : claimed f = true)
    (bs : List Bound) (hbs : bs ∈ f.registerableFnImpls)
    (hno : (bs ++ f.registerableFnSuper).contains .sync = false) : syncJustified f = false := by
  unfold syncJustified
  simp only [hc, Bool.not_true, Bool.false_or]
  have hmem : (bs ++ f.registerableFnSuper) ∈ reachable f := by
    unfold reachable
    exact List.mem_append_left _ (List.mem_map.mpr ⟨bs, hbs, rfl⟩)
  have hbad : hasSendSync (bs ++ f.registerableFnSuper) = false := by
    unfold hasSendSync; rw [hno]; simp
  cases hall : (reachable f).all hasSendSync with
  | false => simp
  | true =>
    have := List.all_eq_true.mp hall _ hmem
    rw [hbad] at this
    exact absurd this (by decide)

/-! ## T4 — what the `unsafe impl Send/Sync`s rest on -/

section T4
open Share

/-- the semantic reading of the three decisions -/
def ShareSound (f : Facts) : Prop :=
  (lockKind f.listCell ≠ .none ∧ f.lockSites ≠ [] ∧
    ∀ s ∈ f.lockSites, modeValid (lockKind f.listCell) s.mode = true
      ∧ (siteNeedsExcl f s = true → grantsExcl (lockKind f.listCell) s.mode = true))
  ∧ (f.unsafeTypes ≠ [] ∧ ∀ u ∈ f.unsafeTypes,
      (∀ s ∈ u.fields, s.hasRc = false ∧ s.bareCell = false) ∧ (u.ty = .rawList ∨ u.sharedWriters = 0))
  ∧ (f.closures ≠ [] ∧ ∀ c ∈ f.closures, closureOwns f c = true ∧ closureSendSync f c = true)

/-- **T4.** The decision computed from the generated facts is exactly: every
mutation of the shared list happens under an exclusive lock, every ownership
count behind an `unsafe impl` is atomic (and no interior mutability escapes a
lock), every closure derived from a handle owns what it uses and is itself
`Send + Sync`. -/
theorem share_sound (f : Facts) : shareJustified f = true ↔ ShareSound f := by
  unfold shareJustified ShareSound lockDiscipline countsAtomic closuresOwn
  simp only [Bool.and_eq_true, List.all_eq_true, bne_iff_ne, ne_eq, beq_iff_eq,
    List.isEmpty_eq_false_iff, Bool.or_eq_true, Bool.not_eq_eq_eq_not, Bool.not_true]
  constructor
  · rintro ⟨⟨⟨⟨hk, hne⟩, hs⟩, ⟨hune, hu⟩⟩, ⟨hcne, hc⟩⟩
    refine ⟨⟨hk, hne, fun s hsm => ⟨(hs s hsm).1, fun hn => ?_⟩⟩, ⟨hune, hu⟩, ⟨hcne, hc⟩⟩
    rcases (hs s hsm).2 with h | h
    · rw [hn] at h; cases h
    · exact h
  · rintro ⟨⟨hk, hne, hs⟩, ⟨hune, hu⟩, ⟨hcne, hc⟩⟩
    refine ⟨⟨⟨⟨hk, hne⟩, fun s hsm => ⟨(hs s hsm).1, ?_⟩⟩, ⟨hune, hu⟩⟩, ⟨hcne, hc⟩⟩
    cases hn : siteNeedsExcl f s with
    | false => exact Or.inl rfl
    | true => exact Or.inr ((hs s hsm).2 hn)

/-! ### (a) the lock -/

variable {ι : Type} [DecidableEq ι]

/-- In every trace the lock admits: when an instance whose acquisition grants
exclusivity writes, it is the only holder; and while such an instance holds the
lock, every event is its own (nobody else acquires, accesses or releases). -/
theorem exclusive_writes (k : LockKind) (mode : ι → LockMode) (pre post : List (Ev ι)) (e : Ev ι)
    (Hf : List ι) (hrun : runLock k mode [] (pre ++ e :: post) = some Hf) :
    ∃ H, runLock k mode [] pre = some H
      ∧ (∀ i w, e = .acc i w → grantsExcl k (mode i) = true → H = [i])
      ∧ (∀ i ∈ H, grantsExcl k (mode i) = true → e.inst = i) := by
  obtain ⟨H, hpre, hrest⟩ := run_append pre (e :: post) [] Hf hrun
  have hinv : Excl k mode H := run_excl pre [] H (excl_nil k mode) hpre
  simp only [runLock] at hrest
  cases hs : stepLock k mode H e with
  | none => simp [hs] at hrest
  | some H1 =>
    refine ⟨H, hpre, ?_, ?_⟩
    · intro i w he hg
      subst he
      simp only [stepLock] at hs
      split at hs
      · rename_i hc
        exact hinv i (by simpa using hc) hg
      · cases hs
    · intro i hi hg
      have hH := hinv i hi hg
      rw [hH] at hs
      exact step_alone hg hs

/-- **(a), over the generated facts.** Instances run the methods of their lock
site (`site i ∈ f.lockSites`, requesting that site's mode). If the discipline
holds, then whenever an instance whose site can mutate the list performs an
access, it is the only holder of the lock — in every trace, for every number of
instances. -/
theorem shared_list_write_exclusive (f : Facts) (hd : lockDiscipline f = true)
    (site : ι → LockSite) (hsite : ∀ i, site i ∈ f.lockSites)
    (pre post : List (Ev ι)) (i : ι) (w : Bool) (Hf : List ι)
    (hmut : siteNeedsExcl f (site i) = true)
    (hrun : runLock (lockKind f.listCell) (fun j => (site j).mode) [] (pre ++ .acc i w :: post) = some Hf) :
    runLock (lockKind f.listCell) (fun j => (site j).mode) [] pre = some [i] := by
  have hsound := (share_sound_lock f).mp hd
  obtain ⟨H, hpre, hw, _⟩ := exclusive_writes _ _ pre post (.acc i w) Hf hrun
  have hg := (hsound.2.2 (site i) (hsite i)).2 hmut
  rw [hpre, hw i w rfl hg]
where
  share_sound_lock (f : Facts) : lockDiscipline f = true ↔
      (lockKind f.listCell ≠ .none ∧ f.lockSites ≠ [] ∧
        ∀ s ∈ f.lockSites, modeValid (lockKind f.listCell) s.mode = true
          ∧ (siteNeedsExcl f s = true → grantsExcl (lockKind f.listCell) s.mode = true)) := by
    unfold lockDiscipline
    simp only [Bool.and_eq_true, List.all_eq_true, bne_iff_ne, ne_eq,
      List.isEmpty_eq_false_iff, Bool.or_eq_true, Bool.not_eq_eq_eq_not, Bool.not_true]
    constructor
    · rintro ⟨⟨hk, hne⟩, hs⟩
      refine ⟨hk, hne, fun s hsm => ⟨(hs s hsm).1, fun hn => ?_⟩⟩
      rcases (hs s hsm).2 with h | h
      · rw [hn] at h; cases h
      · exact h
    · rintro ⟨hk, hne, hs⟩
      refine ⟨⟨hk, hne⟩, fun s hsm => ⟨(hs s hsm).1, ?_⟩⟩
      cases hn : siteNeedsExcl f s with
      | false => exact Or.inl rfl
      | true => exact Or.inr ((hs s hsm).2 hn)

/-- and while it is inside, every event of the trace is its own: the critical
section of a mutating operation is atomic with respect to all other operations
on the list -/
theorem exclusive_section_alone (f : Facts) (hd : lockDiscipline f = true)
    (site : ι → LockSite) (hsite : ∀ i, site i ∈ f.lockSites)
    (pre post : List (Ev ι)) (e : Ev ι) (i : ι) (H Hf : List ι)
    (hmut : siteNeedsExcl f (site i) = true)
    (hpre : runLock (lockKind f.listCell) (fun j => (site j).mode) [] pre = some H) (hi : i ∈ H)
    (hrun : runLock (lockKind f.listCell) (fun j => (site j).mode) [] (pre ++ e :: post) = some Hf) :
    e.inst = i := by
  have hsound := (shared_list_write_exclusive.share_sound_lock f).mp hd
  obtain ⟨H', hpre', _, halone⟩ := exclusive_writes _ _ pre post e Hf hrun
  rw [hpre] at hpre'
  cases hpre'
  exact halone i hi ((hsound.2.2 (site i) (hsite i)).2 hmut)

/-- **Snapshots are consistent.** While an instance `r` holds the lock in ANY
mode (a reader taking a `to_vec` snapshot, a `contains` scan, another writer), no
other instance writes: a write by `j` between `r`'s acquisition and `r`'s release
forces `j = r`. So everything one operation reads under its guard comes from one
state of the list. (The oracle of the reader threads of `swap-rust` /
`swap-script`: every snapshot is a permutation of whole elements.) -/
theorem no_foreign_write_while_held (f : Facts) (hd : lockDiscipline f = true)
    (site : ι → LockSite) (hsite : ∀ i, site i ∈ f.lockSites)
    (pre mid post : List (Ev ι)) (r j : ι) (Hf : List ι)
    (hmut : siteNeedsExcl f (site j) = true) (hnorel : Ev.rel r ∉ mid)
    (hrun : runLock (lockKind f.listCell) (fun i => (site i).mode) []
      ((pre ++ .acq r :: mid) ++ .acc j true :: post) = some Hf) :
    j = r := by
  have hone := shared_list_write_exclusive f hd site hsite (pre ++ .acq r :: mid) post j true Hf hmut hrun
  obtain ⟨H0, hpre, hrest⟩ := run_append pre (.acq r :: mid) [] [j] hone
  simp only [runLock] at hrest
  cases hs : stepLock (lockKind f.listCell) (fun i => (site i).mode) H0 (.acq r) with
  | none => simp [hs] at hrest
  | some H1 =>
    simp only [hs] at hrest
    have hr1 : r ∈ H1 := by
      simp only [stepLock] at hs
      split at hs
      · cases hs; exact List.mem_cons_self ..
      · cases hs
    have := held_preserved mid H1 [j] hr1 hnorel hrest
    exact (List.mem_singleton.mp this).symm

/-- **(a), end to end: N threads × swap leave a permutation.** Any number of
instances each swap two positions of one shared list, each through a lock site of
the generated facts under which a writing method runs. If the discipline holds,
every complete trace the lock admits — every interleaving of the micro-steps of
all swaps that the lock does not forbid — computes exactly what the swaps
compute when run one after the other in the order in which they got the lock,
and the final list is a permutation of the initial one. (This is the oracle of
the harness classes `swap-rust` / `swap-script`.) -/
theorem exclusive_swaps_permute (f : Facts) (hd : lockDiscipline f = true)
    (site : Nat → LockSite) (hsite : ∀ i, site i ∈ f.lockSites)
    (hmut : ∀ i, siteNeedsExcl f (site i) = true)
    (a b : Nat → Nat) (tr : List Micro) (arr : List Nat)
    (hrun : runLock (lockKind f.listCell) (fun j => (site j).mode) [] (tr.map Micro.toEv) = some [])
    (hprog : ∀ i, projMicro i tr = [] ∨ projMicro i tr = swapProg i (a i) (b i))
    (hb : ∀ i, a i < arr.length ∧ b i < arr.length) :
    execMicro (arr, []) tr = (acqOrder tr).foldl (fun arr i => swapList arr (a i) (b i)) arr
    ∧ (execMicro (arr, []) tr).Perm arr := by
  have hsound := (shared_list_write_exclusive.share_sound_lock f).mp hd
  have hex : ∀ i, grantsExcl (lockKind f.listCell) ((fun j => (site j).mode) i) = true :=
    fun i => (hsound.2.2 (site i) (hsite i)).2 (hmut i)
  have hser := exclusive_swaps_serialize (lockKind f.listCell) (fun j => (site j).mode) a b hex
    tr.length tr (Nat.le_refl _) hrun hprog arr []
  refine ⟨hser, ?_⟩
  rw [hser]
  exact foldl_swap_perm a b _ arr hb

/-- **Refutation for a shared mode** (`RwLock::read` around `swap`): the lock
admits a trace in which `swap(0,1)` and `swap(1,2)`, each running exactly its own
program, overlap; the list `[0,1,2]` ends as `[1,2,1]` — element 0 lost, 1
duplicated. The same trace is impossible under a `Mutex`. -/
theorem shared_lock_admits_racing_swaps :
    let tr : List Micro :=
      [.acq 0, .acq 1, .load 0 0 0, .load 0 1 1, .load 1 0 1, .load 1 1 2,
       .store 0 0 1, .store 0 1 0, .store 1 1 1, .store 1 2 0, .rel 0, .rel 1]
    projMicro 0 tr = swapProg 0 0 1 ∧ projMicro 1 tr = swapProg 1 1 2
    ∧ (runLock .rwlock (fun _ => LockMode.rwRead) [] (tr.map Micro.toEv)).isSome = true
    ∧ execMicro ([0, 1, 2], []) tr = [1, 2, 1]
    ∧ runLock .mutex (fun _ => LockMode.mutexLock) [] (tr.map Micro.toEv) = none
    ∧ runLock .rwlock (fun _ => LockMode.rwWrite) [] (tr.map Micro.toEv) = none := by
  decide

/-! ### (b) ownership counts -/

/-- **Atomic counts free exactly once, at the last drop.** `n > 0` handles exist;
threads clone and drop them in any order (every event through a live handle).
The count always equals the number of live handles; the payload is freed iff
all of them are gone, exactly once, and never while one is alive. -/
theorem arc_frees_exactly_once (n : Nat) (hn : 0 < n) (evs : List CountEv) (n' fr' : Nat)
    (h : countRun (n, 0) evs = some (n', fr')) :
    n' + drops evs = n + clones evs ∧ (fr' = if n' = 0 then 1 else 0) := by
  have := countRun_exact evs n 0 n' fr' h
  refine ⟨this.1, ?_⟩
  rw [this.2]
  by_cases h0 : n' = 0 <;> simp [h0, hn]

/-- **Atomic counts do not depend on the interleaving** (the premise of T1's
`accounting_balances`: every update is one atomic delta). Two runs of the same
clone / drop events in different global orders — two interleavings of the same
threads — end with the same count and the same number of frees. -/
theorem atomic_count_interleaving_free (n : Nat) (hn : 0 < n) (evs evs' : List CountEv) (h : evs.Perm evs')
    (r r' : Nat × Nat) (hr : countRun (n, 0) evs = some r) (hr' : countRun (n, 0) evs' = some r') : r = r' := by
  obtain ⟨c, f⟩ := r
  obtain ⟨c', f'⟩ := r'
  have h1 := arc_frees_exactly_once n hn evs c f hr
  have h2 := arc_frees_exactly_once n hn evs' c' f' hr'
  have hc : c = c' := by
    have := clones_perm h
    have := drops_perm h
    omega
  subst hc
  rw [h1.2, h2.2]

/-- **Atomic = uninterrupted.** Written as separate loads and stores, but with
no step of another thread between a thread's load and its store, the count of
the load/store machine stays equal to the number of live handles and the
payload is never freed while a handle lives: what `Arc` guarantees and `Rc`
does not is exactly that no other thread gets in between. -/
theorem atomic_pairs_never_free_live (n : Nat) (evs : List (Nat × CountEv)) (n' fr' : Nat)
    (h : countRun (n, 0) (evs.map (·.2)) = some (n', fr')) :
    let s := rcRun { count := n, live := n, tmp := [], frees := 0, freedWhileLive := false } (atomicOps evs)
    s.count = n' ∧ s.live = n' ∧ s.frees = fr' ∧ s.freedWhileLive = false :=
  rc_atomic_pairs_exact evs { count := n, live := n, tmp := [], frees := 0, freedWhileLive := false } n' fr' rfl rfl h

/-- **Refutation for a non-atomic count** (`Rc` behind an `unsafe impl Send`):
one handle exists; threads 1 and 2 each clone it (load, load, store, store: one
increment lost) and drop their clone again: the count reaches 0 and the payload
is freed while the original handle is still alive. -/
theorem rc_count_frees_live_payload :
    let s := rcRun { count := 1, live := 1, tmp := [], frees := 0, freedWhileLive := false }
      [(1, .ld), (2, .ld), (1, .stInc), (2, .stInc), (1, .ld), (1, .stDec), (2, .ld), (2, .stDec)]
    s.count = 0 ∧ s.live = 1 ∧ s.frees = 1 ∧ s.freedWhileLive = true := by
  decide

/-! ### (c) closures derived from a handle -/

/-- a closure that holds a count on the module can be called whatever owners
other threads drop, in any order -/
theorem owning_closure_never_dangles : ∀ (tr : List OwnEv) (owners : List Nat), ownRun true owners tr = true
  | [], _ => rfl
  | .dropOwner o :: rest, owners => by
    simp only [ownRun]; exact owning_closure_never_dangles rest _
  | .call :: rest, owners => by
    simp only [ownRun, Bool.true_or, Bool.true_and]; exact owning_closure_never_dangles rest _

/-- one that does not: the package (owner 0) and the last handle (owner 1) are
dropped, the next call runs in freed code -/
theorem non_owning_closure_dangles :
    ownRun false [0, 1] [.call, .dropOwner 0, .call, .dropOwner 1, .call] = false := by
  decide

/-! ### (d) process-global state (the type registry) -/

/-- the semantic reading of the decision over the generated list of `static`s -/
def GlobalsSound (f : GlobalFacts) : Prop :=
  ∀ s ∈ f.statics, s.isMut = false ∧ s.kind ≠ .other
    ∧ (s.kind.lockKind ≠ .none →
        s.uses ≠ [] ∧ ∀ u ∈ s.uses, ∃ m, u.mode = some m ∧ modeValid s.kind.lockKind m = true)

/-- **T4 (d).** The decision over the generated facts is exactly: no `static mut`,
no global with unlocked interior mutability, and every occurrence of a
lock-shaped global's name is an acquisition valid for its lock — the data inside
is reachable through a guard only. -/
theorem globals_sound (f : GlobalFacts) : globalsDisciplined f = true ↔ GlobalsSound f := by
  unfold globalsDisciplined GlobalsSound
  simp only [List.all_eq_true]
  constructor
  · intro h s hs
    have := h s hs
    unfold StaticFact.disciplined at this
    simp only [Bool.and_eq_true, Bool.not_eq_eq_eq_not, Bool.not_true] at this
    obtain ⟨hm, hk⟩ := this
    refine ⟨hm, ?_, ?_⟩
    · intro hc; rw [hc] at hk; cases hk
    · intro hl
      cases hkind : s.kind with
      | atomic => rw [hkind] at hl; exact absurd rfl hl
      | immutable => rw [hkind] at hl; exact absurd rfl hl
      | other => rw [hkind] at hk; cases hk
      | mutex =>
        rw [hkind] at hk
        simp only [Bool.and_eq_true, List.all_eq_true, Bool.not_eq_eq_eq_not, Bool.not_true,
          List.isEmpty_eq_false_iff] at hk
        refine ⟨hk.1, fun u hu => ?_⟩
        have := hk.2 u hu
        cases hmode : u.mode with
        | none => rw [hmode] at this; cases this
        | some m => rw [hmode] at this; exact ⟨m, rfl, this⟩
      | rwlock =>
        rw [hkind] at hk
        simp only [Bool.and_eq_true, List.all_eq_true, Bool.not_eq_eq_eq_not, Bool.not_true,
          List.isEmpty_eq_false_iff] at hk
        refine ⟨hk.1, fun u hu => ?_⟩
        have := hk.2 u hu
        cases hmode : u.mode with
        | none => rw [hmode] at this; cases this
        | some m => rw [hmode] at this; exact ⟨m, rfl, this⟩
  · intro h s hs
    obtain ⟨hm, hk, hl⟩ := h s hs
    unfold StaticFact.disciplined
    simp only [hm, Bool.not_false, Bool.true_and]
    cases hkind : s.kind with
    | atomic => rfl
    | immutable => rfl
    | other => exact absurd hkind hk
    | mutex =>
      have := hl (by rw [hkind]; decide)
      simp only [Bool.and_eq_true, List.all_eq_true, Bool.not_eq_eq_eq_not, Bool.not_true,
        List.isEmpty_eq_false_iff]
      refine ⟨this.1, fun u hu => ?_⟩
      obtain ⟨m, hmode, hv⟩ := this.2 u hu
      rw [hmode]; rw [hkind] at hv; exact hv
    | rwlock =>
      have := hl (by rw [hkind]; decide)
      simp only [Bool.and_eq_true, List.all_eq_true, Bool.not_eq_eq_eq_not, Bool.not_true,
        List.isEmpty_eq_false_iff]
      refine ⟨this.1, fun u hu => ?_⟩
      obtain ⟨m, hmode, hv⟩ := this.2 u hu
      rw [hmode]; rw [hkind] at hv; exact hv

/-- **(d), on the lock machine.** Any number of instances use a `Mutex`-shaped
global, each through one of the generated occurrences of its name. If the
discipline holds, then in every trace the lock admits an instance that accesses
the data is the only holder (the registry is never read while another thread
inserts into it). -/
theorem global_mutex_access_exclusive (f : GlobalFacts) (hd : globalsDisciplined f = true)
    (s : StaticFact) (hs : s ∈ f.statics) (hk : s.kind = .mutex)
    (use : ι → GlobalUse) (huse : ∀ i, use i ∈ s.uses)
    (pre post : List (Ev ι)) (i : ι) (w : Bool) (Hf : List ι)
    (hrun : runLock .mutex (fun j => ((use j).mode).getD .mutexLock) [] (pre ++ .acc i w :: post) = some Hf) :
    runLock .mutex (fun j => ((use j).mode).getD .mutexLock) [] pre = some [i] := by
  obtain ⟨_, _, hl⟩ := (globals_sound f).mp hd s hs
  have hl := (hl (by rw [hk]; decide)).2 (use i) (huse i)
  obtain ⟨m, hmode, hv⟩ := hl
  rw [hk] at hv
  have hg : grantsExcl .mutex (((use i).mode).getD .mutexLock) = true := by
    rw [hmode]
    cases m <;> simp_all [modeValid, GlobalKind.lockKind, grantsExcl]
  obtain ⟨H, hpre, hw, _⟩ := exclusive_writes .mutex _ pre post (.acc i w) Hf hrun
  rw [hpre, hw i w rfl hg]

/-- no `static mut`, no unlocked interior mutability in a global, every use of
the type registry is `lock()` — on the current tree -/
theorem globals_disciplined_on_tree : globalsDisciplined Gen.C12Globals.facts = true := by decide

theorem globals_sound_on_tree : GlobalsSound Gen.C12Globals.facts :=
  (globals_sound _).mp globals_disciplined_on_tree

/-! ### the generated obligations -/

/-- every mutation of the shared list on the current tree happens under an
exclusive lock -/
theorem lock_discipline_on_tree : lockDiscipline Gen.C12Sharing.facts = true := by decide

/-- no non-atomic count and no unlocked interior mutability behind an
`unsafe impl Send/Sync` of the current tree -/
theorem counts_atomic_on_tree : countsAtomic Gen.C12Sharing.facts = true := by decide

/-- every closure built from a `TypedFunc` on the current tree owns what it
uses and is `Send + Sync` -/
theorem closures_own_on_tree : closuresOwn Gen.C12Sharing.facts = true := by decide

theorem share_sound_on_tree : ShareSound Gen.C12Sharing.facts :=
  (share_sound _).mp (by
    unfold shareJustified
    rw [lock_discipline_on_tree, counts_atomic_on_tree, closures_own_on_tree]; rfl)

end T4

namespace T4Example
open Share

/-- a small tree: a mutex-protected list with `get(&self)` (0), `swap(&self)`
writing (1), `push(&mut self)` (2); a handle with a raw pointer and an `Arc` -/
def good : Facts where
  edition := 2024
  unsafeTypes := [{ ty := .functionDescription, send := true, sync := true, fields := [.arc (.own (.dyn false false)), .raw], sharedWriters := 0 },
                  { ty := .typedFunc, send := true, sync := true, fields := [.raw, .plain, .own (.arc .ext)], sharedWriters := 0 }]
  listCell := .arc (.mutex .ext)
  rawMethods := [{ recv := .shared, writes := false }, { recv := .shared, writes := true }, { recv := .excl, writes := true }]
  lockSites := [{ mode := .mutexLock, calls := [0], mutBorrow := false }, { mode := .mutexLock, calls := [1], mutBorrow := false },
                { mode := .mutexLock, calls := [2], mutBorrow := false }]
  typedFuncFields := [.raw, .plain, .own (.arc .ext)]
  closures := [{ isMove := true, wholeSelf := true, fields := [] }]

def rwSitesGood : List LockSite :=
  [{ mode := .rwRead, calls := [0], mutBorrow := false }, { mode := .rwWrite, calls := [1], mutBorrow := false },
   { mode := .rwWrite, calls := [2], mutBorrow := false }]

def rwSitesBad : List LockSite :=
  [{ mode := .rwRead, calls := [0], mutBorrow := false }, { mode := .rwRead, calls := [1], mutBorrow := false },
   { mode := .rwWrite, calls := [2], mutBorrow := false }]

/-- non-vacuity of T4: the decision accepts a realistic tree … -/
example : shareJustified good = true ∧ ShareSound good := ⟨by decide, (share_sound good).mp (by decide)⟩

/-- … a correct `RwLock` conversion (readers `read`, writers `write`) as well … -/
example : shareJustified { good with listCell := .arc (.rwlock .ext), lockSites := rwSitesGood } = true := by decide

/-- … and rejects: the `&self` writer under the read lock; -/
example : lockDiscipline { good with listCell := .arc (.rwlock .ext), lockSites := rwSitesBad } = false := by decide

/-- no lock at all; -/
example : lockDiscipline { good with listCell := .arc (.cell .ext) } = false := by decide

/-- an `Rc` behind the blanket `unsafe impl`; -/
example : countsAtomic { good with unsafeTypes :=
    [{ ty := .functionDescription, send := true, sync := true, fields := [.rc (.own (.dyn false false)), .raw], sharedWriters := 0 }] } = false := by decide

/-- a closure that captures the code pointer without the module (and is then
not `Send + Sync` either); the same closure before edition 2021 captured all of
`self` and was fine. -/
example : closuresOwn { good with closures := [{ isMove := true, wholeSelf := false, fields := [0, 1] }] } = false
    ∧ closureOwns good { isMove := true, wholeSelf := false, fields := [0, 1] } = false
    ∧ closureSendSync good { isMove := true, wholeSelf := false, fields := [0, 1] } = false
    ∧ closuresOwn { good with edition := 2018, closures := [{ isMove := true, wholeSelf := false, fields := [0, 1] }] } = true := by
  decide

/-- the hypotheses of `shared_list_write_exclusive` are satisfiable by a trace
with two instances (a reader at site 0, a swapper at site 1) -/
example :
    let site : Nat → LockSite := fun i =>
      if i = 0 then { mode := .mutexLock, calls := [0], mutBorrow := false }
      else { mode := .mutexLock, calls := [1], mutBorrow := false }
    (∀ i, site i ∈ good.lockSites) ∧
    runLock (lockKind good.listCell) (fun j => (site j).mode) []
      ([.acq 0, .acc 0 false, .rel 0, .acq 1] ++ .acc 1 true :: [.rel 1, .acq 0, .rel 0]) = some []
    ∧ siteNeedsExcl good (site 1) = true := by
  refine ⟨fun i => ?_, by decide, by decide⟩
  by_cases h : i = 0 <;> simp [h, good]

/-- the hypotheses of `exclusive_swaps_permute` are satisfiable: two swaps through
the mutex-protected swap site, one after the other (the only kind of trace a
mutex admits) -/
example :
    let site : Nat → LockSite := fun _ => { mode := .mutexLock, calls := [1], mutBorrow := false }
    let a : Nat → Nat := fun i => if i = 0 then 0 else 1
    let b : Nat → Nat := fun i => if i = 0 then 1 else 2
    let tr := swapProg 1 1 2 ++ swapProg 0 0 1
    lockDiscipline good = true ∧ (∀ i, site i ∈ good.lockSites) ∧ (∀ i, siteNeedsExcl good (site i) = true)
    ∧ runLock (lockKind good.listCell) (fun j => (site j).mode) [] (tr.map Micro.toEv) = some []
    ∧ (∀ i, projMicro i tr = [] ∨ projMicro i tr = swapProg i (a i) (b i))
    ∧ execMicro ([7, 8, 9], []) tr = [9, 7, 8] := by
  refine ⟨by decide, fun _ => by simp [good], fun _ => by simp [siteNeedsExcl, good, RawMethod.needsExcl], by decide, fun i => ?_, by decide⟩
  by_cases h0 : i = 0
  · subst h0; exact Or.inr (by decide)
  · by_cases h1 : i = 1
    · subst h1; exact Or.inr (by decide)
    · refine Or.inl ?_
      have e0 : ¬ (0 : Nat) = i := fun e => h0 e.symm
      have e1 : ¬ (1 : Nat) = i := fun e => h1 e.symm
      simp [projMicro, swapProg, Micro.toEv, Ev.inst, e0, e1]

/-- non-vacuity of (d): the decision accepts a registry behind `LazyLock<Mutex<…>>`
used through `lock()` only, and rejects a use that bypasses the lock, a
`static mut`, a `RefCell` global and a lock-shaped global nobody locks -/
example :
    globalsDisciplined { threadLocals := 0, statics := [{ kind := .mutex, isMut := false, uses := [.lock, .lock] },
                                                        { kind := .atomic, isMut := false, uses := [] }] } = true
    ∧ globalsDisciplined { threadLocals := 0, statics := [{ kind := .mutex, isMut := false, uses := [.lock, .other] }] } = false
    ∧ globalsDisciplined { threadLocals := 0, statics := [{ kind := .immutable, isMut := true, uses := [] }] } = false
    ∧ globalsDisciplined { threadLocals := 0, statics := [{ kind := .other, isMut := false, uses := [] }] } = false
    ∧ globalsDisciplined { threadLocals := 0, statics := [{ kind := .mutex, isMut := false, uses := [] }] } = false
    ∧ globalsDisciplined { threadLocals := 0, statics := [{ kind := .mutex, isMut := false, uses := [.read] }] } = false := by
  decide

/-- the hypotheses of `global_mutex_access_exclusive` are satisfiable on the
generated facts: two instances, `store` then `get` -/
example :
    ∃ s ∈ Gen.C12Globals.facts.statics, s.kind = .mutex ∧ GlobalUse.lock ∈ s.uses
      ∧ runLock .mutex (fun (_ : Nat) => LockMode.mutexLock) []
          ([.acq 0, .acc 0 true, .rel 0, .acq 1] ++ .acc 1 false :: [.rel 1]) = some [] := by
  decide

example : countRun (1, 0) [.clone, .clone, .drop, .drop, .drop] = some (0, 1) := by decide

end T4Example

/-! ## T5 — the composition: accepted items run by any number of threads

T2's checker discharges the frame hypothesis of T1 for the steps of generated
code. The machine is `Exec.mstep` (Model/ConcExec): one global store; every
call has private state (frames, registers, program counters), call-local memory
(stack slots fresh per activation, the host's return buffer and by-reference
arguments) and shares constants, context and everything else with all other
calls. Calls between items push and pop frames; Rust code called from generated
code is a parameter constrained by `RtConfined`. -/

section T5
open Lir Exec
variable {ι : Type} [DecidableEq ι]

/-- **Every step of an accepted program is a `LocalStep` of T1** (guarded by the
checker's invariant), and on every store in which the stepping call satisfies
that invariant the guarded step is the machine step itself. The invariant holds
initially (`initState_good`) and is kept by every step of every call
(`mstep_good`), so along every schedule the guard never fires. -/
theorem accepted_steps_local (prog : List Item) (hacc : acceptProg prog = true)
    (sem : Sem) (hrt : RtConfined sem) (i : ι) :
    LocalStep Exec.owner i (gstep prog sem i)
    ∧ (∀ m : Store ι, GoodAt prog i m → gstep prog sem i m = mstep prog sem i m)
    ∧ (∀ m : Store ι, (∀ j, GoodAt prog j m) → ∀ j, GoodAt prog j (mstep prog sem i m)) :=
  ⟨gstep_local hacc hrt i, fun _ h => gstep_good h, fun m h => mstep_good hacc hrt i m h⟩

/-- **T5 (T2 ∘ T1).** `prog` is any set of items accepted by the verified checker
(`acceptProg` = `Lir.accept` on every item + the call-site check), `sem` any
behaviour of arithmetic, control flow and Rust callees with `RtConfined`. Any
number of calls `ι`, each in a state satisfying the checker's invariant (e.g.
`initState`: just started by the host, `accepted_calls_noninterfere`), take
steps in ANY order `sched` (any number of threads, any schedule, including calls
that never finish). Then every address owned by call `i` — its registers, its
result, its host-value counter, its stack slots, its return buffer — ends with
exactly the content it has when call `i` takes the same number of steps ALONE
from the initial store, and every shared address (constants, context) is
unchanged. The proof instantiates T1 `noninterference` with the guarded steps. -/
theorem accepted_items_noninterfere (prog : List Item) (hacc : acceptProg prog = true)
    (sem : Sem) (hrt : RtConfined sem) (m0 : Store ι) (h0 : ∀ i, GoodAt prog i m0)
    (sched : List ι) :
    (∀ i a, Exec.owner a = some i →
      run (schedOf (mstep prog sem) sched) m0 a
        = runSolo (List.replicate (sched.count i) (mstep prog sem i)) m0 a)
    ∧ (∀ a, Exec.owner a = none → run (schedOf (mstep prog sem) sched) m0 a = m0 a) := by
  have hloc : ∀ p ∈ schedOf (gstep prog sem) sched, LocalStep Exec.owner p.1 p.2 := by
    intro p hp
    simp only [schedOf, List.mem_map] at hp
    obtain ⟨i, _, rfl⟩ := hp
    exact gstep_local hacc hrt i
  have h := noninterference Exec.owner (schedOf (gstep prog sem) sched) hloc m0
  rw [run_guard_eq hacc hrt sched m0 h0]
  refine ⟨fun i a ha => ?_, h.2⟩
  rw [h.1 i a ha, proj_schedOf, runSolo_guard_eq hacc hrt i _ m0 h0]

/-- what the host observes of call `i` in a store -/
def resultOf (m : Store ι) (i : ι) : Option Val :=
  match m (.priv i) with
  | .priv s => s.result
  | .val _ => none

def acctOf (m : Store ι) (i : ι) : Int :=
  match m (.priv i) with
  | .priv s => s.acct
  | .val _ => 0

def finished (m : Store ι) (i : ι) : Bool :=
  match m (.priv i) with
  | .priv s => s.stack.isEmpty
  | .val _ => false

/-- **T5 for calls started by the host.** Call `i` runs item `(calls i).1` with
scalar arguments `(calls i).2`, by-reference arguments and the return buffer in
host memory of that call, on an arbitrary initial memory `m0`. Under every
schedule: the returned value, the return buffer, whether the call has finished
and the call's host-value counter equal those of the solo run; constants and
the context are never modified. -/
theorem accepted_calls_noninterfere (prog : List Item) (hacc : acceptProg prog = true)
    (sem : Sem) (hrt : RtConfined sem) (calls : ι → Nat × (Var → Int)) (m0 : Store ι)
    (hinit : ∀ i, m0 (.priv i) = .priv (initState prog (calls i).1 (calls i).2))
    (sched : List ι) (i : ι) :
    let conc := run (schedOf (mstep prog sem) sched) m0
    let solo := runSolo (List.replicate (sched.count i) (mstep prog sem i)) m0
    resultOf conc i = resultOf solo i
    ∧ finished conc i = finished solo i
    ∧ acctOf conc i = acctOf solo i
    ∧ (∀ r off, r.isLocal = true → conc (.loc i r off) = solo (.loc i r off))
    ∧ (∀ r off, conc (.shared r off) = m0 (.shared r off)) := by
  have h0 : ∀ j, GoodAt prog j m0 := fun j => ⟨_, hinit j, initState_good hacc _ _⟩
  have h := accepted_items_noninterfere prog hacc sem hrt m0 h0 sched
  have hp := h.1 i (.priv i) rfl
  refine ⟨?_, ?_, ?_, fun r off _ => h.1 i (.loc i r off) rfl, fun r off => h.2 (.shared r off) rfl⟩
  · simp only [resultOf, hp]
  · simp only [finished, hp]
  · simp only [acctOf, hp]

/-- **the solo result is final**: once call `i` has returned in its solo run, any
further steps change nothing — so "the same number of steps alone" in T5 is
"the complete single-threaded call" as soon as the concurrent call has
finished (`finished conc i = finished solo i`). -/
theorem solo_result_final (prog : List Item) (sem : Sem) (i : ι) (m0 : Store ι) (n k : Nat)
    (hfin : finished (runSolo (List.replicate n (mstep prog sem i)) m0) i = true) :
    runSolo (List.replicate (n + k) (mstep prog sem i)) m0
      = runSolo (List.replicate n (mstep prog sem i)) m0 := by
  rw [← List.replicate_append_replicate, runSolo_append]
  simp only [finished] at hfin
  cases hs : runSolo (List.replicate n (mstep prog sem i)) m0 (.priv i) with
  | val v => rw [hs] at hfin; cases hfin
  | priv s =>
    rw [hs] at hfin
    exact runSolo_finished prog sem i _ s hs (by simpa using hfin) k

/-- **T5, accounting.** If every call balances its host values when run alone
(C03), the calls balance under every schedule (each call's counter is private
state; the global counter of T1 `accounting_balances` is their sum). -/
theorem accepted_calls_accounting (prog : List Item) (hacc : acceptProg prog = true)
    (sem : Sem) (hrt : RtConfined sem) (m0 : Store ι) (h0 : ∀ i, GoodAt prog i m0)
    (sched : List ι) (cs : List ι)
    (hsolo : ∀ i ∈ cs, acctOf (runSolo (List.replicate (sched.count i) (mstep prog sem i)) m0) i = 0) :
    (cs.map (acctOf (run (schedOf (mstep prog sem) sched) m0))).sum = 0 := by
  have h := accepted_items_noninterfere prog hacc sem hrt m0 h0 sched
  have : ∀ i ∈ cs, acctOf (run (schedOf (mstep prog sem) sched) m0) i = 0 := by
    intro i hi
    have hp := h.1 i (.priv i) rfl
    have := hsolo i hi
    simp only [acctOf] at this ⊢
    rw [hp]; exact this
  induction cs with
  | nil => rfl
  | cons c cs ih =>
    simp only [List.map_cons, List.sum_cons]
    rw [this c (List.mem_cons_self ..), ih (fun i hi => hsolo i (List.mem_cons_of_mem _ hi))
      (fun i hi => this i (List.mem_cons_of_mem _ hi))]
    rfl

/-! ### the assumption about Rust callees, tied to T3 -/

/-- The Rust object behind a call site of generated code (a registered
function / closure, the clone / drop / eq glue of a registered value type, a
registered constant): the auto traits of its type and the bound list it was
admitted through (one of the lists the translator regenerates). -/
structure RtSite where
  auto : Bounds.Auto
  bounds : List Bounds.Bound

/-- every Rust object generated code reaches was admitted through one of the
generated bound lists (registration compiled) -/
def SitesAdmitted (f : Bounds.Facts) (site : Nat → Nat → RtSite) : Prop :=
  ∀ fn pc, (site fn pc).bounds ∈ Bounds.reachable f
    ∧ Bounds.admits (site fn pc).bounds (site fn pc).auto = true

/-- TRUSTED (the meaning of `Send + Sync` in Rust, plus the modelling
assumption of `RtConfined`): Rust code whose state is `Send + Sync`, called
through a shared reference from generated code, touches non-synchronised memory
only through the pointers it is handed for writing. Nothing is assumed about a
site whose type is not `Send + Sync`. -/
def SyncConfines (sem : Sem) (site : Nat → Nat → RtSite) : Prop :=
  ∀ fn pc, (site fn pc).auto.send = true ∧ (site fn pc).auto.sync = true →
    ∀ handed ro view, ∀ w ∈ (sem.rt fn pc handed ro view).writes, w.1 ∈ handed.flatMap atarget

/-- `RtConfined` follows from T3's decision over the generated bound lists: if
the bounds were weaker (the tree before the `+ Sync` fix), a `Send`-only closure
would be admitted and nothing could be concluded about its site. -/
theorem rtConfined_of_sync (f : Bounds.Facts) (hsound : SharingSound f) (sem : Sem)
    (site : Nat → Nat → RtSite) (hadm : SitesAdmitted f site) (hsync : SyncConfines sem site) :
    RtConfined sem := by
  intro fn pc handed ro view w hw
  obtain ⟨hb, ha⟩ := hadm fn pc
  exact hsync fn pc (hsound.2 _ hb _ ha) handed ro view w hw

/-- the statement of `exclusive_swaps_permute`, as a property of sharing facts -/
def SwapsSerialise (f : Share.Facts) : Prop :=
  ∀ (site : Nat → Share.LockSite), (∀ i, site i ∈ f.lockSites) →
    (∀ i, Share.siteNeedsExcl f (site i) = true) →
    ∀ (a b : Nat → Nat) (tr : List Share.Micro) (arr : List Nat),
      Share.runLock (Share.lockKind f.listCell) (fun j => (site j).mode) [] (tr.map Share.Micro.toEv) = some [] →
      (∀ i, Share.projMicro i tr = [] ∨ Share.projMicro i tr = Share.swapProg i (a i) (b i)) →
      (∀ i, a i < arr.length ∧ b i < arr.length) →
      Share.execMicro (arr, []) tr = (Share.acqOrder tr).foldl (fun arr i => Share.swapList arr (a i) (b i)) arr
      ∧ (Share.execMicro (arr, []) tr).Perm arr

/-- **C12 as one theorem.** Hypotheses, each either decided from generated
facts, run by the driver on real compiler output, or named as trusted:

* `hacc`    the verified checker accepts every item of the program (driver, on
            the real LIR dump of every generated script);
* `hbounds` T3's decision over the bound lists generated from the sources;
* `hshare`  T4's decision over the sharing facts generated from the sources;
* `hglobals` T4 (d): the decision over the generated list of `static`s;
* `hadm`, `hsync`  TRUSTED: every Rust object generated code reaches was
            admitted through one of those bound lists, and `Send + Sync` Rust
            code stays within the pointers it is handed;
* TRUSTED, built into `Exec.resolve`: stack slots and host buffers of a call
  are memory of that call (Cranelift stack slots are thread-private).

Conclusion: (1) under every schedule of any number of calls each call's result,
return buffer, termination and host-value counter equal its solo run, and
constants and context are never written; (2) every mutation of a shared list is
exclusive, so concurrent swaps serialise in lock order and leave a permutation;
no `Rc` and no unlocked cell is reachable from an `unsafe impl Send/Sync` type
(so every shared count is the exact, free-once machine of
`arc_frees_exactly_once`); every closure derived from a handle owns the module
(`owning_closure_never_dangles`); (3) the only process-global mutable state of
the crate is behind a `Mutex` that every use locks (`global_mutex_access_exclusive`). -/
theorem c12_concurrent_use
    (fB : Bounds.Facts) (fS : Share.Facts) (fG : Share.GlobalFacts)
    (hclaim : Bounds.claimed fB = true) (hbounds : Bounds.syncJustified fB = true)
    (hshare : Share.shareJustified fS = true) (hglobals : Share.globalsDisciplined fG = true)
    (prog : List Item) (hacc : acceptProg prog = true)
    (sem : Sem) (site : Nat → Nat → RtSite) (hadm : SitesAdmitted fB site) (hsync : SyncConfines sem site)
    (calls : ι → Nat × (Var → Int)) (m0 : Store ι)
    (hinit : ∀ i, m0 (.priv i) = .priv (initState prog (calls i).1 (calls i).2))
    (sched : List ι) :
    (∀ i,
      let conc := run (schedOf (mstep prog sem) sched) m0
      let solo := runSolo (List.replicate (sched.count i) (mstep prog sem i)) m0
      resultOf conc i = resultOf solo i ∧ finished conc i = finished solo i
      ∧ acctOf conc i = acctOf solo i
      ∧ (∀ r off, r.isLocal = true → conc (.loc i r off) = solo (.loc i r off))
      ∧ (∀ r off, conc (.shared r off) = m0 (.shared r off)))
    ∧ ShareSound fS ∧ SwapsSerialise fS
    ∧ (∀ tr owners, Share.ownRun true owners tr = true)
    ∧ GlobalsSound fG := by
  have hrt : RtConfined sem :=
    rtConfined_of_sync fB ((sync_sound fB).mp hbounds hclaim) sem site hadm hsync
  have hss := (share_sound fS).mp hshare
  have hd : Share.lockDiscipline fS = true := by
    unfold Share.shareJustified at hshare
    simp only [Bool.and_eq_true] at hshare
    exact hshare.1.1
  refine ⟨fun i => accepted_calls_noninterfere prog hacc sem hrt calls m0 hinit sched i, hss, ?_,
    fun tr owners => owning_closure_never_dangles tr owners, (globals_sound fG).mp hglobals⟩
  intro site' hsite hmut a b tr arr hrun hprog hb
  exact exclusive_swaps_permute fS hd site' hsite hmut a b tr arr hrun hprog hb

/-- **C12 on the current tree**: the generated obligations discharged
(`sync_holds_on_tree`, `lock_discipline_on_tree`, `counts_atomic_on_tree`,
`closures_own_on_tree`, `globals_disciplined_on_tree`). What remains are the checker's verdict on the program
at hand (decided by the driver for every generated script) and the trusted
hypotheses. -/
theorem c12_on_tree
    (prog : List Item) (hacc : acceptProg prog = true)
    (sem : Sem) (site : Nat → Nat → RtSite)
    (hadm : SitesAdmitted Gen.C12Bounds.facts site) (hsync : SyncConfines sem site)
    (calls : ι → Nat × (Var → Int)) (m0 : Store ι)
    (hinit : ∀ i, m0 (.priv i) = .priv (initState prog (calls i).1 (calls i).2))
    (sched : List ι) :
    (∀ i,
      let conc := run (schedOf (mstep prog sem) sched) m0
      let solo := runSolo (List.replicate (sched.count i) (mstep prog sem i)) m0
      resultOf conc i = resultOf solo i ∧ finished conc i = finished solo i
      ∧ acctOf conc i = acctOf solo i
      ∧ (∀ r off, r.isLocal = true → conc (.loc i r off) = solo (.loc i r off))
      ∧ (∀ r off, conc (.shared r off) = m0 (.shared r off)))
    ∧ ShareSound Gen.C12Sharing.facts ∧ SwapsSerialise Gen.C12Sharing.facts
    ∧ (∀ tr owners, Share.ownRun true owners tr = true)
    ∧ GlobalsSound Gen.C12Globals.facts :=
  c12_concurrent_use Gen.C12Bounds.facts Gen.C12Sharing.facts Gen.C12Globals.facts
    sync_holds_on_tree.1 sync_holds_on_tree.2
    (by unfold Share.shareJustified
        rw [lock_discipline_on_tree, counts_atomic_on_tree, closures_own_on_tree]; rfl)
    globals_disciplined_on_tree
    prog hacc sem site hadm hsync calls m0 hinit sched

end T5

/-! ## T6 — every instruction kind of the source is inside the model

The list of `lir::Instruction` kinds, their fields (name, type class) and the
memory / call operations the machine-code generator emits for each kind are
regenerated from `src/lir/mod.rs` and `src/codegen/mod.rs` (`Generated/C12Instr`).
`Classify.shapeOf` / `Classify.roles` send every kind they do not list to
`unclassified`, which `instr_kinds_classified` forbids: a new kind breaks that
obligation until it is classified. -/

section T6
open Lir Classify Gen.C12Instr

/-- every generated kind is classified; its generated field list is the
classified one (names, order) and every field that can carry a variable has a
role fitting its type -/
theorem instr_kinds_classified : kinds.all kindClassified = true := by decide

/-- `kinds` lists every constructor of the generated enum -/
theorem instr_kinds_complete : ∀ k : Kind, k ∈ kinds := by
  intro k; cases k <;> decide

/-- the roles given to the fields of a kind are exactly what the model
instruction it is parsed to accounts for (defines a variable / number of
operands written through / hands operands to a callee) -/
theorem roles_match_model : ∀ k : Kind, roleSummary (roles k) = shapeSummary (shapeOf k) := by
  intro k; cases k <;> decide

/-- **tie to the machine-code generator**: for every kind, the memory / call
operations `FuncGen::instruction` emits are those the model's step assumes — a
`store` only for `Write`, a block copy only for `Copy` / `Initialize`, a `load`
only for `Read`, direct calls only for `Call` / `CallRuntime`, indirect calls
into Rust glue only for `InitString` / `Clone` / `Eq` / `Drop`, and NOTHING that
touches memory or other code for the arithmetic, comparison, address and
control kinds. -/
theorem codegen_ops_match_model : ∀ k : Kind, codegenMatches k = true := by
  intro k; cases k <;> decide

/-- **tie to the reference interpreter** (`lir::eval::eval`, what C20 compares
compiled code with): for every kind, the effectful memory operations of its arm
are those of the model's machine — `Call` pushes a frame and allocates fresh
slots, `Return` pops it, `Write` / `Read` / `Copy` are one store / load / block
copy, initialisers write fresh call-local memory, glue and runtime functions are
calls into Rust code, and the 17 arithmetic, address and control kinds touch no
memory. -/
theorem eval_ops_match_model : ∀ k : Kind, evalMatches k = true := by
  intro k; cases k <;> decide

/-- every model instruction stays within the summary of its shape -/
theorem model_within_shape (ins : Instr) :
    ((defVar ins).isSome = true → (shapeSummary (Shape.of ins)).defines = true)
    ∧ (writeOps ins).length ≤ (shapeSummary (Shape.of ins)).writes
    ∧ (handedOps ins ≠ [] → (shapeSummary (Shape.of ins)).handed = true) := by
  cases ins with
  | call f to isPtr ctx retPtr args =>
    cases retPtr <;> simp [defVar, writeOps, handedOps, Shape.of, shapeSummary]
  | drop v hasFn => cases hasFn <;> simp [defVar, writeOps, handedOps, Shape.of, shapeSummary]
  | _ => simp [defVar, writeOps, handedOps, Shape.of, shapeSummary]

/-- what the verified checker demands, by roles: every operand written through
has class `loc`, every operand handed to a callee is not of class `any` -/
theorem okInstr_demands (cert : Var → Cls) (ins : Instr) (h : okInstr cert ins = true) :
    (∀ o ∈ writeOps ins, clsOp cert o = .loc) ∧ (∀ o ∈ handedOps ins, clsOp cert o ≠ .any) := by
  cases ins with
  | call f to isPtr ctx retPtr args =>
    simp only [okInstr, Bool.and_eq_true, List.all_eq_true] at h
    refine ⟨?_, fun o ho => by simpa using h.2 o ho⟩
    cases retPtr with
    | none => simp [writeOps]
    | some r => simpa [writeOps, clsOp] using h.1.2
  | callRt args =>
    simp only [okInstr, List.all_eq_true] at h
    exact ⟨by simp [writeOps], fun o ho => by simpa using h o ho⟩
  | drop v hasFn =>
    cases hasFn with
    | true => simpa [writeOps, handedOps, okInstr] using h
    | false => simp [writeOps, handedOps]
  | initString to => simpa [writeOps, handedOps, okInstr, clsOp] using h
  | initBytes to => simpa [writeOps, handedOps, okInstr, clsOp] using h
  | write to val => simpa [writeOps, handedOps, okInstr] using h
  | copy to src n => simpa [writeOps, handedOps, okInstr] using h
  | clone to src => simpa [writeOps, handedOps, okInstr] using h
  | _ => simp [writeOps, handedOps]

theorem flatMap_atarget (env : Env) (args : List Operand) :
    args.flatMap (fun o => atarget (evalOp env o)) = argTargets env args := by
  induction args with
  | nil => rfl
  | cons a as ih => simp [argTargets, ih]

/-- the write events of the checker's semantics are exactly those of the
operands with a writing role — no instruction writes anywhere else -/
theorem events_by_roles (env : Env) (nd : Val) (ins : Instr) :
    (step env nd ins).2 = (writeOps ins).flatMap (fun o => wtarget (evalOp env o))
      ++ (handedOps ins).flatMap (fun o => atarget (evalOp env o)) := by
  cases ins with
  | call f to isPtr ctx retPtr args =>
    cases retPtr with
    | none => simp only [step, writeOps, handedOps, optTargets, flatMap_atarget, List.flatMap_nil]
    | some r =>
      simp only [step, writeOps, handedOps, optTargets, List.flatMap_cons,
        List.flatMap_nil, List.append_nil]
      rw [flatMap_atarget]
      rfl
  | callRt args => simp only [step, writeOps, handedOps, flatMap_atarget, List.flatMap_nil, List.nil_append]
  | drop v hasFn => cases hasFn <;> simp [step, writeOps, handedOps]
  | _ => simp [step, writeOps, handedOps, evalOp]

/-- and only the variable with the `defines` role changes -/
theorem regs_by_roles (env : Env) (nd : Val) (ins : Instr) (v : Var) (hv : defVar ins ≠ some v) :
    (step env nd ins).1 v = env v := by
  cases ins with
  | call f to isPtr ctx retPtr args =>
    cases to with
    | none => rfl
    | some w =>
      have : v ≠ w := fun e => hv (by simp [defVar, e])
      simp [step, setOpt, Env.set, this]
  | assign to val => have : v ≠ to := fun e => hv (by simp [defVar, e]); simp [step, Env.set, this]
  | constAddr to n => have : v ≠ to := fun e => hv (by simp [defVar, e]); simp [step, Env.set, this]
  | funcAddr to => have : v ≠ to := fun e => hv (by simp [defVar, e]); simp [step, Env.set, this]
  | arith to p => have : v ≠ to := fun e => hv (by simp [defVar, e]); simp [step, Env.set, this]
  | offset to s n => have : v ≠ to := fun e => hv (by simp [defVar, e]); simp [step, Env.set, this]
  | read to p s => have : v ≠ to := fun e => hv (by simp [defVar, e]); simp [step, Env.set, this]
  | eq to l r => have : v ≠ to := fun e => hv (by simp [defVar, e]); simp [step, Env.set, this]
  | _ => rfl

/-- non-vacuity of T6: the classification distinguishes the kinds (a store
kind, a pure kind, a glue kind), and a misclassification is caught — `Write`
checked as arithmetic would neither match its roles nor the generated codegen
operations -/
example :
    shapeOf .kWrite = .write ∧ shapeOf .kAdd = .arith ∧ shapeOf .kEq = .eq
    ∧ roleSummary (roles .kWrite) ≠ shapeSummary .arith
    ∧ (codegenOps .kWrite).filter isMemOp ≠ expectedMemOps .arith
    ∧ (codegenOps .kAdd).filter isMemOp = [] := by decide

example :
    (writeOps (.call 1 (some 3) false none (some 4) [.var 5]) = [.var 4])
    ∧ okInstr (fun v => if v = 4 then .loc else .sc) (.call 1 (some 3) false none (some 4) [.var 5]) = true
    ∧ okInstr (fun _ => .sc) (.call 1 (some 3) false none (some 4) [.var 5]) = false := by decide

end T6

/-! ## T7 — the memory of an activation is in its frame

`Exec.resolve` (T5) makes a stack slot named by call `i` memory of call `i`,
fresh per activation. Whether the MACHINE CODE does that is decided in
`src/codegen/mod.rs` (`ModuleBuilder::define_function`, `FuncGen::entry_block`),
not in the LIR. `Generated/C12Frame` regenerates those decisions: what storage
every class of LIR variable gets (per arm of the match over `lir::ValueOrSlot`,
guards included), how the slot addresses are materialised, and every data object
the code generator declares in the JIT module. -/

section T7
open Frame

/-- **T7 `frame_slots_private`.** If every slot variable lives in the frame of
its activation, then for ANY number of activations (calls on any threads,
recursive re-entries), ANY interleaving of their writes and reads of slot
variables and any initial memory, every activation reads exactly what it reads
when its own events run alone. -/
theorem frame_slots_private (st : Nat → Storage) (hst : ∀ v, st v = .frame)
    (a : Nat) (m : Mem) (tr : List Ev) :
    obs st a m tr = obs st a m (solo a tr) :=
  obs_frame_agree st hst a tr m m (fun _ _ => rfl)

/-- **refutation for module-level storage**: if a slot variable is backed by a
block that exists once per module (a data object, however it is initialised),
two activations interfere — activation 0 writes 1, activation 1 writes 2 into
"its" local, activation 0 reads 2; alone it reads 1. -/
theorem module_slot_interferes :
    let st : Nat → Storage := fun _ => .module
    let tr := [Ev.write 0 0 0 1, Ev.write 1 0 0 2, Ev.read 0 0 0]
    obs st 0 (fun _ => 0) tr = [(0, 0, 2)] ∧ obs st 0 (fun _ => 0) (solo 0 tr) = [(0, 0, 1)] := by
  decide

/-- what the decision over the generated facts buys -/
def FrameSound (f : Facts) : Prop :=
  (∀ (pick : Nat → SlotArm), (∀ v, pick v ∈ f.slotArms ∧ (pick v).cls = .stackSlot) →
    ∀ a m tr, obs (fun v => storageOfArm (pick v)) a m tr
      = obs (fun v => storageOfArm (pick v)) a m (solo a tr))
  ∧ (∀ d ∈ f.dataObjects, d.writable = some false ∧ d.tls = some false)
  ∧ (f.hostInvokes ≠ [] ∧ ∀ i ∈ f.hostInvokes, i.retIsLocal = true ∧ i.clean = true)

/-- **T7 `frame_sound`.** Under the decision, whichever arm of the code
generator's match a slot variable takes (whatever its layout, whichever guard
holds), its memory is private to the activation in every interleaving, the
JIT module holds no writable or thread-local data object at all, and the return
buffer the host hands to compiled code is a local of `RotoFunc::invoke`. -/
theorem frame_sound (f : Facts) (h : slotsInFrame f = true) : FrameSound f :=
  ⟨fun pick hp a m tr =>
    frame_slots_private _ (fun v => slotsInFrame_arms f h (pick v) (hp v).1 (hp v).2) a m tr,
   slotsInFrame_data f h, slotsInFrame_host f h⟩

/-- the generated obligation for the current tree -/
theorem slots_in_frame_on_tree : slotsInFrame Gen.C12Frame.facts = true := by decide

/-- the decision is not vacuous: it accepts the recorded facts of the tree and
rejects a code generator that backs slot variables above a size threshold with
a writable data object of the module; for those facts the guarded arm's storage
is `module`, the storage of `module_slot_interferes`. -/
example :
    slotsInFrame baseFacts = true ∧ slotsInFrame bigSlotsInDataFacts = false
    ∧ (bigSlotsInDataFacts.slotArms.map storageOfArm).contains .module = true := by decide

/-- **C12 on the current tree, frames included**: `c12_on_tree` with the trusted
"stack slots of a call are memory of that call" reduced to the generated
obligation `slots_in_frame_on_tree` plus Cranelift's meaning of an explicit
stack slot. -/
theorem frames_sound_on_tree : FrameSound Gen.C12Frame.facts :=
  frame_sound _ slots_in_frame_on_tree

end T7

namespace T5Example
open Lir Exec

/-- `main(n)`: reads a constant, calls `helper(c, n)` with its stack slot 10 as
return pointer, lets a runtime function append to that slot, copies two cells
to the host's return buffer. -/
def main : Item where
  slots := [10]
  ret := some 1
  ctx := some 0
  params := [(2, false)]
  instrs := [
    .constAddr 5 7,
    .read 6 false (.var 5),
    .call 1 none false none (some 10) [.var 6, .var 2],
    .callRt [.var 10, .var 6],
    .copy (.var 1) (.var 10) 2,
    .ret none]

/-- `helper(a, b)`: writes `a + b` through its return pointer -/
def helper : Item where
  slots := []
  ret := some 20
  ctx := none
  params := [(21, false), (22, false)]
  instrs := [.arith 23 false, .write (.var 20) (.var 23), .ret none]

def prog : List Item := [main, helper]

/-- `helper` with the constant's address as its place (the clone skipped): one
more item, not accepted -/
def badMain : Item := { main with instrs := [.constAddr 5 7, .write (.var 5) (.var 2), .ret none] }

def sem : Sem where
  alu := fun _ _ env =>
    match env 21, env 22 with
    | .scalar a, .scalar b => .scalar (a + b)
    | _, _ => .undef
  next := fun _ pc _ => pc + 1
  rt := fun _ _ handed ro _ =>
    match handed, ro with
    | .ptr r off :: x :: _, _ => { res := .undef, writes := [(r, off + 1, x)], delta := 1 }
    | _, _ => { res := .undef, writes := [], delta := 0 }

theorem sem_confined : RtConfined sem := by
  intro fn pc handed ro view w hw
  unfold sem at hw
  simp only at hw
  split at hw
  · simp only [List.mem_singleton] at hw
    subst hw
    simp [atarget]
  · cases hw

/-- two calls, `main(1)` and `main(2)`, the constant holds 5 -/
def m0 : Store Nat := fun a =>
  match a with
  | .priv i => .priv (initState prog 0 (fun _ => (i : Int) + 1))
  | .shared (.const 7) 0 => .val (.scalar 5)
  | _ => .val .undef

def sched : List Nat := [0, 1, 1, 0, 0, 0, 1, 0, 1, 1, 0, 1, 0, 0, 1, 1, 0, 1]

/-- non-vacuity of T5: a program with a call between items, a runtime call and
a copy to the return buffer is accepted; its hypotheses hold for a really
interleaved schedule; and the conclusion is the expected result for both calls
(6 = 5 + 1 and 7 = 5 + 2 in the return buffer, the constant appended by the
runtime function, one host value each, both finished, constant unchanged). -/
example :
    acceptProg prog = true ∧ RtConfined sem
    ∧ (∀ i, m0 (.priv i) = .priv (initState prog 0 (fun _ => (i : Int) + 1)))
    ∧ (let conc := run (schedOf (mstep prog sem) sched) m0
       cellVal (conc (.loc 0 .ret 0)) = .scalar 6 ∧ cellVal (conc (.loc 1 .ret 0)) = .scalar 7
       ∧ cellVal (conc (.loc 0 .ret 1)) = .scalar 5
       ∧ finished conc 0 = true ∧ finished conc 1 = true ∧ acctOf conc 0 = 1
       ∧ cellVal (conc (.shared (.const 7) 0)) = .scalar 5) := by
  refine ⟨by decide, sem_confined, fun _ => rfl, ?_⟩
  decide

/-- the checker is not vacuous on programs either: an item that writes through
a constant's address is rejected, a call site that passes a scalar to a
pointer-typed parameter is rejected, and the rejected item really has a run in
which call 0 changes what call 1 reads from the constant. -/
example :
    acceptProg [badMain] = false
    ∧ acceptProg [{ main with instrs := [.call 1 none false none none [.var 2]] },
                  { helper with params := [(21, true)] }] = false
    ∧ cellVal (run (schedOf (mstep [badMain] sem) [0, 0]) m0 (.shared (.const 7) 0)) = .scalar 1 := by
  refine ⟨by decide, by decide, by decide⟩

def exSite : Nat → Nat → RtSite := fun _ _ =>
  { auto := ⟨true, true⟩,
    bounds := (Gen.C12Bounds.facts.registerableFnImpls.headD []) ++ Gen.C12Bounds.facts.registerableFnSuper }

/-- non-vacuity of `rtConfined_of_sync` / `c12_on_tree`: the sites of the example
are closures admitted through the generated bound list of the first
`RegisterableFn` impl, `Send + Sync` as those bounds demand. -/
example : SitesAdmitted Gen.C12Bounds.facts exSite ∧ SyncConfines sem exSite :=
  ⟨fun _ _ => ⟨by simp only [exSite]; decide, by simp only [exSite]; decide⟩,
   fun fn pc _ => sem_confined fn pc⟩

end T5Example

/-! ## T8 — process-global tables under concurrent compilation and several runtimes

The property lets a host compile scripts and build runtimes on any number of
threads while others do the same, and says what a compilation gives is what it
gives single-threaded. The compiler's process-global tables (the identifier
interner, the `TypeId` registry) are get-or-insert tables behind a lock; T4 (d)
says every access holds the lock. That is not enough: a function that looks a
key up, RELEASES the lock, and inserts under a second acquisition loses updates
unless it looks the key up again; and an entry with a cell inside caches what the
first runtime wrote for every later one. Facts (target `c12globals`): for every
lock-shaped `static`, every function that touches it as a list of sections
(acquisition + table operations in source order), and the number of
interior-mutability fields inside the crate types the protected value mentions. -/

section T8
open Share Intern
variable {ι : Type} [DecidableEq ι]

/-- **T8 (a) — double-checked get-or-insert is the sequential table.** Any number
of threads, each interning the text `key t`, under EVERY schedule of their
sections, from any duplicate-free table: the table stays duplicate-free and only
grows at its end (indices handed out earlier stay valid), every finished
operation holds the index of its own text, and two finished operations hold the
same index iff they interned the same text (one identifier per name — what name
resolution compares). -/
theorem checked_get_or_insert_sequential (key : Nat → Nat) (tbl : List Nat) (h0 : tbl.Nodup)
    (sched : List Nat) :
    let s := Intern.run true key (Intern.init tbl) sched
    s.table.Nodup ∧ tbl <+: s.table
    ∧ (∀ t i, s.pc t = .done i → s.table[i]? = some (key t))
    ∧ (∀ t u i j, s.pc t = .done i → s.pc u = .done j → (key t = key u ↔ i = j)) := by
  have hg := run_good key sched _ (init_good key tbl h0)
  exact ⟨hg.1, run_prefix true key sched (Intern.init tbl), hg.2, fun t u i j ht hu => good_injective hg ht hu⟩

/-- **T8 (a), refutation for the unchecked upgrade.** Two threads intern the same
new text; both miss under the shared lock before either inserts: the text is in
the table twice and the two threads hold DIFFERENT identifiers for one name. -/
theorem unchecked_get_or_insert_duplicates :
    let s := Intern.run false (fun _ => 7) (Intern.init []) [0, 1, 0, 1]
    s.table = [7, 7] ∧ s.pc 0 = .done 0 ∧ s.pc 1 = .done 1 := by
  decide

/-- the same schedule under the double-checked form: one entry, one identifier -/
example :
    let s := Intern.run true (fun _ => 7) (Intern.init []) [0, 1, 0, 1]
    s.table = [7] ∧ s.pc 0 = .done 0 ∧ s.pc 1 = .done 0 := by
  decide

/-- **T8 (a), the checker the driver runs on the real interner.** `consistent`
decides "equal texts ↔ equal identifiers" on a list of observations; every list of
observations the double-checked machine can hand out — any threads, any schedule —
passes it; the unchecked witness does not. The harness feeds it what
`verif_hooks::c12::intern` returned to N threads interning the same fresh texts at
the same moment (`c12 intern …`). -/
theorem interner_observations_consistent (key : Nat → Nat) (tbl : List Nat) (h0 : tbl.Nodup)
    (sched ts : List Nat) :
    Intern.consistent (Intern.observations key (Intern.run true key (Intern.init tbl) sched) ts) = true :=
  good_consistent (run_good key sched _ (init_good key tbl h0)) ts

theorem interner_checker_sound (obs : List (Nat × Nat)) :
    Intern.consistent obs = true ↔ ∀ p ∈ obs, ∀ q ∈ obs, (p.1 = q.1 ↔ p.2 = q.2) :=
  consistent_iff obs

example :
    Intern.consistent (Intern.observations (fun _ => 7)
      (Intern.run false (fun _ => 7) (Intern.init []) [0, 1, 0, 1]) [0, 1]) = false
    ∧ Intern.observations (fun t => t % 2)
      (Intern.run true (fun t => t % 2) (Intern.init []) [0, 1, 2, 0, 1, 2]) [0, 1, 2] = [(0, 0), (1, 1), (0, 0)] := by
  decide

/-- both sections of a thread finish its operation, whatever ran in between -/
theorem get_or_insert_two_sections_finish (r : Bool) (key : Nat → Nat) (s : Intern.St) (t : Nat) :
    (s.pc t = .start → (Intern.step r key s t).pc t = .missed ∨ ∃ i, (Intern.step r key s t).pc t = .done i)
    ∧ (s.pc t = .missed → ∃ i, (Intern.step r key s t).pc t = .done i) :=
  step_progress r key s t

/-- **T8 (a), no operation is lost or stuck.** Under every schedule — checked or
not — a thread that got its two sections has finished with an identifier, and a
finished thread keeps it whatever the others do afterwards (so the conclusions
of `checked_get_or_insert_sequential` are about all threads of a compilation
that returned). -/
theorem get_or_insert_finishes (r : Bool) (key : Nat → Nat) (tbl : List Nat) (sched : List Nat) (t : Nat)
    (h : 2 ≤ sched.count t) : ∃ i, (Intern.run r key (Intern.init tbl) sched).pc t = .done i :=
  (run_finishes r key sched (Intern.init tbl) t).1 rfl h

/-- the semantic reading of the decision `globalsRecheck`: in every function
that touches a lock-shaped global, a section that inserts after an earlier
section of the same function looked a key up performs a lookup of its own
before its first insert -/
def UpgradesRechecked (f : GlobalFacts) : Prop :=
  ∀ s ∈ f.statics, ∀ fn ∈ s.fns, sectionsRecheck false fn.sections = true

theorem globals_recheck_sound (f : GlobalFacts) : globalsRecheck f = true ↔ UpgradesRechecked f := by
  unfold globalsRecheck UpgradesRechecked GlobalFn.rechecks
  simp only [List.all_eq_true]

/-- the decision agrees with the machine's `recheck` flag on the canonical
get-or-insert shape: lookup under one acquisition, then an exclusive section
whose operations are `ops` and that inserts -/
theorem recheck_shape (u w : GlobalUse) (ops : List TableOp) (hins : ops.contains .insert = true) :
    GlobalFn.rechecks { sections := [{ use := u, ops := [.lookup] }, { use := w, ops := ops }] }
      = lookupBeforeInsert ops := by
  have hm : TableOp.insert ∈ ops := by simpa using hins
  simp [GlobalFn.rechecks, sectionsRecheck, hm]

/-- **T8 (a) on the current tree**: no function of the crate inserts into a
process-global table on the strength of a lookup made under an earlier
acquisition (the registry's `store` does `entry(..).or_insert_with(..)` under one
`lock()`). A new `static` table, or a new accessor of an existing one, is a new
element of the generated list and has to pass. -/
theorem globals_upgrades_rechecked_on_tree : globalsRecheck Gen.C12Globals.facts = true := by decide

/-- a table behind an `RwLock` with one accessor of the given second section -/
def exInterner (ops : List TableOp) : GlobalFacts :=
  { threadLocals := 0,
    statics := [{ kind := .rwlock, isMut := false, uses := [.read, .write],
                  fns := [{ sections := [{ use := .read, ops := [.lookup] }, { use := .write, ops := ops }] }] }] }

/-- the decision is not vacuous: the interner of the unchecked form is refused,
the double-checked one and a single exclusive section pass -/
example :
    globalsRecheck (exInterner [.insert, .insert]) = false
    ∧ globalsRecheck (exInterner [.lookup, .insert, .insert]) = true
    ∧ globalsRecheck { threadLocals := 0, statics := [{ kind := .mutex, isMut := false, uses := [.lock], fns := [{ sections := [{ use := .lock, ops := [.lookup, .insert] }] }] }] } = true := by
  decide

/-- **T8 (a), atomicity of the inserting section (lock machine).** If every
section that inserts into a process-global table was acquired exclusively
(`globalsInsertExclusive`, decided on the generated sections), then in every
trace the lock admits — any number of threads, each running some section of some
accessor — a thread that accesses the table inside an inserting section is the
ONLY holder: the `missed` step of the machine above is one atomic step. -/
theorem global_insert_section_alone (f : GlobalFacts) (h : globalsInsertExclusive f = true)
    (s : StaticFact) (hs : s ∈ f.statics) (fn : GlobalFn) (hfn : fn ∈ s.fns)
    (sec : GlobalSection) (hsec : sec ∈ fn.sections) (hins : sec.ops.contains .insert = true)
    (use : ι → GlobalUse) (i : ι) (hi : use i = sec.use)
    (pre post : List (Ev ι)) (w : Bool) (Hf : List ι)
    (hrun : runLock s.kind.lockKind (fun j => ((use j).mode).getD .mutexLock) [] (pre ++ .acc i w :: post) = some Hf) :
    runLock s.kind.lockKind (fun j => ((use j).mode).getD .mutexLock) [] pre = some [i] := by
  unfold globalsInsertExclusive at h
  simp only [List.all_eq_true] at h
  have h1 := h s hs fn hfn sec hsec
  rw [hins] at h1
  simp only [Bool.not_true, Bool.false_or] at h1
  have hg : grantsExcl s.kind.lockKind (((use i).mode).getD .mutexLock) = true := by
    rw [hi]
    cases hm : sec.use.mode with
    | none => rw [hm] at h1; cases h1
    | some m => rw [hm] at h1; simpa using h1
  obtain ⟨H, hpre, hw, _⟩ := exclusive_writes s.kind.lockKind _ pre post (.acc i w) Hf hrun
  rw [hpre, hw i w rfl hg]

/-- on the current tree every inserting section holds the registry's `Mutex` -/
theorem globals_inserts_exclusive_on_tree : globalsInsertExclusive Gen.C12Globals.facts = true := by decide

example :
    globalsInsertExclusive (exInterner [.insert]) = true
    ∧ globalsInsertExclusive { threadLocals := 0, statics := [{ kind := .rwlock, isMut := false, uses := [.read], fns := [{ sections := [{ use := .read, ops := [.insert] }] }] }] } = false := by
  decide

/-- the generated facts do contain a get-or-insert function (so the obligation
on the tree is about something) -/
example : ∃ s ∈ Gen.C12Globals.facts.statics, ∃ fn ∈ s.fns, ∃ sec ∈ fn.sections,
    sec.ops.contains .insert = true ∧ lookupBeforeInsert sec.ops = true := by decide

/-- **T8 (b) — a per-runtime fact cached in a per-process entry is not isolated.**
Runtime 0 registers Rust type 5 as name 10, runtime 1 registers the same type as
name 11. Through the first-wins cache in the process-global entry runtime 1
resolves its signatures to runtime 0's name; through its own list of registered
types it resolves to its own. -/
theorem name_cache_leaks_between_runtimes :
    let evs := [Intern.RegEv.declare 0 5 10, .declare 1 5 11]
    resolveCached (cacheRun [] evs) 5 = some 10
    ∧ resolveOwn (ownTable (alone 1 evs)) 1 5 = some 11
    ∧ resolveOwn (ownTable evs) 1 5 = some 11 := by
  decide

/-- **T8 (b).** Resolution through the runtime's own list is what the runtime
gives alone in a fresh process — whatever other runtimes registered, in any order. -/
theorem own_resolution_isolated (rt ty : Nat) (evs : List Intern.RegEv) :
    resolveOwn (ownTable evs) rt ty = resolveOwn (ownTable (alone rt evs)) rt ty :=
  own_resolution_alone rt ty evs

/-- **T8 (b), by the generated name sources.** If every arm of
`rust_type_to_roto_type` that produces a name takes it from the runtime's own
list, then what a runtime resolves a Rust type to is what it resolves it to
ALONE in a fresh process, whatever other runtimes registered and in whatever order. -/
theorem names_per_runtime_isolated (l : List NameSource) (h : namesPerRuntime l = true)
    (rt ty : Nat) (evs : List Intern.RegEv) :
    ∀ src ∈ l, resolveBy src evs rt ty = resolveBy src (alone rt evs) rt ty := by
  intro src hsrc
  unfold namesPerRuntime at h
  simp only [Bool.and_eq_true, List.all_eq_true] at h
  have hne := h.1 src hsrc
  cases src with
  | ownList => exact own_resolution_alone rt ty evs
  | foreign => simp at hne
  | structural => rfl

/-- a `foreign` source is not isolated: the witness of `name_cache_leaks_between_runtimes` -/
theorem foreign_name_source_not_isolated :
    let evs := [Intern.RegEv.declare 0 5 10, .declare 1 5 11]
    resolveBy .foreign evs 1 5 = some 10 ∧ resolveBy .foreign (alone 1 evs) 1 5 = some 11 := by
  decide

/-- **T8 (b) on the current tree**: both arms of `rust_type_to_roto_type` that
name a registered type (`Leaf`, `Val`) ask `runtime.get_runtime_type`. -/
theorem names_resolved_per_runtime_on_tree : namesPerRuntime Gen.C12Globals.nameSources = true := by decide

example : namesPerRuntime [.ownList, .structural, .foreign] = false ∧ namesPerRuntime [.structural] = false := by decide

/-- **T8 (b) on the current tree**: the values behind the crate's process-global
locks contain no cell (nothing a registration or compilation could set in an
entry after it was inserted): what the registry hands out is a function of the
Rust type alone. -/
theorem globals_entries_frozen_on_tree : globalsEntriesFrozen Gen.C12Globals.facts = true := by decide

example :
    globalsEntriesFrozen { threadLocals := 0, statics := [{ kind := .mutex, isMut := false, uses := [.lock], entryCells := 1 }] } = false := by
  decide

end T8

/-! ## T9 — no thread-affine state behind the API (round 4)

Library items, runtimes, packages and function handles are `Send`: the thread that
uses one need not be the thread that created it. A table keyed by the RUNNING
THREAD (`thread_local!`) in front of a process-global table is harmless only as a
pure cache: a miss in the thread's table must fall through to the table every
thread shares. Translator target `c12globals` lists every `static` of every
`thread_local!` under src/ with the functions that name it. -/
section T9
open Share

/-- **T9, what the decision buys.** If a lookup function passes `TlFn.fallsThrough`
and every thread's table holds only copies of shared entries, the answer on EVERY
thread, whatever that thread resolved before, is the entry of the shared table —
the answer of a process with one thread and empty caches. -/
theorem pure_cache_thread_independent (fn : TlFn) (h : fn.fallsThrough = true)
    (shared : Nat → Option Nat) (cache : Nat → Nat → Option Nat) (hc : CacheCoherent shared cache) (t k : Nat) :
    tlGet fn shared cache t k = shared k := by
  unfold TlFn.fallsThrough at h
  unfold tlGet
  cases hl : fn.ops.contains .lookup with
  | false => simp
  | true =>
    have hs : fn.sharedAfterLookup = true := by
      cases hsa : fn.sharedAfterLookup with
      | true => rfl
      | false => rw [hl, hsa] at h; simp at h
    simp only [if_true]
    cases hck : cache t k with
    | none => simp [hs]
    | some v => simp [hc t k v hck]

/-- the answer does not depend on the thread (corollary, the form the property uses:
created on one thread, used on another = everything on one thread) -/
theorem pure_cache_same_on_all_threads (fn : TlFn) (h : fn.fallsThrough = true)
    (shared : Nat → Option Nat) (cache : Nat → Nat → Option Nat) (hc : CacheCoherent shared cache) (t t' k : Nat) :
    tlGet fn shared cache t k = tlGet fn shared cache t' k := by
  rw [pure_cache_thread_independent fn h shared cache hc t k, pure_cache_thread_independent fn h shared cache hc t' k]

/-- the witness state: the shared table has every key; thread 0 resolved it, thread 1 did not -/
def exShared : Nat → Option Nat := fun _ => some 1
def exCache : Nat → Nat → Option Nat := fun t _ => if t = 0 then some 1 else none

theorem exCache_coherent : CacheCoherent exShared exCache := by
  intro t k v hv
  unfold exCache at hv
  unfold exShared
  by_cases ht : t = 0
  · rw [if_pos ht] at hv; exact hv
  · rw [if_neg ht] at hv; cases hv

/-- **T9, the decision is exact** (for functions whose operations are all recognised):
a function that answers from the thread's table and does NOT fall through gives, in a
coherent state, different answers on two threads — the thread that resolved the key
and one that did not (refutation by witness). -/
theorem thread_affine_lookup_differs (fn : TlFn) (hl : fn.ops.contains .lookup = true) (hs : fn.sharedAfterLookup = false) :
    CacheCoherent exShared exCache ∧ tlGet fn exShared exCache 0 0 = some 1 ∧ tlGet fn exShared exCache 1 0 = none := by
  refine ⟨exCache_coherent, ?_, ?_⟩
  · unfold tlGet; rw [if_pos hl]; simp [exCache]
  · unfold tlGet; rw [if_pos hl]; simp [exCache, hs]

theorem thread_locals_sound (fn : TlFn) (hrec : fn.ops.contains .other = false) :
    fn.fallsThrough = true ↔
      ∀ (shared : Nat → Option Nat) (cache : Nat → Nat → Option Nat), CacheCoherent shared cache →
        ∀ t k, tlGet fn shared cache t k = shared k := by
  constructor
  · intro h shared cache hc t k
    exact pure_cache_thread_independent fn h shared cache hc t k
  · intro h
    unfold TlFn.fallsThrough
    rw [hrec]
    cases hl : fn.ops.contains .lookup with
    | false => simp
    | true =>
      cases hs : fn.sharedAfterLookup with
      | true => simp
      | false =>
        have h1 := (thread_affine_lookup_differs fn hl hs).2.2
        have h2 := h exShared exCache exCache_coherent 1 0
        rw [h1] at h2
        simp [exShared] at h2

/-- **T9 on the current tree**: every `thread_local!` static under src/ (outside the
hooks and tests) is a pure cache — no function answers from the running thread's
table alone. (The unchanged tree has none: the list is empty and the obligation is
that it stays so or that every new one falls through.) -/
theorem thread_locals_pure_caches_on_tree : threadLocalsPureCaches Gen.C12Globals.facts = true := by decide

/-- non-vacuity of the decision: a cache in front of a mutex-guarded table whose `get`
falls through passes; the same with a `get` that reads only the thread's table, or
with an unrecognised use, does not -/
example :
    threadLocalsPureCaches { threadLocals := 1, statics := [], threadLocalTables :=
      [{ fns := [{ ops := [.insert], sharedAfterLookup := false }, { ops := [.lookup], sharedAfterLookup := true }] }] } = true
    ∧ threadLocalsPureCaches { threadLocals := 1, statics := [], threadLocalTables :=
      [{ fns := [{ ops := [.insert], sharedAfterLookup := false }, { ops := [.lookup], sharedAfterLookup := false }] }] } = false
    ∧ threadLocalsPureCaches { threadLocals := 1, statics := [], threadLocalTables :=
      [{ fns := [{ ops := [.other], sharedAfterLookup := true }] }] } = false
    ∧ threadLocalsPureCaches { threadLocals := 0, statics := [], threadIdUses := 1 } = false := by
  decide

/-- non-vacuity of `pure_cache_thread_independent`: a coherent state with a warm and a cold thread -/
example : CacheCoherent exShared exCache ∧ tlGet { ops := [.lookup], sharedAfterLookup := true } exShared exCache 1 0 = some 1 :=
  ⟨exCache_coherent, by simp [tlGet, exCache, exShared]⟩

end T9

end RotoV.C12
