/-
  C04 — a retrieval does not change what the package's type variables mean.

  `Module::get_function` gives the checkers `&mut self.type_info`; what they do
  with it is `TypeInfo::resolve`, i.e. `UnionFind::find`, which rewrites the
  slots on the path it walked. The payloads of a filtermap's signature reach
  the gate as type variables, so this happens on every retrieval of a
  filtermap. The theorems are over `find` / `resolve` with the variable kinds
  the translator reads off `UnionFind::find`, `UnionFind::find_ref` and
  `TypeInfo::resolve` (`Gen.GateUF`, regenerated on every run; the rest of the
  three bodies — guard, recursive call, the one write, catch-all arm — is
  asserted statement by statement by the translator target `gateuf`).

  `none` (index out of bounds, or a cycle in the table: a panic / stack
  overflow of the real code, no answer) is outside the statements: they speak
  about every lookup that returns.
-/
import RotoV.Lemmas.GateUF
import RotoV.Generated.GateUF

namespace RotoV.C04UF
open RotoV.GateUF RotoV.Gate

/-- the kinds `UnionFind::find` follows, as generated -/
abbrev ff : VarKind → Bool := followsOf RotoV.Gen.GateUF.findFollows
/-- the kinds `UnionFind::find_ref` follows, as generated -/
abbrev fr : VarKind → Bool := followsOf RotoV.Gen.GateUF.findRefFollows
/-- the kinds `TypeInfo::resolve` looks up, as generated -/
abbrev rf : VarKind → Bool := followsOf RotoV.Gen.GateUF.resolveFollows

/-- **`find` answers with the end of the chain**, whatever it rewrites. -/
theorem find_answers_the_resolution {α : Type} (fuel : Nat) (inner inner' : List (Slot α)) (index : Nat) (t : Slot α)
    (h : find ff fuel inner index = some (t, inner')) : Resolves ff inner index t :=
  (find_spec fuel inner index t inner' h).1

/-- **Path compression keeps every resolution**: after `find`, every slot of
    the table resolves to exactly what it resolved to before (both directions:
    nothing is lost, nothing becomes resolvable that was not), and the table
    keeps its length. -/
theorem find_keeps_every_resolution {α : Type} (fuel : Nat) (inner inner' : List (Slot α)) (index : Nat) (t : Slot α)
    (h : find ff fuel inner index = some (t, inner')) :
    inner'.length = inner.length ∧ ∀ j u, Resolves ff inner j u ↔ Resolves ff inner' j u :=
  (find_spec fuel inner index t inner' h).2

/-- **The answer is fully resolved**: what `find` returns stands in some slot
    where it is not followed — a closed type, or a variable that points to
    itself (unset). Never a variable that is bound to something else, which the
    gate would mistake for an unresolved payload. -/
theorem find_answer_is_terminal {α : Type} (fuel : Nat) (inner inner' : List (Slot α)) (index : Nat) (t : Slot α)
    (h : find ff fuel inner index = some (t, inner')) : ∃ e, inner[e]? = some t ∧ t.next ff e = none :=
  (find_spec fuel inner index t inner' h).1.terminal

/-- the read-only lookup and the compressing lookup list the same kinds … -/
theorem find_ref_follows_what_find_follows : fr = ff := by
  funext k; cases k <;> decide

/-- … so **`find_ref` returns what `find` returns** (the type checker's
    `resolve_ref`, the printer and the gate see the same type). -/
theorem find_ref_agrees_with_find {α : Type} (fuel : Nat) (inner inner' : List (Slot α)) (index : Nat) (t : Slot α)
    (h : find ff fuel inner index = some (t, inner')) : findRef fr fuel inner index = some t := by
  rw [find_ref_follows_what_find_follows]
  exact findRef_of_find fuel inner index t inner' h

/-- `find_ref` is sound for the specification -/
theorem find_ref_answers_the_resolution {α : Type} (fuel : Nat) (inner : List (Slot α)) (index : Nat) (t : Slot α)
    (h : findRef fr fuel inner index = some t) : Resolves fr inner index t :=
  findRef_sound fuel inner index t h

/-- **Every kind of variable that can be bound is looked up**: `resolve` looks
    up exactly the kinds `find` follows, and these are all variable kinds except
    `ExplicitVar` (a type parameter, never bound). A `FloatVar` bound to `f32`
    that `resolve` handed back unresolved would be defaulted to `f64` by the gate. -/
theorem resolve_looks_up_every_bindable_kind :
    rf = ff ∧ ∀ k, ff k = true ↔ k ≠ .explicitVar := by
  constructor
  · funext k; cases k <;> decide
  · intro k; cases k <;> decide

/-- **Histories**: the answers `resolve` gives along any history of calls on
    one table are, call by call, the resolutions *in the table the history
    started from*, and the table it leaves resolves every slot as the first one
    did. (What `Model/Gate` abstracts to `TypeInfo.resolve = id` on resolved
    signatures and to a package threaded unchanged.) -/
theorem resolve_history_independent {α : Type} (fuel : Nat) (inner inner' : List (Slot α)) (qs as : List (Slot α))
    (h : resolveAll rf ff fuel inner qs = some (as, inner')) :
    Forall2 (ResolvesTy rf ff inner) qs as ∧ ∀ j u, Resolves ff inner j u ↔ Resolves ff inner' j u :=
  resolveAll_spec qs inner inner as inner' (fun _ _ => Iff.rfl) h

/-- the resolution of a slot is unique: two histories cannot disagree on it -/
theorem resolution_unique {α : Type} (inner : List (Slot α)) (i : Nat) (t u : Slot α)
    (h1 : Resolves ff inner i t) (h2 : Resolves ff inner i u) : t = u := h1.det h2

/-! ## Non-vacuity

  The table of `filtermap f(x: u32) { if x > 0 { accept x } else { reject 1 } }`-like
  shape: slot 0 = accept side → slot 2, slot 1 = reject side (`{integer}`, unset),
  slot 2 → slot 3, slot 3 = `u32` (payload `7`). -/

def exTable : List (Slot Nat) := [.var .var 2, .var .intVar 1, .var .var 3, .ty 7]

example : find ff 5 exTable 0 = some (.ty 7, [.ty 7, .var .intVar 1, .ty 7, .ty 7]) := by decide
example : find ff 5 exTable 1 = some (.var .intVar 1, exTable) := by decide
example : findRef fr 5 exTable 0 = some (.ty 7) := by decide
example : Resolves ff exTable 0 (.ty 7) :=
  find_answers_the_resolution 5 exTable [.ty 7, .var .intVar 1, .ty 7, .ty 7] 0 _ (by decide)
example : ∃ e, exTable[e]? = some (.ty 7) ∧ (Slot.ty 7 : Slot Nat).next ff e = none := ⟨3, by decide, by decide⟩
example : resolveAll rf ff 5 exTable [.var .var 0, .var .intVar 1, .var .var 0, .ty 9] =
    some ([.ty 7, .var .intVar 1, .ty 7, .ty 9], [.ty 7, .var .intVar 1, .ty 7, .ty 7]) := by decide
/-- a cycle or an index outside the table is a panic of the real code, not an answer -/
example : find ff 5 ([.var .var 1, .var .var 0] : List (Slot Nat)) 0 = none := by decide
example : find ff 5 exTable 9 = none := by decide
example : ff .floatVar = true ∧ ff .explicitVar = false := by decide

end RotoV.C04UF
