/-
  C17 — built-in methods follow their documented meaning on every argument.

  * `Model/Strings.lean` transcribes the byte / char / line views and
    `StringBuf` as written (iterator arithmetic, panics explicit) and states
    the documented meaning (`spec*`).  The theorems below relate the two for
    ALL strings and ALL indices.
  * `Generated/Bindings.lean` is regenerated from src/runtime/basic.rs,
    src/value/string.rs and src/value/string_buf.rs on every run;
    `bindings_identity` (kernel `decide`) says every registered closure is
    bound to the std / inetnum operation its documentation names, under the
    documented name, arity and types (`Model/BuiltinSpec.lean`).
  * Where the tree violates its documentation the REFUTATION is proved with a
    concrete witness (`lines_get_spec_refuted`, `lines_slice_spec_refuted_*`);
    the witnesses are replayed on the real code by the harness.
-/
import RotoV.Model.Strings
import RotoV.Model.BuiltinSpec
import RotoV.Lemmas.Strings
import RotoV.Lemmas.StringsGen

namespace RotoV.C17
open RotoV RotoV.Strings RotoV.BuiltinSpec

/- `usize` is 64 bits wide (the generated view definitions take `USz` arguments) -/
attribute [local instance] StringsGen.t64

/-! ## The generated binding table -/

/-- The six view built-ins whose closure in basic.rs AND body in string.rs are
covered end to end by theorems over generated DEFINITIONS (`view_builtins_spec`,
`lines_builtins_are_model` below): the text of their local conversions (`args`,
`pre`) and of their body (`std`) needs no textual tie — renaming a closure local
changes nothing; everything else about these rows (script type, name, kind,
parameter/return types, documentation sentence, called method) stays compared. -/
def provedEndToEnd : List (String × String) :=
  [("StringBytes", "get"), ("StringBytes", "slice"), ("StringChars", "get"), ("StringChars", "slice"),
   ("StringLines", "get"), ("StringLines", "slice")]

def blankProved (r : Row) : Row :=
  if provedEndToEnd.contains (r.script, r.name) then { r with args := [], pre := [], std := "" } else r

/-- Every built-in registered in basic.rs (95 on this tree) is bound, under its
documented script type, name, kind, parameter/return types and documentation
sentence, to the Rust std / inetnum operation that documentation names
(`floor ↦ f64::floor`, `pow ↦ powf`, `contains ↦ str.contains(needle)`,
`to_string ↦ ToString::to_string`, `max_addr ↦ Prefix::max_addr`, …), with the
documented argument order and `u64 → usize` conversions (for the six rows of
`provedEndToEnd` the conversions and the body are the generated definitions'). -/
theorem bindings_identity :
    (Gen.Bindings.table.map Row.ofBinding).map blankProved = documented.map blankProved := by
  decide +kernel

/-- the exemption touches exactly the six rows, all of which are registered -/
example : (documented.filter fun r => blankProved r != r).map (fun r => (r.script, r.name)) = provedEndToEnd := by
  decide +kernel

/-- non-vacuity: the table is not empty and really contains, e.g., `f64.ceil ↦ f64::ceil`. -/
example : (lookup "f64" "ceil").map (·.std) = some "f64::ceil" ∧ documented.length = 95 := by
  decide +kernel

/-- every (script type, name) pair is registered once -/
theorem bindings_unique : (Gen.Bindings.table.map fun b => (b.script, b.name)).Nodup := by
  decide +kernel

example : ("String", "contains") ∈ Gen.Bindings.table.map fun b => (b.script, b.name) := by
  decide +kernel

/-- The algorithmic view bodies whose documented meaning is proved over the
definition the translator GENERATES from string.rs (`Generated/C17Views.lean`,
theorems `gen_chars_slice_spec`, `gen_lines_slice_is_model` below): they need
no textual tie, and a behaviour-preserving rewrite of them inside the
translator's subset changes nothing here. -/
def provedOverGenerated : List String := ["StringChars::slice", "StringLines::slice"]

/-- The bodies of the REMAINING view methods that are algorithms
(`StringChars::list`, `RotoString::from_chars`: a loop pushing every item) are,
statement for statement, the ones `Model/Strings.lean` transcribes. -/
theorem view_algorithms_as_transcribed :
    Gen.Bindings.algorithms.filter (fun a => !provedOverGenerated.contains a.1) =
      transcribed.filter (fun a => !provedOverGenerated.contains a.1) := by
  decide +kernel

example : ((transcribed.filter fun a => !provedOverGenerated.contains a.1).map (·.1)) =
    ["RotoString::from_chars", "StringChars::list"] := by decide +kernel

/-- every body that is exempt from the textual tie is an algorithm the binding table knows -/
theorem provedOverGenerated_are_algorithms :
    provedOverGenerated.all (fun n => (Gen.Bindings.algorithms.map (·.1)).contains n) = true := by
  decide +kernel

/-! ## The view bodies GENERATED from string.rs (`Generated/C17Views.lean`) -/

/-- `StringChars::get` as generated from string.rs is the n-th character. -/
theorem gen_chars_get_spec (dbg : Bool) (s : Str) (idx : USz) :
    Gen.C17Views.StringChars_get dbg s idx = .ok (specCharsGet s.chars idx.toNat) :=
  StringsGen.gen_chars_get dbg s idx

example : Gen.C17Views.StringChars_get false ⟨['h', 'é', 'l']⟩ ⟨BitVec.ofNat 64 1⟩ = .ok (some 'é') := by
  decide

/-- `StringChars::slice` AS GENERATED from string.rs (the `checked_sub`s, the
char-boundary iterator advanced with `nth`, `&s[byte_i..byte_j]` with its panic
explicit): never panics and is `take (j - i) (drop i s)` on characters when
`i ≤ j ≤ len`, `None` otherwise — for every string and all 64-bit `i`, `j`. -/
theorem gen_chars_slice_spec (dbg : Bool) (s : Str) (i j : USz) :
    Gen.C17Views.StringChars_slice dbg s i j =
      .ok ((specCharsSlice s.chars i.toNat j.toNat).map Str.mk) :=
  StringsGen.gen_chars_slice dbg s i j

example :
    Gen.C17Views.StringChars_slice false ⟨['h', 'é', 'l']⟩ ⟨BitVec.ofNat 64 1⟩ ⟨BitVec.ofNat 64 3⟩
      = .ok (some ⟨['é', 'l']⟩) ∧
    Gen.C17Views.StringChars_slice false ⟨['h', 'é', 'l']⟩ ⟨BitVec.ofNat 64 2⟩ ⟨BitVec.ofNat 64 4⟩
      = .ok none ∧
    Gen.C17Views.StringChars_slice false ⟨['h', 'é', 'l']⟩ ⟨BitVec.ofNat 64 3⟩ ⟨BitVec.ofNat 64 3⟩
      = .ok (some ⟨[]⟩) := by decide

/-- … hence the generated definition and the hand model the Lean driver runs agree everywhere. -/
theorem gen_chars_slice_is_model (dbg : Bool) (s : Str) (i j : USz) :
    Gen.C17Views.StringChars_slice dbg s i j =
      (charsSlice s.chars i.toNat j.toNat).map' (Option.map Str.mk) := by
  rw [gen_chars_slice_spec, Strings.charsSlice_eq_spec]; rfl

example : (charsSlice ['h', 'é', 'l'] 1 3).map' (Option.map Str.mk) = .ok (some ⟨['é', 'l']⟩) := by decide

/-- `StringBytes::get` AS GENERATED from string.rs (`get(idx..)` then the first
character): the character that starts at byte offset `idx`; `None` inside a
code point, at the end, out of range — for every string and 64-bit offset. -/
theorem gen_bytes_get_spec (dbg : Bool) (s : Str) (idx : USz) :
    Gen.C17Views.StringBytes_get dbg s idx = .ok (specBytesGet s.chars idx.toNat) :=
  StringsGen.gen_bytes_get dbg s idx

example :
    Gen.C17Views.StringBytes_get false ⟨['h', 'é', 'l']⟩ ⟨BitVec.ofNat 64 1⟩ = .ok (some 'é') ∧
    Gen.C17Views.StringBytes_get false ⟨['h', 'é', 'l']⟩ ⟨BitVec.ofNat 64 2⟩ = .ok none ∧
    specBytesGet ['h', 'é', 'l'] 2 = none := by decide

/-- `StringBytes::slice` AS GENERATED from string.rs (`get(i..j)`): the characters
between two code-point boundaries `i ≤ j`; `None` off a boundary, out of range
or for `i > j`; never panics — for every string and all 64-bit offsets. -/
theorem gen_bytes_slice_spec (dbg : Bool) (s : Str) (i j : USz) :
    Gen.C17Views.StringBytes_slice dbg s i j =
      .ok ((specBytesSlice s.chars i.toNat j.toNat).map Str.mk) :=
  StringsGen.gen_bytes_slice dbg s i j

example :
    Gen.C17Views.StringBytes_slice false ⟨['h', 'é', 'l']⟩ ⟨BitVec.ofNat 64 1⟩ ⟨BitVec.ofNat 64 3⟩
      = .ok (some ⟨['é']⟩) ∧
    Gen.C17Views.StringBytes_slice false ⟨['h', 'é', 'l']⟩ ⟨BitVec.ofNat 64 1⟩ ⟨BitVec.ofNat 64 2⟩
      = .ok none := by decide

/-- `StringLines::get` AS GENERATED from string.rs is the model `linesGet` — the
body of `StringBytes::get` — so `lines_get_spec_refuted` is about the real body:
the generated definition returns `'b'` for line 1 of `"ab\ncd\n"`. -/
theorem gen_lines_get_is_model (dbg : Bool) (s : Str) (idx : USz) :
    Gen.C17Views.StringLines_get dbg s idx = .ok (linesGet s.chars idx.toNat) ∧
    Gen.C17Views.StringLines_get dbg s idx = Gen.C17Views.StringBytes_get dbg s idx :=
  ⟨StringsGen.gen_lines_get dbg s idx, rfl⟩

example : Gen.C17Views.StringLines_get false ⟨['a', 'b', '\n', 'c', 'd', '\n']⟩ ⟨BitVec.ofNat 64 1⟩
    = .ok (some 'b') := by decide

/-- `StringLines::slice` AS GENERATED from string.rs (statement by statement: the
`checked_sub`, the optional end offset, the two skip/take loops, the `num == 0`
early return, `chain`, `&s[start_idx..end_idx]` with its panic explicit) equals
the model `linesSlice` for every string and all 64-bit `i`, `j`. -/
theorem gen_lines_slice_is_model (dbg : Bool) (s : Str) (i j : USz) :
    Gen.C17Views.StringLines_slice dbg s i j =
      (linesSlice s.chars i.toNat j.toNat).map' (Option.map Str.mk) :=
  StringsGen.gen_lines_slice_is_model dbg s i j

example :
    Gen.C17Views.StringLines_slice false ⟨['a', '\n', 'b', '\n']⟩ ⟨BitVec.ofNat 64 1⟩ ⟨BitVec.ofNat 64 2⟩
      = .ok (some ⟨['b', '\n']⟩) ∧
    (linesSlice ['a', '\n', 'b', '\n'] 1 2).map' (Option.map Str.mk) = .ok (some ⟨['b', '\n']⟩) := by
  decide

/-! ## The script-visible view built-ins, end to end

`bind_*` are GENERATED from the closures basic.rs registers (`idx.try_into().ok()?`
on the `u64` arguments, then the string.rs method); composed with the generated
string.rs bodies they are the whole Rust side of `s.chars().slice(i, j)` etc. -/

/-- `String.chars().get/slice`, `String.bytes().get/slice` as registered: for every
string and ALL `u64` arguments the generated closure ∘ body returns the documented
value (characters counted for `chars`, byte offsets with `None` off a code-point
boundary for `bytes`, `None` out of range / reversed), and never panics. -/
theorem view_builtins_spec (dbg : Bool) (s : Str) (i j : U64) :
    Gen.C17Views.bind_StringChars_get dbg s i = .ok (specCharsGet s.chars i.toNat) ∧
    Gen.C17Views.bind_StringChars_slice dbg s i j =
      .ok ((specCharsSlice s.chars i.toNat j.toNat).map Str.mk) ∧
    Gen.C17Views.bind_StringBytes_get dbg s i = .ok (specBytesGet s.chars i.toNat) ∧
    Gen.C17Views.bind_StringBytes_slice dbg s i j =
      .ok ((specBytesSlice s.chars i.toNat j.toNat).map Str.mk) :=
  ⟨StringsGen.gen_builtin_chars_get dbg s i, StringsGen.gen_builtin_chars_slice dbg s i j,
   StringsGen.gen_builtin_bytes_get dbg s i, StringsGen.gen_builtin_bytes_slice dbg s i j⟩

example :
    Gen.C17Views.bind_StringChars_slice false ⟨['h', 'é', 'l']⟩ ⟨BitVec.ofNat 64 1⟩ ⟨BitVec.ofNat 64 3⟩
      = .ok (some ⟨['é', 'l']⟩) ∧
    Gen.C17Views.bind_StringBytes_get false ⟨['h', 'é', 'l']⟩ ⟨BitVec.ofNat 64 (2 ^ 64 - 1)⟩ = .ok none := by
  decide

/-- `String.lines().get/slice` as registered equal the models the line theorems
(and the refutations: open findings) are stated over, for ALL `u64` arguments. -/
theorem lines_builtins_are_model (dbg : Bool) (s : Str) (i j : U64) :
    Gen.C17Views.bind_StringLines_get dbg s i = .ok (linesGet s.chars i.toNat) ∧
    Gen.C17Views.bind_StringLines_slice dbg s i j =
      (linesSlice s.chars i.toNat j.toNat).map' (Option.map Str.mk) :=
  ⟨StringsGen.gen_builtin_lines_get dbg s i, StringsGen.gen_builtin_lines_slice dbg s i j⟩

example : Gen.C17Views.bind_StringLines_slice false ⟨['a', '\n', 'b', '\n']⟩ ⟨BitVec.ofNat 64 1⟩ ⟨BitVec.ofNat 64 2⟩
    = .ok (some ⟨['b', '\n']⟩) := by decide

/-! ## `StringChars` -/

/-- `chars().get(n)` is the n-th character, `none` iff `n ≥ len`. -/
theorem chars_get_spec (s : List Char) (n : Nat) :
    charsGet s n = specCharsGet s n ∧ (charsGet s n = none ↔ charsLen s ≤ n) := by
  simp [charsGet, specCharsGet, charsLen]

example : charsGet ['h', 'é', 'l'] 1 = some 'é' ∧ charsGet ['h', 'é', 'l'] 3 = none := by decide

/-- `chars().slice(i, j)` never panics and is `take (j - i) (drop i s)` on
characters when `i ≤ j ≤ len`, `none` otherwise. -/
theorem chars_slice_spec (s : List Char) (i j : Nat) :
    charsSlice s i j = .ok (specCharsSlice s i j) :=
  Strings.charsSlice_eq_spec s i j

example : charsSlice ['h', 'é', 'l'] 1 3 = .ok (some ['é', 'l']) ∧
    charsSlice ['h', 'é', 'l'] 2 4 = .ok none := by decide

/-! ## `StringBytes` -/

/-- `boundaryIdx` is the documented notion "byte offset `i` is where character
number `k` starts (or the end of the string for `k = len`)". -/
theorem boundaryIdx_spec (s : List Char) (i k : Nat) :
    boundaryIdx s i = some k ↔ k ≤ s.length ∧ byteLen (s.take k) = i :=
  Strings.boundaryIdx_iff s i k

/-- `bytes().get(i)`: the character starting at byte offset `i`; `none` when
`i` is inside a code point, at the end, or out of range. -/
theorem bytes_get_spec (s : List Char) (i : Nat) :
    bytesGet s i = specBytesGet s i :=
  Strings.bytesGet_eq_spec s i

example : bytesGet ['h', 'é', 'l'] 1 = some 'é' ∧ bytesGet ['h', 'é', 'l'] 2 = none ∧
    bytesGet ['h', 'é', 'l'] 4 = none := by decide

/-- `bytes().slice(i, j)`: never panics; the characters between two code-point
boundaries `i ≤ j`, `none` off a boundary, out of range or for `i > j`. -/
theorem bytes_slice_spec (s : List Char) (i j : Nat) :
    bytesSlice s i j = .ok (specBytesSlice s i j) :=
  Strings.bytesSlice_eq_spec s i j

example : bytesSlice ['h', 'é', 'l'] 1 3 = .ok (some ['é']) ∧
    bytesSlice ['h', 'é', 'l'] 1 2 = .ok none := by decide

/-- `bytes().len()` is the sum of the encoded sizes, each 1–4. -/
theorem bytes_len_spec (s : List Char) :
    bytesLen s = (s.map utf8Size).sum ∧ ∀ c ∈ s, 1 ≤ utf8Size c ∧ utf8Size c ≤ 4 :=
  ⟨Strings.byteLen_eq_sum s, fun c _ => Strings.utf8Size_range c⟩

example : bytesLen ['h', 'é', '日', '😀'] = 10 := by decide

/-! ## `StringLines` -/

/-- `lines().len()`: the number of `\n`-terminated segments plus one for a
non-empty unterminated tail, i.e. the number of `\n` plus 1 unless the string
is empty or ends with `\n`. -/
theorem lines_len_spec (s : List Char) :
    linesLen s = specLinesLen s ∧
    specLinesLen s = s.count '\n' + (if s = [] ∨ endsWithNl s then 0 else 1) :=
  ⟨by simp [linesLen, strLines, specLinesLen], Strings.rawLines_length s⟩

example : linesLen ['a', '\n', 'b'] = 2 ∧ linesLen ['a', '\n'] = 1 ∧ linesLen [] = 0 := by decide

/-- `lines().list()` is `str::lines`: the raw segments re-assemble the string,
each listed line is its segment with the terminator stripped (`stripEol`), and
`len` counts exactly the listed lines, none of which contains a `\n`. -/
theorem lines_list_spec (s : List Char) :
    linesList s = specLinesList s ∧ (rawLines s).flatten = s ∧
    (linesList s).length = linesLen s ∧ ∀ l ∈ linesList s, '\n' ∉ l :=
  ⟨rfl, Strings.rawLines_flatten s, rfl, Strings.strLines_no_nl s⟩

example : linesList ['a', 'b', '\r', '\n', 'c', '\n', '\n', 'x', '\r'] =
    [['a', 'b'], ['c'], [], ['x', '\r']] := by decide

/-- The two end-of-string corner cases in which `StringLines::slice` deviates. -/
def LinesSliceEdge (s : List Char) (i j : Nat) : Prop :=
  (s = [] ∧ i = 0 ∧ j = 1) ∨
  (s ≠ [] ∧ endsWithNl s = false ∧ i = j ∧ i = specLinesLen s)

instance (s : List Char) (i j : Nat) : Decidable (LinesSliceEdge s i j) := by
  unfold LinesSliceEdge; infer_instance

/-- `lines().slice(i, j)` never panics and, off the two corner cases, is the
concatenation of the raw lines `i..j` (terminators kept) when
`i ≤ j ≤ len`, `none` otherwise.

FULL statement (false on this tree, refuted below):
  `∀ s i j, linesSlice s i j = .ok (specLinesSlice s i j)`. -/
theorem lines_slice_spec_off_edge (s : List Char) (i j : Nat) (h : ¬ LinesSliceEdge s i j) :
    linesSlice s i j = .ok (specLinesSlice s i j) :=
  Strings.linesSlice_eq_spec s i j (by simpa [LinesSliceEdge] using h)

example : ¬ LinesSliceEdge ['a', '\n', 'b'] 0 2 ∧
    linesSlice ['a', '\n', 'b'] 0 2 = .ok (some ['a', '\n', 'b']) := by decide

/-- The same over the definition GENERATED from string.rs: off the two corner
cases the real `StringLines::slice` body never panics and returns the
concatenation of the raw lines `i..j`.

FULL statement (false on this tree, refuted by `gen_lines_slice_refuted`):
  `∀ s i j, StringLines_slice dbg s i j = .ok ((specLinesSlice s.chars i.toNat j.toNat).map Str.mk)`. -/
theorem gen_lines_slice_spec_off_edge (dbg : Bool) (s : Str) (i j : USz)
    (h : ¬ LinesSliceEdge s.chars i.toNat j.toNat) :
    Gen.C17Views.StringLines_slice dbg s i j =
      .ok ((specLinesSlice s.chars i.toNat j.toNat).map Str.mk) := by
  rw [gen_lines_slice_is_model, lines_slice_spec_off_edge _ _ _ h]; rfl

example : ¬ LinesSliceEdge ['a', '\n', 'b'] 0 2 ∧
    Gen.C17Views.StringLines_slice false ⟨['a', '\n', 'b']⟩ ⟨BitVec.ofNat 64 0⟩ ⟨BitVec.ofNat 64 2⟩
      = .ok (some ⟨['a', '\n', 'b']⟩) := by decide

/-- the refutations hold for the generated body itself: `"".lines().slice(0, 1)`
is `Some("")` although the empty string has no line, and
`"a\nb".lines().slice(2, 2)` is `None`. -/
theorem gen_lines_slice_refuted :
    ¬ (∀ (s : Str) (i j : USz), Gen.C17Views.StringLines_slice false s i j =
        .ok ((specLinesSlice s.chars i.toNat j.toNat).map Str.mk)) ∧
    Gen.C17Views.StringLines_slice false ⟨['a', '\n', 'b']⟩ ⟨BitVec.ofNat 64 2⟩ ⟨BitVec.ofNat 64 2⟩
      = .ok none := by
  refine ⟨fun h => absurd (h ⟨[]⟩ ⟨BitVec.ofNat 64 0⟩ ⟨BitVec.ofNat 64 1⟩) (by decide), by decide⟩

/-- Refutation 1 of the full `lines_slice_spec`: the empty string has 0 lines,
yet `"".lines().slice(0, 1)` is `Some("")` (string.rs's own unit test pins this). -/
theorem lines_slice_spec_refuted_empty :
    ¬ (∀ s i j, linesSlice s i j = .ok (specLinesSlice s i j)) := by
  intro h; exact absurd (h [] 0 1) (by decide)

/-- Refutation 2: a string without trailing newline, `start = end = len`:
`"a\nb".lines().slice(2, 2)` is `None` although `"a\nb\n".lines().slice(2, 2)`
is `Some("")` and `bytes()/chars().slice(len, len)` are `Some("")`. -/
theorem lines_slice_spec_refuted_last :
    ¬ (∀ s i j, ¬ (s = [] ∧ i = 0 ∧ j = 1) → linesSlice s i j = .ok (specLinesSlice s i j)) := by
  intro h; exact absurd (h ['a', '\n', 'b'] 2 2 (by decide)) (by decide)

/-- The documented meaning of `lines().get(n)`: "Get the nth line in this
string." — the returned value, read as text, is the n-th line of `str::lines`. -/
def LinesGetSpec : Prop :=
  ∀ (s : List Char) (n : Nat), (linesGet s n).map (fun c => [c]) = specLinesGet s n

/-- `lines_get_spec` is FALSE on this tree: `StringLines::get` has the body of
`StringBytes::get` (and is typed `Option<char>`): `"ab\ncd\n".lines().get(1)`
is `Some('b')`, not the line `"cd"`. -/
theorem lines_get_spec_refuted : ¬ LinesGetSpec := by
  intro h; exact absurd (h ['a', 'b', '\n', 'c', 'd', '\n'] 1) (by decide)

/-- what it computes instead, for every string and index -/
theorem lines_get_is_bytes_get (s : List Char) (n : Nat) : linesGet s n = bytesGet s n := rfl

example : linesGet ['a', 'b', '\n', 'c', 'd', '\n'] 1 = some 'b' ∧
    specLinesGet ['a', 'b', '\n', 'c', 'd', '\n'] 1 = some ['c', 'd'] := by decide

/-! ## `StringBuf` -/

/-- A `StringBuf` accumulates exactly what was pushed, in order, after its
initial contents. -/
theorem stringbuf_accumulates (init : List Char) (log : List BufOp) :
    bufRun init log = init ++ (log.map BufOp.text).flatten := by
  unfold bufRun bufAsString
  induction log generalizing init with
  | nil => simp
  | cons op log ih =>
    simp only [List.foldl_cons, List.map_cons, List.flatten_cons]
    rw [ih]
    cases op <;> simp [bufStep, BufOp.text]

example : bufRun ['x'] [.pushChar 'é', .pushString ['y', 'z']] = ['x', 'é', 'y', 'z'] := by decide

/-- Histories with reads interleaved (handles are aliases of one buffer):
there are exactly as many results as `as_string` calls, and the `as_string`
that follows ANY prefix `pre` of a history returns the initial contents
followed by everything `pre` pushed — whatever reads happened before it, and
whichever kind of push came last (no read is stale, no read disturbs the
buffer). -/
theorem stringbuf_every_read_accumulates (init : List Char) (pre post : List BufEv) :
    (bufTrace init (pre ++ .read :: post)).length = countReads pre + 1 + countReads post ∧
    (bufTrace init (pre ++ .read :: post))[countReads pre]? = some (init ++ pushedText pre) := by
  refine ⟨?_, Strings.bufTrace_read init pre post⟩
  rw [Strings.bufTrace_length]
  induction pre with
  | nil => simp [countReads]; omega
  | cons e pre ih => cases e <;> simp [countReads, ih] <;> omega

/-- non-vacuity, on the history shape read · push_char · read · push_string · read -/
example : bufTrace ['x'] [.read, .op (.pushChar ','), .read, .op (.pushString ['y']), .read] =
    [['x'], ['x', ','], ['x', ',', 'y']] := by decide

/-- a read changes nothing: dropping all earlier reads from a history leaves a later read's value -/
theorem stringbuf_read_is_pure (init : List Char) (pre post : List BufEv) :
    (bufTrace init (pre ++ .read :: post))[countReads pre]? =
      some (bufRun init (pre.filterMap fun | .op o => some o | .read => none)) := by
  rw [Strings.bufTrace_read, stringbuf_accumulates]
  congr 2
  induction pre with
  | nil => rfl
  | cons e pre ih => cases e <;> simp [pushedText, ih]

example : (bufTrace [] [.op (.pushChar 'a'), .read, .read])[1]? = some ['a'] := by decide

/-- the single-read runs of `stringbuf_accumulates` are the histories with one final read -/
theorem stringbuf_trace_final (init : List Char) (log : List BufOp) :
    bufTrace init (log.map .op ++ [.read]) = [bufRun init log] :=
  Strings.bufTrace_ops_read init log

example : bufTrace ['x'] ([BufOp.pushChar 'y'].map .op ++ [.read]) = [['x', 'y']] := by decide

end RotoV.C17
