/-
  C01 — the LIR layer: the LIR lowering of MIR control flow preserves execution
  (scalar fragment).

  Full statement (`lir_lower_preserves`): for every MIR program the compiler
  produces (aggregates in stack slots, references, drops / clones / eq functions
  generated on the side, runtime calls with vtables, strings, …) the LIR that
  `lir::lower` makes of it computes the same results on the machine model of the
  code generator.

  Proved here (`lir_lower_preserves_partial`): for every MIR program of the
  *scalar* vocabulary on which the model `Model/C01Lir.lowerProg` of
  src/lir/lower.rs is defined — label CFGs of blocks of `Assign` (constants,
  `Clone` / `Move` of variables, `BinOp`, `Not`, `Negate`, calls of script
  functions), `Jump`, `Switch` (with or without default), `Return`, `Drop`, over
  variables that have the `IrType` `I32` / `Bool` or are zero-sized — for every
  function, all arguments and every fuel: if the MIR function returns `v`, the LIR
  function the model makes of it, called with the arguments whose parameter is
  not zero-sized, returns `v` with the same fuel (`()` for a zero-sized return
  type).  Variables keep their names, `BinOp` becomes the instruction the
  GENERATED `lower_binop` selects at the operand type (into a fresh temporary,
  then `Assign`), zero-sized assignments and arguments disappear, a `Switch`
  without default makes its last branch the default.  The operators of both
  semantics are the generated codegen arms on CLIF semantics (`runI`).

  Tie: on every run the model is executed in the driver (`c01 lir`) on the REAL
  MIR of every function of the class representatives and of the generated
  programs of the fragment (hook `verif_hooks::c01::stage_pairs`) and its output
  is compared with the REAL LIR instruction by instruction, the temporaries it
  allocates with the real variable table.

  What keeps the `_partial`: only the scalar vocabulary (everything else is
  `none`); the MIR CFG this theorem starts from is the compiler's, whereas T5
  (`Props/C01Lower`) ends at *structured* MIR — the layout of structured MIR as a
  label CFG (and `drop`s) lies between the two and is only compared with the real
  MIR dump, not proved; T4 (`dce_preserves`, for any CFG semantics) sits at that
  same place.  The LIR semantics is this project's reading of the LIR (its
  evaluator is C20's subject); Cranelift below it is not modelled.
-/
import RotoV.Lemmas.C01LirSim
import RotoV.Model.NativeFloat

namespace RotoV.C01LirProps
open RotoV RotoV.C01Lir RotoV.C01LirSim
open RotoV.TraceSpec (Val)

section
variable [FloatOps]

/-- **`lir_lower_preserves_partial`.**  For every scalar MIR program `P` on which the model of
    `lir::lower` is defined, every function `f` (parameter mask `mask`, `rv`: returns a value),
    all arguments and every fuel `n`: if the MIR function returns `v`, the lowered LIR function
    called with the non-zero-sized arguments returns `v` (or `()`), with the same fuel. -/
theorem lir_lower_preserves_partial (P : List MFn) (L : List LFn) (h : lowerProg P = some L)
    (n : Nat) (f : String) (mask : List Bool) (rv : Bool) (args : List Val) (v : Val)
    (hf : retInfoOf P f = some (mask, rv)) (hlen : args.length = mask.length)
    (hm : mRun P n f args = some v) :
    lRun L n f (filterMask mask args) = some (fixVal rv v) :=
  lir_sim P L h n f mask rv args v hf hlen hm

end

/-- non-vacuity: `fn main(x: i32, u: ()) -> i32 { let y = x * 2 - f(x); if y < 10 { y } else { -y } }`
    with `fn f(x: i32) -> i32 { x + 1 }`, as MIR control-flow graphs. -/
def demoF : MFn :=
  { name := "f", params := [.e "x" 1], tmpIdx := 3, types := [(.e "x" 1, .i32), (.t 0, .i32), (.t 1, .i32), (.t 2, .i32)],
    retVal := true,
    blocks := [(0, [.assign (.t 0) (.clone (.e "x" 1)), .assign (.t 1) (.constInt 1),
                    .assign (.t 2) (.binop (.t 0) .Add .i32 (.t 1)), .drop (.t 1), .ret (.t 2)])] }

def demoMain : MFn :=
  { name := "main", params := [.e "x" 2, .e "u" 2], tmpIdx := 9,
    types := [(.e "x" 2, .i32), (.e "y" 2, .i32), (.t 0, .i32), (.t 1, .i32), (.t 2, .i32), (.t 3, .i32), (.t 4, .i32),
              (.t 5, .i32), (.t 6, .bool), (.t 7, .i32)],
    retVal := true,
    blocks := [
      (0, [.assign (.t 0) (.clone (.e "x" 2)), .assign (.t 1) (.constInt 2), .assign (.t 2) (.binop (.t 0) .Mul .i32 (.t 1)),
           .assign (.t 3) (.clone (.e "x" 2)), .assign (.t 4) (.call "f" [.t 3]),
           .assign (.e "y" 2) (.binop (.t 2) .Sub .i32 (.t 4)), .assign (.t 8) .constUnit,
           .assign (.t 5) (.constInt 10), .assign (.t 6) (.binop (.e "y" 2) .Lt .i32 (.t 5)),
           .switch (.t 6) [(1, 1), (0, 2)] none]),
      (1, [.assign (.t 7) (.move (.e "y" 2)), .jump 3]),
      (2, [.assign (.t 7) (.neg (.e "y" 2)), .jump 3]),
      (3, [.drop (.t 6), .ret (.t 7)])] }

def demoProg : List MFn := [demoF, demoMain]

example : (lowerProg demoProg).isSome = true := by decide
example : retInfoOf demoProg "main" = some ([true, false], true) := by decide
example : (letI : FloatOps := nativeFloatOps; mRun demoProg 20 "main" [.int 30, .unit]) = some (.int (-29)) := by
  decide +kernel
example : (letI : FloatOps := nativeFloatOps
    (lowerProg demoProg).bind fun L => lRun L 20 "main" (filterMask [true, false] [.int 30, .unit])) = some (.int (-29)) := by
  decide +kernel

end RotoV.C01LirProps
