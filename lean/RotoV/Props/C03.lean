/-
  C03 — every host value a script owns is released exactly once on every path.

  `checker_sound`: if the certificate checker `ownCheck` accepts a MIR item,
  then every execution of the item under the token-level ownership semantics
  of `RotoV.Model.Mir` — any switch outcomes, any number of loop iterations,
  any variants of the values that come from outside (all resolved by an
  arbitrary oracle `ω`) — raises none of the errors (`doubleDrop`,
  `dropUninit`, `useAfterDrop`, `useUninit`, `leak`, `malformed`) and, when it
  returns, owns nothing but the returned value.

  The program quantifier is sampled: `./check C03` runs `ownCheck` on the MIR
  the real compiler emits (hook `verif_hooks::c03`) for generated programs
  and for the repository's own scripts.
-/
import RotoV.Lemmas.Mir
import RotoV.Model.MirFrozen
import RotoV.Generated.C03Dumps

namespace RotoV.C03
open RotoV.Mir

/-- T1. Soundness of the verified checker, for every execution. -/
theorem checker_sound (it : Item) (cert : Cert) (h : ownCheck it cert = true)
    (ω : Oracle) (c0 : CState) (h0 : R it (initA it) c0.vs) (n : Nat) :
    match runN it ω n (entryLabel it) c0 with
    | .fail _ => False
    | .done c v => Balanced c v
    | .running _ _ => True := by
  have hentry : Inv it cert (entryLabel it) c0 := by
    have h' := h
    simp only [ownCheck, Bool.and_eq_true] at h'
    exact edge_sim h'.1.2 h0
  suffices H : ∀ n l c, Inv it cert l c →
      match runN it ω n l c with
      | .fail _ => False
      | .done c v => Balanced c v
      | .running _ _ => True from H n _ _ hentry
  intro n
  induction n with
  | zero => intro l c _; simp [runN]
  | succ n ih =>
    intro l c hinv
    have hs := step_sound (ω := ω) h hinv
    simp only [runN]
    cases hst : stepBlock it ω l c with
    | running l' c' => simp only [hst] at hs ⊢; exact ih l' c' hs
    | done c' v => simp only [hst] at hs ⊢; exact hs
    | fail e => simp only [hst] at hs

/-- the initial concrete state built from any parameter variants satisfies the
    hypothesis of `checker_sound` -/
theorem init_related (it : Item) (ks : Nat → Nat) : R it (initA it) (initC it ks).vs := by
  refine ⟨by simp [initA, initC], fun v => ?_⟩
  simp only [aget, initA, initC, List.getD_eq_getElem?_getD, List.getElem?_map]
  by_cases hv : v < it.vars.length
  · simp only [List.getElem?_range hv, Option.map_some, Option.getD_some]
    by_cases hp : it.isOwnedParam v = true
    · simp only [hp, if_true]
      refine .whole _ _ ?_
      intro ty hty hk
      simp [hty, hk]
    · simp only [hp]; exact .un_un
  · have : (List.range it.vars.length)[v]? = none := by simp [Nat.le_of_not_lt hv]
    simp only [this, Option.map_none, Option.getD_none]
    exact .un_un

/-- T1 from the canonical initial state. -/
theorem checker_sound_init (it : Item) (cert : Cert) (h : ownCheck it cert = true)
    (ω : Oracle) (ks : Nat → Nat) (n : Nat) :
    match runN it ω n (entryLabel it) (initC it ks) with
    | .fail _ => False
    | .done c v => Balanced c v
    | .running _ _ => True :=
  checker_sound it cert h ω _ (init_related it ks) n

/-! ## The current tree (dumps regenerated on every run into `Generated/C03Dumps.lean`) -/

/-- After the fix (own frame for the `while` condition) the compiler's MIR of the
    witness is accepted; with `checker_sound` this covers every iteration count. -/
theorem while_witness_accepted_on_current_tree :
    ownCheck Now.wWhile Now.wWhileCert = true := by decide +kernel

/-- After the fix (own frame for a match guard) the MIR of the guard witness is accepted:
    on the `None` path nothing of the guard is released any more. -/
theorem match_guard_witness_accepted_on_current_tree :
    ownCheck Now.wMatchGuard Now.wMatchGuardCert = true := by decide +kernel

/-- After the same fix the temporaries of the unreachable copy of a guard (behind an unguarded
    arm of its chain) are released inside that dead block, which is eliminated with them. -/
theorem dead_guard_witness_accepted_on_current_tree :
    ownCheck Now.wDeadGuard Now.wDeadGuardCert = true := by decide +kernel

/-- After the fix (bindings stay on the stack while the guard is lowered) a `return` inside a
    guard releases the arm's bindings. -/
theorem guard_return_witness_accepted_on_current_tree :
    ownCheck Now.wGuardReturn Now.wGuardReturnCert = true := by decide +kernel

/-- After the fix (a record literal is put together from its evaluated fields) an early exit in
    a later field releases the earlier fields and no half-built record. -/
theorem aggregate_witness_accepted_on_current_tree :
    ownCheck Now.wAggregate Now.wAggregateCert = true := by decide +kernel

/-- After the fix (arguments are live until the call is built) an early exit in a later
    argument releases the earlier ones. -/
theorem call_arg_witness_accepted_on_current_tree :
    ownCheck Now.wCallArg Now.wCallArgCert = true := by decide +kernel

/-- The same for the list handle a list literal passes to `push`. -/
theorem list_literal_witness_accepted_on_current_tree :
    ownCheck Now.wListLiteral Now.wListLiteralCert = true := by decide +kernel

/-- non-vacuity of `checker_sound`: its hypothesis holds on real compiler output,
    and the conclusion then speaks about a run of 40 blocks -/
example : match runN Now.wWhile (fun i => i % 2) 40 (entryLabel Now.wWhile)
    (initC Now.wWhile (fun _ => 0)) with
    | .fail _ => False | .done c v => Balanced c v | .running _ _ => True :=
  checker_sound_init Now.wWhile Now.wWhileCert while_witness_accepted_on_current_tree
    (fun i => i % 2) (fun _ => 0) 40

/-! ## Refutations on the pinned tree's real MIR (frozen in `Model/MirFrozen.lean`)

Each witness is the dump of `main` of the script quoted in `MirFrozen.lean`; the
oracle is constant, `initC` gives every parameter variant 0. -/

/-- a concrete failing execution refutes every certificate -/
theorem rejected_of_failing_run (it : Item) (ω : Oracle) (ks : Nat → Nat) (n : Nat) (e : Err)
    (hf : (runN it ω n (entryLabel it) (initC it ks)).failsWith e = true) :
    ∀ cert, ownCheck it cert = false := by
  intro cert
  cases hc : ownCheck it cert with
  | false => rfl
  | true =>
    have := checker_sound_init it cert hc ω ks n
    cases hr : runN it ω n (entryLabel it) (initC it ks) with
    | fail e' => simp [hr] at this
    | done c v => simp [hr, Outcome.failsWith] at hf
    | running l c => simp [hr, Outcome.failsWith] at hf

/-- `while mk(i) != mk(n) {…}`: the second evaluation of the condition
    overwrites a temporary that still owns a value -/
theorem while_cond_leaks_on_pinned_tree :
    (runN Frozen.wWhile (fun _ => 0) 8 (entryLabel Frozen.wWhile)
      (initC Frozen.wWhile (fun _ => 0))).failsWith .leak = true := by decide +kernel

theorem while_cond_rejected_on_pinned_tree : ∀ cert, ownCheck Frozen.wWhile cert = false :=
  rejected_of_failing_run _ _ _ _ _ while_cond_leaks_on_pinned_tree

/-- match guard temporaries: on the `None` path the enclosing block drops
    temporaries that were never written -/
theorem match_guard_drops_uninit_on_pinned_tree :
    (runN Frozen.wMatchGuard (fun _ => 1) 12 (entryLabel Frozen.wMatchGuard)
      (initC Frozen.wMatchGuard (fun _ => 0))).failsWith .dropUninit = true := by decide +kernel

theorem match_guard_rejected_on_pinned_tree : ∀ cert, ownCheck Frozen.wMatchGuard cert = false :=
  rejected_of_failing_run _ _ _ _ _ match_guard_drops_uninit_on_pinned_tree

/-- record literal whose later field diverges: the half-built record is dropped -/
theorem aggregate_drops_partial_on_pinned_tree :
    (runN Frozen.wAggregate (fun _ => 0) 8 (entryLabel Frozen.wAggregate)
      (initC Frozen.wAggregate (fun _ => 0))).failsWith .dropUninit = true := by decide +kernel

theorem aggregate_rejected_on_pinned_tree : ∀ cert, ownCheck Frozen.wAggregate cert = false :=
  rejected_of_failing_run _ _ _ _ _ aggregate_drops_partial_on_pinned_tree

/-- a later call argument diverges: the earlier argument temporary is leaked -/
theorem call_arg_leaks_on_pinned_tree :
    (runN Frozen.wCallArg (fun _ => 0) 8 (entryLabel Frozen.wCallArg)
      (initC Frozen.wCallArg (fun _ => 0))).failsWith .leak = true := by decide +kernel

theorem call_arg_rejected_on_pinned_tree : ∀ cert, ownCheck Frozen.wCallArg cert = false :=
  rejected_of_failing_run _ _ _ _ _ call_arg_leaks_on_pinned_tree

/-- a later list element diverges: the list handle passed to `push` is leaked -/
theorem list_literal_leaks_on_pinned_tree :
    (runN Frozen.wListLiteral (fun _ => 0) 8 (entryLabel Frozen.wListLiteral)
      (initC Frozen.wListLiteral (fun _ => 0))).failsWith .leak = true := by decide +kernel

theorem list_literal_rejected_on_pinned_tree : ∀ cert, ownCheck Frozen.wListLiteral cert = false :=
  rejected_of_failing_run _ _ _ _ _ list_literal_leaks_on_pinned_tree

/-- a `return` inside a match guard: the arm's binding, popped from the frame before the guard
    was lowered, is still owned at the exit -/
theorem guard_return_leaks_on_pinned_tree :
    (runN Frozen.wGuardReturn (fun _ => 0) 14 (entryLabel Frozen.wGuardReturn)
      (initC Frozen.wGuardReturn (fun _ => 0))).failsWith .leak = true := by decide +kernel

theorem guard_return_rejected_on_pinned_tree : ∀ cert, ownCheck Frozen.wGuardReturn cert = false :=
  rejected_of_failing_run _ _ _ _ _ guard_return_leaks_on_pinned_tree

/-- `match x { None => 1, _ if s == "lit1" => 2, _ => 3 }`: the chain of `None` lowers the guard
    a second time behind the unguarded arm; dead-code elimination removes that block, but its two
    String temporaries stay registered in the frame enclosing the match, which releases them on
    every path although nothing ever writes them (both outcomes of the discriminant switch) -/
theorem dead_guard_drops_uninit_on_pinned_tree :
    (runN Frozen.wDeadGuard (fun _ => 0) 14 (entryLabel Frozen.wDeadGuard)
      (initC Frozen.wDeadGuard (fun _ => 0))).failsWith .dropUninit = true
    ∧ (runN Frozen.wDeadGuard (fun _ => 1) 14 (entryLabel Frozen.wDeadGuard)
      (initC Frozen.wDeadGuard (fun _ => 0))).failsWith .dropUninit = true := by decide +kernel

theorem dead_guard_rejected_on_pinned_tree : ∀ cert, ownCheck Frozen.wDeadGuard cert = false :=
  rejected_of_failing_run _ _ _ _ _ dead_guard_drops_uninit_on_pinned_tree.1

end RotoV.C03
