/-
  C18, part 4 — HISTORIES of adds on one runtime, rejected adds included.

  `Runtime::add` returns a `Result`: a host handles the error and goes on with
  the same runtime.  The property quantifies over *sequences of add calls*, so
  it speaks about what comes after a rejected add as well: the next library must
  fail exactly for the four listed defects *with respect to the libraries that
  were accepted*, and scripts must see exactly those.

  Model: `Model/RegistrationSession.lean` — `step` / `session` (all or nothing:
  the passes run on a copy, as `Rt::add` does now) and `stepIP` / `sessionIP`
  (the passes run in place on `&mut self`, as on the pinned tree).  Which one the
  source is, the translator reads from `Rt::add` (`Src.Facts.addAtomic`); the
  theorems that mention that fact are in `Props/C18Passes.lean`.  Tie: the
  correspondence run (`harness/src/bin/c18.rs`) registers histories with
  rejected adds of every kind on one real runtime and compares every outcome,
  every later outcome and every script-level resolution with `session`.
-/
import RotoV.Props.C18
import RotoV.Lemmas.RegistrationSession

namespace RotoV.C18
open RotoV.Reg

/-! ## a rejected add leaves the runtime as it was -/

/-- **`failed_add_is_noop`.** For every library, lexer verdict and runtime: an
    add that does not succeed leaves the runtime exactly as it was — declarations,
    imports, registered types. -/
theorem failed_add_is_noop (lex : Name → Lex) (st : St) (items : Items)
    (h : (step Cfg.fixed lex st items).2 ≠ .ok) : (step Cfg.fixed lex st items).1 = st :=
  step_rejected_noop Cfg.fixed lex st items h

/-- an accepted add is `register` (so T1–T4 speak about every step of a history) -/
theorem accepted_add_is_register (lex : Name → Lex) (st st' : St) (items : Items) :
    step Cfg.fixed lex st items = (st', .ok) ↔ register Cfg.fixed lex st items = .ok st' :=
  step_ok_iff Cfg.fixed lex st items st'

/-! ## T1 and T2 over histories -/

/-- what the property says about a history: every library is accepted iff it has
    none of the listed defects *in the runtime made of the libraries accepted so
    far* (`Accepts`, the clauses of T2), an accepted library extends that runtime
    by exactly what it declares (`S5`, the closed form of T2/T3), a rejected one
    changes nothing — and no add panics. -/
inductive Decided (lex : Name → Lex) : St → List Items → List Outcome → St → Prop
  | nil (st : St) : Decided lex st [] [] st
  | accept {st st' : St} {l : Items} {ls : List Items} {os : List Outcome} :
      Accepts lex st l → Decided lex (S5 lex st l) ls os st' → Decided lex st (l :: ls) (.ok :: os) st'
  | reject {st st' : St} {l : Items} {ls : List Items} {os : List Outcome} (e : Err) :
      ¬ Accepts lex st l → Decided lex st ls os st' → Decided lex st (l :: ls) (.err e :: os) st'

/-- **T1 + T2 over histories (`history_decided`).** For every sequence of
    libraries added to one well-formed runtime — with rejected adds anywhere in
    it — no add panics, and add number k is accepted **iff** its library has
    none of the listed defects with respect to the libraries accepted before it;
    the runtime afterwards is the closed-form table of the accepted libraries. -/
theorem history_decided (lex : Name → Lex) :
    ∀ (libs : List Items) (st : St), WF st →
      Decided lex st libs (session Cfg.fixed lex st libs).2 (session Cfg.fixed lex st libs).1 ∧
      WF (session Cfg.fixed lex st libs).1
  | [], st, hw => ⟨.nil st, hw⟩
  | l :: ls, st, hw => by
    have g := add_no_panic lex st hw l
    simp only [session, step]
    cases hr : register Cfg.fixed lex st l with
    | ok st1 =>
      rw [hr] at g
      obtain ⟨ha, hs⟩ := (add_succeeds_iff lex st hw l st1).mp hr
      subst hs
      obtain ⟨ih, iw⟩ := history_decided lex ls _ g.2
      exact ⟨.accept ha ih, iw⟩
    | err e =>
      have hna : ¬ Accepts lex st l := (add_fails_iff lex st hw l).mp ⟨e, hr⟩
      obtain ⟨ih, iw⟩ := history_decided lex ls st hw
      exact ⟨.reject e hna ih, iw⟩
    | panic s => rw [hr] at g; exact g.elim

theorem Decided.no_panic {lex : Name → Lex} {st st' : St} {libs : List Items} {os : List Outcome}
    (h : Decided lex st libs os st') (s : Site) : Outcome.panic s ∉ os := by
  induction h with
  | nil => simp
  | accept _ _ ih => simp [ih]
  | reject _ _ _ ih => simp [ih]

/-- T1 over histories, on its own: no add of a history panics -/
theorem history_no_panic (lex : Name → Lex) (libs : List Items) (st : St) (hw : WF st) (s : Site) :
    Outcome.panic s ∉ (session Cfg.fixed lex st libs).2 :=
  (history_decided lex libs st hw).1.no_panic s

/-- **`history_as_if_never_offered`.** The runtime after a history is the
    runtime after adding its accepted libraries alone (each of which is accepted
    again): whatever is registered after a rejected add, retried under a repaired
    name, or resolved from a script, behaves as if the rejected libraries had
    never been offered. -/
theorem history_as_if_never_offered (lex : Name → Lex) (libs : List Items) (st : St) :
    session Cfg.fixed lex st (accepted Cfg.fixed lex st libs) =
      ((session Cfg.fixed lex st libs).1, (accepted Cfg.fixed lex st libs).map (fun _ => Outcome.ok)) :=
  session_accepted_only Cfg.fixed lex libs st

/-- a script after a history: every path resolves as after the accepted libraries alone -/
theorem history_resolves_as_accepted (lex : Name → Lex) (libs : List Items) (st : St) (p : List Name) :
    resolvePath (session Cfg.fixed lex st libs).1 p =
      resolvePath (session Cfg.fixed lex st (accepted Cfg.fixed lex st libs)).1 p := by
  rw [history_as_if_never_offered]

/-- T4 over histories: reordering the items of every library (each at any
    level) changes neither any outcome class nor the runtime. -/
theorem history_order_indep (lex : Name → Lex) :
    ∀ (libs libs' : List Items) (st : St), WF st → ShuffleAll libs libs' →
      (session Cfg.fixed lex st libs).1 = (session Cfg.fixed lex st libs').1 ∧
      (session Cfg.fixed lex st libs).2.map (fun o => decide (o = .ok)) =
        (session Cfg.fixed lex st libs').2.map (fun o => decide (o = .ok))
  | [], _, st, _, h => by cases h; exact ⟨rfl, rfl⟩
  | l :: ls, _, st, hw, h => by
    cases h with
    | cons h1 hs =>
      rename_i l' ls'
      have o := order_indep lex st hw l l' h1
      have g := add_no_panic lex st hw l
      simp only [session, step]
      cases hr : register Cfg.fixed lex st l with
      | ok a =>
        rw [hr] at o g
        cases hr' : register Cfg.fixed lex st l' with
        | ok b =>
          rw [hr'] at o
          subst o
          obtain ⟨i1, i2⟩ := history_order_indep lex ls ls' a g.2 hs
          exact ⟨i1, by simp [i2]⟩
        | err e => rw [hr'] at o; exact o.elim
        | panic s => rw [hr'] at o; exact o.elim
      | err e =>
        rw [hr] at o
        cases hr' : register Cfg.fixed lex st l' with
        | ok b => rw [hr'] at o; exact o.elim
        | err e' =>
          obtain ⟨i1, i2⟩ := history_order_indep lex ls ls' st hw hs
          exact ⟨i1, by simp [i2]⟩
        | panic s => rw [hr'] at o; exact o.elim
      | panic s => rw [hr] at g; exact g.elim

/-! ## in place or on a copy: the same verdicts, the same runtime after success -/

/-- The passes run in place (`stepIP`, the pinned `Rt::add`) tell the host the
    same as the passes run on a copy, and an accepted library leaves the same
    runtime: the two differ *only* in what a rejected add leaves behind. -/
theorem in_place_differs_only_after_rejection (lex : Name → Lex) (st : St) (items : Items) :
    (stepIP Cfg.fixed lex st items).2 = (step Cfg.fixed lex st items).2 ∧
    ((step Cfg.fixed lex st items).2 = .ok →
      (stepIP Cfg.fixed lex st items).1 = (step Cfg.fixed lex st items).1) :=
  ⟨stepIP_outcome Cfg.fixed lex st items, stepIP_ok_state Cfg.fixed lex st items⟩

/-! ## witnesses -/

/-- non-vacuity of `failed_add_is_noop` / `history_decided`: a history with a
    rejected add in the middle (a function over an unregistered type next to a
    valid function), the same function names again, and a library that mentions
    the rejected library's type -/
def histLibs : List Items :=
  [il [.type 1 7], il [fn0 2 5, .type 3 8, .function 4 [.reg 9] .unit 6], il [fn0 2 5],
   il [.function 4 [.reg 8] .unit 6]]

example : (session Cfg.fixed lexV st0 histLibs).2 = [.ok, .err .unregistered, .ok, .err .unregistered] := by
  decide

example : (step Cfg.fixed lexV st0 (il [fn0 2 5, .function 4 [.reg 9] .unit 6])).2 ≠ .ok := by decide

/-- non-vacuity of `history_as_if_never_offered`: the accepted libraries of `histLibs` -/
example : (accepted Cfg.fixed lexV st0 histLibs).length = 2 := by decide

/-- non-vacuity of `history_order_indep` -/
example : ShuffleAll [il [fn0 2 5, .function 4 [.reg 9] .unit 6], il [fn0 2 5, fn0 3 6]]
    [il [.function 4 [.reg 9] .unit 6, fn0 2 5], il [fn0 3 6, fn0 2 5]] :=
  .cons (.swap _ _ _) (.cons (.swap _ _ _) .nil)

/-! ## the pinned tree: the passes ran in place (refuted on the in-place model) -/

/-- (f) **A rejected add left its earlier items behind.**  On the pinned tree
    `Rt::add` ran its five passes on `&mut self`: `rt.add([fn f, fn g(Val<X>)])`
    with `X` unregistered returned an error and left `f` declared —
    (1) a script could call `f`, an item of a library that was *rejected*;
    (2) adding `f` again (the library with the defect repaired) failed with
        "declared twice" although no accepted library declares `f`;
    (3) a type item of a rejected library stayed registered: a later function
        over it was accepted although no accepted library registers the type.
    All three are as the property demands once the passes run on a copy. -/
theorem pinned_in_place_rejected_add_leaves_items :
    -- (1)
    ((stepIP Cfg.fixed lexV st0 (il [fn0 2 5, .function 4 [.reg 9] .unit 6])).2 = .err .unregistered ∧
     resolvePath (stepIP Cfg.fixed lexV st0 (il [fn0 2 5, .function 4 [.reg 9] .unit 6])).1 [2]
       = some ⟨.function [] .unit 5, none⟩) ∧
    -- (2)
    (sessionIP Cfg.fixed lexV st0 [il [fn0 2 5, .function 4 [.reg 9] .unit 6], il [fn0 2 5]]).2
      = [.err .unregistered, .err .nameTaken] ∧
    -- (3)
    (sessionIP Cfg.fixed lexV st0 [il [.type 3 8, .function 4 [.reg 9] .unit 6], il [.function 4 [.reg 8] .unit 6]]).2
      = [.err .unregistered, .ok] := by
  decide

theorem fixed_rejected_add_leaves_nothing :
    resolvePath (step Cfg.fixed lexV st0 (il [fn0 2 5, .function 4 [.reg 9] .unit 6])).1 [2] = none ∧
    (session Cfg.fixed lexV st0 [il [fn0 2 5, .function 4 [.reg 9] .unit 6], il [fn0 2 5]]).2
      = [.err .unregistered, .ok] ∧
    (session Cfg.fixed lexV st0 [il [.type 3 8, .function 4 [.reg 9] .unit 6], il [.function 4 [.reg 8] .unit 6]]).2
      = [.err .unregistered, .err .unregistered] := by
  decide

end RotoV.C18
