/-
  C18, part 5 — `library!` registers every item under the name that was written.

  `Generated/MacroNames.lean` is regenerated from `macros/src/lib.rs` on every
  run (translator target `itemnames`): for every named item kind of `library!`
  the expression that becomes the item's registered name, over the vocabulary
  of `Model/RegistrationMacroNames.lean`.  Tie of the rest (that the string is
  what the constructor registers, and that scripts and `use` paths reach the
  item under it): the `library!`-built name fixtures of the correspondence run
  (identifiers with trailing / leading / double underscores, digits, non-ASCII
  letters, Rust keywords written raw; `step` next to `step_`).
-/
import RotoV.Model.RegistrationMacroNames
import RotoV.Generated.MacroNames

namespace RotoV.C18
open RotoV.Reg.MacroNames

theorem isIdentity_sound (e : NameExpr) (h : e.isIdentity = true) (i : Ident) :
    e.eval i = i.chars ∨ (i.raw = true ∧ e.eval i = i.written) := by
  cases e <;> simp [NameExpr.isIdentity] at h
  · by_cases hr : i.raw = true
    · exact Or.inr ⟨hr, rfl⟩
    · left; simp [NameExpr.eval, Ident.written, hr]
  · exact Or.inl rfl

/-- every named item kind of `library!` computes a name (none is missing, none twice) -/
theorem item_names_cover_every_kind :
    RotoV.Gen.MacroNames.facts.names.map (·.1) = [.type, .letFn, .fn, .module, .const] := by decide

/-- **`item_names_as_written`.** For every named item kind of `library!` and
    every identifier: the name the item is registered under is the identifier
    itself, character for character — `step_` is `step_`, `_x` is `_x`, `a__b`
    is `a__b` — the only latitude being the `r#` of a raw identifier (kept, as
    now, or dropped). -/
theorem item_names_as_written :
    ∀ p ∈ RotoV.Gen.MacroNames.facts.names, ∀ i : Ident,
      p.2.eval i = i.chars ∨ (i.raw = true ∧ p.2.eval i = i.written) := by
  intro p hp i
  have h : ∀ q ∈ RotoV.Gen.MacroNames.facts.names, q.2.isIdentity = true := by decide
  exact isIdentity_sound p.2 (h p hp) i

/-- **Different identifiers, different items** (`item_names_injective`): two
    items of one kind whose (non-raw) identifiers differ are registered under
    different names — `step` and `step_` never collide. -/
theorem item_names_injective :
    ∀ p ∈ RotoV.Gen.MacroNames.facts.names, ∀ i j : Ident, i.raw = false → j.raw = false →
      p.2.eval i = p.2.eval j → i = j := by
  intro p hp i j hi hj h
  rcases item_names_as_written p hp i with a | ⟨a, _⟩
  · rcases item_names_as_written p hp j with b | ⟨b, _⟩
    · rw [a, b] at h
      cases i; cases j; simp_all
    · rw [hj] at b; cases b
  · rw [hi] at a; cases a

/-- as the source stands, the name is exactly what `Ident::to_string()` gives -/
theorem item_names_verbatim :
    ∀ p ∈ RotoV.Gen.MacroNames.facts.names, p.2 = .written := by decide

/-! ## witnesses -/

/-- non-vacuity: the facts list five arms; `step_` evaluates to `step_` -/
example : RotoV.Gen.MacroNames.facts.names.length = 5 := by decide
example : NameExpr.written.eval ⟨false, [115, 116, 101, 112, 95]⟩ = [115, 116, 101, 112, 95] := by decide

/-- What seeded change C18-7 does (`roto_name`: `unraw`, then one trailing
    underscore stripped — the translator reads it as `.stripSuffix 95 .unraw`):
    `step_` is registered as `step`, so it is not reachable where it was
    declared, and it collides with an item called `step`. -/
theorem strip_trailing_underscore_renames_and_collides :
    (NameExpr.stripSuffix 95 .unraw).eval ⟨false, [115, 116, 101, 112, 95]⟩ = [115, 116, 101, 112] ∧
    (NameExpr.stripSuffix 95 .unraw).eval ⟨false, [115, 116, 101, 112, 95]⟩ =
      (NameExpr.stripSuffix 95 .unraw).eval ⟨false, [115, 116, 101, 112]⟩ ∧
    (NameExpr.stripSuffix 95 .unraw).isIdentity = false := by decide

end RotoV.C18
