/-
  ListCap: `compute_capacity` (generated) in closed form, `next_power_of_two`
  facts, and what `RawList::reserve` guarantees (C15, T2).
-/
import RotoV.Model.ListM
namespace RotoV.ListM
open RotoV

/-- the size-class minimum of `compute_capacity` (as documented in std's `Vec`) -/
def minCap (sz : Nat) : Nat := if sz = 1 then 8 else if sz ≤ 1024 then 4 else 1

set_option linter.unusedSimpArgs false in
/-- The generated `compute_capacity` in closed form. The proof splits on the
    three size classes and on `required = 0` and lets `simp` evaluate the
    generated conditionals, so it does not depend on how the source spells or
    orders its comparisons (`size > 1024` first, `1 == size`, …) — only on what
    they compute. -/
theorem compute_capacity_eq (sz req : Nat) :
    Gen.Capacity.compute_capacity true sz req =
      if req = 0 then .ok 0
      else match checkedNextPow2 req with
        | none => .panic
        | some p => .ok (ordMax p (minCap sz)) := by
  unfold Gen.Capacity.compute_capacity minCap
  simp only [REq.eq, ROrd.le, ROrd.lt, ROrd.gt, ROrd.ge]
  by_cases h0 : req = 0
  · simp [h0]
  · rcases (by omega : sz = 1 ∨ (sz ≠ 1 ∧ sz ≤ 1024) ∨ 1024 < sz) with h | ⟨h1, h2⟩ | h
    · subst h
      cases checkedNextPow2 req <;> simp [h0, unwrapOpt]
    · have f2 : ¬ 1 = sz := by omega
      have f4 : ¬ 1024 < sz := by omega
      have f5 : sz < 1025 := by omega
      have f6 : ¬ 1025 ≤ sz := by omega
      cases checkedNextPow2 req <;> simp [h0, unwrapOpt, h1, h2, f2, f4, f5, f6]
    · have f1 : ¬ sz = 1 := by omega
      have f2 : ¬ 1 = sz := by omega
      have f3 : ¬ sz ≤ 1024 := by omega
      have f5 : ¬ sz < 1025 := by omega
      have f6 : 1025 ≤ sz := by omega
      cases checkedNextPow2 req <;> simp [h0, unwrapOpt, h, f1, f2, f3, f5, f6]

theorem le_nextPow2 (n : Nat) : n ≤ nextPow2 n := by
  unfold nextPow2
  split
  · omega
  · have := @Nat.lt_log2_self (n - 1)
    omega

theorem nextPow2_isPow2 (n : Nat) : ∃ k, nextPow2 n = 2 ^ k := by
  unfold nextPow2
  split
  · exact ⟨0, rfl⟩
  · exact ⟨_, rfl⟩

theorem nextPow2_lt_double (n : Nat) (h : n ≠ 0) : nextPow2 n < 2 * n := by
  unfold nextPow2
  split
  · omega
  · have := @Nat.log2_self_le (n - 1) (by omega)
    rw [Nat.pow_succ]
    omega

theorem nextPow2_pos (n : Nat) : 0 < nextPow2 n := by
  obtain ⟨k, hk⟩ := nextPow2_isPow2 n
  rw [hk]; exact Nat.two_pow_pos k


set_option linter.unusedSimpArgs false

/-! the generated guards in closed form; the proofs only use what the
    conditions compute, not how the source spells them -/

theorem get_oob_eq (l : RawList) (i : Nat) :
    Gen.ListGuards.get_oob l.view i = decide (i ≥ l.len) := by
  unfold Gen.ListGuards.get_oob RawList.view
  rw [Bool.eq_iff_iff]
  try simp only [Bool.or_eq_true, Bool.and_eq_true, Bool.not_eq_true', decide_eq_true_eq, decide_eq_false_iff_not]
  all_goals omega

theorem swap_noop_eq (l : RawList) (i j : Nat) :
    Gen.ListGuards.swap_noop l.view i j = decide (i ≥ l.len ∨ j ≥ l.len ∨ i = j) := by
  unfold Gen.ListGuards.swap_noop RawList.view
  rw [Bool.eq_iff_iff]
  try simp only [Bool.or_eq_true, Bool.and_eq_true, Bool.not_eq_true', decide_eq_true_eq, decide_eq_false_iff_not]
  all_goals omega

theorem eq_len_differs_eq (a b : RawList) :
    Gen.ListGuards.eq_len_differs a.view b.view = decide (a.len ≠ b.len) := by
  unfold Gen.ListGuards.eq_len_differs RawList.view
  rw [Bool.eq_iff_iff]
  try simp only [Bool.or_eq_true, Bool.and_eq_true, Bool.not_eq_true', decide_eq_true_eq, decide_eq_false_iff_not]
  all_goals omega

theorem reserve_grows_eq (l : RawList) (nc : Nat) :
    Gen.ListGuards.reserve_grows l.view nc = decide (nc > l.cap) := by
  unfold Gen.ListGuards.reserve_grows RawList.view
  rw [Bool.eq_iff_iff]
  try simp only [Bool.or_eq_true, Bool.and_eq_true, Bool.not_eq_true', decide_eq_true_eq, decide_eq_false_iff_not]
  all_goals omega

theorem push_reserve_eq (v : RawView) : Gen.ListGuards.push_reserve v = 1 := by
  unfold Gen.ListGuards.push_reserve; omega
theorem push_len_add_eq (v : RawView) : Gen.ListGuards.push_len_add v = 1 := by
  unfold Gen.ListGuards.push_len_add; omega
theorem extend_reserve_eq (a b : RawView) : Gen.ListGuards.extend_reserve a b = b.len := by
  unfold Gen.ListGuards.extend_reserve; omega
theorem extend_len_add_eq (a b : RawView) : Gen.ListGuards.extend_len_add a b = b.len := by
  unfold Gen.ListGuards.extend_len_add; omega

theorem contains_loop_count_eq (l : RawList) : Gen.ListGuards.contains_loop_count l.view = l.len := by
  unfold Gen.ListGuards.contains_loop_count RawList.view; first | rfl | omega
theorem index_loop_count_eq (l : RawList) : Gen.ListGuards.index_loop_count l.view = l.len := by
  unfold Gen.ListGuards.index_loop_count RawList.view; first | rfl | omega
theorem eq_loop_count_eq (a b : RawList) (h : a.len = b.len) : Gen.ListGuards.eq_loop_count a.view b.view = a.len := by
  unfold Gen.ListGuards.eq_loop_count RawList.view; first | rfl | (simp only []; omega)

theorem extend_clone_count_eq (a b : RawList) : Gen.ListGuards.extend_clone_count a.view b.view = b.len := by
  unfold Gen.ListGuards.extend_clone_count RawList.view; first | rfl | omega
theorem drop_amount_eq (l : RawList) :
    (if Gen.ListGuards.drop_runs_element_drops then Gen.ListGuards.drop_count l.view else 0) = l.len := by
  have : Gen.ListGuards.drop_runs_element_drops = true := by decide
  rw [this]
  unfold Gen.ListGuards.drop_count RawList.view; first | rfl | (simp only [if_true]; omega)

def IsPow2 (n : Nat) : Prop := ∃ k, n = 2 ^ k

/-- the representation invariant of one `RawList` with element size `sz` -/
structure RawOk (sz : Nat) (l : RawList) : Prop where
  wf : l.elems.length = l.len
  le : l.len ≤ l.cap
  bound : l.cap ≤ usizeMax
  zst : sz = 0 → l.cap = usizeMax
  shape : sz ≠ 0 → l.cap = 0 ∨ (IsPow2 l.cap ∧ minCap sz ≤ l.cap)

theorem computeCapacity_ok {sz req nc : Nat} (h : computeCapacity sz req = .ok nc) :
    req ≤ nc ∧ nc ≤ usizeMax ∧ (nc = 0 ∨ (IsPow2 nc ∧ minCap sz ≤ nc)) ∧ (req = 0 → nc = 0) := by
  unfold computeCapacity at h
  rw [compute_capacity_eq] at h
  by_cases h0 : req = 0
  · simp [h0, liftRes] at h; subst h; simp [h0]
  · simp only [h0, if_false] at h
    unfold checkedNextPow2 at h
    by_cases hb : nextPow2 req ≤ usizeMax
    · simp [hb, liftRes] at h
      subst h
      have h1 := le_nextPow2 req
      have hm : minCap sz ≤ 8 := by unfold minCap; split <;> (try split) <;> omega
      have hu : (8 : Nat) ≤ usizeMax := by decide
      refine ⟨?_, ?_, Or.inr ⟨?_, ?_⟩, fun h => absurd h h0⟩
      · unfold ordMax; split <;> omega
      · unfold ordMax; split <;> omega
      · unfold ordMax; split
        · unfold minCap; split
          · exact ⟨3, rfl⟩
          · split
            · exact ⟨2, rfl⟩
            · exact ⟨0, rfl⟩
        · exact nextPow2_isPow2 req
      · unfold ordMax; split <;> omega
    · simp [hb, liftRes] at h

theorem computeCapacity_error {sz req : Nat} {f : Fault} (h : computeCapacity sz req = .error f) :
    f = .panic ∧ usizeMax < nextPow2 req := by
  unfold computeCapacity at h
  rw [compute_capacity_eq] at h
  by_cases h0 : req = 0
  · simp [h0, liftRes] at h
  · simp only [h0, if_false] at h
    unfold checkedNextPow2 at h
    by_cases hb : nextPow2 req ≤ usizeMax
    · simp [hb, liftRes] at h
    · simp [hb, liftRes] at h
      exact ⟨h.symm, by omega⟩

theorem reserve_ok {sz : Nat} {l l' : RawList} {added : Nat}
    (h : reserve sz l added = .ok l') (ok : RawOk sz l) :
    l'.len = l.len ∧ l'.elems = l.elems ∧ l'.locked = l.locked ∧ l'.rc = l.rc ∧
      l.cap ≤ l'.cap ∧ (sz ≠ 0 → l.len + added ≤ l'.cap) ∧ RawOk sz l' := by
  unfold reserve at h
  by_cases hz : sz = 0
  · simp [hz] at h; subst h
    exact ⟨rfl, rfl, rfl, rfl, Nat.le_refl _, fun h => absurd hz h, ok⟩
  · simp only [hz, if_false] at h
    unfold checkedAdd at h
    by_cases hb : l.len + added ≤ usizeMax
    · simp only [hb, if_true] at h
      cases hc : computeCapacity sz (l.len + added) with
      | error f => simp [hc] at h
      | ok nc =>
        simp only [hc, reserve_grows_eq, decide_eq_true_eq] at h
        have ⟨h1, h2, h3, _⟩ := computeCapacity_ok hc
        injection h with h
        by_cases hg : nc > l.cap
        · simp only [hg, if_true] at h
          subst h
          refine ⟨rfl, rfl, rfl, rfl, by simp; omega, fun _ => by simp; omega, ?_⟩
          exact ⟨ok.wf, by simp; have := ok.le; omega, by simpa using h2, fun h => absurd h hz, fun _ => by simpa using h3⟩
        · simp only [hg, if_false] at h
          subst h
          exact ⟨rfl, rfl, rfl, rfl, Nat.le_refl _, fun _ => by omega, ok⟩
    · simp [hb] at h

theorem reserve_error {sz : Nat} {l : RawList} {added : Nat} {f : Fault}
    (h : reserve sz l added = .error f) :
    f = .panic ∧ sz ≠ 0 ∧ usizeMax < nextPow2 (l.len + added) := by
  unfold reserve at h
  by_cases hz : sz = 0
  · simp [hz] at h
  · simp only [hz, if_false] at h
    unfold checkedAdd at h
    by_cases hb : l.len + added ≤ usizeMax
    · simp only [hb, if_true] at h
      cases hc : computeCapacity sz (l.len + added) with
      | error g =>
        simp only [hc] at h
        injection h with h
        subst h
        exact ⟨(computeCapacity_error hc).1, hz, (computeCapacity_error hc).2⟩
      | ok nc => simp only [hc] at h; split at h <;> cases h
    · simp only [hb, if_false] at h
      injection h with h
      refine ⟨h.symm, hz, ?_⟩
      have := le_nextPow2 (l.len + added)
      omega

end RotoV.ListM
