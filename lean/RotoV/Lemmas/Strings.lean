/-
  Helper lemmas for C17 (`Props/C17.lean`): UTF-8 lead/continuation bytes,
  byte offsets of character prefixes, `is_char_boundary`, sub-slicing, the
  iterator arithmetic of the views.
-/
import RotoV.Model.Strings

namespace RotoV.Strings

/-! ### UTF-8 sizes -/

theorem char_lt (c : Char) : c.toNat < 0x110000 := by
  have h := c.valid
  simp only [UInt32.isValidChar, Nat.isValidChar] at h
  have : c.toNat = c.val.toNat := rfl
  omega

theorem utf8Size_range (c : Char) : 1 ≤ utf8Size c ∧ utf8Size c ≤ 4 := by
  unfold utf8Size utf8Char
  simp only
  split
  · simp
  · split
    · simp
    · split <;> simp

theorem utf8Size_pos (c : Char) : 0 < utf8Size c := (utf8Size_range c).1

@[simp] theorem utf8_nil : utf8 [] = [] := rfl
@[simp] theorem utf8_cons (c : Char) (s : List Char) : utf8 (c :: s) = utf8Char c ++ utf8 s := rfl

theorem utf8_append (a b : List Char) : utf8 (a ++ b) = utf8 a ++ utf8 b := by
  induction a with
  | nil => simp
  | cons c a ih => simp [ih]

@[simp] theorem byteLen_nil : byteLen [] = 0 := rfl
@[simp] theorem byteLen_cons (c : Char) (s : List Char) : byteLen (c :: s) = utf8Size c + byteLen s := by
  simp [byteLen, utf8Size]

theorem byteLen_append (a b : List Char) : byteLen (a ++ b) = byteLen a + byteLen b := by
  simp [byteLen, utf8_append]

theorem byteLen_eq_sum (s : List Char) : bytesLen s = (s.map utf8Size).sum := by
  unfold bytesLen
  induction s with
  | nil => simp
  | cons c s ih => simp [ih]

/-! ### lead and continuation bytes -/

/-- the first byte of an encoded character is a lead byte, the others are not -/
theorem utf8Char_shape (c : Char) :
    ∃ b rest, utf8Char c = b :: rest ∧ isLeadByte b = true ∧ ∀ x ∈ rest, isLeadByte x = false := by
  have hc := char_lt c
  unfold utf8Char
  simp only
  split
  · rename_i h
    refine ⟨_, [], rfl, ?_, by simp⟩
    simp [isLeadByte, UInt8.toNat_ofNat']
    omega
  · split
    · rename_i h1 h2
      refine ⟨_, _, rfl, ?_, ?_⟩
      · simp [isLeadByte, UInt8.toNat_ofNat']; omega
      · simp [isLeadByte, UInt8.toNat_ofNat']; omega
    · split
      · rename_i h1 h2 h3
        refine ⟨_, _, rfl, ?_, ?_⟩
        · simp [isLeadByte, UInt8.toNat_ofNat']; omega
        · simp [isLeadByte, UInt8.toNat_ofNat']; omega
      · rename_i h1 h2 h3
        refine ⟨_, _, rfl, ?_, ?_⟩
        · simp [isLeadByte, UInt8.toNat_ofNat']; omega
        · simp [isLeadByte, UInt8.toNat_ofNat']; omega

/-! ### `is_char_boundary` on the bytes = a prefix of characters ends there -/

/-- character-level reading of "offset `i` is a code-point boundary" -/
def isBoundaryC : List Char → Nat → Bool
  | _, 0 => true
  | [], _ + 1 => false
  | c :: s, i + 1 => if i + 1 < utf8Size c then false else isBoundaryC s (i + 1 - utf8Size c)

theorem utf8_head_lead (s : List Char) (b : UInt8) (h : (utf8 s)[0]? = some b) : isLeadByte b = true := by
  cases s with
  | nil => simp at h
  | cons c s =>
    obtain ⟨b', rest, hc, hl, _⟩ := utf8Char_shape c
    simp [hc] at h
    subst h; exact hl

theorem isCharBoundary_utf8 (s : List Char) (i : Nat) :
    isCharBoundary (utf8 s) i = isBoundaryC s i := by
  induction s generalizing i with
  | nil =>
    cases i with
    | zero => simp [isCharBoundary, isBoundaryC]
    | succ i => simp [isCharBoundary, isBoundaryC]
  | cons c s ih =>
    cases i with
    | zero => simp [isCharBoundary, isBoundaryC]
    | succ i =>
      obtain ⟨b, rest, hc, hl, hr⟩ := utf8Char_shape c
      have hw : utf8Size c = rest.length + 1 := by simp [utf8Size, hc]
      simp only [isBoundaryC]
      split
      · -- inside the encoding of `c`
        rename_i hlt
        have hlen : ¬ (utf8 (c :: s)).length ≤ i + 1 := by
          simp [utf8_cons, hc]; omega
        have hget : (utf8 (c :: s))[i + 1]? = rest[i]? := by
          simp [utf8_cons, hc]
          rw [List.getElem?_append_left (by omega)]
        have hi : i < rest.length := by omega
        simp only [isCharBoundary, hlen, hget, List.getElem?_eq_getElem hi]
        simp [hr _ (List.getElem_mem hi)]
      · rename_i hge
        rw [← ih]
        have hge' : rest.length + 1 ≤ i + 1 := by omega
        generalize hj : i + 1 - utf8Size c = j
        have hij : i + 1 = (utf8Char c).length + j := by simp [hc]; omega
        have hget : (utf8 (c :: s))[i + 1]? = (utf8 s)[j]? := by
          rw [utf8_cons, hij, List.getElem?_append_right (by omega)]
          simp
        have hlen : (utf8 (c :: s)).length = (utf8Char c).length + (utf8 s).length := by simp
        cases j with
        | zero =>
          simp only [isCharBoundary, hget, hlen]
          simp only [Nat.add_one_ne_zero, if_false, if_true]
          cases hu : utf8 s with
          | nil => simp [hij]
          | cons b0 tl =>
            have hg : (utf8 s)[0]? = some b0 := by simp [hu]
            have : ¬ ((utf8Char c).length + (b0 :: tl).length ≤ i + 1) := by simp; omega
            simp only [this, if_false]
            simp [utf8_head_lead s b0 hg]
        | succ j =>
          have hget' : (utf8Char c ++ utf8 s)[(utf8Char c).length + (j + 1)]? = (utf8 s)[j + 1]? := by
            rw [List.getElem?_append_right (by omega)]; simp
          simp only [isCharBoundary, hij, utf8_cons, hget', List.length_append]
          have e1 : ((utf8Char c).length + (utf8 s).length ≤ (utf8Char c).length + (j + 1)) ↔ ((utf8 s).length ≤ j + 1) := by omega
          have e2 : ((utf8Char c).length + (j + 1) = (utf8Char c).length + (utf8 s).length) ↔ (j + 1 = (utf8 s).length) := by omega
          have e3 : (utf8Char c).length + (j + 1) ≠ 0 := by omega
          simp only [e1, e2, e3, Nat.add_one_ne_zero, if_false]

/-! ### byte offsets of character prefixes -/

theorem byteLen_take_succ (s : List Char) (k : Nat) (h : k < s.length) :
    byteLen (s.take (k + 1)) = byteLen (s.take k) + utf8Size s[k] := by
  induction s generalizing k with
  | nil => simp at h
  | cons c s ih =>
    cases k with
    | zero => simp
    | succ k =>
      simp only [List.take_succ_cons, byteLen_cons, List.getElem_cons_succ]
      rw [ih k (by simpa using h)]; omega

theorem byteLen_take_strictMono (s : List Char) (k k' : Nat) (h : k < k') (h' : k' ≤ s.length) :
    byteLen (s.take k) < byteLen (s.take k') := by
  induction k' with
  | zero => omega
  | succ n ih =>
    rw [byteLen_take_succ s n (by omega)]
    have := utf8Size_pos s[n]
    by_cases hk : k = n
    · subst hk; omega
    · have := ih (by omega) (by omega); omega

theorem byteLen_take_mono (s : List Char) (k k' : Nat) (h : k ≤ k') (h' : k' ≤ s.length) :
    byteLen (s.take k) ≤ byteLen (s.take k') := by
  by_cases he : k = k'
  · subst he; omega
  · exact Nat.le_of_lt (byteLen_take_strictMono s k k' (by omega) h')

theorem byteLen_take_inj (s : List Char) (k k' : Nat) (hk : k ≤ s.length) (hk' : k' ≤ s.length)
    (h : byteLen (s.take k) = byteLen (s.take k')) : k = k' := by
  by_cases h1 : k < k'
  · have := byteLen_take_strictMono s k k' h1 hk'; omega
  · by_cases h2 : k' < k
    · have := byteLen_take_strictMono s k' k h2 hk; omega
    · omega

theorem isBoundaryC_iff (s : List Char) (i : Nat) :
    isBoundaryC s i = true ↔ ∃ k, k ≤ s.length ∧ byteLen (s.take k) = i := by
  induction s generalizing i with
  | nil =>
    cases i with
    | zero => simp [isBoundaryC]
    | succ i => simp [isBoundaryC]
  | cons c s ih =>
    cases i with
    | zero => simp only [isBoundaryC, true_iff]; exact ⟨0, by simp, by simp⟩
    | succ i =>
      simp only [isBoundaryC]
      have hp := utf8Size_pos c
      split
      · rename_i hlt
        simp only [Bool.false_eq_true, false_iff]
        rintro ⟨k, hk, he⟩
        cases k with
        | zero => simp at he
        | succ k => simp at he; omega
      · rename_i hge
        rw [ih]
        constructor
        · rintro ⟨k, hk, he⟩
          exact ⟨k + 1, by simpa using hk, by simp; omega⟩
        · rintro ⟨k, hk, he⟩
          cases k with
          | zero => simp at he
          | succ k => exact ⟨k, by simpa using hk, by simp at he; omega⟩

theorem boundaryIdx_iff (s : List Char) (i k : Nat) :
    boundaryIdx s i = some k ↔ k ≤ s.length ∧ byteLen (s.take k) = i := by
  unfold boundaryIdx
  constructor
  · intro h
    have hm := List.mem_of_find?_eq_some h
    have hp := List.find?_some h
    simp at hm hp
    exact ⟨by omega, hp⟩
  · rintro ⟨hk, he⟩
    cases hf : (List.range (s.length + 1)).find? (fun k => byteLen (s.take k) == i) with
    | none =>
      rw [List.find?_eq_none] at hf
      have := hf k (by simp; omega)
      simp [he] at this
    | some k' =>
      have hm := List.mem_of_find?_eq_some hf
      have hp := List.find?_some hf
      simp at hm hp
      have := byteLen_take_inj s k' k (by omega) hk (by omega)
      simp [this]

theorem isCharBoundary_eq_isSome (s : List Char) (i : Nat) :
    isCharBoundary (utf8 s) i = (boundaryIdx s i).isSome := by
  rw [isCharBoundary_utf8]
  cases hb : boundaryIdx s i with
  | some k =>
    have := (boundaryIdx_iff s i k).1 hb
    simp only [Option.isSome_some]
    exact (isBoundaryC_iff s i).2 ⟨k, this⟩
  | none =>
    simp only [Option.isSome_none]
    cases hc : isBoundaryC s i with
    | false => rfl
    | true =>
      obtain ⟨k, hk⟩ := (isBoundaryC_iff s i).1 hc
      have := (boundaryIdx_iff s i k).2 hk
      simp [hb] at this

theorem dropBytes_prefix (s : List Char) (k : Nat) (h : k ≤ s.length) :
    dropBytes s (byteLen (s.take k)) = s.drop k := by
  induction s generalizing k with
  | nil => simp [dropBytes]
  | cons c s ih =>
    cases k with
    | zero => simp [dropBytes]
    | succ k =>
      have hp := utf8Size_pos c
      simp only [List.take_succ_cons, byteLen_cons, dropBytes, List.drop_succ_cons]
      rw [if_neg (by omega)]
      have : utf8Size c + byteLen (s.take k) - utf8Size c = byteLen (s.take k) := by omega
      rw [this]; exact ih k (by simpa using h)

theorem takeBytes_prefix (s : List Char) (k : Nat) (h : k ≤ s.length) :
    takeBytes s (byteLen (s.take k)) = s.take k := by
  induction s generalizing k with
  | nil => simp [takeBytes]
  | cons c s ih =>
    cases k with
    | zero => simp [takeBytes]
    | succ k =>
      have hp := utf8Size_pos c
      simp only [List.take_succ_cons, byteLen_cons, takeBytes]
      rw [if_neg (by omega)]
      have : utf8Size c + byteLen (s.take k) - utf8Size c = byteLen (s.take k) := by omega
      rw [this, ih k (by simpa using h)]

theorem byteLen_take_drop (s : List Char) (a b : Nat) (hab : a ≤ b) (_hb : b ≤ s.length) :
    byteLen ((s.drop a).take (b - a)) = byteLen (s.take b) - byteLen (s.take a) := by
  have h : s.take b = s.take a ++ (s.drop a).take (b - a) := by
    have := List.take_add (l := s) (i := a) (j := b - a)
    rw [show a + (b - a) = b by omega] at this
    exact this
  rw [h, byteLen_append]; omega

/-- `s.get(a..b)` at the offsets of two character positions -/
theorem strGet_prefix (s : List Char) (a b : Nat) (hab : a ≤ b) (hb : b ≤ s.length) :
    strGet s (byteLen (s.take a)) (byteLen (s.take b)) = some ((s.drop a).take (b - a)) := by
  unfold strGet
  have h1 : isCharBoundary (utf8 s) (byteLen (s.take a)) = true := by
    rw [isCharBoundary_utf8]; exact (isBoundaryC_iff s _).2 ⟨a, by omega, rfl⟩
  have h2 : isCharBoundary (utf8 s) (byteLen (s.take b)) = true := by
    rw [isCharBoundary_utf8]; exact (isBoundaryC_iff s _).2 ⟨b, hb, rfl⟩
  have h3 := byteLen_take_mono s a b hab hb
  rw [if_pos ⟨h3, h1, h2⟩, dropBytes_prefix s a (by omega)]
  rw [← byteLen_take_drop s a b hab hb]
  rw [takeBytes_prefix (s.drop a) (b - a) (by simp; omega)]

theorem strIndex_prefix (s : List Char) (a b : Nat) (hab : a ≤ b) (hb : b ≤ s.length) :
    strIndex s (byteLen (s.take a)) (byteLen (s.take b)) = .ok ((s.drop a).take (b - a)) := by
  simp [strIndex, strGet_prefix s a b hab hb]

/-! ### `StringBytes` -/

theorem bytesGet_eq_spec (s : List Char) (i : Nat) : bytesGet s i = specBytesGet s i := by
  unfold bytesGet specBytesGet strGetFrom
  rw [isCharBoundary_eq_isSome]
  cases hb : boundaryIdx s i with
  | none => simp
  | some k =>
    obtain ⟨hk, he⟩ := (boundaryIdx_iff s i k).1 hb
    simp only [Option.isSome_some, if_true, Option.bind_some]
    rw [← he, dropBytes_prefix s k hk]
    simp [List.head?_drop]

theorem bytesSlice_eq_spec (s : List Char) (i j : Nat) :
    bytesSlice s i j = .ok (specBytesSlice s i j) := by
  unfold bytesSlice specBytesSlice strGet
  congr 1
  rw [isCharBoundary_eq_isSome, isCharBoundary_eq_isSome]
  by_cases hij : i ≤ j
  · cases hi : boundaryIdx s i with
    | none => simp [hij]
    | some a =>
      cases hj : boundaryIdx s j with
      | none => simp [hij]
      | some b =>
        obtain ⟨ha, hea⟩ := (boundaryIdx_iff s i a).1 hi
        obtain ⟨hb, heb⟩ := (boundaryIdx_iff s j b).1 hj
        have hab : a ≤ b := by
          by_cases h : a ≤ b
          · exact h
          · have := byteLen_take_strictMono s b a (by omega) ha; omega
        have := strGet_prefix s a b hab hb
        unfold strGet at this
        rw [hea, heb, isCharBoundary_eq_isSome, isCharBoundary_eq_isSome, hi, hj] at this
        simpa [hij] using this
  · simp [hij]

/-! ### `StringChars` -/

theorem iterNth_eq (it : List Nat) (n : Nat) :
    iterNth it n = it[n]?.map fun x => (x, it.drop (n + 1)) := by
  unfold iterNth
  by_cases h : n < it.length
  · rw [List.drop_eq_getElem_cons h]
    simp [List.getElem?_eq_getElem h]
  · have : it.drop n = [] := List.drop_eq_nil_of_le (by omega)
    rw [this]
    simp [List.getElem?_eq_none (by omega : it.length ≤ n)]

theorem charOffsets_getElem? (o : Nat) (s : List Char) (k : Nat) :
    (charOffsetsFrom o s ++ [o + byteLen s])[k]? =
      if k ≤ s.length then some (o + byteLen (s.take k)) else none := by
  induction s generalizing o k with
  | nil =>
    cases k with
    | zero => simp [charOffsetsFrom]
    | succ k => simp [charOffsetsFrom]
  | cons c s ih =>
    cases k with
    | zero => simp [charOffsetsFrom]
    | succ k =>
      simp only [charOffsetsFrom, List.cons_append, List.getElem?_cons_succ, byteLen_cons,
        List.length_cons, List.take_succ_cons]
      have := ih (o + utf8Size c) k
      rw [show o + (utf8Size c + byteLen s) = o + utf8Size c + byteLen s by omega, this]
      by_cases h : k ≤ s.length
      · simp [h]; omega
      · simp [h]

theorem charsSlice_eq_spec (s : List Char) (i j : Nat) :
    charsSlice s i j = .ok (specCharsSlice s i j) := by
  unfold charsSlice specCharsSlice
  have hoff : ∀ k, (charOffsetsFrom 0 s ++ [byteLen s])[k]? =
      if k ≤ s.length then some (byteLen (s.take k)) else none := by
    intro k
    have := charOffsets_getElem? 0 s k
    simpa using this
  by_cases hji : j < i
  · simp [hji]; omega
  · simp only [hji, if_false, iterNth_eq, hoff]
    by_cases hi : i ≤ s.length
    · simp only [hi, if_true, Option.map_some]
      by_cases hz : j - i = 0
      · have : j = i := by omega
        subst this
        simp [hi]
      · simp only [hz, if_false]
        rw [List.getElem?_drop, show i + 1 + (j - i - 1) = j by omega, hoff]
        by_cases hj : j ≤ s.length
        · simp only [hj, if_true, Option.map_some]
          rw [strIndex_prefix s i j (by omega) hj]
          simp [Res.map', hj]; omega
        · simp [hj]
    · simp [hi]; omega

/-! ### `StringLines` -/

theorem strIndex_append3 (X Y Z : List Char) :
    strIndex (X ++ Y ++ Z) (byteLen X) (byteLen (X ++ Y)) = .ok Y := by
  have h := strIndex_prefix (X ++ Y ++ Z) X.length (X.length + Y.length) (by omega) (by simp)
  have e1 : (X ++ Y ++ Z).take X.length = X := by simp [List.append_assoc]
  have e2 : (X ++ Y ++ Z).take (X.length + Y.length) = X ++ Y := by
    rw [show X.length + Y.length = (X ++ Y).length by simp]
    exact List.take_left' rfl
  have e3 : ((X ++ Y ++ Z).drop X.length).take (X.length + Y.length - X.length) = Y := by
    simp [List.append_assoc]
  rw [e1, e2, e3] at h
  exact h

theorem rawLines_flatten (s : List Char) : (rawLines s).flatten = s := by
  induction s with
  | nil => simp [rawLines]
  | cons c s ih =>
    unfold rawLines
    split
    · simp [ih]
    · split
      · rename_i h; rw [h] at ih; simp at ih; simp [← ih]
      · rename_i l ls h; rw [h] at ih; simp at ih; simp [← ih]

theorem rawLines_ne_nil (s : List Char) (h : s ≠ []) : rawLines s ≠ [] := by
  intro h'
  have := rawLines_flatten s
  rw [h'] at this
  simp at this
  exact h this

theorem endsWithNl_cons (c : Char) (s : List Char) :
    endsWithNl (c :: s) = if s = [] then c == '\n' else endsWithNl s := by
  cases s with
  | nil => simp [endsWithNl]
  | cons d s => simp [endsWithNl, List.getLast?_cons_cons]

theorem rawLines_length (s : List Char) :
    specLinesLen s = s.count '\n' + (if s = [] ∨ endsWithNl s then 0 else 1) := by
  unfold specLinesLen
  induction s with
  | nil => simp [rawLines]
  | cons c s ih =>
    rw [endsWithNl_cons]
    unfold rawLines
    by_cases hc : c = '\n'
    · subst hc
      simp only [if_true, List.length_cons, ih, List.count_cons_self]
      by_cases hs : s = []
      · subst hs; simp
      · simp [hs]; omega
    · simp only [hc, if_false]
      have hcount : (c :: s).count '\n' = s.count '\n' := by
        simp [List.count_cons, hc]
      by_cases hs : s = []
      · subst hs; simp [rawLines, hc]
      · have hne := rawLines_ne_nil s hs
        cases hr : rawLines s with
        | nil => exact absurd hr hne
        | cons l ls =>
          rw [hr] at ih
          simp only [List.length_cons] at ih ⊢
          rw [hcount, ih]
          simp [hs]

/-- byte offsets of the ends of the raw lines -/
def psums : Nat → List (List Char) → List Nat
  | _, [] => []
  | o, l :: ls => (o + byteLen l) :: psums (o + byteLen l) ls

theorem bounds_eq (o : Nat) (s : List Char) (h : s ≠ []) :
    nlEndsFrom o s ++ (if endsWithNl s then [] else [o + byteLen s]) = psums o (rawLines s) := by
  induction s generalizing o with
  | nil => exact absurd rfl h
  | cons c s ih =>
    rw [endsWithNl_cons]
    unfold rawLines nlEndsFrom
    by_cases hc : c = '\n'
    · subst hc
      simp only [if_true]
      by_cases hs : s = []
      · subst hs; simp [nlEndsFrom, rawLines, psums]
      · have := ih (o + utf8Size '\n') hs
        simp only [hs, if_false] at this ⊢
        simp only [psums, byteLen_cons, byteLen_nil, Nat.add_zero, List.cons_append]
        rw [← this]
        simp [Nat.add_assoc]
    · simp only [hc, if_false]
      by_cases hs : s = []
      · subst hs; simp [nlEndsFrom, rawLines, psums, hc]
      · have := ih (o + utf8Size c) hs
        simp only [hs, if_false] at this ⊢
        have hne := rawLines_ne_nil s hs
        cases hr : rawLines s with
        | nil => exact absurd hr hne
        | cons l ls =>
          rw [hr] at this
          simp only [psums, byteLen_cons] at this ⊢
          rw [show o + (utf8Size c + byteLen l) = o + utf8Size c + byteLen l by omega, ← this]
          simp [Nat.add_assoc]

theorem psums_length (o : Nat) (L : List (List Char)) : (psums o L).length = L.length := by
  induction L generalizing o with
  | nil => rfl
  | cons l ls ih => simp [psums, ih]

theorem psums_getElem? (o : Nat) (L : List (List Char)) (k : Nat) :
    (psums o L)[k]? = if k < L.length then some (o + byteLen (L.take (k + 1)).flatten) else none := by
  induction L generalizing o k with
  | nil => simp [psums]
  | cons l ls ih =>
    cases k with
    | zero => simp [psums]
    | succ k =>
      simp only [psums, List.getElem?_cons_succ, ih, List.length_cons, List.take_succ_cons,
        List.flatten_cons, byteLen_append]
      by_cases h : k < ls.length
      · simp [h]; omega
      · simp [h]

theorem advance_eq (n : Nat) (it : List Nat) (cur : Nat) :
    advance n it cur =
      if n ≤ it.length then some (if n = 0 then cur else it[n - 1]?.getD 0, it.drop n) else none := by
  induction n generalizing it cur with
  | zero => simp [advance]
  | succ n ih =>
    cases it with
    | nil => simp [advance]
    | cons x it =>
      simp only [advance, ih, List.length_cons, Nat.add_le_add_iff_right, List.drop_succ_cons]
      by_cases h : n ≤ it.length
      · simp only [h, if_true]
        cases n with
        | zero => simp
        | succ n => simp
      · simp [h]

theorem flatten_split (L : List (List Char)) (i j : Nat) (hij : i ≤ j) :
    L.flatten = (L.take i).flatten ++ ((L.drop i).take (j - i)).flatten ++ (L.drop j).flatten ∧
    (L.take j).flatten = (L.take i).flatten ++ ((L.drop i).take (j - i)).flatten := by
  have h1 : L.take j = L.take i ++ (L.drop i).take (j - i) := by
    have := List.take_add (l := L) (i := i) (j := j - i)
    rw [show i + (j - i) = j by omega] at this
    exact this
  have h2 : L = L.take j ++ L.drop j := (List.take_append_drop j L).symm
  constructor
  · conv => lhs; rw [h2, h1]
    simp [List.flatten_append]
  · rw [h1]; simp [List.flatten_append]

/-- the two loops of `StringLines::slice` over boundary offsets `N ++ E` -/
theorem linesSlice_core (s : List Char) (L : List (List Char)) (N E : List Nat)
    (hNE : N ++ E = psums 0 L) (hE : E.length ≤ 1) (hflat : L.flatten = s) (i j : Nat)
    (hij : ¬ j < i) (hedge : ¬ (E.length = 1 ∧ i = j ∧ i = L.length)) :
    (match advance i N 0 with
      | none => Res.ok none
      | some (start_idx, iter) =>
        if j - i = 0 then Res.ok (some [])
        else match advance (j - i) (iter ++ E) start_idx with
          | none => Res.ok none
          | some (end_idx, _) => (strIndex s start_idx end_idx).map' some) =
    Res.ok (if i ≤ j ∧ j ≤ L.length then some ((L.drop i).take (j - i)).flatten else none) := by
  have hlen : N.length + E.length = L.length := by
    have := congrArg List.length hNE
    simpa [psums_length] using this
  rw [advance_eq]
  by_cases hi : i ≤ N.length
  · simp only [hi, if_true]
    by_cases hz : j - i = 0
    · have : j = i := by omega
      subst this
      simp [show j ≤ L.length by omega]
    · simp only [hz, if_false]
      rw [advance_eq]
      have hdrop : N.drop i ++ E = (psums 0 L).drop i := by
        rw [← hNE, List.drop_append_of_le_length hi]
      have hl2 : (N.drop i ++ E).length = L.length - i := by
        rw [hdrop]; simp [psums_length]
      rw [hl2]
      by_cases hj : j ≤ L.length
      · have hc : j - i ≤ L.length - i := by omega
        simp only [hc, if_true, hz, if_false]
        have hstart : (if i = 0 then 0 else N[i - 1]?.getD 0) = byteLen (L.take i).flatten := by
          by_cases h0 : i = 0
          · subst h0; simp
          · simp only [h0, if_false]
            have : N[i - 1]? = (psums 0 L)[i - 1]? := by
              rw [← hNE, List.getElem?_append_left (by omega)]
            rw [this, psums_getElem?, if_pos (by omega), show i - 1 + 1 = i by omega]
            simp
        have hend : (N.drop i ++ E)[j - i - 1]?.getD 0 = byteLen (L.take j).flatten := by
          rw [hdrop, List.getElem?_drop, psums_getElem?, if_pos (by omega),
            show i + (j - i - 1) + 1 = j by omega]
          simp
        rw [hstart, hend]
        obtain ⟨f1, f2⟩ := flatten_split L i j (by omega)
        rw [f2]
        have hs : s = (L.take i).flatten ++ ((L.drop i).take (j - i)).flatten ++ (L.drop j).flatten := by
          rw [← hflat]; exact f1
        conv => lhs; rw [hs]
        rw [strIndex_append3]
        simp [Res.map', hj]; omega
      · have hc : ¬ (j - i ≤ L.length - i) := by omega
        simp [hc, hj]
  · simp only [hi, if_false]
    have : ¬ (i ≤ j ∧ j ≤ L.length) := by
      intro ⟨h1, h2⟩
      apply hedge
      omega
    simp [this]

theorem linesSlice_eq_spec (s : List Char) (i j : Nat)
    (h : ¬ ((s = [] ∧ i = 0 ∧ j = 1) ∨
      (s ≠ [] ∧ endsWithNl s = false ∧ i = j ∧ i = specLinesLen s))) :
    linesSlice s i j = .ok (specLinesSlice s i j) := by
  by_cases hji : j < i
  · simp [linesSlice, specLinesSlice, hji]; omega
  · by_cases hs : s = []
    · subst hs
      have hne : ¬ (i = 0 ∧ j = 1) := by
        intro hh; exact h (Or.inl ⟨rfl, hh.1, hh.2⟩)
      simp only [linesSlice, specLinesSlice, hji, if_false, nlEndsFrom, endsWithNl, rawLines,
        advance_eq, List.length_nil, List.getLast?_nil]
      cases i with
      | zero =>
        cases j with
        | zero => simp
        | succ j =>
          cases j with
          | zero => exact absurd ⟨rfl, rfl⟩ hne
          | succ j => simp
      | succ i => simp; omega
    · unfold linesSlice specLinesSlice
      simp only [hji, if_false]
      have hb := bounds_eq 0 s hs
      simp only [Nat.zero_add] at hb
      have := linesSlice_core s (rawLines s) (nlEndsFrom 0 s)
        (if endsWithNl s then [] else [byteLen s]) hb
        (by split <;> simp) (rawLines_flatten s) i j hji
        (by
          intro ⟨h1, h2, h3⟩
          apply h
          refine Or.inr ⟨hs, ?_, h2, ?_⟩
          · cases he : endsWithNl s with
            | false => rfl
            | true => simp [he] at h1
          · simpa [specLinesLen] using h3)
      exact this

/-! ### listed lines contain no newline -/

theorem rawLines_nl_last (s : List Char) : ∀ l ∈ rawLines s, '\n' ∉ l.dropLast := by
  induction s with
  | nil => simp [rawLines]
  | cons c s ih =>
    unfold rawLines
    by_cases hc : c = '\n'
    · subst hc
      simp only [if_true, List.mem_cons]
      rintro l (rfl | hl)
      · simp
      · exact ih l hl
    · simp only [hc, if_false]
      cases hr : rawLines s with
      | nil => simp
      | cons l ls =>
        rw [hr] at ih
        simp only [List.mem_cons]
        rintro m (rfl | hm)
        · have := ih l (by simp)
          cases l with
          | nil => simp
          | cons d l =>
            simp only [List.dropLast_cons_cons, List.mem_cons, not_or]
            exact ⟨fun h => hc h.symm, this⟩
        · exact ih m (by simp [hm])

theorem mem_dropLast {α} (l : List α) (x : α) (h : x ∈ l.dropLast) : x ∈ l :=
  List.dropLast_subset l h

theorem stripEol_no_nl (l : List Char) (h : '\n' ∉ l.dropLast) : '\n' ∉ stripEol l := by
  unfold stripEol
  split
  · simp only
    split
    · intro hm; exact h (mem_dropLast _ _ hm)
    · exact h
  · rename_i hl
    intro hm
    cases hx : l.getLast? with
    | none => simp at hx; subst hx; simp at hm
    | some x =>
      obtain ⟨ys, hys⟩ := List.getLast?_eq_some_iff.1 hx
      subst hys
      simp only [List.dropLast_concat] at h
      simp only [List.mem_append, List.mem_singleton] at hm
      rcases hm with hm | hm
      · exact h hm
      · subst hm; exact hl hx

theorem strLines_no_nl (s : List Char) : ∀ l ∈ linesList s, '\n' ∉ l := by
  intro l hl
  simp only [linesList, strLines, List.mem_map] at hl
  obtain ⟨r, hr, rfl⟩ := hl
  exact stripEol_no_nl r (rawLines_nl_last s r hr)

/-! ## `StringBuf` histories -/

theorem bufStep_eq (st : List Char) (o : BufOp) : bufStep st o = st ++ o.text := by
  cases o <;> simp [bufStep, BufOp.text]

theorem bufTrace_length (st : List Char) (es : List BufEv) :
    (bufTrace st es).length = countReads es := by
  induction es generalizing st with
  | nil => simp [bufTrace, countReads]
  | cons e es ih => cases e <;> simp [bufTrace, countReads, ih]

/-- the read that follows the prefix `pre` returns the initial contents plus
everything `pre` pushed -/
theorem bufTrace_read (st : List Char) (pre post : List BufEv) :
    (bufTrace st (pre ++ .read :: post))[countReads pre]? = some (st ++ pushedText pre) := by
  induction pre generalizing st with
  | nil => simp [bufTrace, countReads, pushedText, bufAsString]
  | cons e pre ih =>
    cases e with
    | op o =>
      simp only [List.cons_append, bufTrace, countReads, pushedText]
      rw [ih, bufStep_eq, List.append_assoc]
    | read =>
      simp only [List.cons_append, bufTrace, countReads, pushedText, List.getElem?_cons_succ]
      exact ih st

theorem bufTrace_ops_read (st : List Char) (log : List BufOp) :
    bufTrace st (log.map .op ++ [.read]) = [bufRun st log] := by
  induction log generalizing st with
  | nil => simp [bufTrace, bufRun]
  | cons o log ih => simp only [List.map_cons, List.cons_append, bufTrace, ih, bufRun, List.foldl_cons]

end RotoV.Strings
