/-
  C01CgSim: the code-generation model (`Model/C01Cg`) preserves execution — a forward simulation,
  block by block, from the LIR semantics of `Model/C01Lir` to the semantics of the emitted code.
  The relation between the stores (`Rel`): a LIR variable that holds the integer `n` holds an
  `i32` and the frontend variable of the same name holds its SSA value `⟨I32, n mod 2^32⟩`; one
  that holds a boolean is `⟨I8, 0 | 1⟩` in the emitted code.
-/
import RotoV.Model.C01Cg
import RotoV.Lemmas.Scalar
import RotoV.Lemmas.C01MirOps

namespace RotoV.C01CgSim
open RotoV RotoV.Gen RotoV.Gen.OpTables RotoV.C01Lir RotoV.C01CgBase RotoV.C01Cg RotoV.Gen.C01Cg
open RotoV.C01MirRun (cvI32 cvOf decode inI32)
open RotoV.TraceSpec (Val)

/-- the SSA value that stands for a LIR value -/
def Enc (v : Val) (c : CVal) : Prop :=
  match v with
  | .int n => inI32 n = true ∧ c = cvI32 n
  | .bool b => c = CVal.ofBool b
  | _ => True

def Rel (σl : Store) (σc : CStore) : Prop := ∀ x, Enc (σl x) (σc x)

/-- what a function returns: no value for `()`, otherwise the SSA value of the result -/
def RetRel (v : Val) (r : Option CVal) : Prop :=
  match r with
  | some c => Enc v c
  | none => v = .unit

def NextRel : Next → CNext → Prop
  | .goto l σl, .goto l' σc => l = l' ∧ Rel σl σc
  | .ret v, .ret r => RetRel v r
  | _, _ => False

inductive EncAll : List Val → List CVal → Prop
  | nil : EncAll [] []
  | cons {v c vs cs} : Enc v c → EncAll vs cs → EncAll (v :: vs) (c :: cs)

section
variable [FloatOps]

/-- calls correspond; a function `rv` says returns a value hands one back in the emitted code -/
def CallRel (rv : String → Bool) (callL : String → List Val → Option Val) (callC : String → List CVal → Option (Option CVal)) : Prop :=
  ∀ f args cs w, EncAll args cs → callL f args = some w →
    ∃ r, callC f cs = some r ∧ RetRel w r ∧ (rv f = true → r.isSome = true)

/-- a block of a function that must return a value does not leave through `return` without one -/
def NextOk (rs : Bool) : CNext → Prop
  | .ret none => rs = false
  | _ => True

theorem insOk_head {rv : String → Bool} {rs : Bool} {i : LIns} {rest : List LIns}
    (h : insOk rv rs (i :: rest) = true) : insOk1 rv rs i = true := by
  simp only [insOk, List.all_cons, Bool.and_eq_true] at h
  exact h.1

theorem insOk_tail {rv : String → Bool} {rs : Bool} {i : LIns} {rest : List LIns}
    (h : insOk rv rs (i :: rest) = true) : insOk rv rs rest = true := by
  simp only [insOk, List.all_cons, Bool.and_eq_true] at h
  exact h.2

theorem findBlock_ok {rv : String → Bool} {rs : Bool} : ∀ (bs : List (Nat × List LIns)) (l : Nat) (ins : List LIns),
    blocksOk rv rs bs = true → findBlock bs l = some ins → insOk rv rs ins = true
  | [], _, _, _, hf => by simp [findBlock] at hf
  | (k, b) :: rest, l, ins, hok, hf => by
    simp only [blocksOk, List.all_cons, Bool.and_eq_true] at hok
    simp only [findBlock] at hf
    split at hf
    · simp only [Option.some.injEq] at hf
      subst hf
      exact hok.1
    · exact findBlock_ok rest l ins hok.2 hf

theorem Rel.set {σl σc} (h : Rel σl σc) (x : Name) {v : Val} {c : CVal} (hv : Enc v c) :
    Rel (σl.set x v) (σc.set x c) := by
  intro y
  by_cases hy : y = x
  · simp only [Store.set, CStore.set, hy, if_true]; exact hv
  · simp only [Store.set, CStore.set, hy, if_false]; exact h y

theorem Rel.set_unit {σl σc} (h : Rel σl σc) (x : Name) : Rel (σl.set x .unit) σc := by
  intro y
  by_cases hy : y = x
  · simp only [Store.set, hy, if_true]; exact True.intro
  · simp only [Store.set, hy, if_false]; exact h y

theorem cvI32_eq (n : Int) : cvI32 n = CVal.ofBv .I32 (wrap .Signed .I32 n).bv := rfl

/-- an operand of LIR and the operand the code generator makes of it denote corresponding values -/
theorem enc_operand {σl σc} (h : Rel σl σc) {a : LOp} {c : COp} (hc : B.operand a = some (c, ())) :
    Enc (lVal σl a) (cVal σc c) := by
  cases a with
  | var x =>
    simp only [B.operand, Option.some.injEq, Prod.mk.injEq, and_true] at hc
    subst hc
    exact h x
  | int n =>
    simp only [B.operand] at hc
    split at hc
    case isFalse => cases hc
    rename_i hn
    have hj : jitRepr (.I32 (wrap .Signed .I32 n)) = some (cvI32 n) := jitRepr_I32 _
    rw [hj] at hc
    simp only [Option.map_some, Option.some.injEq, Prod.mk.injEq, and_true] at hc
    subst hc
    exact ⟨hn, rfl⟩
  | bool b =>
    simp only [B.operand] at hc
    rw [jitRepr_Bool] at hc
    simp only [Option.map_some, Option.some.injEq, Prod.mk.injEq, and_true] at hc
    subst hc
    exact rfl

theorem enc_cvOf {v : Val} {c ca : CVal} (h : Enc v c) (hc : cvOf v = some ca) : c = ca := by
  cases v <;> simp only [cvOf, Option.some.injEq] at hc <;> try cases hc
  · exact h.2
  · exact h

/-- the value a result decodes to is encoded by the result itself (kept to the width of its type) -/
theorem enc_decode {c : CVal} {w : Val} (h : decode c = some w) : Enc w (C01Cg.norm c) := by
  obtain ⟨ty, bits⟩ := c
  cases ty with
  | I8 =>
    simp only [decode] at h
    split at h
    · rename_i h0
      simp only [Option.some.injEq] at h; subst h
      subst h0
      rfl
    · split at h
      · rename_i h1
        simp only [Option.some.injEq] at h; subst h
        subst h1
        rfl
      · cases h
  | I32 =>
    simp only [decode, Option.some.injEq] at h; subst h
    refine ⟨?_, ?_⟩
    · simp only [inI32, RInt.inRange, RInt.minVal, RInt.maxVal, if_true, Bool.and_eq_true, decide_eq_true_eq]
      have h1 := @BitVec.le_toInt 32 (BitVec.ofNat 32 bits)
      have h2 := @BitVec.toInt_lt 32 (BitVec.ofNat 32 bits)
      simp only [show ((2:Int) ^ (32 - 1)) = 2147483648 from by decide] at h1 h2 ⊢
      omega
    · simp only [C01Cg.norm, CVal.mk', cvI32_eq, CVal.ofBv, wrap, RInt.ofInt, IntSize.bits, IntSize.cty, CTy.bits, BitVec.ofInt_toInt, BitVec.toNat_ofNat]
  | I16 => simp [decode] at h
  | I64 => simp [decode] at h
  | F32 => simp [decode] at h
  | F64 => simp [decode] at h

/-- the index a switch compares is the bit pattern of the examinee -/
theorem enc_switchKey {v : Val} {c : CVal} {k : Nat} (h : Enc v c) (hk : switchKey v = some k) : c.bits = k := by
  cases v <;> simp only [switchKey] at hk <;> try cases hk
  · rename_i n
    split at hk
    case isFalse => cases hk
    rename_i hn
    simp only [Option.some.injEq] at hk; subst hk
    obtain ⟨hr, rfl⟩ := h
    simp only [inI32, RInt.inRange, RInt.minVal, RInt.maxVal, if_true, Bool.and_eq_true, decide_eq_true_eq,
      show ((2:Int) ^ (32 - 1)) = 2147483648 from by decide] at hr
    simp only [cvI32_eq, CVal.ofBv, wrap, RInt.ofInt, IntSize.bits, IntSize.cty, CTy.bits, BitVec.toNat_ofInt]
    omega
  · rename_i b
    cases b
    · simp only [Option.some.injEq] at hk; subst hk; subst h; rfl
    · simp only [Option.some.injEq] at hk; subst hk; subst h; rfl

/-! ### the generated scripts in closed form -/

theorem cg_Jump_eq (l : Nat) : cg_Jump l = some (.jump l []) := rfl

theorem cg_ReturnNone_eq : cg_ReturnNone = some (.ret []) := rfl

theorem cg_ReturnSome_eq {v : LOp} {ci : CIns} (h : cg_ReturnSome v = some ci) :
    ∃ c, B.operand v = some (c, ()) ∧ ci = .ret [c] := by
  unfold cg_ReturnSome at h
  cases hop : B.operand v with
  | none => simp [hop] at h
  | some p =>
    obtain ⟨c, u⟩ := p
    simp [hop, B.return_] at h
    exact ⟨c, rfl, h.symm⟩

theorem cg_Assign_eq {to : Name} {v : LOp} {ty : LTy} {ci : CIns} (h : cg_Assign to v ty = some ci) :
    ∃ cty c, B.operand v = some (c, ()) ∧ ci = .defVar to cty c := by
  unfold cg_Assign at h
  cases hty : B.cranelift_type ty with
  | none => simp [hty] at h
  | some cty =>
    cases hop : B.operand v with
    | none => simp [hty, hop] at h
    | some p =>
      obtain ⟨c, u⟩ := p
      simp [hty, hop, B.def_, B.variable_] at h
      exact ⟨cty, c, rfl, h.symm⟩

/-- filling a switch table with the branches of a LIR switch keeps them, in order -/
theorem fold_entries : ∀ (brs : List (Nat × Nat)) (s s' : SwitchB),
    List.foldlM (fun (sw : SwitchB) (p : Nat × Nat) => SwitchB.set_entry sw (B.as_u128 p.1) (B.get_block p.2)) s brs = some s' →
    s'.cases = s.cases ++ brs
  | [], s, s', h => by
    simp only [List.foldlM, pure, Option.some.injEq] at h
    subst h; simp
  | (k, l) :: rest, s, s', h => by
    simp only [List.foldlM, bind, Option.bind] at h
    split at h
    case h_1 => cases h
    rename_i s1 hs1
    have := fold_entries rest s1 s' h
    simp only [SwitchB.set_entry, B.as_u128, B.get_block] at hs1
    by_cases hany : (s.cases.any fun p => p.fst == k) = true
    · simp [hany] at hs1
    simp [hany] at hs1
    subst hs1
    simp only [this, List.append_assoc, List.singleton_append]

theorem cg_Switch_eq {x : LOp} {brs : List (Nat × Nat)} {d : Nat} {ci : CIns} (h : cg_Switch x brs d = some ci) :
    ∃ c, B.operand x = some (c, ()) ∧ ci = .switch c brs d := by
  -- independent of the order in which the arm computes the table, the fallback and the operand
  unfold cg_Switch at h
  dsimp only at h
  generalize hs : List.foldlM (m := Option) _ SwitchB.new brs = r at h
  cases hop : B.operand x with
  | none => cases r <;> simp [hop] at h
  | some p =>
    obtain ⟨c, u⟩ := p
    cases r with
    | none => simp [hop] at h
    | some s =>
      simp [hop, SwitchB.emit, B.get_block] at h
      have hc := fold_entries brs SwitchB.new s hs
      simp only [SwitchB.new, List.nil_append] at hc
      exact ⟨c, rfl, by rw [← h, hc]⟩

/-! ### the simulation -/

theorem cgOps_enc {σl σc} (h : Rel σl σc) : ∀ (args : List LOp) (cs : List COp), cgOps args = some cs →
    EncAll (args.map (lVal σl)) (cs.map (cVal σc))
  | [], cs, hc => by
    simp only [cgOps, Option.some.injEq] at hc
    subst hc
    exact EncAll.nil
  | a :: rest, cs, hc => by
    simp only [cgOps] at hc
    split at hc
    case h_2 => cases hc
    rename_i c u cs' hop hrest
    simp only [Option.some.injEq] at hc
    subst hc
    exact EncAll.cons (enc_operand h hop) (cgOps_enc h rest cs' hrest)

/-- one block: the emitted instructions leave it the way the LIR instructions do -/
theorem sim_exec (rv : String → Bool) (rs : Bool)
    (callL : String → List Val → Option Val) (callC : String → List CVal → Option (Option CVal))
    (hcall : CallRel rv callL callC) :
    ∀ (ins : List LIns) (cins : List CIns) (σl : Store) (σc : CStore) (nx : Next),
      cgInss ins = some cins → insOk rv rs ins = true → Rel σl σc → lExec callL ins σl = some nx →
      ∃ nx', cExec callC cins σc = some nx' ∧ NextRel nx nx' ∧ NextOk rs nx'
  | [], _, _, _, _, _, _, _, hl => by simp [lExec] at hl
  | i :: rest, cins, σl, σc, nx, hcg, hok, hrel, hl => by
    simp only [cgInss] at hcg
    split at hcg
    case h_2 => cases hcg
    rename_i ci crest hci hcrest
    simp only [Option.some.injEq] at hcg
    subst hcg
    have hokr : insOk rv rs rest = true := insOk_tail hok
    have hok1 : insOk1 rv rs i = true := insOk_head hok
    cases i with
    | assign to v ty =>
      simp only [cgIns] at hci
      obtain ⟨cty, c, hop, rfl⟩ := cg_Assign_eq hci
      simp only [lExec] at hl
      simp only [cExec]
      exact sim_exec rv rs callL callC hcall rest crest _ _ nx hcrest hokr (hrel.set to (enc_operand hrel hop)) hl
    | instr to ins l r =>
      simp only [cgIns] at hci
      split at hci
      case h_2 => cases hci
      rename_i cl ul cr ur hopl hopr
      simp only [Option.some.injEq] at hci
      subst hci
      simp only [lExec] at hl
      split at hl
      case h_2 => cases hl
      rename_i w hw
      simp only [runI] at hw
      split at hw
      case h_2 => cases hw
      rename_i ca cb hca hcb
      split at hw
      case h_2 => cases hw
      rename_i c hc
      have e1 := enc_cvOf (enc_operand hrel hopl) hca
      have e2 := enc_cvOf (enc_operand hrel hopr) hcb
      simp only [cExec, e1, e2, hc]
      exact sim_exec rv rs callL callC hcall rest crest _ _ nx hcrest hokr (hrel.set to (enc_decode hw)) hl
    | not to v =>
      simp only [cgIns] at hci
      cases hop : B.operand v with
      | none => simp [hop] at hci
      | some p =>
        obtain ⟨c, u⟩ := p
        simp only [hop, Option.map_some, Option.some.injEq] at hci
        subst hci
        simp only [lExec] at hl
        split at hl
        case h_2 => cases hl
        rename_i w hw
        have henc := enc_operand hrel hop
        simp only [C01MirRun.tableNot] at hw
        split at hw
        case h_2 => cases hw
        rename_i b hb
        split at hw
        case h_2 => cases hw
        rename_i c' hc'
        rw [hb] at henc
        have e : cVal σc c = CVal.ofBool b := henc
        simp only [cExec, e, hc']
        exact sim_exec rv rs callL callC hcall rest crest _ _ nx hcrest hokr (hrel.set to (enc_decode hw)) hl
    | neg to v =>
      simp only [cgIns] at hci
      cases hop : B.operand v with
      | none => simp [hop] at hci
      | some p =>
        obtain ⟨c, u⟩ := p
        simp only [hop, Option.map_some, Option.some.injEq] at hci
        subst hci
        simp only [lExec] at hl
        split at hl
        case h_2 => cases hl
        rename_i w hw
        have henc := enc_operand hrel hop
        simp only [C01MirRun.tableNeg] at hw
        split at hw
        case h_2 => cases hw
        rename_i x hx
        split at hw
        case isFalse => cases hw
        split at hw
        case h_2 => cases hw
        rename_i c' hc'
        rw [hx] at henc
        have e : cVal σc c = cvI32 x := henc.2
        simp only [cExec, e, hc']
        exact sim_exec rv rs callL callC hcall rest crest _ _ nx hcrest hokr (hrel.set to (enc_decode hw)) hl
    | call to f args =>
      simp only [cgIns] at hci
      split at hci
      case h_2 => cases hci
      rename_i cs hcs
      simp only [lExec] at hl
      split at hl
      case h_2 => cases hl
      rename_i w hw
      obtain ⟨r, hr, hrr, hrs⟩ := hcall f _ _ w (cgOps_enc hrel args cs hcs) hw
      cases to with
      | none =>
        simp only [Option.some.injEq] at hci
        subst hci
        simp only [cExec, hr]
        exact sim_exec rv rs callL callC hcall rest crest _ _ nx hcrest hokr hrel hl
      | some tt =>
        obtain ⟨t, ty⟩ := tt
        cases hty : B.cranelift_type ty with
        | none => simp [hty] at hci
        | some cty =>
          simp only [hty, Option.map_some, Option.some.injEq] at hci
          subst hci
          simp only [cExec, hr]
          cases r with
          | some c => exact sim_exec rv rs callL callC hcall rest crest _ _ nx hcrest hokr (hrel.set t hrr) hl
          | none =>
            -- the callee returns no value: excluded by `insOk` (the emitted code would not exist)
            have hrv : rv f = true := hok1
            exact absurd (hrs hrv) (by simp)
    | jump l =>
      simp only [cgIns, cg_Jump_eq, Option.some.injEq] at hci
      subst hci
      simp only [lExec, Option.some.injEq] at hl
      subst hl
      exact ⟨_, rfl, ⟨rfl, hrel⟩, True.intro⟩
    | switch x brs d =>
      simp only [cgIns] at hci
      obtain ⟨c, hop, rfl⟩ := cg_Switch_eq hci
      simp only [lExec] at hl
      split at hl
      case h_2 => cases hl
      rename_i k hk
      simp only [Option.some.injEq] at hl
      subst hl
      have hkey := enc_switchKey (enc_operand hrel hop) hk
      exact ⟨_, rfl, ⟨by rw [hkey], hrel⟩, True.intro⟩
    | ret v =>
      cases v with
      | none =>
        simp only [cgIns, cg_ReturnNone_eq, Option.some.injEq] at hci
        subst hci
        simp only [lExec, Option.some.injEq] at hl
        subst hl
        have hrs : rs = false := by simpa [insOk1] using hok1
        exact ⟨_, rfl, rfl, hrs⟩
      | some v =>
        simp only [cgIns] at hci
        obtain ⟨c, hop, rfl⟩ := cg_ReturnSome_eq hci
        simp only [lExec, Option.some.injEq] at hl
        subst hl
        exact ⟨_, rfl, enc_operand hrel hop, True.intro⟩

theorem findBlock_cg : ∀ (bs : List (Nat × List LIns)) (cbs : List (Nat × List CIns)) (l : Nat) (ins : List LIns),
    cgBlocks bs = some cbs → findBlock bs l = some ins → ∃ cins, findBlock cbs l = some cins ∧ cgInss ins = some cins
  | [], _, _, _, _, hf => by simp [findBlock] at hf
  | (k, b) :: rest, cbs, l, ins, hcg, hf => by
    simp only [cgBlocks] at hcg
    split at hcg
    case h_2 => cases hcg
    rename_i c cs hc hcs
    simp only [Option.some.injEq] at hcg
    subst hcg
    simp only [findBlock, B.get_block] at hf ⊢
    split at hf
    · rename_i hk
      simp only [Option.some.injEq] at hf
      subst hf
      simp only [hk, if_true]
      exact ⟨c, rfl, hc⟩
    · rename_i hk
      simp only [hk, if_false]
      exact findBlock_cg rest cs l ins hcs hf

theorem sim_loop (rv : String → Bool) (rs : Bool)
    (callL : String → List Val → Option Val) (callC : String → List CVal → Option (Option CVal))
    (hcall : CallRel rv callL callC) (bs : List (Nat × List LIns)) (cbs : List (Nat × List CIns)) (hcg : cgBlocks bs = some cbs)
    (hok : blocksOk rv rs bs = true) :
    ∀ (k l : Nat) (σl : Store) (σc : CStore) (v : Val), Rel σl σc → lLoop callL bs k l σl = some v →
      ∃ r, cLoop callC cbs k l σc = some r ∧ RetRel v r ∧ (rs = true → r.isSome = true)
  | 0, _, _, _, _, _, h => by simp [lLoop] at h
  | k + 1, l, σl, σc, v, hrel, h => by
    simp only [lLoop] at h
    split at h
    case h_2 => cases h
    rename_i ins hfind
    obtain ⟨cins, hcf, hci⟩ := findBlock_cg bs cbs l ins hcg hfind
    split at h
    case h_3 => cases h
    · rename_i l' σ' hex
      obtain ⟨nx', hcx, hn, hno⟩ := sim_exec rv rs callL callC hcall ins cins σl σc _ hci (findBlock_ok bs l ins hok hfind) hrel hex
      cases nx' with
      | ret r => exact absurd hn (by simp [NextRel])
      | goto l'' σc' =>
        obtain ⟨rfl, hrel'⟩ := hn
        simp only [cLoop, hcf, hcx]
        exact sim_loop rv rs callL callC hcall bs cbs hcg hok k l' σ' σc' v hrel' h
    · rename_i w hex
      simp only [Option.some.injEq] at h
      subst h
      obtain ⟨nx', hcx, hn, hno⟩ := sim_exec rv rs callL callC hcall ins cins σl σc _ hci (findBlock_ok bs l ins hok hfind) hrel hex
      cases nx' with
      | goto l'' σc' => exact absurd hn (by simp [NextRel])
      | ret r =>
        simp only [cLoop, hcf, hcx]
        refine ⟨r, rfl, hn, ?_⟩
        cases r with
        | some c => exact fun _ => rfl
        | none =>
          have hno' : rs = false := hno
          intro h
          rw [hno'] at h
          cases h

theorem cBind_rel : ∀ (ps : List Name) (args : List Val) (cs : List CVal) (σl : Store),
    EncAll args cs → bindAll ps args = some σl → ∃ σc, cBind ps cs = some σc ∧ Rel σl σc
  | [], _, _, σl, he, hb => by
    cases he with
    | nil =>
      simp only [bindAll, Option.some.injEq] at hb
      subst hb
      exact ⟨_, rfl, fun _ => True.intro⟩
    | cons _ _ => simp [bindAll] at hb
  | p :: ps, _, _, σl, he, hb => by
    cases he with
    | nil => simp [bindAll] at hb
    | cons hv hrest =>
      rename_i v c vs cs
      simp only [bindAll] at hb
      cases hb' : bindAll ps vs with
      | none => simp [hb'] at hb
      | some σ0 =>
        simp only [hb', Option.map_some, Option.some.injEq] at hb
        subst hb
        obtain ⟨σc0, hc0, hr0⟩ := cBind_rel ps vs cs σ0 hrest hb'
        exact ⟨σc0.set p c, by simp only [cBind, hc0, Option.map_some], hr0.set p hv⟩

theorem find_cg : ∀ (L : List LFn) (C : List CFn) (f : String) (fn : LFn), cgProg L = some C →
    L.find? (fun g => g.name == f) = some fn → ∃ cfn, C.find? (fun g => g.name == f) = some cfn ∧ cgFn fn = some cfn
  | [], _, _, _, _, hf => by simp at hf
  | g :: rest, C, f, fn, hcg, hf => by
    simp only [cgProg] at hcg
    split at hcg
    case h_2 => cases hcg
    rename_i c cs hc hcs
    simp only [Option.some.injEq] at hcg
    subst hcg
    have hname : c.name = g.name := by
      simp only [cgFn] at hc
      cases hb : cgBlocks g.blocks with
      | none => simp [hb] at hc
      | some bs =>
        simp only [hb, Option.map_some, Option.some.injEq] at hc
        subst hc
        rfl
    simp only [List.find?] at hf ⊢
    rw [hname]
    split at hf
    · simp only [Option.some.injEq] at hf
      subst hf
      exact ⟨c, rfl, hc⟩
    · exact find_cg rest cs f fn hcs hf

/-- whole programs: a call that returns `w` in LIR returns the SSA value of `w` in the emitted code -/
theorem cg_sim (L : List LFn) (C : List CFn) (h : cgProg L = some C) (rv : String → Bool) (hok : progOk rv L = true) :
    ∀ n, CallRel rv (lRun L n) (cRun C n)
  | 0 => by intro f args cs w _ hl; simp [lRun] at hl
  | n + 1 => by
    intro f args cs w henc hl
    simp only [lRun] at hl
    split at hl
    case h_2 => cases hl
    rename_i fn hfind
    obtain ⟨cfn, hcfind, hcfn⟩ := find_cg L C f fn h hfind
    simp only [cgFn] at hcfn
    cases hb : cgBlocks fn.blocks with
    | none => simp [hb] at hcfn
    | some cbs =>
      simp only [hb, Option.map_some, Option.some.injEq] at hcfn
      subst hcfn
      split at hl
      case h_2 => cases hl
      rename_i σl l0 ins0 rest hbind hblocks
      obtain ⟨σc, hcb, hrel⟩ := cBind_rel fn.params args cs σl henc hbind
      have hentry : ∃ ci cr, cbs = (l0, ci) :: cr := by
        rw [hblocks] at hb
        simp only [cgBlocks] at hb
        split at hb
        case h_2 => cases hb
        simp only [Option.some.injEq] at hb
        exact ⟨_, _, hb.symm⟩
      obtain ⟨ci, cr, hcbs⟩ := hentry
      simp only [cRun, hcfind, hcb, hcbs]
      rw [← hcbs]
      have hmem : fn ∈ L := List.mem_of_find?_eq_some hfind
      have hbeq := List.find?_some hfind
      have hname : fn.name = f := eq_of_beq hbeq
      have hokf : blocksOk rv (rv f) fn.blocks = true := by
        have := List.all_eq_true.mp hok fn hmem
        rw [hname] at this
        exact this
      exact sim_loop rv (rv f) (lRun L n) (cRun C n) (cg_sim L C h rv hok n) fn.blocks cbs hb hokf n l0 σl σc w hrel hl

end

end RotoV.C01CgSim
