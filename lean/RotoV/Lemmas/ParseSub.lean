/-
  Spans inside spans (property C06): the location of an escape error is
  computed by the parser from the token's span and a range the escaper reports
  RELATIVE to the text it was given (`span.start + 1 + range.start` for a string
  literal, `span.start + piece_start + range.start` for a piece of an f-string
  text). If that range lies inside that text on character boundaries, the
  absolute location lies inside the source on character boundaries.
-/
import RotoV.Lemmas.ParseLexText
import RotoV.Lemmas.ParseFText

namespace RotoV.Parse
open RotoV RotoV.Lex

/-- the text between two byte offsets of a decomposition -/
theorem textOf_decomp {src a m b : List Char} {sp : Span} (h : src = a ++ m ++ b) (h1 : sp.1 = blen a)
    (h2 : sp.2 = blen a + blen m) : textOf src sp = m := by
  unfold textOf
  have e : sp.2 - sp.1 = blen m := by omega
  rw [e, h1, h, List.append_assoc, dropBytes_append, takeBytes_append]

/-- a span of the source designates a segment of it -/
theorem textOf_of_spanOk {src : List Char} {sp : Span} (h : SpanOk src sp) :
    ∃ pre post, src = pre ++ textOf src sp ++ post ∧ blen pre = sp.1 ∧ sp.1 + blen (textOf src sp) = sp.2 := by
  obtain ⟨hle, ⟨p1, q1, h1, hb1⟩, ⟨p2, q2, h2, hb2⟩⟩ := h
  obtain ⟨m, rfl⟩ := prefix_of_blen_le (h1.symm.trans h2) (by omega)
  have hm : blen m = sp.2 - sp.1 := by rw [blen_append] at hb2; omega
  have hsrc : src = p1 ++ m ++ q2 := by rw [h2]
  have ht : textOf src sp = m := textOf_decomp hsrc hb1.symm (by omega)
  rw [ht]
  exact ⟨p1, q2, hsrc, hb1, by omega⟩

theorem isBoundary_le {t : List Char} {n : Nat} (h : IsBoundary t n) : n ≤ blen t := by
  obtain ⟨pre, post, hp, hb⟩ := h
  rw [hp, blen_append]; omega

/-- a span of a segment is a span of the source -/
theorem spanOk_in {src : List Char} {sp ab : Span} (h : SpanOk src sp) (h2 : SpanOk (textOf src sp) ab) :
    SpanOk src (sp.1 + ab.1, sp.1 + ab.2) := by
  obtain ⟨pre, post, hsrc, hpre, _⟩ := textOf_of_spanOk h
  obtain ⟨hle, ⟨t1, t2, ht, hb1⟩, ⟨u1, u2, hu, hb2⟩⟩ := h2
  refine ⟨by show sp.1 + ab.1 ≤ sp.1 + ab.2; omega, ⟨pre ++ t1, t2 ++ post, ?_, ?_⟩, ⟨pre ++ u1, u2 ++ post, ?_, ?_⟩⟩
  · conv => lhs; rw [hsrc, ht]
    simp
  · rw [blen_append]; show blen pre + blen t1 = sp.1 + ab.1; omega
  · conv => lhs; rw [hsrc, hu]
    simp
  · rw [blen_append]; show blen pre + blen u1 = sp.1 + ab.2; omega

/-- the text of a span of a segment -/
theorem textOf_textOf {src : List Char} {sp pq : Span} (h : SpanOk src sp) (h2 : SpanOk (textOf src sp) pq) :
    textOf (textOf src sp) pq = textOf src (sp.1 + pq.1, sp.1 + pq.2) := by
  obtain ⟨pre, post, hsrc, hpre, _⟩ := textOf_of_spanOk h
  obtain ⟨pre', post', ht, hpre', hlen'⟩ := textOf_of_spanOk h2
  symm
  refine textOf_decomp (a := pre ++ pre') (b := post' ++ post) ?_ ?_ ?_
  · conv => lhs; rw [hsrc, ht]
    simp
  · rw [blen_append]; show sp.1 + pq.1 = blen pre + blen pre'; omega
  · rw [blen_append]; show sp.1 + pq.2 = blen pre + blen pre' + _; omega

/-- two levels: a span of a segment of a segment -/
theorem spanOk_in2 {src : List Char} {sp pq ab : Span} (h : SpanOk src sp) (h2 : SpanOk (textOf src sp) pq)
    (h3 : SpanOk (textOf (textOf src sp) pq) ab) : SpanOk src (sp.1 + pq.1 + ab.1, sp.1 + pq.1 + ab.2) := by
  rw [textOf_textOf h h2] at h3
  exact spanOk_in (spanOk_in h h2) h3

/-- the content of a quoted token (`&s[1..s.len() - 1]`) is a span of its text -/
theorem content_spanOk {q : Char} (hq : sz q = 1) (m : List Char) :
    SpanOk (q :: (m ++ [q])) (1, blen (q :: (m ++ [q])) - 1) := by
  have hb : blen (q :: (m ++ [q])) = 1 + blen m + 1 := by simp only [blen, blen_append, hq]; omega
  refine ⟨by show 1 ≤ _; omega, ⟨[q], m ++ [q], rfl, by simp [blen, hq]⟩, ⟨q :: m, [q], by simp, ?_⟩⟩
  show blen (q :: m) = blen (q :: (m ++ [q])) - 1
  rw [hb]; simp only [blen, hq]; omega

/-- everything after the opening quote, closing quote included -/
theorem afterQuote_spanOk {q : Char} (hq : sz q = 1) (m : List Char) :
    SpanOk (q :: (m ++ [q])) (1, blen (q :: (m ++ [q]))) := by
  have hb : blen (q :: (m ++ [q])) = 1 + blen m + 1 := by simp only [blen, blen_append, hq]; omega
  exact ⟨by show 1 ≤ _; omega, ⟨[q], m ++ [q], rfl, by simp [blen, hq]⟩, ⟨q :: (m ++ [q]), [], by simp, rfl⟩⟩

/-- every piece of an f-string text is a span of it -/
theorem pieceOf_spanOk (t : List Char) (j : Nat) : SpanOk t (pieceOf t j) := by
  obtain ⟨h1, h2⟩ := uScan_ok t t.length .normal 0 0 t [] [] (Nat.le_refl _) rfl rfl
    ⟨[], t, rfl, rfl⟩ (Nat.le_refl _) (by simp)
  have hall : ∀ r ∈ pieces t, SpanOk t r := by
    intro r hr
    simp only [pieces, List.mem_append, List.mem_singleton] at hr
    rcases hr with hr | rfl
    · exact h1 r hr
    · exact ⟨isBoundary_le h2, h2, ⟨t, [], by simp, rfl⟩⟩
  have hdef : SpanOk t (0, blen t) := ⟨Nat.zero_le _, ⟨[], t, rfl, rfl⟩, ⟨t, [], by simp, rfl⟩⟩
  unfold pieceOf
  rw [List.getD_eq_getElem?_getD]
  cases hget : (pieces t)[j]? with
  | none => exact hdef
  | some r => exact hall r (List.mem_of_getElem? hget)

end RotoV.Parse
