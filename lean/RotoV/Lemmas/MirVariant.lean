/-
  Soundness of the variant checker `varCheck` (RotoV/Model/MirVariant.lean):
  the known-variant facts are an invariant of the concrete token semantics.
-/
import RotoV.Model.MirVariant

namespace RotoV.Mir

/-- the facts `a` hold in `c`: a whole value in `x` has the recorded variant
    (or a variant number beyond the type's variants, which stands for no value) -/
def Rk (it : Item) (a : VState) (c : CState) : Prop :=
  ∀ x k, vget a x = some k → ∀ t k', cget c x = .whole t k' → k' = k ∨ it.nVar x ≤ k'

/-- only the variables in `ws` may have changed -/
def Frame (ws : List Nat) (c c' : CState) : Prop :=
  ∀ x, x ∉ ws → cget c' x = cget c x

theorem Frame.refl (ws : List Nat) (c : CState) : Frame ws c c := fun _ _ => rfl

theorem Frame.trans {ws : List Nat} {c c' c'' : CState} (h1 : Frame ws c c') (h2 : Frame ws c' c'') :
    Frame ws c c'' := fun x hx => (h2 x hx).trans (h1 x hx)

theorem Frame.mono {ws ws' : List Nat} {c c' : CState} (h : Frame ws c c')
    (hs : ∀ x, x ∈ ws → x ∈ ws') : Frame ws' c c' :=
  fun x hx => h x (fun hm => hx (hs x hm))

theorem Frame.of_vs {ws : List Nat} {c c' : CState} (h : c'.vs = c.vs) : Frame ws c c' :=
  fun x _ => by simp [cget, h]

theorem cset_frame {c c' : CState} {v : Nat} {s : CSt} (h : cset c v s = .ok c') :
    Frame [v] c c' := by
  unfold cset at h
  split at h
  · injection h with h; subst h
    intro x hx
    have hne : ¬ v = x := fun e => hx (by simp [e])
    simp [cget, List.getD_eq_getElem?_getD, hne]
  · cases h

theorem cTake_frame {it : Item} {c c' : CState} {v ty : Nat} {t : Option Nat} {k : Nat}
    (h : cTake it c v ty = .ok (c', t, k)) : Frame [v] c c' := by
  unfold cTake at h
  simp only [bind, Except.bind] at h
  split at h
  · cases h
  · split at h
    · cases h
    · split at h
      · split at h
        · cases h
        · rename_i c1 hc1
          simp only [Except.ok.injEq, Prod.mk.injEq] at h
          obtain ⟨h1, _, _⟩ := h
          subst h1
          exact cset_frame hc1
      · cases h

theorem cArgs_frame {it : Item} :
    ∀ {args : List (Nat × Nat)} {c c' : CState}, cArgs it c args = .ok c' →
      Frame (args.map (·.1)) c c'
  | [], c, c', h => by
    simp only [cArgs] at h; injection h with h; subst h
    exact Frame.refl _ _
  | (v, pty) :: rest, c, c', h => by
    simp only [cArgs, bind, Except.bind] at h
    split at h
    · cases h
    · split at h
      · split at h
        · cases h
        · rename_i r hr
          obtain ⟨c1, t, k⟩ := r
          have f1 := cTake_frame hr
          have f2 := cArgs_frame h
          exact Frame.trans (f1.mono (fun x hx => by simp at hx; simp [hx])) (f2.mono (fun x hx => List.mem_cons_of_mem _ hx))
      · exact (cArgs_frame h).mono (fun x hx => List.mem_cons_of_mem _ hx)

theorem cFresh_vs (it : Item) (c : CState) (ty k : Nat) : (cFresh it c ty k).1.vs = c.vs := by
  unfold cFresh
  split <;> rfl

theorem fresh_vs {it : Item} {c c1 : CState} {ty k0 : Nat} {t : Option Nat} {k : Nat}
    (h : cFresh it c ty k0 = (c1, t, k)) : c1.vs = c.vs := by
  have := cFresh_vs it c ty k0
  rw [h] at this
  exact this

/-- the variables the evaluation of a right-hand side may change -/
def srcWrites : Val → List Nat
  | .move w => [w]
  | .call args => args.map (·.1)
  | _ => []

theorem cSource_frame {it : Item} {ω : Oracle} {c c1 : CState} {ty : Nat} {ndt : Bool} {v : Val}
    {t : Option Nat} {k : Nat} (h : cSource it ω c ty ndt v = .ok (c1, t, k)) :
    Frame (srcWrites v) c c1 := by
  cases v with
  | lit =>
    simp only [cSource] at h
    injection h with h
    cases ndt
    · simp only [Bool.false_eq_true, if_false, Prod.mk.injEq] at h
      obtain ⟨h, _, _⟩ := h; subst h; exact Frame.refl _ _
    · simp only [if_true] at h
      exact Frame.of_vs (fresh_vs h)
  | global =>
    simp only [cSource] at h
    injection h with h
    cases ndt
    · simp only [Bool.false_eq_true, if_false, Prod.mk.injEq] at h
      obtain ⟨h, _, _⟩ := h; subst h; exact Frame.refl _ _
    · simp only [if_true] at h
      exact Frame.of_vs (fresh_vs h)
  | clone p =>
    cases ndt
    · simp only [cSource, Bool.false_eq_true, if_false] at h
      injection h with h
      simp only [Prod.mk.injEq] at h
      obtain ⟨h, _, _⟩ := h; subst h; exact Frame.refl _ _
    · simp only [cSource, if_true, bind, Except.bind] at h
      split at h
      · cases h
      · split at h
        · split at h
          · injection h with h
            exact Frame.of_vs (fresh_vs h)
          · cases h
        · cases h
  | move w =>
    cases ndt
    · simp only [cSource, Bool.false_eq_true, if_false] at h
      injection h with h
      simp only [Prod.mk.injEq] at h
      obtain ⟨h, _, _⟩ := h; subst h; exact Frame.refl _ _
    · simp only [cSource, if_true] at h
      exact cTake_frame h
  | read vs =>
    cases ndt
    · simp only [cSource, Bool.false_eq_true, if_false, bind, Except.bind] at h
      split at h
      · cases h
      · injection h with h
        simp only [Prod.mk.injEq] at h
        obtain ⟨h, _, _⟩ := h; subst h; exact Frame.refl _ _
    · simp [cSource] at h
  | disc x =>
    cases ndt
    · simp only [cSource, Bool.false_eq_true, if_false, bind, Except.bind] at h
      split at h
      · cases h
      · injection h with h
        simp only [Prod.mk.injEq] at h
        obtain ⟨h, _, _⟩ := h; subst h; exact Frame.refl _ _
    · simp [cSource] at h
  | call args =>
    simp only [cSource, bind, Except.bind] at h
    split at h
    · cases h
    · rename_i c' hc'
      have f1 := cArgs_frame hc'
      injection h with h
      cases ndt
      · simp only [Bool.false_eq_true, if_false, Prod.mk.injEq] at h
        obtain ⟨h, _, _⟩ := h; subst h; exact f1
      · simp only [if_true] at h
        exact Frame.trans f1 (Frame.of_vs (fresh_vs h))

theorem cChild_frame {it : Item} {c c' : CState} {v : Nat} {d : Option Nat}
    {fs : List (Nat × Option Nat)} {i : Nat} {t : Option Nat}
    (h : cChild it c v d fs i t = .ok c') : Frame [v] c c' := by
  unfold cChild at h
  simp only [bind, Except.bind] at h
  split at h
  · cases h
  · split at h
    · cases h
    · split at h
      · split at h
        · exact (cset_frame (c := { c with next := c.next + 1 }) h)
        · exact cset_frame h
      · cases h

theorem cWrite_frame {it : Item} {c c' : CState} {to : Place} {ty : Nat} {t : Option Nat} {k : Nat}
    (h : cWrite it c to ty t k = .ok c') : Frame [to.var] c c' := by
  unfold cWrite at h
  split at h
  · simp only [bind, Except.bind] at h
    split at h
    · cases h
    · split at h
      · cases h
      · split at h
        · cases h
        · exact cset_frame h
  · simp only [bind, Except.bind] at h
    split at h
    · cases h
    · split at h
      · cases h
      · split at h
        · split at h
          · exact cset_frame h
          · cases h
        all_goals first | exact cChild_frame h | cases h | skip
        · split at h
          · exact cChild_frame h
          · cases h
  · simp only [bind, Except.bind] at h
    split at h
    · cases h
    · split at h
      · cases h
      · split at h
        · split at h
          · exact cset_frame h
          · cases h
        · cases h

theorem writes_assign (to : Place) (ty : Nat) (v : Val) :
    ∀ x, x ∈ to.var :: srcWrites v → x ∈ writes (.assign to ty v) := by
  intro x hx
  cases v <;> simpa [writes, srcWrites] using hx

theorem Frame.tick {ws : List Nat} {c c' : CState} (h : Frame ws c c') : Frame ws c (tick c') :=
  fun x hx => h x hx

theorem Frame.sc {ws : List Nat} {c c' : CState} (h : Frame ws c c') (sc : List (Nat × Nat)) :
    Frame ws c (RotoV.Mir.tick { c' with sc := sc }) :=
  fun x hx => h x hx

theorem cInstr_frame {it : Item} {ω : Oracle} {c c' : CState} {i : Instr}
    (h : cInstr it ω c i = .ok c') : Frame (writes i) c c' := by
  cases i with
  | assign to ty v =>
    simp only [cInstr, bind, Except.bind] at h
    split at h
    · cases h
    · split at h
      · cases h
      · rename_i r hr
        obtain ⟨c1, t, k⟩ := r
        have f1 : Frame (writes (.assign to ty v)) c c1 :=
          (cSource_frame hr).mono (fun x hx => writes_assign to ty v x (List.mem_cons_of_mem _ hx))
        simp only at h
        split at h
        · split at h
          · cases h
          · rename_i c2 hc2
            injection h with h; subst h
            have f2 : Frame (writes (.assign to ty v)) c1 c2 :=
              (cWrite_frame hc2).mono (fun x hx => writes_assign to ty v x (by simp at hx; simp [hx]))
            exact (f1.trans f2).tick
        · split at h
          · split at h
            · cases h
            · split at h
              · cases h
              · split at h
                · split at h <;> (injection h with h; subst h; exact f1.sc _)
                all_goals (injection h with h; subst h; exact f1.sc _)
          · injection h with h; subst h; exact f1.tick
  | setDisc v ty k =>
    simp only [cInstr, bind, Except.bind] at h
    split at h
    · cases h
    · split at h
      · split at h
        · cases h
        · split at h
          · cases h
          · split at h
            · cases h
            · split at h
              · cases h
              · split at h <;> split at h
                all_goals first
                  | (rename_i c3 hc3
                     injection h with h; subst h
                     exact Frame.tick (by simpa [writes] using cset_frame hc3))
                  | cases h
      · injection h with h; subst h; exact (Frame.refl _ _).tick
  | drop p ty =>
    simp only [cInstr, bind, Except.bind] at h
    split at h
    · cases h
    · split at h
      · split at h
        · split at h
          · cases h
          · split at h
            · cases h
            · split at h
              · split at h
                · cases h
                · rename_i c2 hc2
                  injection h with h; subst h
                  exact Frame.tick (by simpa [writes] using cset_frame hc2)
              · cases h
        · split at h
          · cases h
          · split at h
            · split at h
              · split at h
                · cases h
                · rename_i c2 hc2
                  injection h with h; subst h
                  exact Frame.tick (by simpa [writes] using cset_frame hc2)
              · cases h
            · cases h
      · injection h with h; subst h; exact (Frame.refl _ _).tick

/-! ### the facts are an invariant -/

theorem vget_set_none {a : VState} {y x k : Nat} (h : vget (a.set y none) x = some k) :
    x ≠ y ∧ vget a x = some k := by
  simp only [vget, List.getD_eq_getElem?_getD, List.getElem?_set] at h ⊢
  by_cases hxy : y = x
  · subst hxy
    by_cases hl : y < a.length <;> simp [hl] at h
  · simp only [hxy, if_false] at h
    exact ⟨fun e => hxy e.symm, h⟩

theorem vget_vkills : ∀ {ws : List Nat} {a : VState} {x k : Nat},
    vget (vkills a ws) x = some k → x ∉ ws ∧ vget a x = some k
  | [], a, x, k, h => ⟨by simp, h⟩
  | y :: ys, a, x, k, h => by
    simp only [vkills] at h
    obtain ⟨h1, h2⟩ := vget_vkills h
    obtain ⟨h3, h4⟩ := vget_set_none h2
    exact ⟨by simp [h1, h3], h4⟩

theorem Rk_frame {it : Item} {a : VState} {c c' : CState} {ws : List Nat}
    (h : Rk it a c) (hf : Frame ws c c') : Rk it (vkills a ws) c' := by
  intro x k hx t k' hc'
  obtain ⟨hnot, hax⟩ := vget_vkills hx
  rw [hf x hnot] at hc'
  exact h x k hax t k' hc'

theorem vinstr_sim {it : Item} {ω : Oracle} {a a' : VState} {c : CState} {i : Instr}
    (h : Rk it a c) (ha : vInstr it a i = some a') :
    wrongRead it c i = false ∧ ∀ c', cInstr it ω c i = .ok c' → Rk it a' c' := by
  unfold vInstr at ha
  split at ha
  · cases ha
  unfold wrongRead
  cases hvr : variantRead it i with
  | none =>
    simp only [hvr] at ha ⊢
    injection ha with ha; subst ha
    exact ⟨trivial, fun c' hc' => Rk_frame h (cInstr_frame hc')⟩
  | some p =>
    obtain ⟨x, v⟩ := p
    simp only [hvr] at ha ⊢
    split at ha
    · rename_i hfact
      injection ha with ha; subst ha
      refine ⟨?_, fun c' hc' => Rk_frame h (cInstr_frame hc')⟩
      cases hcx : cget c x with
      | whole t k =>
        simp only
        rcases h x v hfact t k hcx with hk | hk
        · simp [hk]
        · have : ¬ k < it.nVar x := Nat.not_lt.mpr hk
          simp [this]
      | _ => rfl
    · cases ha

theorem vrun_sim {it : Item} {ω : Oracle} :
    ∀ (is : List Instr) {a a1 : VState} {c : CState}, Rk it a c → vRun it a is = some a1 →
      wrongInRun it ω c is = false ∧ ∀ c1, cRun it ω c is = .ok c1 → Rk it a1 c1
  | [], a, a1, c, h, ha => by
    simp only [vRun] at ha; injection ha with ha; subst ha
    refine ⟨rfl, fun c1 hc1 => ?_⟩
    simp only [cRun] at hc1; injection hc1 with hc1; subst hc1; exact h
  | i :: is, a, a1, c, h, ha => by
    simp only [vRun] at ha
    split at ha
    · rename_i a' ha'
      obtain ⟨hw, hstep⟩ := vinstr_sim (ω := ω) h ha'
      simp only [wrongInRun, hw, Bool.false_or, cRun, bind, Except.bind]
      cases hc : cInstr it ω c i with
      | error e => exact ⟨rfl, fun c1 hc1 => by cases hc1⟩
      | ok c' =>
        obtain ⟨g1, g2⟩ := vrun_sim (ω := ω) is (hstep c' hc) ha
        exact ⟨g1, g2⟩
    · cases ha

theorem discOf_cons' {i j : Instr} {is : List Instr} {d : Nat} :
    discOf (i :: j :: is) d = discOf (j :: is) d := by
  simp [discOf, List.getLast?_cons_cons]

theorem cRun_disc {it : Item} {ω : Oracle} :
    ∀ (is : List Instr) {c c1 : CState} {d x : Nat}, cRun it ω c is = .ok c1 →
      discOf is d = some x → it.tracked x = .ok true →
      ∃ t k, cget c1 x = .whole t k ∧ scGet c1.sc d = some k
  | [], c, c1, d, x, _, hd, _ => by simp [discOf] at hd
  | [i], c, c1, d, x, h, hd, htr => by
    simp only [discOf, List.getLast?_singleton] at hd
    split at hd
    · rename_i d' ty x' heq
      injection heq with heq; subst heq
      by_cases hdd : d' = d
      · subst hdd
        simp only [if_true] at hd
        injection hd with hd; subst hd
        simp only [cRun, cInstr, cSource, cRead, htr, bind, Except.bind] at h
        cases hnd : it.nd ty with
        | error e => simp [hnd] at h
        | ok b =>
          cases b with
          | true => simp [hnd] at h
          | false =>
            cases hcx : cget c x' with
            | whole t k =>
              cases htd : it.tracked d' with
              | error e => simp [hnd, hcx, htd] at h
              | ok bd =>
                cases bd with
                | true => simp [hnd, hcx, htd] at h
                | false =>
                  simp [hnd, hcx, htd] at h
                  subst h
                  exact ⟨t, k, by simpa [cget, tick] using hcx, by simp [scGet, tick]⟩
            | _ => simp [hnd, hcx, useErrC] at h
      · simp [hdd] at hd
    · cases hd
  | i :: j :: is, c, c1, d, x, h, hd, htr => by
    simp only [cRun, bind, Except.bind] at h
    split at h
    · cases h
    · rename_i c' hc'
      have h2 : cRun it ω c' (j :: is) = .ok c1 := by simpa [cRun, bind, Except.bind] using h
      exact cRun_disc (j :: is) h2 (discOf_cons' ▸ hd) htr

/-! ### edges -/

theorem vleA_spec {a a' : VState} (h : vleA a a' = true) :
    ∀ x k, vget a' x = some k → vget a x = some k := by
  intro x k hx
  by_cases hlt : x < a'.length
  · simp only [vleA, List.all_eq_true, List.mem_range] at h
    have := h x hlt
    simp only [hx, Bool.or_eq_true, beq_iff_eq] at this
    rcases this with h1 | h1
    · cases h1
    · exact h1
  · simp [vget, List.getD_eq_getElem?_getD, List.getElem?_eq_none (Nat.le_of_not_lt hlt)] at hx

theorem Rk_weaken {it : Item} {a a' : VState} {c : CState} (hle : vleA a a' = true)
    (h : Rk it a c) : Rk it a' c :=
  fun x k hx => h x k (vleA_spec hle x k hx)

theorem Rk_tick {it : Item} {a : VState} {c : CState} (h : Rk it a c) : Rk it a (tick c) :=
  fun x k hx t k' hc => h x k hx t k' hc

/-- the certified facts at `l` hold in `c` -/
def VInv (it : Item) (cert : VCert) (l : Nat) (c : CState) : Prop :=
  ∃ a, vcertAt cert l = some a ∧ Rk it a c

theorem vedge_sim {it : Item} {cert : VCert} {a : VState} {l : Nat} {c : CState}
    (he : vedgeOk cert a l = true) (h : Rk it a c) : VInv it cert l c := by
  unfold vedgeOk at he
  cases hc : vcertAt cert l with
  | none => simp [hc] at he
  | some a' => simp only [hc] at he; exact ⟨a', hc, Rk_weaken he h⟩

theorem vget_set {a : VState} {x y : Nat} {s : Option Nat} :
    vget (a.set x s) y = if y = x ∧ x < a.length then s else vget a y := by
  simp only [vget, List.getD_eq_getElem?_getD, List.getElem?_set]
  by_cases hxy : x = y
  · subst hxy
    by_cases hl : x < a.length <;> simp [hl]
  · have : ¬ y = x := fun e => hxy e.symm
    simp [hxy, this]

theorem allListed_spec {it : Item} {x : Nat} {brs : List (Nat × Nat)} {k : Nat}
    (h : allListed it x brs = true) (hk : (brs.map (·.1)).contains k = false) : it.nVar x ≤ k := by
  apply Nat.le_of_not_lt
  intro hlt
  simp only [allListed, List.all_eq_true, List.mem_range] at h
  have := h k hlt
  rw [hk] at this
  cases this

theorem vbranch_sim {it : Item} {a : VState} {c1 : CState} {is : List Instr} {d : Nat}
    {brs : List (Nat × Nat)} {dflt : Option Nat} {p : Nat} (h : Rk it a c1)
    (hd : ∀ x, discOf is d = some x → it.tracked x = .ok true →
      ∃ t k, cget c1 x = .whole t k ∧ scGet c1.sc d = some k)
    (hk : ∀ k, scGet c1.sc d = some k →
      k = p ∨ (dflt = none ∧ (brs.map (·.1)).contains k = false)) :
    Rk it (vBranch it a is d brs dflt p) c1 := by
  unfold vBranch
  split
  · rename_i x hx
    split
    · rename_i htr
      split
      · rename_i hcond
        intro y k hy t k' hcy
        rw [vget_set] at hy
        split at hy
        · rename_i hyx
          obtain ⟨hyx, _⟩ := hyx
          subst hyx
          injection hy with hy; subst hy
          obtain ⟨t0, k0, hc0, hsc0⟩ := hd y hx htr
          rw [hc0] at hcy
          injection hcy with _ hkk; subst hkk
          rcases hk k0 hsc0 with h1 | ⟨h1, h2⟩
          · exact Or.inl h1
          · right
            subst h1
            simp only [Option.isSome_none, Bool.false_or] at hcond
            exact allListed_spec hcond h2
        · exact h y k hy t k' hcy
      · exact h
    · exact h
  · exact h

/-! ### one block, and the invariant -/

theorem vstep_sound {it : Item} {cert : VCert} {ω : Oracle} {l : Nat} {c : CState}
    (hchk : varCheck it cert = true) (hinv : VInv it cert l c) :
    wrongInBlock it ω l c = false ∧
    ∀ l' c', stepBlock it ω l c = .running l' c' → VInv it cert l' c' := by
  obtain ⟨a, hcert, hR⟩ := hinv
  simp only [varCheck, Bool.and_eq_true, List.all_eq_true] at hchk
  unfold wrongInBlock stepBlock
  cases hb : it.findBlock l with
  | none => exact ⟨rfl, fun l' c' h => by cases h⟩
  | some b =>
    simp only
    have hmem : b ∈ it.blocks := List.mem_of_find?_eq_some hb
    have hlbl : b.label = l := by
      have := List.find?_some hb
      simpa using this
    have hcb := hchk.2 b hmem
    unfold vcheckBlock at hcb
    rw [hlbl, hcert] at hcb
    simp only at hcb
    cases hrun : vRun it a b.instrs with
    | none => simp [hrun] at hcb
    | some a1 =>
      simp only [hrun] at hcb
      obtain ⟨hw, hrk⟩ := vrun_sim (ω := ω) b.instrs hR hrun
      refine ⟨hw, fun l' c' hstep => ?_⟩
      cases hc1 : cRun it ω c b.instrs with
      | error e => simp [hc1] at hstep
      | ok c1 =>
        simp only [hc1] at hstep
        have hR1 := hrk c1 hc1
        have hRt : Rk it a1 (tick c1) := Rk_tick hR1
        have hd1 := fun d x => cRun_disc (ω := ω) b.instrs (d := d) (x := x) hc1
        unfold vcheckTerm at hcb
        cases ht : b.term with
        | jump l1 =>
          simp only [ht] at hcb hstep
          simp only [cTerm] at hstep
          injection hstep with h1 h2; subst h1; subst h2
          exact vedge_sim hcb hRt
        | ret v =>
          simp only [ht, cTerm] at hstep
          split at hstep <;> cases hstep
        | switch d brs dflt =>
          simp only [ht, Bool.and_eq_true, List.all_eq_true] at hcb
          obtain ⟨hbrs, hdf⟩ := hcb
          simp only [ht, cTerm] at hstep
          have branch : ∀ p, p ∈ brs →
              (∀ k, scGet c1.sc d = some k →
                k = p.1 ∨ (dflt = none ∧ (brs.map (·.1)).contains k = false)) →
              VInv it cert p.2 (tick c1) := by
            intro p hp hk
            have := vbranch_sim (is := b.instrs) (d := d) (brs := brs) (dflt := dflt) (p := p.1) hR1
              (fun x hx htr => hd1 d x hx htr) hk
            exact vedge_sim (hbrs p hp) (Rk_tick this)
          have dfl : ∀ l1, dflt = some l1 → VInv it cert l1 (tick c1) := by
            intro l1 hl1
            subst hl1
            simp only at hdf
            exact vedge_sim hdf hRt
          cases htd : it.tracked d with
          | error e => simp [htd] at hstep
          | ok bd =>
            cases bd with
            | true => simp [htd] at hstep
            | false =>
              simp only [htd] at hstep
              cases hsc : scGet c1.sc d with
              | some k =>
                simp only [hsc, switchTarget] at hstep
                cases hf : brs.find? (fun p => p.1 = k) with
                | some p =>
                  simp only [hf] at hstep
                  injection hstep with h1 h2; subst h1; subst h2
                  have hpk : p.1 = k := by
                    have := List.find?_some hf
                    simpa using this
                  exact branch p (List.mem_of_find?_eq_some hf)
                    (fun k' hk' => by rw [hsc] at hk'; injection hk' with hk'; subst hk'; exact Or.inl hpk.symm)
                | none =>
                  simp only [hf, defaultTarget] at hstep
                  have hnot : (brs.map (·.1)).contains k = false := by
                    rw [List.find?_eq_none] at hf
                    simp only [List.contains_eq_mem, List.mem_map, decide_eq_false_iff_not]
                    rintro ⟨p, hp, hpk⟩
                    exact hf p hp (by simpa using hpk)
                  cases hdd : dflt with
                  | some l1 =>
                    simp only [hdd] at hstep
                    injection hstep with h1 h2; subst h1; subst h2
                    exact dfl l1 hdd
                  | none =>
                    simp only [hdd] at hstep
                    cases hgl : brs.getLast? with
                    | none => simp [hgl] at hstep
                    | some p =>
                      simp only [hgl, Option.map_some] at hstep
                      injection hstep with h1 h2; subst h1; subst h2
                      exact branch p (List.mem_of_getLast? hgl)
                        (fun k' hk' => by
                          rw [hsc] at hk'; injection hk' with hk'; subst hk'
                          exact Or.inr ⟨hdd, hnot⟩)
              | none =>
                simp only [hsc] at hstep
                generalize hidx : ω c1.clk % (switchTargets brs dflt).length = idx at hstep
                cases hget : (switchTargets brs dflt)[idx]? with
                | none => simp [hget] at hstep
                | some l1 =>
                  simp only [hget] at hstep
                  injection hstep with h1 h2; subst h1; subst h2
                  have hmem' : l1 ∈ switchTargets brs dflt := List.mem_of_getElem? hget
                  simp only [switchTargets, List.mem_append, List.mem_map, Option.mem_toList] at hmem'
                  rcases hmem' with ⟨p, hp, hpl⟩ | hdl
                  · subst hpl
                    exact branch p hp (fun k hk => by rw [hsc] at hk; cases hk)
                  · exact dfl l1 (by simpa using hdl)

theorem Rk_init (it : Item) (c : CState) : Rk it (initV it) c := by
  intro x k hx
  simp [initV, vget, List.getD_eq_getElem?_getD, List.getElem?_replicate] at hx
  split at hx <;> simp at hx

theorem vrun_sound {it : Item} {cert : VCert} {ω : Oracle} (hchk : varCheck it cert = true) :
    ∀ (n l : Nat) (c : CState), VInv it cert l c → wrongWithin it ω n l c = false
  | 0, _, _, _ => rfl
  | n + 1, l, c, hinv => by
    obtain ⟨h1, h2⟩ := vstep_sound (ω := ω) hchk hinv
    simp only [wrongWithin, h1, Bool.false_or]
    cases hs : stepBlock it ω l c with
    | running l' c' => exact vrun_sound hchk n l' c' (h2 l' c' hs)
    | done _ _ => rfl
    | fail _ => rfl

end RotoV.Mir
