/-
  Lemmas about the evaluator's generated accessors (`Generated/EvalArms`, from
  src/lir/value.rs: `as_u64`, `as_i64`, `as_f64`, `PartialEq for IrValue`), used by
  C20 only: when an accessor succeeds, which JIT operand the value is and how the
  returned number relates to the JIT's bits.
-/
import RotoV.Lemmas.Scalar
import RotoV.Generated.EvalArms

namespace RotoV
open RotoV.Gen RotoV.Gen.OpTables RotoV.Gen.EvalArms

/-- An integer-like JIT operand: CLIF type, width, bit pattern. -/
structure IntView (v : IrValue) where
  ty : CTy
  w : Nat
  hw : ty.bits = w
  hf : ty.isFloat = false
  x : BitVec w
  repr : jitRepr v = some (CVal.ofBv ty x)

/-- `as_u64` succeeds only on unsigned tags and returns the zero-extension of the JIT's bits. -/
theorem as_u64_ok {dbg : Bool} {v : IrValue} {u : U64} (h : IrValue.as_u64 dbg v = .ok u) :
    ∃ iv : IntView v, u.val = iv.x.toNat := by
  cases v <;> simp [IrValue.as_u64, RCast.cast] at h <;> subst h
  case U8 x => exact ⟨⟨.I8, 8, rfl, rfl, x.bv, jitRepr_U8 x⟩, by rw [RInt.val_cast_u64 (by decide)]; simp [RInt.val]⟩
  case U16 x => exact ⟨⟨.I16, 16, rfl, rfl, x.bv, jitRepr_U16 x⟩, by rw [RInt.val_cast_u64 (by decide)]; simp [RInt.val]⟩
  case U32 x => exact ⟨⟨.I32, 32, rfl, rfl, x.bv, jitRepr_U32 x⟩, by rw [RInt.val_cast_u64 (by decide)]; simp [RInt.val]⟩
  case U64 x => exact ⟨⟨.I64, 64, rfl, rfl, x.bv, jitRepr_U64 x⟩, by simp [RInt.val]⟩

theorem as_i64_ok {dbg : Bool} {v : IrValue} {u : I64} (h : IrValue.as_i64 dbg v = .ok u) :
    ∃ iv : IntView v, u.val = iv.x.toInt := by
  cases v <;> simp [IrValue.as_i64, RCast.cast] at h <;> subst h
  case I8 x => exact ⟨⟨.I8, 8, rfl, rfl, x.bv, jitRepr_I8 x⟩, by rw [RInt.val_cast_i64 (by decide) (by decide)]; simp [RInt.val]⟩
  case I16 x => exact ⟨⟨.I16, 16, rfl, rfl, x.bv, jitRepr_I16 x⟩, by rw [RInt.val_cast_i64 (by decide) (by decide)]; simp [RInt.val]⟩
  case I32 x => exact ⟨⟨.I32, 32, rfl, rfl, x.bv, jitRepr_I32 x⟩, by rw [RInt.val_cast_i64 (by decide) (by decide)]; simp [RInt.val]⟩
  case I64 x => exact ⟨⟨.I64, 64, rfl, rfl, x.bv, jitRepr_I64 x⟩, by simp [RInt.val]⟩

/-- the generated `PartialEq` succeeds only on equal integer-like tags and compares the JIT's bits. -/
theorem eq_ok {l r : IrValue} {b : Bool} (h : IrValue.eq false l r = .ok b) :
    ∃ (ty : CTy) (w : Nat) (_ : ty.bits = w) (_ : ty.isFloat = false) (x y : BitVec w),
      jitRepr l = some (CVal.ofBv ty x) ∧ jitRepr r = some (CVal.ofBv ty y) ∧ b = (x == y) := by
  cases l <;> cases r <;> simp [IrValue.eq, REq.eq] at h <;> subst h
  case Bool.Bool x y =>
    exact ⟨.I8, 8, rfl, rfl, _, _, by rw [jitRepr_Bool, CVal.ofBool_eq], by rw [jitRepr_Bool, CVal.ofBool_eq],
      by cases x <;> cases y <;> decide⟩
  case U8.U8 x y => exact ⟨.I8, 8, rfl, rfl, _, _, jitRepr_U8 x, jitRepr_U8 y, RInt.decide_eq x y⟩
  case U16.U16 x y => exact ⟨.I16, 16, rfl, rfl, _, _, jitRepr_U16 x, jitRepr_U16 y, RInt.decide_eq x y⟩
  case U32.U32 x y => exact ⟨.I32, 32, rfl, rfl, _, _, jitRepr_U32 x, jitRepr_U32 y, RInt.decide_eq x y⟩
  case I8.I8 x y => exact ⟨.I8, 8, rfl, rfl, _, _, jitRepr_I8 x, jitRepr_I8 y, RInt.decide_eq x y⟩
  case I16.I16 x y => exact ⟨.I16, 16, rfl, rfl, _, _, jitRepr_I16 x, jitRepr_I16 y, RInt.decide_eq x y⟩
  case I32.I32 x y => exact ⟨.I32, 32, rfl, rfl, _, _, jitRepr_I32 x, jitRepr_I32 y, RInt.decide_eq x y⟩
  case Asn.Asn x y => exact ⟨.I32, 32, rfl, rfl, _, _, jitRepr_Asn x, jitRepr_Asn y, RInt.decide_eq x y⟩
  case Pointer.Pointer x y => exact ⟨.I64, 64, rfl, rfl, _, _, jitRepr_Pointer x, jitRepr_Pointer y, RInt.decide_eq x y⟩


/-- two integer views of operands whose CLIF types coincide have the same width. -/
theorem IntView.align {l r : IrValue} (a : IntView l) (b : IntView r) {cl cr : CVal}
    (hl : jitRepr l = some cl) (hr : jitRepr r = some cr) (hty : cl.ty = cr.ty) :
    a.w = b.w ∧ a.ty = b.ty := by
  have h1 := a.repr; have h2 := b.repr
  rw [hl] at h1; rw [hr] at h2
  simp only [Option.some.injEq] at h1 h2
  subst h1 h2
  simp only [CVal.ofBv_ty] at hty
  exact ⟨by rw [← a.hw, ← b.hw, hty], hty⟩

section
variable [F : FloatOps]
/-- `as_f64` succeeds only on float tags; an `f32` is widened. -/
theorem as_f64_ok {dbg : Bool} {v : IrValue} {a : F64} (h : IrValue.as_f64 dbg v = .ok a) :
    (∃ x : F32, v = .F32 x ∧ a = ⟨F.promote x.bits⟩) ∨ v = .F64 a := by
  cases v <;> simp [IrValue.as_f64, RCast.cast] at h
  case F32 x => exact Or.inl ⟨x, rfl, h.symm⟩
  case F64 x => exact Or.inr (by rw [h])
end


end RotoV
