/-
  Lemmas about the evaluator's generated accessors (`Generated/EvalArms`, from
  src/lir/value.rs: `as_u64`, `as_i64`, `as_f64`, `PartialEq for IrValue`), used by
  C20 only: when an accessor succeeds, which JIT operand the value is and how the
  returned number relates to the JIT's bits.
-/
import RotoV.Lemmas.Scalar
import RotoV.Generated.EvalArms

namespace RotoV
open RotoV.Gen RotoV.Gen.OpTables RotoV.Gen.EvalArms

/-- An integer-like JIT operand: CLIF type, width, bit pattern. -/
structure IntView (v : IrValue) where
  ty : CTy
  w : Nat
  hw : ty.bits = w
  hf : ty.isFloat = false
  x : BitVec w
  repr : jitRepr v = some (CVal.ofBv ty x)

/-- `as_u64` succeeds only on unsigned tags and returns the zero-extension of the JIT's bits. -/
theorem as_u64_ok {dbg : Bool} {v : IrValue} {u : U64} (h : IrValue.as_u64 dbg v = .ok u) :
    ∃ iv : IntView v, u.val = iv.x.toNat := by
  cases v <;> simp [IrValue.as_u64, RCast.cast] at h <;> subst h
  case U8 x => exact ⟨⟨.I8, 8, rfl, rfl, x.bv, jitRepr_U8 x⟩, by rw [RInt.val_cast_u64 (by decide)]; simp [RInt.val]⟩
  case U16 x => exact ⟨⟨.I16, 16, rfl, rfl, x.bv, jitRepr_U16 x⟩, by rw [RInt.val_cast_u64 (by decide)]; simp [RInt.val]⟩
  case U32 x => exact ⟨⟨.I32, 32, rfl, rfl, x.bv, jitRepr_U32 x⟩, by rw [RInt.val_cast_u64 (by decide)]; simp [RInt.val]⟩
  case U64 x => exact ⟨⟨.I64, 64, rfl, rfl, x.bv, jitRepr_U64 x⟩, by simp [RInt.val]⟩

theorem as_i64_ok {dbg : Bool} {v : IrValue} {u : I64} (h : IrValue.as_i64 dbg v = .ok u) :
    ∃ iv : IntView v, u.val = iv.x.toInt := by
  cases v <;> simp [IrValue.as_i64, RCast.cast] at h <;> subst h
  case I8 x => exact ⟨⟨.I8, 8, rfl, rfl, x.bv, jitRepr_I8 x⟩, by rw [RInt.val_cast_i64 (by decide) (by decide)]; simp [RInt.val]⟩
  case I16 x => exact ⟨⟨.I16, 16, rfl, rfl, x.bv, jitRepr_I16 x⟩, by rw [RInt.val_cast_i64 (by decide) (by decide)]; simp [RInt.val]⟩
  case I32 x => exact ⟨⟨.I32, 32, rfl, rfl, x.bv, jitRepr_I32 x⟩, by rw [RInt.val_cast_i64 (by decide) (by decide)]; simp [RInt.val]⟩
  case I64 x => exact ⟨⟨.I64, 64, rfl, rfl, x.bv, jitRepr_I64 x⟩, by simp [RInt.val]⟩

/-- two integer views of operands whose CLIF types coincide have the same width. -/
theorem IntView.align {l r : IrValue} (a : IntView l) (b : IntView r) {cl cr : CVal}
    (hl : jitRepr l = some cl) (hr : jitRepr r = some cr) (hty : cl.ty = cr.ty) :
    a.w = b.w ∧ a.ty = b.ty := by
  have h1 := a.repr; have h2 := b.repr
  rw [hl] at h1; rw [hr] at h2
  simp only [Option.some.injEq] at h1 h2
  subst h1 h2
  simp only [CVal.ofBv_ty] at hty
  exact ⟨by rw [← a.hw, ← b.hw, hty], hty⟩

section
variable [F : FloatOps]
/-- `as_f64` succeeds only on float tags; an `f32` is widened. -/
theorem as_f64_ok {dbg : Bool} {v : IrValue} {a : F64} (h : IrValue.as_f64 dbg v = .ok a) :
    (∃ x : F32, v = .F32 x ∧ a = ⟨F.promote x.bits⟩) ∨ v = .F64 a := by
  cases v <;> simp [IrValue.as_f64, RCast.cast] at h
  case F32 x => exact Or.inl ⟨x, rfl, h.symm⟩
  case F64 x => exact Or.inr (by rw [h])
end

/-! ### (round 6) `PartialEq for IrValue`, every tag pair, float arms admitted iff they are IEEE

`eq_ok_general` is the statement the PROPERTY needs about a completed `==` (it replaces the former
`eq_ok`, which was the pinned tree's table — integer-like tags only, one named case per existing arm —
and therefore stopped checking when a harmless arm such as `(U64(l), U64(r)) => l == r` was added):
it compared the bit patterns of two integer-like JIT operands of one type (`icmp eq`), or it compared
two floats of one type with IEEE equality (`fcmp eq`).  Its proof does not name the arms that exist:
it closes whatever arm the regenerated definition has with whichever of the admissible justifications
fits, so adding `U64/I64/Char` arms or an IEEE float arm (`(F64(l), F64(r)) => l == r`) keeps it
checking, while an arm that completes with anything else (bit equality of floats through
`to_bits()`, a cross-tag comparison) leaves a goal no justification closes. -/
section
variable [F : FloatOps]

/-- what a completed `==` on `IrValue`s is allowed to have computed. -/
inductive EqView (l r : IrValue) (b : Bool) : Prop
  | int (ty : CTy) (w : Nat) (hw : ty.bits = w) (hf : ty.isFloat = false) (x y : BitVec w)
      (hl : jitRepr l = some (CVal.ofBv ty x)) (hr : jitRepr r = some (CVal.ofBv ty y))
      (hb : b = (x == y))
  | f32 (x y : F32) (hl : l = .F32 x) (hr : r = .F32 y) (hb : b = F.eq32 x.bits y.bits)
  | f64 (x y : F64) (hl : l = .F64 x) (hr : r = .F64 y) (hb : b = F.eq64 x.bits y.bits)

omit F in
theorem bool_decide_eq_bits (x y : Bool) :
    decide (x = y) = ((if x then 1#8 else 0#8) == (if y then 1#8 else 0#8)) := by
  cases x <;> cases y <;> decide

theorem eq_ok_general {l r : IrValue} {b : Bool} (h : IrValue.eq false l r = .ok b) : EqView l r b := by
  cases l <;> cases r <;> simp [IrValue.eq, REq.eq] at h <;> subst h <;>
  first
    | exact .int .I8 8 rfl rfl _ _ (by rw [jitRepr_Bool, CVal.ofBool_eq]) (by rw [jitRepr_Bool, CVal.ofBool_eq])
        (bool_decide_eq_bits _ _)
    | exact .int .I8 8 rfl rfl _ _ (jitRepr_U8 _) (jitRepr_U8 _) (RInt.decide_eq _ _)
    | exact .int .I16 16 rfl rfl _ _ (jitRepr_U16 _) (jitRepr_U16 _) (RInt.decide_eq _ _)
    | exact .int .I32 32 rfl rfl _ _ (jitRepr_U32 _) (jitRepr_U32 _) (RInt.decide_eq _ _)
    | exact .int .I64 64 rfl rfl _ _ (jitRepr_U64 _) (jitRepr_U64 _) (RInt.decide_eq _ _)
    | exact .int .I8 8 rfl rfl _ _ (jitRepr_I8 _) (jitRepr_I8 _) (RInt.decide_eq _ _)
    | exact .int .I16 16 rfl rfl _ _ (jitRepr_I16 _) (jitRepr_I16 _) (RInt.decide_eq _ _)
    | exact .int .I32 32 rfl rfl _ _ (jitRepr_I32 _) (jitRepr_I32 _) (RInt.decide_eq _ _)
    | exact .int .I64 64 rfl rfl _ _ (jitRepr_I64 _) (jitRepr_I64 _) (RInt.decide_eq _ _)
    | exact .int .I32 32 rfl rfl _ _ (jitRepr_Char _) (jitRepr_Char _) (RInt.decide_eq _ _)
    | exact .int .I32 32 rfl rfl _ _ (jitRepr_Asn _) (jitRepr_Asn _) (RInt.decide_eq _ _)
    | exact .int .I64 64 rfl rfl _ _ (jitRepr_Pointer _) (jitRepr_Pointer _) (RInt.decide_eq _ _)
    | exact .f32 _ _ rfl rfl rfl
    | exact .f64 _ _ rfl rfl rfl

/-- a completed `==` never compared values of two different tags (all 14 x 14 pairs). -/
theorem eq_ok_same_tag {l r : IrValue} {b : Bool} (h : IrValue.eq false l r = .ok b) :
    (jitRepr l).map (·.ty) = (jitRepr r).map (·.ty) := by
  cases eq_ok_general h with
  | int ty w hw hf x y hl hr hb => rw [hl, hr]; rfl
  | f32 x y hl hr hb => subst hl hr; rfl
  | f64 x y hl hr hb => subst hl hr; rfl
end

end RotoV
