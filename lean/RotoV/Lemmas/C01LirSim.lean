/-
  C01LirSim: the LIR lowering model (`Model/C01Lir`) preserves execution — a forward
  simulation, block by block: whenever the MIR of a function runs to a result, the LIR the
  model makes of it runs to the same result with the same fuel (zero-sized results become `()`).
  The relation between the stores: every variable with an `IrType` holds the same value; the
  temporaries the lowering allocates are fresh (`tmpsBelow`).

  Core Lean only.
-/
import RotoV.Model.C01Lir

namespace RotoV.C01LirSim
open RotoV RotoV.C01Lir RotoV.Gen RotoV.Gen.OpTables
open RotoV.TraceSpec (Val)

/-- every variable with an `IrType` holds the same value in both stages -/
def Rel (types : List (Name × LTy)) (σM σL : Store) : Prop :=
  ∀ x ty, tyOf types x = some ty → σL x = σM x

/-- a zero-sized result is `()` in LIR -/
def fixVal (rv : Bool) (v : Val) : Val := if rv then v else .unit

/-- how the two stages leave corresponding blocks -/
def NextRel (types : List (Name × LTy)) (rv : Bool) : Next → Next → Prop
  | .goto l σM, .goto l' σL => l = l' ∧ Rel types σM σL
  | .ret v, .ret v' => v' = fixVal rv v
  | _, _ => False

/-- the arguments that are passed on: those whose parameter has an `IrType` -/
def filterMask : List Bool → List Val → List Val
  | true :: m, v :: vs => v :: filterMask m vs
  | false :: m, _ :: vs => filterMask m vs
  | _, _ => []

/-- the call oracles of the two stages correspond -/
def CallRel (ri : RetInfo) (callM callL : String → List Val → Option Val) : Prop :=
  ∀ f mask rv args v, ri f = some (mask, rv) → args.length = mask.length → callM f args = some v →
    callL f (filterMask mask args) = some (fixVal rv v)

theorem set_same (σ : Store) (x : Name) (v : Val) : (σ.set x v) x = v := by simp [Store.set]
theorem set_other (σ : Store) {x y : Name} (v : Val) (h : y ≠ x) : (σ.set x v) y = σ y := by simp [Store.set, h]

theorem Rel.set_both {types σM σL} (h : Rel types σM σL) (x : Name) (v : Val) :
    Rel types (σM.set x v) (σL.set x v) := by
  intro y ty hy
  by_cases hxy : y = x
  · subst hxy; simp [set_same]
  · rw [set_other _ _ hxy, set_other _ _ hxy]; exact h y ty hy

theorem Rel.set_M {types σM σL} (h : Rel types σM σL) {x : Name} (hx : tyOf types x = none) (v : Val) :
    Rel types (σM.set x v) σL := by
  intro y ty hy
  have hxy : y ≠ x := by intro hh; subst hh; rw [hx] at hy; cases hy
  rw [set_other _ _ hxy]; exact h y ty hy

theorem Rel.set_L {types σM σL} (h : Rel types σM σL) {x : Name} (hx : tyOf types x = none) (v : Val) :
    Rel types σM (σL.set x v) := by
  intro y ty hy
  have hxy : y ≠ x := by intro hh; subst hh; rw [hx] at hy; cases hy
  rw [set_other _ _ hxy]; exact h y ty hy

theorem tyOf_tmp_none : ∀ (types : List (Name × LTy)) (k c : Nat), tmpsBelow types k = true → k ≤ c →
    tyOf types (.t c) = none
  | [], _, _, _, _ => rfl
  | (y, t) :: rest, k, c, h, hc => by
    simp only [tmpsBelow, List.all_cons, Bool.and_eq_true] at h
    have hne : Name.t c ≠ y := by
      intro hh; subst hh
      have := h.1; simp at this; omega
    simp only [tyOf, hne, if_false]
    exact tyOf_tmp_none rest k c (by simpa [tmpsBelow] using h.2) hc

theorem filterMask_args (types : List (Name × LTy)) (σM σL : Store) (h : Rel types σM σL) :
    ∀ (args : List Name),
      ((args.filter (fun a => (tyOf types a).isSome)).map LOp.var).map (lVal σL)
        = filterMask (args.map (fun a => (tyOf types a).isSome)) (args.map σM)
  | [] => rfl
  | a :: rest => by
    have ih := filterMask_args types σM σL h rest
    cases ha : tyOf types a with
    | none => simpa [List.filter, ha, filterMask] using ih
    | some ty =>
      have := h a ty ha
      simp only [List.filter, ha, Option.isSome_some, List.map_cons, lVal, this, filterMask]
      simpa using ih

theorem selectBr_dropLast : ∀ (brs : List (Nat × Nat)) (key l k' llast : Nat),
    brs.getLast? = some (k', llast) → selectBr key brs = some l → (selectBr key brs.dropLast).getD llast = l
  | [], _, _, _, _, h, _ => by simp at h
  | [(a, b)], key, l, k', llast, h, hs => by
    simp only [List.getLast?_singleton, Option.some.injEq, Prod.mk.injEq] at h
    obtain ⟨rfl, rfl⟩ := h
    simp only [selectBr] at hs
    split at hs
    · cases hs; simp [selectBr]
    · cases hs
  | (a, b) :: x :: xs, key, l, k', llast, h, hs => by
    have h' : (x :: xs).getLast? = some (k', llast) := by simpa [List.getLast?_cons_cons] using h
    simp only [selectBr] at hs
    simp only [List.dropLast_cons_cons, selectBr]
    split at hs
    · rename_i hk; cases hs; simp [hk]
    · rename_i hk
      simp only [hk, if_false]
      exact selectBr_dropLast (x :: xs) key l k' llast h' hs

theorem lowerIns_mono {types rv ri c i li ti c1} (h : lowerIns types rv ri c i = some (li, ti, c1)) : c ≤ c1 := by
  unfold lowerIns at h
  repeat (first
    | (split at h)
    | (cases h; omega)
    | (simp only [Option.some.injEq, Prod.mk.injEq, reduceCtorEq] at h; omega)
    | (simp at h))

section
variable [FloatOps]

/-- **One block**: if the MIR instruction list runs to `nx`, the LIR the model makes of it runs
    to the same (`fixNext`) from a related store. -/
theorem sim_inss (types : List (Name × LTy)) (rv : Bool) (ri : RetInfo) (k : Nat) (hk : tmpsBelow types k = true)
    (callM callL : String → List Val → Option Val) (hcall : CallRel ri callM callL) :
    ∀ (ins : List MIns) (c : Nat) (lins : List LIns) (ts : List (Name × LTy)) (c' : Nat) (σM σL : Store) (nx : Next),
      lowerInss types rv ri c ins = some (lins, ts, c') → k ≤ c → Rel types σM σL →
      mExec callM ins σM = some nx → ∃ nxL, lExec callL lins σL = some nxL ∧ NextRel types rv nx nxL
  | [], c, lins, ts, c', σM, σL, nx, _, _, _, hm => by simp [mExec] at hm
  | i :: rest, c, lins, ts, c', σM, σL, nx, hl, hc, hrel, hm => by
    simp only [lowerInss] at hl
    split at hl
    case h_2 => cases hl
    rename_i li ti c1 hli
    split at hl
    case h_2 => cases hl
    rename_i lr tr c2 hlr
    simp only [Option.some.injEq, Prod.mk.injEq] at hl
    obtain ⟨rfl, rfl, rfl⟩ := hl
    have hc1 : k ≤ c1 := Nat.le_trans hc (lowerIns_mono hli)
    have ih := sim_inss types rv ri k hk callM callL hcall rest c1 lr tr c2
    have hfresh : tyOf types (.t c) = none := tyOf_tmp_none types k c hk hc
    cases i with
    | jump l =>
      simp only [lowerIns, Option.some.injEq, Prod.mk.injEq] at hli
      obtain ⟨rfl, rfl, rfl⟩ := hli
      simp only [mExec, Option.some.injEq] at hm; subst hm
      exact ⟨.goto l σL, by simp [lExec], rfl, hrel⟩
    | drop x =>
      simp only [lowerIns, Option.some.injEq, Prod.mk.injEq] at hli
      obtain ⟨rfl, rfl, rfl⟩ := hli
      simp only [mExec] at hm
      simpa using ih σM σL nx hlr hc1 hrel hm
    | other => simp [lowerIns] at hli
    | ret x =>
      simp only [lowerIns] at hli
      simp only [mExec, Option.some.injEq] at hm; subst hm
      split at hli
      · rename_i hrv
        split at hli
        · rename_i ty hty
          simp only [Option.some.injEq, Prod.mk.injEq] at hli
          obtain ⟨rfl, rfl, rfl⟩ := hli
          exact ⟨.ret (σL x), by simp [lExec, lVal], by simp [NextRel, fixVal, hrv, hrel x ty hty]⟩
        · cases hli
      · rename_i hrv
        simp only [Option.some.injEq, Prod.mk.injEq] at hli
        obtain ⟨rfl, rfl, rfl⟩ := hli
        exact ⟨.ret .unit, by simp [lExec], by simp [NextRel, fixVal, hrv]⟩
    | switch x brs d =>
      simp only [lowerIns] at hli
      simp only [mExec] at hm
      split at hli
      case h_2 => cases hli
      rename_i ty hty
      have hx := hrel x ty hty
      split at hm
      case h_2 => cases hm
      rename_i key hkey
      cases d with
      | some d =>
        simp only [Option.some.injEq, Prod.mk.injEq] at hli
        obtain ⟨rfl, rfl, rfl⟩ := hli
        simp only [List.cons_append, lExec, lVal, hx, hkey]
        cases hs : selectBr key brs with
        | some l =>
          rw [hs] at hm; simp only [Option.some.injEq] at hm; subst hm
          exact ⟨_, rfl, by simp, hrel⟩
        | none =>
          rw [hs] at hm; simp only [Option.map_some, Option.some.injEq] at hm; subst hm
          exact ⟨_, rfl, by simp, hrel⟩
      | none =>
        cases hgl : brs.getLast? with
        | none => simp [hgl] at hli
        | some p =>
          obtain ⟨k', llast⟩ := p
          simp only [hgl, Option.some.injEq, Prod.mk.injEq] at hli
          obtain ⟨rfl, rfl, rfl⟩ := hli
          cases hs : selectBr key brs with
          | none => rw [hs] at hm; simp at hm
          | some l =>
            rw [hs] at hm; simp only [Option.some.injEq] at hm; subst hm
            simp only [List.cons_append, lExec, lVal, hx, hkey]
            exact ⟨_, rfl, by rw [selectBr_dropLast brs key l k' llast hgl hs], hrel⟩
    | assign to v =>
      cases v with
      | constInt n =>
        simp only [mExec] at hm
        simp only [lowerIns] at hli
        split at hli
        · rename_i hto
          simp only [Option.some.injEq, Prod.mk.injEq] at hli
          obtain ⟨rfl, rfl, rfl⟩ := hli
          simp only [List.cons_append, List.nil_append, lExec, lVal]
          exact ih _ _ nx hlr hc1 (hrel.set_both to (.int n)) hm
        · cases hli
      | constBool b =>
        simp only [mExec] at hm
        simp only [lowerIns] at hli
        split at hli
        · rename_i hto
          simp only [Option.some.injEq, Prod.mk.injEq] at hli
          obtain ⟨rfl, rfl, rfl⟩ := hli
          simp only [List.cons_append, List.nil_append, lExec, lVal]
          exact ih _ _ nx hlr hc1 (hrel.set_both to (.bool b)) hm
        · cases hli
      | constUnit =>
        simp only [mExec] at hm
        simp only [lowerIns] at hli
        split at hli
        · rename_i hto
          simp only [Option.some.injEq, Prod.mk.injEq] at hli
          obtain ⟨rfl, rfl, rfl⟩ := hli
          simp only [List.nil_append]
          exact ih _ _ nx hlr hc1 (hrel.set_M hto .unit) hm
        · cases hli
      | clone w =>
        simp only [mExec] at hm
        simp only [lowerIns] at hli
        split at hli
        · rename_i t t' hto hw
          split at hli
          · simp only [Option.some.injEq, Prod.mk.injEq] at hli
            obtain ⟨rfl, rfl, rfl⟩ := hli
            simp only [List.cons_append, List.nil_append, lExec, lVal, hrel w t' hw]
            exact ih _ _ nx hlr hc1 (hrel.set_both to (σM w)) hm
          · cases hli
        · rename_i hto hw
          simp only [Option.some.injEq, Prod.mk.injEq] at hli
          obtain ⟨rfl, rfl, rfl⟩ := hli
          simp only [List.nil_append]
          exact ih _ _ nx hlr hc1 (hrel.set_M hto _) hm
        · cases hli
      | move w =>
        simp only [mExec] at hm
        simp only [lowerIns] at hli
        split at hli
        · rename_i t t' hto hw
          split at hli
          · simp only [Option.some.injEq, Prod.mk.injEq] at hli
            obtain ⟨rfl, rfl, rfl⟩ := hli
            simp only [List.cons_append, List.nil_append, lExec, lVal, hrel w t' hw]
            exact ih _ _ nx hlr hc1 (hrel.set_both to (σM w)) hm
          · cases hli
        · rename_i hto hw
          simp only [Option.some.injEq, Prod.mk.injEq] at hli
          obtain ⟨rfl, rfl, rfl⟩ := hli
          simp only [List.nil_append]
          exact ih _ _ nx hlr hc1 (hrel.set_M hto _) hm
        · cases hli
      | binop l op ty r =>
        simp only [mExec] at hm
        simp only [lowerIns] at hli
        split at hli
        case h_2 => cases hli
        rename_i tl tr tt htl htr htt
        split at hli
        case isFalse => cases hli
        rename_i hty
        obtain ⟨rfl, rfl⟩ := hty
        split at hli
        case h_2 => cases hli
        rename_i i hi
        split at hli
        case isFalse => cases hli
        simp only [Option.some.injEq, Prod.mk.injEq] at hli
        obtain ⟨rfl, rfl, rfl⟩ := hli
        simp only [binopAt, hi] at hm
        cases hr : runI i (σM l) (σM r) with
        | none => rw [hr] at hm; cases hm
        | some w =>
          rw [hr] at hm
          simp only [List.cons_append, List.nil_append, lExec, lVal, hrel l _ htl, hrel r _ htr, hr, set_same]
          refine ih _ _ nx hlr hc1 ?_ hm
          exact (hrel.set_L hfresh w).set_both to w
      | not w =>
        simp only [mExec] at hm
        simp only [lowerIns] at hli
        split at hli
        case h_2 => cases hli
        rename_i hw hto
        simp only [Option.some.injEq, Prod.mk.injEq] at hli
        obtain ⟨rfl, rfl, rfl⟩ := hli
        cases hr : C01MirRun.tableNot (σM w) with
        | none => rw [hr] at hm; cases hm
        | some u =>
          rw [hr] at hm
          simp only [List.cons_append, List.nil_append, lExec, lVal, hrel w _ hw, hr, set_same]
          refine ih _ _ nx hlr hc1 ?_ hm
          exact (hrel.set_L hfresh u).set_both to u
      | neg w =>
        simp only [mExec] at hm
        simp only [lowerIns] at hli
        split at hli
        case h_2 => cases hli
        rename_i hw hto
        simp only [Option.some.injEq, Prod.mk.injEq] at hli
        obtain ⟨rfl, rfl, rfl⟩ := hli
        cases hr : C01MirRun.tableNeg (σM w) with
        | none => rw [hr] at hm; cases hm
        | some u =>
          rw [hr] at hm
          simp only [List.cons_append, List.nil_append, lExec, lVal, hrel w _ hw, hr, set_same]
          refine ih _ _ nx hlr hc1 ?_ hm
          exact (hrel.set_L hfresh u).set_both to u
      | call f args =>
        simp only [mExec] at hm
        simp only [lowerIns] at hli
        cases hr : callM f (args.map σM) with
        | none => rw [hr] at hm; cases hm
        | some u =>
          rw [hr] at hm
          have hargs := filterMask_args types σM σL hrel args
          split at hli
          · rename_i mask tt hri hto
            split at hli
            case isFalse => cases hli
            rename_i hmask
            simp only [Option.some.injEq, Prod.mk.injEq] at hli
            obtain ⟨rfl, rfl, rfl⟩ := hli
            have hcl := hcall f mask true (args.map σM) u hri (by rw [← hmask]; simp) hr
            rw [← hmask, ← hargs] at hcl
            simp only [List.cons_append, List.nil_append, lExec, lVal, hcl, fixVal, if_true, set_same]
            refine ih _ _ nx hlr hc1 ?_ hm
            exact (hrel.set_L hfresh u).set_both to u
          · rename_i mask hri hto
            split at hli
            case isFalse => cases hli
            rename_i hmask
            simp only [Option.some.injEq, Prod.mk.injEq] at hli
            obtain ⟨rfl, rfl, rfl⟩ := hli
            have hcl := hcall f mask false (args.map σM) u hri (by rw [← hmask]; simp) hr
            rw [← hmask, ← hargs] at hcl
            simp only [List.cons_append, List.nil_append, lExec, hcl]
            exact ih _ _ nx hlr hc1 (hrel.set_M hto u) hm
          · cases hli

end

theorem lowerInss_mono {types rv ri} : ∀ (ins : List MIns) (c : Nat) {lins ts c'},
    lowerInss types rv ri c ins = some (lins, ts, c') → c ≤ c'
  | [], c, _, _, _, h => by simp only [lowerInss, Option.some.injEq, Prod.mk.injEq] at h; omega
  | i :: rest, c, _, _, _, h => by
    simp only [lowerInss] at h
    split at h
    case h_2 => cases h
    rename_i li ti c1 hli
    split at h
    case h_2 => cases h
    rename_i lr tr c2 hlr
    simp only [Option.some.injEq, Prod.mk.injEq] at h
    obtain ⟨_, _, rfl⟩ := h
    exact Nat.le_trans (lowerIns_mono hli) (lowerInss_mono rest c1 hlr)

/-- a block of the MIR function and the block the model makes of it -/
theorem findBlock_lower {types rv ri} : ∀ (blocks : List (Nat × List MIns)) (c : Nat) {lbs ts c'} (l : Nat) (ins : List MIns),
    lowerBlocks types rv ri c blocks = some (lbs, ts, c') → findBlock blocks l = some ins →
    ∃ c1 lins ts1 c1', c ≤ c1 ∧ lowerInss types rv ri c1 ins = some (lins, ts1, c1') ∧ findBlock lbs l = some lins
  | [], _, _, _, _, _, _, _, hf => by simp [findBlock] at hf
  | (l0, ins0) :: rest, c, _, _, _, l, ins, h, hf => by
    simp only [lowerBlocks] at h
    split at h
    case h_2 => cases h
    rename_i li ti c1 hli
    split at h
    case h_2 => cases h
    rename_i lr tr c2 hlr
    simp only [Option.some.injEq, Prod.mk.injEq] at h
    obtain ⟨rfl, _, _⟩ := h
    simp only [findBlock] at hf ⊢
    split at hf
    · rename_i hl; cases hf
      exact ⟨c, li, ti, c1, Nat.le_refl c, hli, by simp [hl]⟩
    · rename_i hl
      obtain ⟨c3, lins, ts1, c3', hc3, h3, hf3⟩ := findBlock_lower rest c1 l ins hlr hf
      exact ⟨c3, lins, ts1, c3', Nat.le_trans (lowerInss_mono ins0 c hli) hc3, h3, by simp [hl, hf3]⟩

section
variable [FloatOps]

/-- **One function body**: the block-to-block loop, with the same fuel. -/
theorem sim_loop (types : List (Name × LTy)) (rv : Bool) (ri : RetInfo) (k0 : Nat) (hk : tmpsBelow types k0 = true)
    (callM callL : String → List Val → Option Val) (hcall : CallRel ri callM callL)
    (blocks : List (Nat × List MIns)) (lbs : List (Nat × List LIns)) (ts : List (Name × LTy)) (c' : Nat)
    (hl : lowerBlocks types rv ri k0 blocks = some (lbs, ts, c')) :
    ∀ (k l : Nat) (σM σL : Store) (v : Val), Rel types σM σL →
      mLoop callM blocks k l σM = some v → lLoop callL lbs k l σL = some (fixVal rv v)
  | 0, _, _, _, _, _, hm => by simp [mLoop] at hm
  | k + 1, l, σM, σL, v, hrel, hm => by
    simp only [mLoop] at hm
    split at hm
    case h_2 => cases hm
    rename_i ins hf
    obtain ⟨c1, lins, ts1, c1', hc1, hli, hfl⟩ := findBlock_lower blocks k0 l ins hl hf
    simp only [lLoop, hfl]
    cases hx : mExec callM ins σM with
    | none => rw [hx] at hm; cases hm
    | some nx =>
      rw [hx] at hm
      obtain ⟨nxL, hxl, hnr⟩ := sim_inss types rv ri k0 hk callM callL hcall ins c1 lins ts1 c1' σM σL nx hli hc1 hrel hx
      rw [hxl]
      cases nx with
      | goto l' σM' =>
        cases nxL with
        | goto l'' σL' =>
          obtain ⟨rfl, hrel'⟩ := hnr
          exact sim_loop types rv ri k0 hk callM callL hcall blocks lbs ts c' hl k l' σM' σL' v hrel' hm
        | ret w => exact hnr.elim
      | ret w =>
        cases nxL with
        | goto l'' σL' => exact hnr.elim
        | ret w' =>
          simp only [Option.some.injEq] at hm; subst hm
          simp only [NextRel] at hnr
          rw [hnr]

omit [FloatOps] in
/-- binding the parameters: LIR gets the arguments whose parameter has an `IrType` -/
theorem bindAll_rel (types : List (Name × LTy)) : ∀ (ps : List Name) (args : List Val) (σM : Store),
    bindAll ps args = some σM →
    ∃ σL, bindAll (ps.filter (fun p => (tyOf types p).isSome)) (filterMask (ps.map (fun p => (tyOf types p).isSome)) args) = some σL
      ∧ Rel types σM σL
  | [], [], σM, h => by
    simp only [bindAll, Option.some.injEq] at h; subst h
    exact ⟨fun _ => .unit, rfl, fun _ _ _ => rfl⟩
  | [], _ :: _, _, h => by simp [bindAll] at h
  | _ :: _, [], _, h => by simp [bindAll] at h
  | p :: ps, v :: vs, σM, h => by
    simp only [bindAll, Option.map_eq_some_iff] at h
    obtain ⟨σM', h', rfl⟩ := h
    obtain ⟨σL', hl', hrel⟩ := bindAll_rel types ps vs σM' h'
    cases hp : tyOf types p with
    | none =>
      exact ⟨σL', by simpa [List.filter, hp, filterMask] using hl', hrel.set_M hp v⟩
    | some ty =>
      exact ⟨σL'.set p v, by simp [List.filter, hp, filterMask, bindAll, hl'], hrel.set_both p v⟩

omit [FloatOps] in
theorem bindAll_length : ∀ (ps : List Name) (args : List Val) (σ : Store), bindAll ps args = some σ → args.length = ps.length
  | [], [], _, _ => rfl
  | [], _ :: _, _, h => by simp [bindAll] at h
  | _ :: _, [], _, h => by simp [bindAll] at h
  | p :: ps, v :: vs, σ, h => by
    simp only [bindAll, Option.map_eq_some_iff] at h
    obtain ⟨σ', h', _⟩ := h
    simp [bindAll_length ps vs σ' h']

omit [FloatOps] in
/-- the function the model makes of a function of the program -/
theorem find_lower (ri : RetInfo) : ∀ (P : List MFn) (L : List LFn) (f : String) (fn : MFn),
    lowerProgWith ri P = some L → P.find? (fun g => g.name == f) = some fn →
    ∃ lfn, lowerFn ri fn = some lfn ∧ L.find? (fun g => g.name == f) = some lfn
  | [], _, _, _, _, hf => by simp at hf
  | g :: rest, L, f, fn, h, hf => by
    simp only [lowerProgWith] at h
    split at h
    case h_2 => cases h
    rename_i lg ls hg hls
    simp only [Option.some.injEq] at h; subst h
    have hname : lg.name = g.name := by
      simp only [lowerFn] at hg
      split at hg
      · split at hg
        · simp only [Option.some.injEq] at hg; subst hg; rfl
        · cases hg
      · cases hg
    simp only [List.find?_cons] at hf ⊢
    rw [hname]
    split at hf
    · rename_i hn; cases hf
      exact ⟨lg, hg, by simp [hn]⟩
    · rename_i hn
      obtain ⟨lfn, h1, h2⟩ := find_lower ri rest ls f fn hls hf
      exact ⟨lfn, h1, by simp [hn, h2]⟩

/-- **The LIR lowering preserves execution.**  For every MIR program on which the model is
    defined, every fuel, function and arguments: if the MIR function returns `v`, the LIR function
    called with the arguments whose parameter has an `IrType` returns `v` (`()` if the return type
    is zero-sized), with the same fuel. -/
theorem lir_sim (P : List MFn) (L : List LFn) (h : lowerProg P = some L) :
    ∀ n, CallRel (retInfoOf P) (mRun P n) (lRun L n)
  | 0 => by intro f mask rv args v _ _ hm; simp [mRun] at hm
  | n + 1 => by
    intro f mask rv args v hri hlen hm
    simp only [mRun] at hm
    split at hm
    case h_2 => cases hm
    rename_i fn hfind
    simp only [retInfoOf, hfind, Option.map_some, Option.some.injEq, Prod.mk.injEq] at hri
    obtain ⟨rfl, rfl⟩ := hri
    obtain ⟨lfn, hlow, hlfind⟩ := find_lower (retInfoOf P) P L f fn h hfind
    simp only [lowerFn] at hlow
    split at hlow
    case isFalse => cases hlow
    rename_i hbelow
    split at hlow
    case h_2 => cases hlow
    rename_i lbs ts c' hlb
    simp only [Option.some.injEq] at hlow; subst hlow
    split at hm
    case h_2 => cases hm
    rename_i σM l0 ins0 rest hbind hblocks
    obtain ⟨σL, hbl, hrel⟩ := bindAll_rel fn.types fn.params args σM hbind
    -- the entry block of the LIR function has the same label
    have hentry : ∃ li lr, lbs = (l0, li) :: lr := by
      rw [hblocks] at hlb
      simp only [lowerBlocks] at hlb
      split at hlb
      case h_2 => cases hlb
      split at hlb
      case h_2 => cases hlb
      simp only [Option.some.injEq, Prod.mk.injEq] at hlb
      exact ⟨_, _, hlb.1.symm⟩
    obtain ⟨li, lr, hlbs⟩ := hentry
    simp only [lRun, hlfind, hbl, hlbs]
    rw [← hlbs]
    exact sim_loop fn.types fn.retVal (retInfoOf P) fn.tmpIdx hbelow (mRun P n) (lRun L n) (lir_sim P L h n)
      fn.blocks lbs ts c' hlb n l0 σM σL v hrel hm

end

end RotoV.C01LirSim