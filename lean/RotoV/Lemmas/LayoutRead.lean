/-
  Lemmas/LayoutRead — C02: a projection path that fits the decoded value is
  located by `Lowerer::location` at an offset where exactly the named
  component of that value is stored (`decode_project`).
-/
import RotoV.Lemmas.LayoutDrop
namespace RotoV.Layout
open RotoV RotoV.LayoutStd RotoV.Gen.LayoutGen

/-- field `n` of a decoded field list sits where `get_field` finds it -/
theorem decodeFields_get (m : Mem) : ∀ (ts : Tys) (b : LayoutBuilder) (a : Nat) (vs : Vs) (n : Nat) (c : V),
    decodeFields m ts b a = some vs → vs.get? n = some c →
    ∃ off t, getField ts n b = .ok (off, t) ∧ decode m t (a + off) = some c
  | .nil, b, a, vs, n, c, h, hn => by
    simp [decodeFields] at h; subst h; simp [Vs.get?] at hn
  | .cons t ts, b, a, vs, n, c, h, hn => by
    cases hl : layoutOf t with
    | none => simp [decodeFields, hl] at h
    | some l =>
      obtain ⟨v, vs', h1, h2, e⟩ := decodeFields_cons_some m t ts b a vs l hl h
      subst e
      cases n with
      | zero =>
        simp [Vs.get?] at hn; subst hn
        exact ⟨(b.add l).2, t, by simp [getField, hl], h1⟩
      | succ n =>
        simp [Vs.get?] at hn
        obtain ⟨off, t', g, d⟩ := decodeFields_get m ts _ a vs' n c h2 hn
        exact ⟨off, t', by simpa [getField, hl] using g, d⟩

theorem decodeVariant_get (m : Mem) : ∀ (vs : Vars) (tag a : Nat) (fs : Vs),
    decodeVariant m vs tag a = some fs →
    ∃ fields, vs.get? tag = some fields ∧ decodeFields m fields variantStart a = some fs
  | .nil, tag, a, fs, h => by simp [decodeVariant] at h
  | .cons v vs, 0, a, fs, h => by
    simp only [decodeVariant] at h
    exact ⟨v, by simp [Vars.get?], h⟩
  | .cons v vs, tag + 1, a, fs, h => by
    simp only [decodeVariant] at h
    obtain ⟨fields, h1, h2⟩ := decodeVariant_get m vs tag a fs h
    exact ⟨fields, by simpa [Vars.get?] using h1, h2⟩

/-- **reads address exactly the named component**: if the stored value decodes
    to `val` and the path `p` fits `val` (every variant step names the live
    variant), then `Lowerer::location` yields an offset at which the named
    component of `val` is stored -/
theorem decode_project (m : Mem) : ∀ (p : List Proj) (t : Ty) (a o : Nat) (val comp : V),
    decode m t a = some val → val.project p = some comp →
    ∃ off tp, locate t p o = .ok (some (o + off, tp)) ∧ decode m tp (a + off) = some comp
  | [], t, a, o, val, comp, hd, hp => by
    simp [V.project] at hp; subst hp
    exact ⟨0, t, by simp [locate], by simpa using hd⟩
  | .field n :: p, t, a, o, val, comp, hd, hp => by
    cases t with
    | record fs =>
      cases hdf : decodeFields m fs LayoutBuilder.new a with
      | none => simp [decode, hdf] at hd
      | some vs =>
        simp [decode, hdf] at hd; subst hd
        simp only [V.project] at hp
        cases hg : vs.get? n with
        | none => simp [hg] at hp
        | some c =>
          simp only [hg] at hp
          obtain ⟨off, tn, g, dn⟩ := decodeFields_get m fs _ a vs n c hdf hg
          obtain ⟨off', tp, l', d'⟩ := decode_project m p tn (a + off) (o + off) c comp dn hp
          exact ⟨off + off', tp, by simp [locate, g, l', Nat.add_assoc], by simpa [Nat.add_assoc] using d'⟩
    | unit => simp [decode] at hd; subst hd; simp [V.project] at hp
    | never => simp [decode] at hd
    | leaf k s al => simp [decode] at hd; subst hd; simp [V.project] at hp
    | enum vs =>
      cases hdv : decodeVariant m vs (m a) a with
      | none => simp [decode, hdv] at hd
      | some fs => simp [decode, hdv] at hd; subst hd; simp [V.project] at hp
  | .variantField v n :: p, t, a, o, val, comp, hd, hp => by
    cases t with
    | enum vs =>
      cases hdv : decodeVariant m vs (m a) a with
      | none => simp [decode, hdv] at hd
      | some fs =>
        simp [decode, hdv] at hd; subst hd
        simp only [V.project] at hp
        by_cases htag : m a = v
        · simp only [htag, if_true] at hp
          cases hg : fs.get? n with
          | none => simp [hg] at hp
          | some c =>
            simp only [hg] at hp
            rw [htag] at hdv
            obtain ⟨fields, hv, hdf⟩ := decodeVariant_get m vs v a fs hdv
            obtain ⟨off, tn, g, dn⟩ := decodeFields_get m fields _ a fs n c hdf hg
            obtain ⟨off', tp, l', d'⟩ := decode_project m p tn (a + off) (o + off) c comp dn hp
            have hvf : variantField vs v n = .ok (some (off, tn)) := by
              have := variantFieldLoop_of_getField fields n _ none (off, tn) g
              simp [variantField, hv, this]
            exact ⟨off + off', tp, by simp [locate, hvf, l', Nat.add_assoc], by simpa [Nat.add_assoc] using d'⟩
        · simp [htag] at hp
    | unit => simp [decode] at hd; subst hd; simp [V.project] at hp
    | never => simp [decode] at hd
    | leaf k s al => simp [decode] at hd; subst hd; simp [V.project] at hp
    | record fs =>
      cases hdf : decodeFields m fs LayoutBuilder.new a with
      | none => simp [decode, hdf] at hd
      | some vs' => simp [decode, hdf] at hd; subst hd; simp [V.project] at hp

end RotoV.Layout
