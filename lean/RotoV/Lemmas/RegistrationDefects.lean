/-
  Registration (C18): the demands of the five passes in the words of the
  property — valid names, names free and pairwise different, Rust types
  registered once, every mentioned type registered, nothing nested in an impl
  block, `use` paths that lead somewhere.
-/
import RotoV.Lemmas.RegistrationExact

namespace RotoV.Reg

/-- the registered (leaf) Rust types a Rust type mentions -/
def RustTy.ids : RustTy → List TyId
  | .unit => []
  | .reg id => [id]
  | .option t => t.ids
  | .list t => t.ids
  | .verdict a r => a.ids ++ r.ids
  | .result a r => a.ids ++ r.ids

theorem convTy_ok_iff (st : St) : ∀ t : RustTy,
    (∃ t', convTy st t = .ok t') ↔ ∀ i ∈ t.ids, st.types i ≠ none := by
  intro t
  induction t with
  | unit => simp [convTy, RustTy.ids]
  | reg id => cases h : st.types id <;> simp [convTy, RustTy.ids, h]
  | option t ih =>
    simp only [RustTy.ids, ← ih, convTy, bind, Res.bind, pure]
    cases convTy st t <;> simp
  | list t ih =>
    simp only [RustTy.ids, ← ih, convTy, bind, Res.bind, pure]
    cases convTy st t <;> simp
  | verdict a r iha ihr =>
    simp only [RustTy.ids, List.forall_mem_append, ← iha, ← ihr, convTy, bind, Res.bind, pure]
    cases convTy st a <;> cases convTy st r <;> simp
  | result a r iha ihr =>
    simp only [RustTy.ids, List.forall_mem_append, ← iha, ← ihr, convTy, bind, Res.bind, pure]
    cases convTy st a <;> cases convTy st r <;> simp

theorem convTys_ok_iff (st : St) : ∀ ts : List RustTy,
    (∃ ts', convTys st ts = .ok ts') ↔ ∀ t ∈ ts, ∀ i ∈ t.ids, st.types i ≠ none
  | [] => by simp [convTys]
  | t :: ts => by
    simp only [List.mem_cons, forall_eq_or_imp, ← convTys_ok_iff st ts, ← convTy_ok_iff st t, convTys,
      bind, Res.bind, pure]
    cases convTy st t <;> cases convTys st ts <;> simp

/-- the type ids an operation needs registered -/
def DOp.mentions : DOp → List TyId
  | .mod _ _ => []
  | .fn _ _ ps r _ => ps.flatMap RustTy.ids ++ r.ids
  | .implCheck ty => [ty]
  | .method ty _ ps r _ => ty :: (ps.flatMap RustTy.ids ++ r.ids)
  | .nested => []
  | .const _ _ ty _ => ty.ids
  | .implConst ty _ cty _ => ty :: cty.ids

/-- the name `declare_function` checks once more -/
def DOp.nameOk (lex : Name → Lex) : DOp → Prop
  | .fn _ n _ _ _ => ValidName (lex n)
  | .method _ n _ _ _ => ValidName (lex n)
  | _ => True

/-- the name an operation binds, given the registered types (an impl block's
    items are bound in the scope the *type* owns: the path where the type was declared) -/
def DOp.key (types : TyId → Option RName) : DOp → Option RName
  | .mod s n => some ⟨s, n⟩
  | .fn s n _ _ _ => some ⟨s, n⟩
  | .const s n _ _ => some ⟨s, n⟩
  | .method ty n _ _ _ => (types ty).map (fun nm => ⟨nm.scope ++ [nm.ident], n⟩)
  | .implConst ty n _ _ => (types ty).map (fun nm => ⟨nm.scope ++ [nm.ident], n⟩)
  | .implCheck _ => none
  | .nested => none

section
variable (lex : Name → Lex)

theorem implScope_ok_iff {st : St} (hw : WF st) (ty : TyId) :
    (∃ s, implScope ty st = .ok s) ↔ st.types ty ≠ none := by
  constructor
  · rintro ⟨s, hs⟩
    obtain ⟨nm, h, _⟩ := implScope_ok hw hs
    simp [h]
  · intro h
    cases hs : implScope ty st with
    | ok s => exact ⟨s, rfl⟩
    | panic s => exact absurd hs (implScope_noPanic hw ty s)
    | err e =>
      unfold implScope at hs
      cases ht : st.types ty with
      | none => exact absurd ht h
      | some nm =>
        simp only [ht] at hs
        split at hs <;> cases hs

theorem fnPre_ok_iff (st : St) (scope : ScopeId) (n : Name) (ps : List RustTy) (r : RustTy) (tag : Nat)
    (m : Bool) : (∃ v, fnPre lex st scope n ps r tag m = .ok v) ↔
      ValidName (lex n) ∧ ∀ i ∈ ps.flatMap RustTy.ids ++ r.ids, st.types i ≠ none := by
  simp only [List.forall_mem_append, List.mem_flatMap, forall_exists_index, and_imp]
  rw [← convTy_ok_iff st r]
  have hps := convTys_ok_iff st ps
  constructor
  · rintro ⟨v, hv⟩
    obtain ⟨hn, ps', r', h1, h2, _⟩ := fnPre_ok lex hv
    exact ⟨hn, fun i t ht hi => hps.mp ⟨ps', h1⟩ t ht i hi, r', h2⟩
  · rintro ⟨hn, h1, r', h2⟩
    obtain ⟨ps', h1'⟩ := hps.mpr (fun t ht i hi => h1 i t ht hi)
    have hc := (checkName_fixed_iff _).mpr hn
    unfold fnPre
    simp [hc, h1', h2]

theorem constPre_ok_iff (st : St) (scope : ScopeId) (n : Name) (ty : RustTy) (tag : Nat) :
    (∃ v, constPre st scope n ty tag = .ok v) ↔ ∀ i ∈ ty.ids, st.types i ≠ none := by
  rw [← convTy_ok_iff st ty]
  constructor
  · rintro ⟨v, hv⟩
    obtain ⟨ty', h1, _⟩ := constPre_ok hv
    exact ⟨ty', h1⟩
  · rintro ⟨ty', h1⟩
    unfold constPre
    simp [h1]

/-- **an operation's own precondition, in the property's words**: it is not
    a module / type / impl nested in an impl block, its name is valid, and
    every type it mentions (signature, constant type, the impl block's type) is
    registered -/
theorem DOp.okp_iff {st : St} (hw : WF st) (o : DOp) :
    o.okp lex st ↔ o ≠ .nested ∧ o.nameOk lex ∧ ∀ i ∈ o.mentions, st.types i ≠ none := by
  unfold DOp.okp
  cases o with
  | mod s n => simp [DOp.pre, DOp.nameOk, DOp.mentions]
  | fn s n ps r tag =>
    simp only [DOp.pre, DOp.nameOk, DOp.mentions, ne_eq, reduceCtorEq, not_false_eq_true, true_and]
    exact fnPre_ok_iff lex st s n ps r tag false
  | implCheck ty =>
    simp only [DOp.pre, DOp.nameOk, DOp.mentions, ne_eq, reduceCtorEq, not_false_eq_true, true_and,
      List.mem_singleton, forall_eq]
    rw [show (¬ st.types ty = none) ↔ (∃ s, implScope ty st = .ok s) from (implScope_ok_iff hw ty).symm]
    cases implScope ty st <;> simp
  | method ty n ps r tag =>
    simp only [DOp.pre, DOp.nameOk, DOp.mentions, ne_eq, reduceCtorEq, not_false_eq_true, true_and,
      List.mem_cons, forall_eq_or_imp]
    rw [show (¬ st.types ty = none) ↔ (∃ s, implScope ty st = .ok s) from (implScope_ok_iff hw ty).symm]
    cases hs : implScope ty st with
    | ok s =>
      simp only [Res.ok.injEq, exists_eq', true_and]
      exact fnPre_ok_iff lex st s n ps r tag true
    | err e => simp
    | panic s => simp
  | nested => simp [DOp.pre]
  | const s n ty tag =>
    simp only [DOp.pre, DOp.nameOk, DOp.mentions, ne_eq, reduceCtorEq, not_false_eq_true, true_and]
    exact constPre_ok_iff st s n ty tag
  | implConst ty n cty tag =>
    simp only [DOp.pre, DOp.nameOk, DOp.mentions, ne_eq, reduceCtorEq, not_false_eq_true, true_and,
      List.mem_cons, forall_eq_or_imp]
    rw [show (¬ st.types ty = none) ↔ (∃ s, implScope ty st = .ok s) from (implScope_ok_iff hw ty).symm]
    cases hs : implScope ty st with
    | ok s =>
      simp only [Res.ok.injEq, exists_eq', true_and]
      exact constPre_ok_iff st s n cty tag
    | err e => simp
    | panic s => simp

/-- the name an operation binds is `DOp.key` of the registered types -/
theorem DOp.ent_key {st : St} (hw : WF st) (o : DOp) (h : o.okp lex st) :
    (o.ent lex st).map (·.1) = o.key st.types := by
  obtain ⟨v, hv⟩ := h
  unfold DOp.ent
  cases o with
  | mod s n => simp [DOp.pre, DOp.key]
  | fn s n ps r tag =>
    simp only [DOp.pre] at hv ⊢
    obtain ⟨_, ps', r', _, _, rfl⟩ := fnPre_ok lex hv
    simp [hv, DOp.key]
  | implCheck ty =>
    simp only [DOp.pre] at hv ⊢
    cases hs : implScope ty st <;> simp [hs, DOp.key] at hv ⊢
  | method ty n ps r tag =>
    simp only [DOp.pre] at hv ⊢
    cases hs : implScope ty st with
    | ok s =>
      simp only [hs] at hv ⊢
      obtain ⟨nm, hnm, rfl⟩ := implScope_ok hw hs
      obtain ⟨_, ps', r', _, _, rfl⟩ := fnPre_ok lex hv
      simp [hv, DOp.key, hnm]
    | err e => simp [hs] at hv
    | panic s => simp [hs] at hv
  | nested => simp [DOp.pre] at hv
  | const s n ty tag =>
    simp only [DOp.pre] at hv ⊢
    obtain ⟨ty', _, rfl⟩ := constPre_ok hv
    simp [hv, DOp.key]
  | implConst ty n cty tag =>
    simp only [DOp.pre] at hv ⊢
    cases hs : implScope ty st with
    | ok s =>
      simp only [hs] at hv ⊢
      obtain ⟨nm, hnm, rfl⟩ := implScope_ok hw hs
      obtain ⟨ty', _, rfl⟩ := constPre_ok hv
      simp [hv, DOp.key, hnm]
    | err e => simp [hs] at hv
    | panic s => simp [hs] at hv

theorem keys_eq {st : St} (hw : WF st) : ∀ (l : List DOp), (∀ o ∈ l, o.okp lex st) →
    (entsL (DOp.ent lex) st l).map (·.1) = l.filterMap (DOp.key st.types)
  | [], _ => rfl
  | o :: l, h => by
    have ho := DOp.ent_key lex hw o (h o (List.mem_cons_self ..))
    have ih := keys_eq hw l (fun a ha => h a (List.mem_cons_of_mem _ ha))
    unfold entsL at ih ⊢
    simp only [List.filterMap_cons]
    cases he : DOp.ent lex st o with
    | none =>
      rw [he] at ho
      simp only [Option.map_none] at ho
      simp only [← ho]
      exact ih
    | some e =>
      rw [he] at ho
      simp only [Option.map_some] at ho
      simp only [← ho, List.map_cons, ih]

/-- names that are pairwise different and free in a table -/
def Fresh {K V : Type} (get : K → Option V) (keys : List K) : Prop :=
  keys.Nodup ∧ ∀ k ∈ keys, get k = none

/-- **what passes 1, 3, 4 demand, in the property's words** -/
theorem checkD_iff {st : St} (hw : WF st) (l : List DOp) :
    CheckD lex st l ↔
      (∀ o ∈ l, o ≠ .nested ∧ o.nameOk lex ∧ ∀ i ∈ o.mentions, st.types i ≠ none) ∧
      Fresh (fun k => st.decls k) (l.filterMap (DOp.key st.types)) := by
  unfold Fresh
  constructor
  · rintro ⟨h1, h2, h3⟩
    have hk := keys_eq lex hw l h1
    refine ⟨fun o ho => (DOp.okp_iff lex hw o).mp (h1 o ho), by rw [← hk]; exact h2, fun k hk' => ?_⟩
    rw [← hk] at hk'
    obtain ⟨e, he, rfl⟩ := List.mem_map.mp hk'
    exact h3 e he
  · rintro ⟨h1, h2, h3⟩
    have h1' : ∀ o ∈ l, o.okp lex st := fun o ho => (DOp.okp_iff lex hw o).mpr (h1 o ho)
    have hk := keys_eq lex hw l h1'
    refine ⟨h1', by rw [hk]; exact h2, fun e he => h3 e.1 ?_⟩
    rw [← hk]
    exact List.mem_map.mpr ⟨e, he, rfl⟩

/-- **what pass 5 demands**: every `use` path is non-empty and leads through
    things that own a scope; the imported names are pairwise different and not
    imported at the root already -/
theorem checkI_iff (st : St) (l : List (List Name)) :
    CheckI st l ↔ (∀ p ∈ l, impOk st p) ∧
      Fresh (fun k => st.imports [] k) ((entsL impEnt st l).map (·.1)) := by
  unfold Fresh
  show CheckL _ _ _ st l ↔ _
  unfold CheckL
  constructor
  · rintro ⟨h1, h2, h3⟩
    refine ⟨h1, h2, fun k hk => ?_⟩
    obtain ⟨e, he, rfl⟩ := List.mem_map.mp hk
    exact h3 e he
  · rintro ⟨h1, h2, h3⟩
    exact ⟨h1, h2, fun e he => h3 e.1 (List.mem_map.mpr ⟨e, he, rfl⟩)⟩

end

end RotoV.Reg
