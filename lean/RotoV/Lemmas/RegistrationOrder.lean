/-
  Registration (C18): the order of the items of a library does not matter.

  A reordering of the items at any level (`Shuffle`) permutes each of the five
  operation lists (`ops_shuffle`), the outcome of a pass does not depend on
  the order of its list (`runL_ok_perm`, `runT_ok_perm`), and the name check
  of the item constructors does not depend on it either: `register_ok_shuffle`.
-/
import RotoV.Lemmas.RegistrationClosed

namespace RotoV.Reg

theorem Shuffle.symm {a b : Items} (h : Shuffle a b) : Shuffle b a := by
  induction h with
  | refl => exact .refl _
  | trans _ _ ih1 ih2 => exact .trans ih2 ih1
  | swap i j is => exact .swap j i is
  | tail i _ ih => exact .tail i ih
  | inModule n is _ ih => exact .inModule n is ih
  | inImpl ty is _ ih => exact .inImpl ty is ih

/-! ## reordering permutes the operation lists -/

theorem toList_flatMap_shuffle {α : Type} (f : Item → List α)
    (hm : ∀ n ch ch', f (.module n ch) = f (.module n ch'))
    (hi : ∀ ty ch ch', f (.impl ty ch) = f (.impl ty ch')) {a b : Items} (h : Shuffle a b) :
    (a.toList.flatMap f).Perm (b.toList.flatMap f) := by
  induction h with
  | refl => exact .refl _
  | trans _ _ ih1 ih2 => exact ih1.trans ih2
  | swap i j is =>
    simp only [Items.toList, List.flatMap_cons, ← List.append_assoc]
    exact List.Perm.append_right _ List.perm_append_comm
  | tail i _ ih =>
    simp only [Items.toList, List.flatMap_cons]
    exact List.Perm.append_left _ ih
  | inModule n is _ _ =>
    simp only [Items.toList, List.flatMap_cons]
    rw [hm n _ _]
  | inImpl ty is _ _ =>
    simp only [Items.toList, List.flatMap_cons]
    rw [hi ty _ _]

theorem methodOps_shuffle (ty : TyId) {a b : Items} (h : Shuffle a b) :
    (methodOps ty a).Perm (methodOps ty b) :=
  toList_flatMap_shuffle (methodOp ty) (fun _ _ _ => rfl) (fun _ _ _ => rfl) h

theorem implConstOps_shuffle (ty : TyId) {a b : Items} (h : Shuffle a b) :
    (implConstOps ty a).Perm (implConstOps ty b) :=
  toList_flatMap_shuffle (implConstOp ty) (fun _ _ _ => rfl) (fun _ _ _ => rfl) h

theorem flat_shuffle {α : Type} (leaf : ScopeId → Item → List α)
    (hm : ∀ s n ch ch', leaf s (.module n ch) = leaf s (.module n ch'))
    (hi : ∀ s ty ch ch', Shuffle ch ch' → (leaf s (.impl ty ch)).Perm (leaf s (.impl ty ch')))
    {a b : Items} (h : Shuffle a b) : ∀ scope, (flat leaf scope a).Perm (flat leaf scope b) := by
  induction h with
  | refl => intro _; exact .refl _
  | trans _ _ ih1 ih2 => intro s; exact (ih1 s).trans (ih2 s)
  | swap i j is =>
    intro s
    simp only [flat, ← List.append_assoc]
    exact List.Perm.append_right _ List.perm_append_comm
  | tail i _ ih =>
    intro s
    simp only [flat]
    exact List.Perm.append_left _ (ih s)
  | inModule n is _ ih =>
    intro s
    simp only [flat, flatItem]
    rw [hm s n _ _]
    exact List.Perm.append_right _ (List.Perm.append_left _ (ih (s ++ [n])))
  | inImpl ty is hch _ =>
    intro s
    simp only [flat, flatItem]
    exact List.Perm.append_right _ (hi s ty _ _ hch)

theorem ops1_shuffle {a b : Items} (h : Shuffle a b) : (ops1 a).Perm (ops1 b) :=
  flat_shuffle leafMod (fun _ _ _ _ => rfl) (fun _ _ _ _ _ => .refl _) h []

theorem ops2_shuffle {a b : Items} (h : Shuffle a b) : (ops2 a).Perm (ops2 b) :=
  flat_shuffle leafType (fun _ _ _ _ => rfl) (fun _ _ _ _ _ => .refl _) h []

theorem ops3_shuffle {a b : Items} (h : Shuffle a b) : (ops3 a).Perm (ops3 b) :=
  flat_shuffle leafFn (fun _ _ _ _ => rfl)
    (fun _ ty _ _ hch => by simp only [leafFn]; exact List.Perm.cons _ (methodOps_shuffle ty hch)) h []

theorem ops4_shuffle {a b : Items} (h : Shuffle a b) : (ops4 a).Perm (ops4 b) :=
  flat_shuffle leafConst (fun _ _ _ _ => rfl)
    (fun _ ty _ _ hch => by simp only [leafConst]; exact List.Perm.cons _ (implConstOps_shuffle ty hch)) h []

theorem ops5_shuffle {a b : Items} (h : Shuffle a b) : (ops5 a).Perm (ops5 b) :=
  flat_shuffle leafUse (fun _ _ _ _ => rfl) (fun _ _ _ _ _ => .refl _) h []

/-! ## the name check of the constructors -/

theorem namesValid_shuffle (lex : Name → Lex) {a b : Items} (h : Shuffle a b) :
    NamesValid lex a → NamesValid lex b := by
  induction h with
  | refl => exact id
  | trans _ _ ih1 ih2 => exact fun x => ih2 (ih1 x)
  | swap i j is => simp only [NamesValid]; exact fun ⟨x, y, z⟩ => ⟨y, x, z⟩
  | tail i _ ih => simp only [NamesValid]; exact fun ⟨x, y⟩ => ⟨x, ih y⟩
  | inModule n is _ ih => simp only [NamesValid, NameValidItem]; exact fun ⟨⟨x, y⟩, z⟩ => ⟨⟨x, ih y⟩, z⟩
  | inImpl ty is _ ih => simp only [NamesValid, NameValidItem]; exact fun ⟨x, z⟩ => ⟨ih x, z⟩

/-! ## T4 -/

section
variable (lex : Name → Lex)

theorem addOps_ok_shuffle {st : St} (hw : WF st) {a b : Items} (h : Shuffle a b) (st' : St)
    (hr : addOps lex st a = .ok st') : addOps lex st b = .ok st' := by
  unfold addOps at hr ⊢
  cases h1 : runL (DOp.run lex) (ops1 a) st with
  | err e => simp [h1] at hr
  | panic s => simp [h1] at hr
  | ok st1 =>
    simp only [h1] at hr
    have w1 : WF st1 := by
      have := runL_good (DOp.run lex) (DOp.run_good lex) (ops1 a) st hw
      rw [h1] at this; exact this.2
    rw [runL_ok_perm (guardedD lex) (ops1_shuffle h) st hw st1 h1]
    dsimp only
    cases h2 : runL TOp.run (ops2 a) st1 with
    | err e => simp [h2] at hr
    | panic s => simp [h2] at hr
    | ok st2 =>
      simp only [h2] at hr
      have w2 : WF st2 := by
        have := runL_good TOp.run TOp.run_good (ops2 a) st1 w1
        rw [h2] at this; exact this.2
      rw [runT_ok_perm (ops2_shuffle h) st1 st2 h2]
      dsimp only
      cases h3 : runL (DOp.run lex) (ops3 a) st2 with
      | err e => simp [h3] at hr
      | panic s => simp [h3] at hr
      | ok st3 =>
        simp only [h3] at hr
        have w3 : WF st3 := by
          have := runL_good (DOp.run lex) (DOp.run_good lex) (ops3 a) st2 w2
          rw [h3] at this; exact this.2
        rw [runL_ok_perm (guardedD lex) (ops3_shuffle h) st2 w2 st3 h3]
        dsimp only
        cases h4 : runL (DOp.run lex) (ops4 a) st3 with
        | err e => simp [h4] at hr
        | panic s => simp [h4] at hr
        | ok st4 =>
          simp only [h4] at hr
          rw [runL_ok_perm (guardedD lex) (ops4_shuffle h) st3 w3 st4 h4]
          dsimp only
          exact runL_ok_perm guardedI (ops5_shuffle h) st4 trivial st' hr

/-- a successful registration succeeds, with the same resulting runtime, in every order of the items -/
theorem register_ok_shuffle {st : St} (hw : WF st) {a b : Items} (h : Shuffle a b) (st' : St)
    (hr : register Cfg.fixed lex st a = .ok st') : register Cfg.fixed lex st b = .ok st' := by
  unfold register at hr ⊢
  split at hr
  · rename_i hn
    have hn' := (namesOk_iff lex b).mpr (namesValid_shuffle lex h ((namesOk_iff lex a).mp hn))
    rw [if_pos hn', add_eq lex hw]
    rw [add_eq lex hw] at hr
    exact addOps_ok_shuffle lex hw h st' hr
  · cases hr

end

end RotoV.Reg
