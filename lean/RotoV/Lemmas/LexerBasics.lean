/-
  Basic facts about the lexer model (`Model/Lexer.lean`): UTF-8 sizes, byte
  lengths, `splitAt` on boundaries, suffixes produced by the `StrExt` helpers,
  and `bumpTo`.
-/
import RotoV.Model.Lexer

namespace RotoV.Lex
open RotoV

theorem sz_pos (c : Char) : 1 ≤ sz c := by
  unfold sz; split <;> (try split) <;> (try split) <;> omega

theorem sz_le (c : Char) : sz c ≤ 4 := by
  unfold sz; split <;> (try split) <;> (try split) <;> omega

@[simp] theorem blen_nil : blen [] = 0 := rfl
@[simp] theorem blen_cons (c : Char) (cs : List Char) : blen (c :: cs) = sz c + blen cs := rfl

theorem blen_append (a b : List Char) : blen (a ++ b) = blen a + blen b := by
  induction a with
  | nil => simp
  | cons c cs ih => simp [ih]; omega

theorem blen_eq_zero {s : List Char} (h : blen s = 0) : s = [] := by
  cases s with
  | nil => rfl
  | cons c cs => have := sz_pos c; simp at h; omega

theorem splitAt_zero (s : List Char) : splitAt s 0 = .ok ([], s) := by
  cases s <;> simp [splitAt]

theorem splitAt_cons (c : Char) (cs : List Char) (n : Nat) (h : 0 < n) :
    splitAt (c :: cs) n =
      if sz c ≤ n then
        match splitAt cs (n - sz c) with
        | .ok p => .ok (c :: p.1, p.2)
        | .panic => .panic
      else .panic := by
  cases n with
  | zero => omega
  | succ m => by_cases hc : sz c ≤ m + 1 <;> simp [splitAt, hc] <;> cases splitAt cs (m + 1 - sz c) <;> rfl

/-- splitting at the byte length of a prefix succeeds and gives that prefix -/
theorem splitAt_append (pre post : List Char) :
    splitAt (pre ++ post) (blen pre) = .ok (pre, post) := by
  induction pre with
  | nil => simp [splitAt_zero]
  | cons c cs ih =>
    have hp := sz_pos c
    rw [List.cons_append, splitAt_cons _ _ _ (by simp; omega)]
    simp [ih]

/-- `splitAt` only succeeds on boundaries -/
theorem splitAt_ok {s : List Char} {n : Nat} {p : List Char × List Char}
    (h : splitAt s n = .ok p) : s = p.1 ++ p.2 ∧ blen p.1 = n := by
  induction s generalizing n p with
  | nil =>
    cases n with
    | zero => simp [splitAt] at h; subst h; simp
    | succ m => simp [splitAt] at h
  | cons c cs ih =>
    cases n with
    | zero => simp [splitAt] at h; subst h; simp
    | succ m =>
      rw [splitAt_cons _ _ _ (by omega)] at h
      split at h
      · rename_i hle
        split at h
        · rename_i q hq
          have := ih hq
          injection h with h; subst h
          simp [this.1.symm]; omega
        · cases h
      · cases h

/-- `t` is a suffix of `s` -/
def Suffix (t s : List Char) : Prop := ∃ pre, s = pre ++ t

theorem Suffix.refl (s : List Char) : Suffix s s := ⟨[], rfl⟩
theorem Suffix.trans {a b c : List Char} (h1 : Suffix a b) (h2 : Suffix b c) : Suffix a c := by
  obtain ⟨p1, rfl⟩ := h1; obtain ⟨p2, rfl⟩ := h2; exact ⟨p2 ++ p1, by simp⟩
theorem Suffix.cons (c : Char) {t s : List Char} (h : Suffix t s) : Suffix t (c :: s) := by
  obtain ⟨p, rfl⟩ := h; exact ⟨c :: p, rfl⟩
theorem Suffix.tail (c : Char) (s : List Char) : Suffix s (c :: s) := ⟨[c], rfl⟩
theorem Suffix.nil (s : List Char) : Suffix [] s := ⟨s, by simp⟩
theorem Suffix.blen_le {t s : List Char} (h : Suffix t s) : blen t ≤ blen s := by
  obtain ⟨p, rfl⟩ := h; rw [blen_append]; omega

theorem usub_ok {a b : Nat} (h : b ≤ a) : usub a b = .ok (a - b) := by simp [usub, h]

/-! ### the `StrExt` helpers return suffixes -/

theorem eatChar_suffix (c : Char) (s : List Char) : Suffix (eatChar c s).2 s := by
  cases s with
  | nil => exact Suffix.refl _
  | cons x xs => simp only [eatChar]; split <;> first | exact Suffix.tail _ _ | exact Suffix.refl _

/-- a successful `eatChar` consumed exactly that character -/
theorem eatChar_true {c : Char} {s t : List Char} (h : eatChar c s = (true, t)) : s = c :: t := by
  cases s with
  | nil => simp [eatChar] at h
  | cons x xs =>
    simp only [eatChar] at h
    split at h
    · rename_i hx; simp at h; subst hx; rw [h]
    · simp at h

theorem stripPrefix_some {p s r : List Char} (h : stripPrefix p s = some r) : s = p ++ r := by
  induction p generalizing s with
  | nil => simp [stripPrefix] at h; simp [h]
  | cons a ps ih =>
    cases s with
    | nil => simp [stripPrefix] at h
    | cons x xs =>
      simp only [stripPrefix] at h
      split at h
      · rename_i hx; subst hx; simp [ih h]
      · cases h

theorem eatStr_true {p s t : List Char} (h : eatStr p s = (true, t)) : s = p ++ t := by
  unfold eatStr at h
  split at h
  · rename_i r hr; simp at h; subst h; exact stripPrefix_some hr
  · simp at h

theorem eatStr_suffix (p s : List Char) : Suffix (eatStr p s).2 s := by
  unfold eatStr
  split
  · rename_i r hr; exact ⟨p, stripPrefix_some hr⟩
  · exact Suffix.refl _

theorem eatOneOf_suffix (o : List Char) (s : List Char) : Suffix (eatOneOf o s).2 s := by
  cases s with
  | nil => exact Suffix.refl _
  | cons x xs => simp only [eatOneOf]; split <;> first | exact Suffix.tail _ _ | exact Suffix.refl _

theorem eatUntil_suffix (c : Char) (s : List Char) : Suffix (eatUntil c s) s := by
  induction s with
  | nil => exact Suffix.refl _
  | cons x xs ih => simp only [eatUntil]; split <;> first | exact Suffix.tail _ _ | exact ih.cons _

theorem dropWhile_suffix' (p : Char → Bool) (s : List Char) : Suffix (s.dropWhile p) s := by
  obtain ⟨pre, h⟩ := List.dropWhile_suffix (p := p) (l := s)
  exact ⟨pre, h.symm⟩

theorem eatWhile_suffix (p : Char → Bool) (s : List Char) : Suffix (eatWhile p s).2 s :=
  dropWhile_suffix' p s

theorem eatUntilQuote_suffix (q : Char) (b : Bool) (s : List Char) :
    Suffix (eatUntilQuote q b s) s := by
  induction s generalizing b with
  | nil => exact Suffix.refl _
  | cons x xs ih =>
    simp only [eatUntilQuote]
    split
    · exact (ih _).cons _
    · split
      · exact Suffix.tail _ _
      · split <;> exact (ih _).cons _

theorem skipWsTail_suffix (P : Preds) (fuel : Nat) (s : List Char) :
    Suffix (skipWsTail P fuel s) s := by
  induction fuel generalizing s with
  | zero => exact Suffix.refl _
  | succ f ih =>
    simp only [skipWsTail]
    split
    · rename_i r hr
      have h1 := eatStr_true hr
      refine Suffix.trans (ih _) (Suffix.trans (eatUntil_suffix _ _) ?_)
      exact Suffix.trans ⟨['/', '/'], h1⟩ (dropWhile_suffix' _ _)
    · exact dropWhile_suffix' _ _

end RotoV.Lex

namespace RotoV.Lex
open RotoV

/-- `L` is a state the lexer can be in while lexing `src`: the remaining input
is a suffix of `src` (so it starts on a character boundary). -/
def Reach (src : List Char) (L : Lexer) : Prop :=
  L.origLen = blen src ∧ ∃ pre, src = pre ++ L.input

/-- byte offset of the lexer in the source (`original_length - input.len()`) -/
def Lexer.pos (L : Lexer) : Nat := L.origLen - blen L.input

/-- a span lies inside `src`, on character boundaries, `start ≤ end` -/
def SpanOk (src : List Char) (sp : Span) : Prop :=
  sp.1 ≤ sp.2 ∧ IsBoundary src sp.1 ∧ IsBoundary src sp.2

theorem Reach.new (src : List Char) : Reach src (Lexer.new src) := ⟨rfl, [], rfl⟩

theorem Reach.pos_eq {src : List Char} {L : Lexer} (h : Reach src L) {pre : List Char}
    (hp : src = pre ++ L.input) : L.pos = blen pre := by
  unfold Lexer.pos; rw [h.1, hp, blen_append]; omega

/-- what a successful `bump` over a prefix `a` of the input gives -/
structure BumpSpec (src : List Char) (L : Lexer) (a b : List Char)
    (r : List Char × Span × Lexer) : Prop where
  text : r.1 = a
  start : r.2.1.1 = L.pos
  stop : r.2.1.2 = L.pos + blen a
  next : r.2.2 = { L with input := b }
  reach : Reach src r.2.2
  pos : r.2.2.pos = L.pos + blen a
  span : SpanOk src r.2.1

theorem bump_ok {src : List Char} {L : Lexer} (h : Reach src L) {a b : List Char}
    (hin : L.input = a ++ b) : ∃ r, L.bump (blen a) = .ok r ∧ BumpSpec src L a b r := by
  obtain ⟨ho, pre, hp⟩ := h
  have hpos : L.pos = blen pre := Reach.pos_eq ⟨ho, pre, hp⟩ hp
  have hlen : L.origLen = blen pre + blen a + blen b := by
    rw [ho, hp, hin, blen_append, blen_append]; omega
  have h1 : usub L.origLen (blen L.input) = .ok (blen pre) := by
    rw [hin, blen_append, usub_ok (by omega)]; congr 1; omega
  have h2 : usub L.origLen (blen b) = .ok (blen pre + blen a) := by
    rw [usub_ok (by omega)]; congr 1; omega
  refine ⟨(a, (blen pre, blen pre + blen a), { L with input := b }), ?_, ?_⟩
  · unfold Lexer.bump
    rw [h1]; simp only []
    rw [hin, splitAt_append]; simp only []
    rw [h2]
  · have hr : Reach src { L with input := b } := ⟨ho, pre ++ a, by rw [hp, hin]; simp⟩
    refine ⟨rfl, hpos.symm, by rw [hpos], rfl, hr, ?_, ?_⟩
    · show Lexer.pos { L with input := b } = _
      unfold Lexer.pos at *; simp only []; omega
    · refine ⟨by simp, ⟨pre, a ++ b, by rw [hp, hin], rfl⟩, ⟨pre ++ a, b, by rw [hp, hin]; simp, ?_⟩⟩
      rw [blen_append]

theorem bumpTo_ok {src : List Char} {L : Lexer} (h : Reach src L) {a tail : List Char}
    (hin : L.input = a ++ tail) : ∃ r, L.bumpTo tail = .ok r ∧ BumpSpec src L a tail r := by
  unfold Lexer.bumpTo
  have : usub (blen L.input) (blen tail) = .ok (blen a) := by
    rw [hin, blen_append, usub_ok (by omega)]; congr 1; omega
  rw [this]
  exact bump_ok h hin

theorem breakAt_ok {src : List Char} {L : Lexer} (h : Reach src L) {a tail : List Char}
    (hin : L.input = a ++ tail) (kind : TokKind) :
    ∃ sp L', breakAt L tail kind = .ok (some (kind, sp, L')) ∧
      sp.1 = L.pos ∧ sp.2 = L.pos + blen a ∧ L'.pos = sp.2 ∧ Reach src L' ∧ SpanOk src sp ∧
      L'.input = tail := by
  obtain ⟨r, hr, spec⟩ := bumpTo_ok h hin
  refine ⟨r.2.1, r.2.2, ?_, spec.start, spec.stop, ?_, spec.reach, spec.span, ?_⟩
  · unfold breakAt; rw [hr]
  · rw [spec.pos, spec.stop]
  · rw [spec.next]

end RotoV.Lex
