/-
  Termination (C13): the loops of name resolution and of `imports` never run out
  of the fuel the model gives them, on the graphs the type checker builds.
-/
import RotoV.Model.Scope
import RotoV.Lemmas.Scope
import RotoV.Lemmas.ScopePath
import RotoV.Lemmas.ScopeBuild
import RotoV.Lemmas.ScopeImports

namespace RotoV.Scope

theorem firstHit_no_fuel (g : Graph) (x : Name) :
    ∀ chain : List Nat, firstHit g x chain ≠ .panic .fuel := by
  intro chain
  induction chain with
  | nil => intro h; cases h
  | cons a l ih =>
    simp only [firstHit, hitAt]
    cases g.decl ⟨a, x⟩ with
    | some d => intro h; cases h
    | none =>
      simp only
      cases g.scopes[a]? with
      | none => intro h; cases h
      | some sc =>
        simp only
        cases sc.imports.lookup x with
        | none => exact ih
        | some t =>
          simp only
          cases g.decl t <;> (intro h; cases h)

theorem resolve_no_fuel {g : Graph} (wf : WF g) (s : Nat) (x : Name) (r : Bool) :
    g.resolve s x r ≠ .panic .fuel := by
  cases r with
  | false => rw [resolve_false]; intro h; cases h
  | true =>
    by_cases hs : s < g.scopes.length
    · obtain ⟨chain, hc⟩ := ancestors_exist wf s hs
      rw [show g.resolve s x true = firstHit g x chain from
        resolveName_eq_firstHit wf x (s + 1) s chain (Nat.lt_succ_self s) hc]
      exact firstHit_no_fuel g x chain
    · have hn : g.scopes[s]? = none := List.getElem?_eq_none (Nat.le_of_not_lt hs)
      simp only [Graph.resolve, Graph.resolveName]
      cases g.decl ⟨s, x⟩ with
      | some d => intro h; cases h
      | none => simp [hn]

theorem parentModule_no_fuel {g : Graph} (wf : WF g) (s : Nat) :
    g.parentModule s ≠ .panic .fuel := by
  by_cases hs : s < g.scopes.length
  · obtain ⟨chain, hc⟩ := ancestors_exist wf s hs
    rw [parentModule_eq wf hc]
    unfold parentModuleSpec
    cases enclosingModule g chain with
    | none => intro h; cases h
    | some t =>
      obtain ⟨m, name, pm⟩ := t
      cases pm with
      | none => intro h; cases h
      | some p =>
        simp only
        cases g.scopes[p]? with
        | none => intro h; cases h
        | some psc =>
          simp only
          cases psc.kind with
          | module pname ppm => simp only; cases g.decl pname <;> (intro h; cases h)
          | _ => intro h; cases h
  · have hn : g.scopes[s]? = none := List.getElem?_eq_none (Nat.le_of_not_lt hs)
    simp [Graph.parentModule, Graph.parentModuleF, hn]

theorem segments_no_fuel {g : Graph} (wf : WF g) :
    ∀ (rest : List Name) (s : Nat) (id : Name) (rc : Bool), segments g s id rest rc ≠ .panic .fuel := by
  intro rest
  induction rest with
  | nil =>
    intro s id rc
    unfold segments
    by_cases hid : id = SUPER
    · simp [hid]
    · simp only [hid, ↓reduceIte]
      have := resolve_no_fuel wf s id rc
      cases hr : g.resolve s id rc with
      | panic p => intro h; cases h; exact this hr
      | err e => intro h; cases h
      | ok o =>
        cases o with
        | none => intro h; cases h
        | some stub => simp only; cases stub.scope <;> (intro h; cases h)
  | cons i rest' ih =>
    intro s id rc
    unfold segments
    by_cases hid : id = SUPER
    · simp [hid]
    · simp only [hid, ↓reduceIte]
      have := resolve_no_fuel wf s id rc
      cases hr : g.resolve s id rc with
      | panic p => intro h; cases h; exact this hr
      | err e => intro h; cases h
      | ok o =>
        cases o with
        | none => intro h; cases h
        | some stub =>
          simp only
          cases stub.scope with
          | none => intro h; cases h
          | some s' => exact ih s' i false

theorem supers_no_fuel {g : Graph} (wf : WF g) :
    ∀ (rest : List Name) (s : Nat) (id : Name) (after : Bool), supers g s id rest after ≠ .panic .fuel := by
  intro rest
  induction rest with
  | nil =>
    intro s id after
    unfold supers
    by_cases hid : id = SUPER
    · simp only [hid, ↓reduceIte]
      have := parentModule_no_fuel wf s
      cases hp : g.parentModule s with
      | panic p => intro h; cases h; exact this hp
      | err e => intro h; cases h
      | ok o =>
        cases o with
        | none => intro h; cases h
        | some dec => simp only; cases dec.scope <;> (intro h; cases h)
    · simp only [hid, ↓reduceIte]; exact segments_no_fuel wf _ _ _ _
  | cons i rest' ih =>
    intro s id after
    unfold supers
    by_cases hid : id = SUPER
    · simp only [hid, ↓reduceIte]
      have := parentModule_no_fuel wf s
      cases hp : g.parentModule s with
      | panic p => intro h; cases h; exact this hp
      | err e => intro h; cases h
      | ok o =>
        cases o with
        | none => intro h; cases h
        | some dec =>
          simp only
          cases dec.scope with
          | none => intro h; cases h
          | some s' => exact ih s' i true
    · simp only [hid, ↓reduceIte]; exact segments_no_fuel wf _ _ _ _

theorem importOne_no_fuel {g : Graph} (wf : WF g) (s : Nat) (p : Path) :
    importOne g s p ≠ .panic .fuel := by
  unfold importOne
  cases hr : resolveModulePart g s p with
  | panic x =>
    intro h; cases h
    cases p with
    | nil => cases hr
    | cons id rest => exact supers_no_fuel wf rest s id false hr
  | err e => intro h; cases h
  | ok r =>
    simp only
    cases r.rest with
    | cons a b => intro h; cases h
    | nil =>
      simp only [Graph.insertImport]
      cases g.scopes[s]? with
      | none => intro h; cases h
      | some sc => simp only; cases sc.imports.lookup r.decl.name.ident <;> (intro h; cases h)

theorem retainPass_no_fuel {s : Nat} :
    ∀ (ps : List Path) (g : Graph), Inv g → retainPass s g ps ≠ .panic .fuel := by
  intro ps
  induction ps with
  | nil => intro g _ h; cases h
  | cons p ps ih =>
    intro g inv
    unfold retainPass
    have h1 := importOne_no_fuel inv.wf s p
    cases hi : importOne g s p with
    | panic x => intro h; cases h; exact h1 hi
    | ok g1 =>
      simp only
      have := ih g1 (step_importOne inv hi).1
      cases hr : retainPass s g1 ps with
      | panic x => intro h; cases h; exact this hr
      | err e => intro h; cases h
      | ok pr => intro h; cases h
    | err e =>
      simp only
      have := ih g inv
      cases hr : retainPass s g ps with
      | panic x => intro h; cases h; exact this hr
      | err e => intro h; cases h
      | ok pr => intro h; cases h

theorem retainPass_len {s : Nat} :
    ∀ (ps : List Path) (g g' : Graph) (rem : List Path),
      retainPass s g ps = .ok (g', rem) → rem.length ≤ ps.length := by
  intro ps
  induction ps with
  | nil => intro g g' rem h; simp only [retainPass, Res.ok.injEq, Prod.mk.injEq] at h; rw [← h.2]; simp
  | cons p ps ih =>
    intro g g' rem h
    unfold retainPass at h
    cases hi : importOne g s p with
    | panic x => rw [hi] at h; cases h
    | ok g1 =>
      rw [hi] at h
      simp only at h
      cases hr : retainPass s g1 ps with
      | panic x => rw [hr] at h; cases h
      | err e => rw [hr] at h; cases h
      | ok pr =>
        rw [hr] at h
        obtain ⟨g2, rem2⟩ := pr
        simp only [Res.ok.injEq, Prod.mk.injEq] at h
        rw [← h.2]
        have := ih g1 g2 rem2 hr
        simp only [List.length_cons]; omega
    | err e =>
      rw [hi] at h
      simp only at h
      cases hr : retainPass s g ps with
      | panic x => rw [hr] at h; cases h
      | err e => rw [hr] at h; cases h
      | ok pr =>
        rw [hr] at h
        obtain ⟨g2, rem2⟩ := pr
        simp only [Res.ok.injEq, Prod.mk.injEq] at h
        rw [← h.2]
        have := ih g g2 rem2 hr
        simp only [List.length_cons]; omega

/-- no progress: nothing was imported and the first path fails again -/
theorem retainPass_stuck {s : Nat} :
    ∀ (ps : List Path) (g g' : Graph) (rem : List Path),
      retainPass s g ps = .ok (g', rem) → rem.length = ps.length →
      g' = g ∧ rem = ps ∧ ∀ p ∈ ps, ∃ e, importOne g s p = .err e := by
  intro ps
  induction ps with
  | nil =>
    intro g g' rem h _
    simp only [retainPass, Res.ok.injEq, Prod.mk.injEq] at h
    exact ⟨h.1.symm, h.2.symm, by intro p hp; cases hp⟩
  | cons p ps ih =>
    intro g g' rem h hl
    unfold retainPass at h
    cases hi : importOne g s p with
    | panic x => rw [hi] at h; cases h
    | ok g1 =>
      rw [hi] at h
      simp only at h
      cases hr : retainPass s g1 ps with
      | panic x => rw [hr] at h; cases h
      | err e => rw [hr] at h; cases h
      | ok pr =>
        rw [hr] at h
        obtain ⟨g2, rem2⟩ := pr
        simp only [Res.ok.injEq, Prod.mk.injEq] at h
        have := retainPass_len ps g1 g2 rem2 hr
        rw [← h.2] at hl
        simp only [List.length_cons] at hl
        omega
    | err e =>
      rw [hi] at h
      simp only at h
      cases hr : retainPass s g ps with
      | panic x => rw [hr] at h; cases h
      | err e => rw [hr] at h; cases h
      | ok pr =>
        rw [hr] at h
        obtain ⟨g2, rem2⟩ := pr
        simp only [Res.ok.injEq, Prod.mk.injEq] at h
        rw [← h.2] at hl
        simp only [List.length_cons, Nat.add_right_cancel_iff] at hl
        obtain ⟨hg, hrem, hall⟩ := ih g g2 rem2 hr hl
        refine ⟨by rw [← h.1, hg], by rw [← h.2, hrem], ?_⟩
        intro q hq
        simp only [List.mem_cons] at hq
        rcases hq with rfl | hq
        · exact ⟨e, hi⟩
        · exact hall q hq

theorem importsF_no_fuel {s : Nat} :
    ∀ (fuel : Nat) (g : Graph) (ps : List Path), Inv g → ps.length < fuel →
      importsF s fuel g ps ≠ .panic .fuel := by
  intro fuel
  induction fuel with
  | zero => intro g ps _ h; omega
  | succ n ih =>
    intro g ps inv hlen
    unfold importsF
    have h1 := retainPass_no_fuel ps g inv (s := s)
    cases hr : retainPass s g ps with
    | panic x => intro h; cases h; exact h1 hr
    | err e => intro h; cases h
    | ok pr =>
      obtain ⟨g1, rem⟩ := pr
      simp only
      have hle := retainPass_len ps g g1 rem hr
      have s1 := step_retainPass ps g g1 rem inv hr
      by_cases h0 : rem.length = 0
      · simp [h0]
      · simp only [h0, ↓reduceIte]
        by_cases heq : rem.length = ps.length
        · simp only [heq, ↓reduceIte]
          obtain ⟨hg, hrem, hall⟩ := retainPass_stuck ps g g1 rem hr heq
          subst hg hrem
          cases rem with
          | nil => simp at h0
          | cons p rest =>
            obtain ⟨e, he⟩ := hall p List.mem_cons_self
            simp [importAll, he]
        · simp only [heq, ↓reduceIte]
          exact ih g1 rem s1.1 (by omega)

/-- **`imports` terminates**: the retain-until-no-progress loop never runs out of
    the `paths.len() + 1` rounds it can need (on graphs the checker builds). -/
theorem imports_no_fuel {g : Graph} (inv : Inv g) (s : Nat) (ps : List Path) :
    imports g s ps ≠ .panic .fuel :=
  importsF_no_fuel _ g ps inv (Nat.lt_succ_self _)

end RotoV.Scope
