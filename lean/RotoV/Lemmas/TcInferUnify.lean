/-
  Lemmas for C07 / `Model/TcInfer.lean`: what a successful unification MEANS.

  A valuation `σ` gives every unification variable a type of the declarative
  model; `den σ t` is the type a checker type `t` stands for under `σ`;
  `Sat σ s` says that `σ` solves the store `s` (every slot's content denotes
  the slot's own value, literal variables have values of their kind).
  `unify_sound`: on well-formed types (no records / functions / `!` inside, type
  constructors applied to the right number of arguments) a successful
  `unify_inner` only ever STRENGTHENS the store (`Sat σ s' → Sat σ s`) and every
  solution of the new store equates the two types (`den σ a = den σ b`) —
  the half of T2 that `Lemmas/UnifyTc.lean` leaves open, for this fragment.
-/
import RotoV.Model.TcInfer
import RotoV.Model.TcInferSem
import RotoV.Lemmas.UnifyTc
import RotoV.Lemmas.Typing

namespace RotoV.TcInfer
open RotoV.Typing RotoV.Unify RotoV.Gen

/-- number of type arguments of a type name -/
def arity (n : Nat) : Nat :=
  if n == nmOption || n == nmList then 1 else if n == nmVerdict then 2 else 0

mutual
/-- well-formed checker type of the core fragment: variables, `()`, type names
    applied to the right number of well-formed arguments -/
def WT : MTy → Bool
  | .var _ | .intVar _ _ | .floatVar _ | .unit => true
  | .name n args => WTl args && args.length == arity n
  | _ => false
def WTl : List MTy → Bool
  | [] => true
  | t :: ts => WT t && WTl ts
end

/-- a slot holding a literal variable has a value of that kind -/
def KindOk (σ : Val) (i : Nat) : MTy → Prop
  | .intVar _ sg => isGInt (σ i) = true ∧ (sg = true → isGSigned (σ i) = true)
  | .floatVar _ => isGFloat (σ i) = true
  | _ => True

/-- `σ` solves the store -/
def Sat (σ : Val) (s : Store) : Prop :=
  ∀ (i : Nat) (t : MTy), s[i]? = some t → den σ t = σ i ∧ KindOk σ i t

def WTs (s : Store) : Prop := ∀ (i : Nat) (t : MTy), s[i]? = some t → WT t = true

/-- the named types are numbered as `TcInfer.mkDefs` numbers them -/
structure DefsStd (d : Defs) : Prop where
  isInt : ∀ n, d.isInt n = decide (n < 8)
  isSigned : ∀ n, d.isSignedInt n = decide (4 ≤ n ∧ n < 8)
  isFloat : ∀ n, d.isFloat n = (n == 8 || n == 9)

theorem mkDefs_std (env : Env) : DefsStd (mkDefs env) := by
  constructor
  · intro n
    unfold Defs.isInt mkDefs
    by_cases h1 : n < 4
    · simp [h1]; omega
    · by_cases h2 : n < 8
      · simp [h1, h2]
      · by_cases h3 : n < 10
        · simp [h1, h2, h3]
        · by_cases h4 : n < 32
          · simp [h1, h2, h3, h4]
          · simp only [h1, h2, h3, h4, if_false]
            cases env.types.lookup (n - 32) with
            | none => simp [h2]
            | some td => cases td <;> simp [h2]
  · intro n
    unfold Defs.isSignedInt mkDefs
    by_cases h1 : n < 4
    · simp [h1]; omega
    · by_cases h2 : n < 8
      · simp [h1, h2]; omega
      · by_cases h3 : n < 10
        · simp [h1, h2, h3]
        · by_cases h4 : n < 32
          · simp [h1, h2, h3, h4]
          · simp only [h1, h2, h3, h4, if_false]
            cases env.types.lookup (n - 32) with
            | none => simp [h2]
            | some td => cases td <;> simp [h2]
  · intro n
    unfold Defs.isFloat mkDefs
    by_cases h1 : n < 4
    · simp [h1]; omega
    · by_cases h2 : n < 8
      · simp [h1, h2]; omega
      · by_cases h3 : n < 10
        · simp [h1, h2, h3]; omega
        · by_cases h4 : n < 32
          · simp [h1, h2, h3, h4]; omega
          · simp only [h1, h2, h3, h4, if_false]
            cases env.types.lookup (n - 32) with
            | none => simp; omega
            | some td => cases td <;> simp <;> omega

theorem den_varlike {σ : Val} {t : MTy} {j : Nat} (h : t.varIndex = some j) : den σ t = σ j := by
  cases t <;> simp [MTy.varIndex] at h <;> subst h <;> simp [den]

theorem find_slot {s : Store} : ∀ fuel i t, find s fuel i = some t →
    ∃ j, s[j]? = some t ∧ ∀ v, t.varIndex = some v → v = j := by
  intro fuel
  induction fuel with
  | zero => intro i t h; simp [find] at h
  | succ fuel ih =>
    intro i t h
    simp only [find] at h
    cases hs : s[i]? with
    | none => simp [hs] at h
    | some t0 =>
      simp only [hs] at h
      cases hv : t0.varIndex with
      | none =>
        simp only [hv] at h
        cases h
        exact ⟨i, hs, by intro v h'; rw [hv] at h'; cases h'⟩
      | some j =>
        simp only [hv] at h
        by_cases hj : j = i
        · subst hj
          simp at h
          subst h
          exact ⟨j, hs, by intro v h'; rw [hv] at h'; cases h'; rfl⟩
        · have : (j != i) = true := by simp [hj]
          simp only [this, if_true] at h
          exact ih j t h

theorem find_den {σ : Val} {s : Store} (hs : Sat σ s) : ∀ fuel i t, find s fuel i = some t → den σ t = σ i := by
  intro fuel
  induction fuel with
  | zero => intro i t h; simp [find] at h
  | succ fuel ih =>
    intro i t h
    simp only [find] at h
    cases hsl : s[i]? with
    | none => simp [hsl] at h
    | some t0 =>
      simp only [hsl] at h
      have h0 := (hs i t0 hsl).1
      cases hv : t0.varIndex with
      | none => simp only [hv] at h; cases h; exact h0
      | some j =>
        simp only [hv] at h
        by_cases hj : j = i
        · subst hj; simp at h; subst h; exact h0
        · have : (j != i) = true := by simp [hj]
          simp only [this, if_true] at h
          rw [ih j t h, ← h0, den_varlike hv]

theorem resolve_den {σ : Val} {s : Store} (hs : Sat σ s) {a a' : MTy} (h : resolve s a = some a') :
    den σ a' = den σ a := by
  unfold resolve at h
  cases hv : a.varIndex with
  | none => simp only [hv] at h; cases h; rfl
  | some i => simp only [hv] at h; rw [find_den hs _ i a' h, den_varlike hv]

theorem resolve_WT {s : Store} (hs : WTs s) {a a' : MTy} (ha : WT a = true) (h : resolve s a = some a') :
    WT a' = true := by
  unfold resolve at h
  cases hv : a.varIndex with
  | none => simp only [hv] at h; cases h; exact ha
  | some i =>
    simp only [hv] at h
    obtain ⟨j, hj, _⟩ := find_slot _ i a' h
    exact hs j a' hj

/-- a resolved variable is the content of its own slot (a root) -/
theorem resolve_root {s : Store} {a a' : MTy} {v : Nat} (h : resolve s a = some a')
    (hv : a'.varIndex = some v) : s[v]? = some a' := by
  unfold resolve at h
  cases ha : a.varIndex with
  | none => simp only [ha] at h; cases h; rw [ha] at hv; cases hv
  | some i =>
    simp only [ha] at h
    obtain ⟨j, hj, hjv⟩ := find_slot _ i a' h
    rw [hjv v hv]; exact hj

theorem Sat_set {σ : Val} {s : Store} {v : Nat} {t : MTy} (h : Sat σ (setSlot s v t))
    (hold : ∀ r, s[v]? = some r → den σ r = σ v ∧ KindOk σ v r) : Sat σ s := by
  intro i r hr
  by_cases hi : i = v
  · subst hi; exact hold r hr
  · apply h i r
    unfold setSlot
    rw [List.getElem?_set_ne (Ne.symm hi)]; exact hr

theorem Sat_set_new {σ : Val} {s : Store} {v : Nat} {t : MTy} (h : Sat σ (setSlot s v t))
    (hv : v < s.length) : den σ t = σ v ∧ KindOk σ v t := by
  apply h v t
  unfold setSlot
  simp [List.getElem?_set_self hv]

theorem WTs_set {s : Store} {v : Nat} {t : MTy} (h : WTs s) (ht : WT t = true) : WTs (setSlot s v t) := by
  intro i r hr
  unfold setSlot at hr
  by_cases hi : v = i
  · subst hi
    by_cases hv : v < s.length
    · rw [List.getElem?_set_self hv] at hr; cases hr; exact ht
    · have : (s.set v t)[v]? = none := by simp; omega
      rw [this] at hr; cases hr
  · rw [List.getElem?_set_ne hi] at hr; exact h i r hr

mutual
theorem beq_den (σ : Val) : ∀ (a b : MTy), MTy.beq a b = true → den σ a = den σ b
  | .var a, .var b, h => by simp [MTy.beq] at h; subst h; rfl
  | .explicitVar a, .explicitVar b, _ => by simp [den]
  | .intVar a s, .intVar b t, h => by simp [MTy.beq] at h; simp [den, h.1]
  | .floatVar a, .floatVar b, h => by simp [MTy.beq] at h; simp [den, h]
  | .recordVar a fs, .recordVar b gs, h => by simp [MTy.beq] at h; simp [den, h.1]
  | .unit, .unit, _ => rfl
  | .never, .never, _ => rfl
  | .record fs, .record gs, _ => by simp [den]
  | .func ps r, .func qs s, _ => by simp [den]
  | .name a xs, .name b ys, h => by
    simp [MTy.beq] at h
    simp only [den, h.1, beqList_den σ xs ys h.2]
  | .var _, .explicitVar _, h | .var _, .intVar _ _, h | .var _, .floatVar _, h | .var _, .recordVar _ _, h
  | .var _, .unit, h | .var _, .never, h | .var _, .record _, h | .var _, .func _ _, h | .var _, .name _ _, h => by
    simp [MTy.beq] at h
  | .explicitVar _, .var _, h | .explicitVar _, .intVar _ _, h | .explicitVar _, .floatVar _, h
  | .explicitVar _, .recordVar _ _, h | .explicitVar _, .unit, h | .explicitVar _, .never, h
  | .explicitVar _, .record _, h | .explicitVar _, .func _ _, h | .explicitVar _, .name _ _, h => by
    simp [MTy.beq] at h
  | .intVar _ _, .var _, h | .intVar _ _, .explicitVar _, h | .intVar _ _, .floatVar _, h
  | .intVar _ _, .recordVar _ _, h | .intVar _ _, .unit, h | .intVar _ _, .never, h
  | .intVar _ _, .record _, h | .intVar _ _, .func _ _, h | .intVar _ _, .name _ _, h => by
    simp [MTy.beq] at h
  | .floatVar _, .var _, h | .floatVar _, .explicitVar _, h | .floatVar _, .intVar _ _, h
  | .floatVar _, .recordVar _ _, h | .floatVar _, .unit, h | .floatVar _, .never, h
  | .floatVar _, .record _, h | .floatVar _, .func _ _, h | .floatVar _, .name _ _, h => by
    simp [MTy.beq] at h
  | .recordVar _ _, .var _, h | .recordVar _ _, .explicitVar _, h | .recordVar _ _, .intVar _ _, h
  | .recordVar _ _, .floatVar _, h | .recordVar _ _, .unit, h | .recordVar _ _, .never, h
  | .recordVar _ _, .record _, h | .recordVar _ _, .func _ _, h | .recordVar _ _, .name _ _, h => by
    simp [MTy.beq] at h
  | .unit, .var _, h | .unit, .explicitVar _, h | .unit, .intVar _ _, h | .unit, .floatVar _, h
  | .unit, .recordVar _ _, h | .unit, .never, h | .unit, .record _, h | .unit, .func _ _, h
  | .unit, .name _ _, h => by simp [MTy.beq] at h
  | .never, .var _, h | .never, .explicitVar _, h | .never, .intVar _ _, h | .never, .floatVar _, h
  | .never, .recordVar _ _, h | .never, .unit, h | .never, .record _, h | .never, .func _ _, h
  | .never, .name _ _, h => by simp [MTy.beq] at h
  | .record _, .var _, h | .record _, .explicitVar _, h | .record _, .intVar _ _, h | .record _, .floatVar _, h
  | .record _, .recordVar _ _, h | .record _, .unit, h | .record _, .never, h | .record _, .func _ _, h
  | .record _, .name _ _, h => by simp [MTy.beq] at h
  | .func _ _, .var _, h | .func _ _, .explicitVar _, h | .func _ _, .intVar _ _, h | .func _ _, .floatVar _, h
  | .func _ _, .recordVar _ _, h | .func _ _, .unit, h | .func _ _, .never, h | .func _ _, .record _, h
  | .func _ _, .name _ _, h => by simp [MTy.beq] at h
  | .name _ _, .var _, h | .name _ _, .explicitVar _, h | .name _ _, .intVar _ _, h | .name _ _, .floatVar _, h
  | .name _ _, .recordVar _ _, h | .name _ _, .unit, h | .name _ _, .never, h | .name _ _, .record _, h
  | .name _ _, .func _ _, h => by simp [MTy.beq] at h
theorem beqList_den (σ : Val) : ∀ (xs ys : List MTy), beqList xs ys = true → denL σ xs = denL σ ys
  | [], [], _ => rfl
  | x :: xs, y :: ys, h => by
    simp [beqList] at h
    simp only [denL, beq_den σ x y h.1, beqList_den σ xs ys h.2]
  | [], _ :: _, h => by simp [beqList] at h
  | _ :: _, [], h => by simp [beqList] at h
end

theorem ityOf_signed (n : Nat) (h : 4 ≤ n ∧ n < 8) : (ityOf n).signed = true := by
  obtain ⟨h1, h2⟩ := h
  have : n = 4 ∨ n = 5 ∨ n = 6 ∨ n = 7 := by omega
  rcases this with rfl | rfl | rfl | rfl <;> rfl

/-- what `plan` decides for two resolved well-formed types, semantically -/
def PlanSpec (a b : MTy) : Plan → Prop
  | .same _ => ∀ σ : Val, den σ a = den σ b
  | .bind v t => WT t = true ∧ ∃ r, (r = a ∨ r = b) ∧ r.varIndex = some v ∧
      ∀ σ : Val, den σ t = σ v → KindOk σ v t → den σ a = den σ b ∧ KindOk σ v r
  | .zip xs ys _ => ∃ n, a = .name n xs ∧ b = .name n ys
  | .fieldsThenBind _ _ _ _ => False
  | .zipThen _ _ _ _ _ => False
  | _ => True

theorem plan_spec {d : Defs} (hd : DefsStd d) {s : Store} {occ : Nat} {a b : MTy}
    (ha : WT a = true) (hb : WT b = true) : PlanSpec a b (plan d s occ a b) := by
  unfold plan
  by_cases hab : (a == b) = true
  · simp only [hab, if_true, PlanSpec]
    intro σ; exact beq_den σ a b hab
  · simp only [hab]
    obtain ⟨f1, f2, f3, f4, f5, f6⟩ := facts_unify
    have f7 := fact_no_never_arm
    cases a <;> simp only [WT, Bool.false_eq_true] at ha <;> cases b <;> simp only [WT, Bool.false_eq_true] at hb
    all_goals simp only [planArms, planArmsWith, f7, planCore, f1, f2, f3, f4, f5, f6, Bool.false_eq_true, if_false, Bool.not_true, Bool.true_and, Defs.eval]
    -- a variable on the left
    case neg.var.var | neg.var.intVar | neg.var.floatVar | neg.var.unit | neg.var.name =>
      split <;> simp only [PlanSpec]
      refine ⟨by first | rfl | simpa only [WT] using hb, _, Or.inl rfl, rfl, ?_⟩
      intro σ h _; exact ⟨by simp only [den] at h ⊢; exact h.symm, trivial⟩
    -- a variable on the right
    case neg.intVar.var | neg.floatVar.var | neg.unit.var | neg.name.var =>
      split <;> simp only [PlanSpec]
      refine ⟨by first | rfl | simpa only [WT] using ha, _, Or.inr rfl, rfl, ?_⟩
      intro σ h _; exact ⟨by simp only [den] at h ⊢; exact h, trivial⟩
    case neg.intVar.intVar =>
      rename_i x sx y sy
      split
      · rename_i hc
        simp only [Bool.and_eq_true, Bool.not_eq_true'] at hc
        refine ⟨rfl, _, Or.inr rfl, rfl, ?_⟩
        intro σ h hk
        simp only [den] at h ⊢
        simp only [KindOk] at hk ⊢
        exact ⟨h, hk.1, by intro h'; rw [hc.2] at h'; cases h'⟩
      · rename_i hc
        simp only [Bool.and_eq_true, Bool.not_eq_true', not_and, Bool.not_eq_false] at hc
        refine ⟨rfl, _, Or.inl rfl, rfl, ?_⟩
        intro σ h hk
        simp only [den] at h ⊢
        simp only [KindOk] at hk ⊢
        exact ⟨h.symm, hk.1, fun h' => hk.2 (hc h')⟩
    case neg.intVar.name =>
      rename_i v sg n args
      cases sg
      · simp only [Bool.false_eq_true, if_false]
        split
        · trivial
        · split
          · trivial
          · rename_i hargs hp
            refine ⟨by simpa only [WT] using hb, _, Or.inl rfl, rfl, ?_⟩
            intro σ h _
            simp only [den] at h ⊢
            refine ⟨h.symm, ?_⟩
            simp only [KindOk]
            simp only [Bool.not_eq_true', Bool.not_eq_false] at hp
            rw [hd.isInt] at hp
            have hn : n < 8 := by simpa using hp
            rw [← h]; simp [denName, hn, isGInt]
      · simp only [if_true]
        split
        · trivial
        · split
          · trivial
          · rename_i hargs hp
            refine ⟨by simpa only [WT] using hb, _, Or.inl rfl, rfl, ?_⟩
            intro σ h _
            simp only [den] at h ⊢
            refine ⟨h.symm, ?_⟩
            simp only [KindOk]
            simp only [Bool.not_eq_true', Bool.not_eq_false] at hp
            rw [hd.isSigned] at hp
            have hn : 4 ≤ n ∧ n < 8 := by simpa using hp
            rw [← h]; simp [denName, hn.2, isGInt, isGSigned, ityOf_signed n hn]
    case neg.name.intVar =>
      rename_i n args v sg
      cases sg
      · simp only [Bool.false_eq_true, if_false]
        split
        · trivial
        · split
          · trivial
          · rename_i hargs hp
            refine ⟨by simpa only [WT] using ha, _, Or.inr rfl, rfl, ?_⟩
            intro σ h _
            simp only [den] at h ⊢
            refine ⟨h, ?_⟩
            simp only [KindOk]
            simp only [Bool.not_eq_true', Bool.not_eq_false] at hp
            rw [hd.isInt] at hp
            have hn : n < 8 := by simpa using hp
            rw [← h]; simp [denName, hn, isGInt]
      · simp only [if_true]
        split
        · trivial
        · split
          · trivial
          · rename_i hargs hp
            refine ⟨by simpa only [WT] using ha, _, Or.inr rfl, rfl, ?_⟩
            intro σ h _
            simp only [den] at h ⊢
            refine ⟨h, ?_⟩
            simp only [KindOk]
            simp only [Bool.not_eq_true', Bool.not_eq_false] at hp
            rw [hd.isSigned] at hp
            have hn : 4 ≤ n ∧ n < 8 := by simpa using hp
            rw [← h]; simp [denName, hn.2, isGInt, isGSigned, ityOf_signed n hn]
    case neg.floatVar.floatVar =>
      refine ⟨rfl, _, Or.inl rfl, rfl, ?_⟩
      intro σ h hk
      simp only [den] at h ⊢
      simp only [KindOk] at hk ⊢
      exact ⟨h.symm, hk⟩
    case neg.floatVar.name =>
      rename_i v n args
      split
      · trivial
      · split
        · trivial
        · rename_i hargs hp
          refine ⟨by simpa only [WT] using hb, _, Or.inl rfl, rfl, ?_⟩
          intro σ h _
          simp only [den] at h ⊢
          refine ⟨h.symm, ?_⟩
          simp only [KindOk]
          simp only [Bool.not_eq_true', Bool.not_eq_false] at hp
          rw [hd.isFloat] at hp
          rw [← h]
          have hn : n = 8 ∨ n = 9 := by simpa using hp
          rcases hn with rfl | rfl <;> simp [denName, isGFloat]
    case neg.name.floatVar =>
      rename_i n args v
      split
      · trivial
      · split
        · trivial
        · rename_i hargs hp
          refine ⟨by simpa only [WT] using ha, _, Or.inr rfl, rfl, ?_⟩
          intro σ h _
          simp only [den] at h ⊢
          refine ⟨h, ?_⟩
          simp only [KindOk]
          simp only [Bool.not_eq_true', Bool.not_eq_false] at hp
          rw [hd.isFloat] at hp
          rw [← h]
          have hn : n = 8 ∨ n = 9 := by simpa using hp
          rcases hn with rfl | rfl <;> simp [denName, isGFloat]
    case neg.name.name =>
      rename_i n xs m ys
      split
      · trivial
      · rename_i hnm
        have : n = m := by simpa using hnm
        subst this
        exact ⟨n, rfl, rfl⟩
    case neg.unit.unit => exact absurd rfl hab
    all_goals trivial

theorem lt_of_getElem? {s : Store} {v : Nat} {r : MTy} (h : s[v]? = some r) : v < s.length := by
  by_cases hv : v < s.length
  · exact hv
  · have : s[v]? = none := by simp; omega
    rw [this] at h; cases h

/-- **Unification is sound** (well-formed fragment): a successful `unify_inner`
    keeps the store well-formed, only strengthens it, and every solution of the
    resulting store gives the two types the same meaning. -/
theorem unify_sound {d : Defs} (hd : DefsStd d) : ∀ fuel,
    (∀ s a b t s', WTs s → WT a = true → WT b = true → unify d fuel s a b = .ok t s' →
      WTs s' ∧ ∀ σ : Val, Sat σ s' → Sat σ s ∧ den σ a = den σ b) ∧
    (∀ s xs ys u s', WTs s → WTl xs = true → WTl ys = true → xs.length = ys.length →
      unifyZip d fuel s xs ys = .ok u s' →
      WTs s' ∧ ∀ σ : Val, Sat σ s' → Sat σ s ∧ denL σ xs = denL σ ys) := by
  intro fuel
  induction fuel with
  | zero => refine ⟨?_, ?_⟩ <;> intros <;> simp_all [unify, unifyZip]
  | succ fuel ih =>
    obtain ⟨ihU, ihZ⟩ := ih
    refine ⟨?_, ?_⟩
    · intro s a b t s' hW ha hb h
      simp only [unify] at h
      cases hra : resolve s a with
      | none => simp [hra] at h
      | some a' =>
        cases hrb : resolve s b with
        | none => simp [hra, hrb] at h
        | some b' =>
          simp only [hra, hrb] at h
          have ha' := resolve_WT hW ha hra
          have hb' := resolve_WT hW hb hrb
          have hp := plan_spec hd (s := s) (occ := fuel + 1) ha' hb'
          cases hpl : plan d s (fuel + 1) a' b' with
          | same t0 =>
            rw [hpl] at hp h
            have hss : s = s' := (Unify.Res.ok.inj h).2
            subst hss
            refine ⟨hW, fun σ hs => ⟨hs, ?_⟩⟩
            rw [← resolve_den hs hra, ← resolve_den hs hrb]; exact hp σ
          | bind v t0 =>
            rw [hpl] at hp h
            have hss : setSlot s v t0 = s' := (Unify.Res.ok.inj h).2
            subst hss
            obtain ⟨hWt, r, hr, hrv, hsem⟩ := hp
            have hroot : s[v]? = some r := by
              rcases hr with rfl | rfl
              · exact resolve_root hra hrv
              · exact resolve_root hrb hrv
            refine ⟨WTs_set hW hWt, fun σ hs => ?_⟩
            obtain ⟨h1, h2⟩ := Sat_set_new hs (lt_of_getElem? hroot)
            obtain ⟨heq, hk⟩ := hsem σ h1 h2
            have hs0 : Sat σ s := Sat_set hs (by
              intro r' hr'; rw [hroot] at hr'; cases hr'
              exact ⟨den_varlike hrv, hk⟩)
            refine ⟨hs0, ?_⟩
            rw [← resolve_den hs0 hra, ← resolve_den hs0 hrb]; exact heq
          | fail => rw [hpl] at h; cases h
          | ice => rw [hpl] at h; cases h
          | stuck => rw [hpl] at h; cases h
          | fieldsThenBind afs bfs v t0 => rw [hpl] at hp; exact hp.elim
          | zipThen xs ys x y t0 => rw [hpl] at hp; exact hp.elim
          | zip xs ys t0 =>
            rw [hpl] at hp h
            obtain ⟨n, rfl, rfl⟩ := hp
            simp only [WT, Bool.and_eq_true, beq_iff_eq] at ha' hb'
            simp only at h
            cases hz : unifyZip d fuel s xs ys with
            | ok u s1 =>
              rw [hz] at h
              have hss : s1 = s' := (Unify.Res.ok.inj h).2
              subst hss
              obtain ⟨hW1, hsem⟩ := ihZ s xs ys u s1 hW ha'.1 hb'.1 (by rw [ha'.2, hb'.2]) hz
              refine ⟨hW1, fun σ hs => ?_⟩
              obtain ⟨hs0, hl⟩ := hsem σ hs
              refine ⟨hs0, ?_⟩
              rw [← resolve_den hs0 hra, ← resolve_den hs0 hrb]
              simp only [den, hl]
            | fail s1 => rw [hz] at h; cases h
            | ice => rw [hz] at h; cases h
            | stuck => rw [hz] at h; cases h
    · intro s xs ys u s' hW hxs hys hlen h
      cases xs with
      | nil =>
        cases ys with
        | nil =>
          simp only [unifyZip] at h
          have hss : s = s' := (Unify.Res.ok.inj h).2
          subst hss
          exact ⟨hW, fun σ hs => ⟨hs, rfl⟩⟩
        | cons y ys => simp at hlen
      | cons x xs =>
        cases ys with
        | nil => simp at hlen
        | cons y ys =>
          simp only [unifyZip] at h
          simp only [WTl, Bool.and_eq_true] at hxs hys
          cases hu : unify d fuel s x y with
          | ok t1 s1 =>
            rw [hu] at h
            obtain ⟨hW1, hsem1⟩ := ihU s x y t1 s1 hW hxs.1 hys.1 hu
            obtain ⟨hW2, hsem2⟩ := ihZ s1 xs ys u s' hW1 hxs.2 hys.2 (by simpa using hlen) h
            refine ⟨hW2, fun σ hs => ?_⟩
            obtain ⟨hs1, hl⟩ := hsem2 σ hs
            obtain ⟨hs0, he⟩ := hsem1 σ hs1
            exact ⟨hs0, by simp only [denL, he, hl]⟩
          | fail s1 => rw [hu] at h; cases h
          | ice => rw [hu] at h; cases h
          | stuck => rw [hu] at h; cases h

/-- `TypeChecker::unify` on well-formed types: the same (a well-formed found type
    never resolves to `!`, so the shortcut does not apply) -/
theorem unifyTop_sound {d : Defs} (hd : DefsStd d) (fuel : Nat) (s : Store) (a b t : MTy) (s' : Store)
    (hW : WTs s) (ha : WT a = true) (hb : WT b = true) (h : unifyTop d fuel s a b = .ok t s') :
    WTs s' ∧ ∀ σ : Val, Sat σ s' → Sat σ s ∧ den σ a = den σ b := by
  unfold unifyTop at h
  have hne : resolve s b ≠ some .never := by
    intro hr
    have := resolve_WT hW hb hr
    simp [WT] at this
  have h' : unify d fuel s a b = .ok t s' := by
    split at h
    · rename_i h1 h2; exact absurd h2 hne
    · exact h
  exact (unify_sound hd fuel).1 s a b t s' hW ha hb h'

end RotoV.TcInfer
