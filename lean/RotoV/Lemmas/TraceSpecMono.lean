/-
  More fuel never changes an evaluation of the order specification that did not
  run out of fuel: the trace and the value of a script are well defined, the
  fuel is only a bound on the depth of the evaluation.
-/
import RotoV.Lemmas.TraceSpec
namespace RotoV.TraceSpec

/-- `r'` is at least as defined as `r`: if `r` did not run out of fuel, `r'` is `r`. -/
structure Le {α} (r r' : R α) : Prop where
  imp : r.out ≠ .fuel → r' = r

theorem Le.refl {α} (r : R α) : Le r r := ⟨fun _ => rfl⟩

theorem Le.of_fuel {α} (r' : R α) : Le (R.fuel : R α) r' := ⟨fun h => absurd rfl h⟩

theorem Le.bind {α β} {r r' : R α} {f f' : α → R β} (h : Le r r') (hf : ∀ a, Le (f a) (f' a)) :
    Le (r >>= f) (r' >>= f') := by
  constructor
  intro hne
  simp only [bind_eq] at hne ⊢
  obtain ⟨rt, ro⟩ := r
  cases ro with
  | ok a =>
    have := h.imp (by simp)
    subst this
    simp only [R.bind] at hne ⊢
    have hfa : (f a).out ≠ .fuel := by
      intro hh; apply hne; cases hx : f a; simp_all
    rw [(hf a).imp hfa]
  | ret v => have := h.imp (by simp); subst this; rfl
  | fuel => simp [R.bind] at hne
  | stuck w => have := h.imp (by simp); subst this; rfl

/-- the nine evaluators at fuel `n` against fuel `n + 1` -/
def MonoAll (fns : List FnDef) (n : Nat) : Prop :=
  (∀ env e, Le (evalExpr fns n env e) (evalExpr fns (n + 1) env e)) ∧
  (∀ env es, Le (evalArgs fns n env es) (evalArgs fns (n + 1) env es)) ∧
  (∀ env es, Le (evalInts fns n env es) (evalInts fns (n + 1) env es)) ∧
  (∀ env b, Le (evalSeq fns n env b) (evalSeq fns (n + 1) env b)) ∧
  (∀ env b, Le (evalBlock fns n env b) (evalBlock fns (n + 1) env b)) ∧
  (∀ env v arms, Le (evalArms fns n env v arms) (evalArms fns (n + 1) env v arms)) ∧
  (∀ env ps, Le (evalParts fns n env ps) (evalParts fns (n + 1) env ps)) ∧
  (∀ env c b, Le (evalWhile fns n env c b) (evalWhile fns (n + 1) env c b)) ∧
  (∀ env x xs b, Le (evalFor fns n env x xs b) (evalFor fns (n + 1) env x xs b))

/-- the call boundary: the callee's outcome mapped to the caller's -/
theorem Le.callResult {r r' : R (Env × Val)} (env : Env) (h : Le r r') :
    Le (⟨r.tr, match r.out with
          | .ok (_, v) => .ok (env, v)
          | .ret v => .ok (env, v)
          | .fuel => .fuel
          | .stuck w => .stuck w⟩ : R (Env × Val))
       ⟨r'.tr, match r'.out with
          | .ok (_, v) => .ok (env, v)
          | .ret v => .ok (env, v)
          | .fuel => .fuel
          | .stuck w => .stuck w⟩ := by
  constructor
  intro hne
  have : r.out ≠ .fuel := by
    intro hh; apply hne; simp [hh]
  rw [h.imp this]

theorem mono_step (fns : List FnDef) (n : Nat) (ih : MonoAll fns n) : MonoAll fns (n + 1) := by
  obtain ⟨hE, hA, hI, hS, hB, hM, hP, hW, hF⟩ := ih
  refine ⟨?_, ?_, ?_, ?_, ?_, ?_, ?_, ?_, ?_⟩
  · intro env e
    cases e <;> simp only [evalExpr]
    all_goals
      try (repeat (first
        | exact Le.refl _ | exact hE _ _ | exact hA _ _ | exact hI _ _ | exact hS _ _ | exact hB _ _
        | exact hM _ _ _ | exact hP _ _ | exact hW _ _ _ | exact hF _ _ _ _
        | exact Le.callResult _ (hB _ _)
        | apply Le.bind | intro _ | split))
  · intro env es
    cases es <;> simp only [evalArgs]
    all_goals
      try (repeat (first
        | exact Le.refl _ | exact hE _ _ | exact hA _ _ | apply Le.bind | intro _ | split))
  · intro env es
    cases es <;> simp only [evalInts]
    all_goals
      try (repeat (first
        | exact Le.refl _ | exact hE _ _ | exact hI _ _ | apply Le.bind | intro _ | split))
  · intro env b
    cases b <;> simp only [evalSeq]
    all_goals
      try (repeat (first
        | exact Le.refl _ | exact hE _ _ | exact hS _ _ | apply Le.bind | intro _ | split))
  · intro env b
    simp only [evalBlock]
    repeat (first | exact Le.refl _ | exact hS _ _ | apply Le.bind | intro _ | split)
  · intro env v arms
    cases arms <;> simp only [evalArms]
    all_goals
      try (repeat (first
        | exact Le.refl _ | exact hE _ _ | exact hB _ _ | exact hM _ _ _ | apply Le.bind | intro _ | split))
  · intro env ps
    cases ps <;> simp only [evalParts]
    all_goals
      try (repeat (first
        | exact Le.refl _ | exact hE _ _ | exact hP _ _ | apply Le.bind | intro _ | split))
  · intro env c b
    simp only [evalWhile]
    repeat (first | exact Le.refl _ | exact hE _ _ | exact hB _ _ | exact hW _ _ _ | apply Le.bind | intro _ | split)
  · intro env x xs b
    cases xs <;> simp only [evalFor]
    all_goals
      try (repeat (first
        | exact Le.refl _ | exact hB _ _ | exact hF _ _ _ _ | apply Le.bind | intro _ | split))

theorem mono_all (fns : List FnDef) : ∀ n, MonoAll fns n
  | 0 => by
    refine ⟨?_, ?_, ?_, ?_, ?_, ?_, ?_, ?_, ?_⟩ <;> intros <;>
      first
        | (simp only [evalExpr]; exact Le.of_fuel _) | (simp only [evalArgs]; exact Le.of_fuel _)
        | (simp only [evalInts]; exact Le.of_fuel _) | (simp only [evalSeq]; exact Le.of_fuel _)
        | (simp only [evalBlock]; exact Le.of_fuel _) | (simp only [evalArms]; exact Le.of_fuel _)
        | (simp only [evalParts]; exact Le.of_fuel _) | (simp only [evalWhile]; exact Le.of_fuel _)
        | (simp only [evalFor]; exact Le.of_fuel _)
  | n + 1 => mono_step fns n (mono_all fns n)

/-- More fuel never changes an evaluation that did not run out of fuel. -/
theorem evalBlock_fuel_mono (fns : List FnDef) (env : Env) (b : Block) (n : Nat)
    (h : (evalBlock fns n env b).out ≠ .fuel) : ∀ m, n ≤ m → evalBlock fns m env b = evalBlock fns n env b := by
  intro m hm
  obtain ⟨d, rfl⟩ := Nat.exists_eq_add_of_le hm
  induction d with
  | zero => rfl
  | succ d ih =>
    have ih' := ih (Nat.le_add_right _ _)
    have := ((mono_all fns (n + d)).2.2.2.2.1 env b).imp (by rw [ih']; exact h)
    rw [← Nat.add_assoc, this, ih']
end RotoV.TraceSpec
