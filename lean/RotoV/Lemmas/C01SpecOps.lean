/-
  C01SpecOps: the operator semantics of C01's reference interpreter
  (`Spec.intArith`, over mathematical integers) at each of the eight integer types
  against the GENERATED table composition (T1 of `Props/C01.lean`): wherever `Spec`
  defines a value, `lower_binop` (src/lir/lower.rs) at the type's `Primitive.Int`
  selects an instruction whose generated codegen arm, on CLIF semantics, computes
  the SSA value of that value.  This is the bridge between the oracle of the
  differential run and the per-operator theorems.
-/
import RotoV.Props.C01
import RotoV.Model.Spec

namespace RotoV.C01SpecOps
open RotoV RotoV.Gen RotoV.Gen.OpTables

def kindOf : Spec.ITy → IntKind
  | .u8 | .u16 | .u32 | .u64 => .Unsigned
  | .i8 | .i16 | .i32 | .i64 => .Signed
def sizeOf' : Spec.ITy → IntSize
  | .u8 | .i8 => .I8 | .u16 | .i16 => .I16 | .u32 | .i32 => .I32 | .u64 | .i64 => .I64
def genOpS : Spec.BinOp → BinOp
  | .add => .Add | .sub => .Sub | .mul => .Mul | .div => .Div | .mod => .Mod
  | .eq => .Eq | .ne => .Ne | .lt => .Lt | .le => .Le | .gt => .Gt | .ge => .Ge
  | .and => .And | .or => .Or

theorem inRange_eq (t : Spec.ITy) (a : Int) : RInt.inRange (kindOf t).signed (sizeOf' t).bits a = t.inRange a := by
  cases t <;> rfl

theorem val_wrapS (t : Spec.ITy) {a : Int} (h : t.inRange a = true) : (wrap (kindOf t) (sizeOf' t) a).val = a :=
  RInt.val_ofInt_of_inRange (sizeOf' t).bits_pos (by rw [inRange_eq]; exact h)

theorem ofInt_emod (w : Nat) (z : Int) : BitVec.ofInt w (z % (2 ^ w : Int)) = BitVec.ofInt w z := by
  apply BitVec.eq_of_toNat_eq
  simp [BitVec.toNat_ofInt]

theorem ofInt_sub_pow (w : Nat) (z : Int) : BitVec.ofInt w (z - (2 ^ w : Int)) = BitVec.ofInt w z := by
  apply BitVec.eq_of_toNat_eq
  simp [BitVec.toNat_ofInt]

theorem wrap_wrapS (t : Spec.ITy) (z : Int) : wrap (kindOf t) (sizeOf' t) (Spec.wrap t z) = wrap (kindOf t) (sizeOf' t) z := by
  have hb : (sizeOf' t).bits = t.bits := by cases t <;> rfl
  simp only [wrap, RInt.ofInt, Spec.wrap]
  congr 1
  rw [hb]
  split
  · rw [ofInt_sub_pow, ofInt_emod]
  · rw [ofInt_emod]

/-- the SSA value of a `Spec` value of integer type `t` (or a boolean) -/
def cvS (t : Spec.ITy) : Spec.Val → Option CVal
  | .int t' x => if t' = t then some (cvInt (wrap (kindOf t) (sizeOf' t) x)) else none
  | .bool b => some (CVal.ofBool b)
  | _ => none

theorem not_minDiv (t : Spec.ITy) {a b : Int} (hr : t.inRange (Int.tdiv a b) = true)
    (A B : PInt (kindOf t) (sizeOf' t)) (hA : A.val = a) (hB : B.val = b) : ¬ isMinDivNegOne A B := by
  rintro ⟨hk, h1, h2⟩
  rw [hA] at h1; rw [hB] at h2
  subst h1 h2
  cases t <;> simp [kindOf] at hk <;> revert hr <;> decide

theorem spec_binop_generated [FloatOps] (dbg : Bool) (t : Spec.ITy) (op : Spec.BinOp) (a b : Int)
    (ha : t.inRange a = true) (hb : t.inRange b = true) (v : Spec.Val) (h : Spec.intArith op t a b = .ok v) :
    ∃ i cv, lower_binop dbg (genOpS op) (.Primitive (.Int (kindOf t) (sizeOf' t))) = .ok i ∧ cvS t v = some cv
      ∧ runInstr dbg i (operands (cvInt (wrap (kindOf t) (sizeOf' t) a)) (cvInt (wrap (kindOf t) (sizeOf' t) b))) = .ok cv := by
  have hA := val_wrapS t ha
  have hB := val_wrapS t hb
  have key : ∀ cv, C01.intSpec (genOpS op) (wrap (kindOf t) (sizeOf' t) a) (wrap (kindOf t) (sizeOf' t) b) = some cv →
      cvS t v = some cv → ∃ i cv, lower_binop dbg (genOpS op) (.Primitive (.Int (kindOf t) (sizeOf' t))) = .ok i ∧ cvS t v = some cv
      ∧ runInstr dbg i (operands (cvInt (wrap (kindOf t) (sizeOf' t) a)) (cvInt (wrap (kindOf t) (sizeOf' t) b))) = .ok cv := by
    intro cv h1 h2
    obtain ⟨i, hi, hr⟩ := C01.scalar_binop_correct dbg _ _ _ _ _ cv h1
    exact ⟨i, cv, hi, h2, hr⟩
  cases op <;> simp only [Spec.intArith] at h
  case add => cases h; exact key _ rfl (by simp only [cvS, if_true, hA, hB, wrap_wrapS])
  case sub => cases h; exact key _ rfl (by simp only [cvS, if_true, hA, hB, wrap_wrapS])
  case mul => cases h; exact key _ rfl (by simp only [cvS, if_true, hA, hB, wrap_wrapS])
  case div =>
    split at h
    · cases h
    · rename_i hb0
      split at h
      · cases h
      · rename_i hr
        cases h
        have hr' : t.inRange (Int.tdiv a b) = true := by
          cases hh : t.inRange (Int.tdiv a b) <;> simp_all
        have hnm := not_minDiv t hr' _ _ hA hB
        refine key (cvInt (wrap (kindOf t) (sizeOf' t) (Int.tdiv a b))) ?_ (by simp only [cvS, if_true])
        simp only [C01.intSpec, genOpS, hA, hB, ne_eq, hb0, not_false_eq_true, hnm, and_self, if_true]
  case mod =>
    split at h
    · cases h
    · rename_i hb0
      cases h
      refine key (cvInt (wrap (kindOf t) (sizeOf' t) (Int.tmod a b))) ?_ (by simp only [cvS, if_true])
      simp only [C01.intSpec, genOpS, hA, hB, ne_eq, hb0, not_false_eq_true, if_true]
  case eq => cases h; exact key _ rfl (by simp only [cvS, hA, hB])
  case ne => cases h; exact key _ rfl (by simp only [cvS, hA, hB])
  case lt => cases h; exact key _ rfl (by simp only [cvS, hA, hB])
  case le => cases h; exact key _ rfl (by simp only [cvS, hA, hB])
  case gt => cases h; exact key _ rfl (by simp only [cvS, hA, hB])
  case ge => cases h; exact key _ rfl (by simp only [cvS, hA, hB])
  case and => cases h
  case or => cases h

/-! ### floats: the oracle and the tables apply the same `FloatOps` function -/

/-- the SSA value of a `Spec` value of a float type (or a boolean) -/
def cvF : Spec.Val → Option CVal
  | .f32 x => some (CVal.f32 x)
  | .f64 x => some (CVal.f64 x)
  | .bool b => some (CVal.ofBool b)
  | _ => none

theorem spec_float_binop_generated [F : FloatOps] (dbg : Bool) (op : Spec.BinOp) :
    (∀ (a b : BitVec 32) (v : Spec.Val), Spec.f32Arith op a b = .ok v →
      ∃ i cv, lower_binop dbg (genOpS op) (.Primitive (.Float .F32)) = .ok i ∧ cvF v = some cv
        ∧ runInstr dbg i (operands (CVal.f32 a) (CVal.f32 b)) = .ok cv)
    ∧ (∀ (a b : BitVec 64) (v : Spec.Val), Spec.f64Arith op a b = .ok v →
      ∃ i cv, lower_binop dbg (genOpS op) (.Primitive (.Float .F64)) = .ok i ∧ cvF v = some cv
        ∧ runInstr dbg i (operands (CVal.f64 a) (CVal.f64 b)) = .ok cv) := by
  constructor
  · intro a b v h
    have key : ∀ cv, C01.floatSpec32 (genOpS op) a b = some cv → cvF v = some cv →
        ∃ i cv, lower_binop dbg (genOpS op) (.Primitive (.Float .F32)) = .ok i ∧ cvF v = some cv
          ∧ runInstr dbg i (operands (CVal.f32 a) (CVal.f32 b)) = .ok cv := by
      intro cv h1 h2
      obtain ⟨i, _, hi, hr⟩ := (C01.float_op_same dbg (genOpS op)).1 a b cv h1
      exact ⟨i, cv, hi, h2, hr⟩
    cases op <;> simp only [Spec.f32Arith, reduceCtorEq] at h <;> (try cases h) <;> exact key _ rfl rfl
  · intro a b v h
    have key : ∀ cv, C01.floatSpec64 (genOpS op) a b = some cv → cvF v = some cv →
        ∃ i cv, lower_binop dbg (genOpS op) (.Primitive (.Float .F64)) = .ok i ∧ cvF v = some cv
          ∧ runInstr dbg i (operands (CVal.f64 a) (CVal.f64 b)) = .ok cv := by
      intro cv h1 h2
      obtain ⟨i, _, hi, hr⟩ := (C01.float_op_same dbg (genOpS op)).2 a b cv h1
      exact ⟨i, cv, hi, h2, hr⟩
    cases op <;> simp only [Spec.f64Arith, reduceCtorEq] at h <;> (try cases h) <;> exact key _ rfl rfl

theorem spec_float_neg_generated [F : FloatOps] (dbg : Bool) :
    (∀ (a : BitVec 32) (v : Spec.Val), Spec.negate (.f32 a) = .ok v → ∃ cv, cvF v = some cv ∧ cg_Negate dbg (CVal.f32 a) = .ok cv)
    ∧ (∀ (a : BitVec 64) (v : Spec.Val), Spec.negate (.f64 a) = .ok v → ∃ cv, cvF v = some cv ∧ cg_Negate dbg (CVal.f64 a) = .ok cv) := by
  constructor
  · intro a v h; simp only [Spec.negate] at h; cases h
    exact ⟨_, rfl, (C01.float_neg_same dbg).1 a⟩
  · intro a v h; simp only [Spec.negate] at h; cases h
    exact ⟨_, rfl, (C01.float_neg_same dbg).2 a⟩
end RotoV.C01SpecOps
