/-
  The *generated* `Div` / `Mod` codegen arms (`cg_Div`, `cg_Mod`, from
  src/codegen/mod.rs) on same-typed integer operands, in closed form: when they trap
  and what they compute.  Shared by C01, C10 and C20 (all three depend on exactly
  these arms).
-/
import RotoV.Lemmas.ScalarBase

namespace RotoV
open RotoV.Gen RotoV.Gen.OpTables

theorem cg_Div_signed (dbg : Bool) (ty : CTy) (hf : ty.isFloat = false) {w : Nat} (hw : ty.bits = w)
    (a b : BitVec w) :
    cg_Div dbg true (CVal.ofBv ty a) (CVal.ofBv ty b) =
      if b = 0 then .panic
      else if a = BitVec.intMin w ∧ b = BitVec.allOnes w then .panic
      else .ok (CVal.ofBv ty (a.sdiv b)) := by
  simp only [cg_Div, ↓reduceIte, Bool.false_eq_true, Cg.operand, Cg.variable_, Cg.def_, CVal.ofBv_ty, sdiv_ofBv _ hf hw]
  split
  · rfl
  · split <;> simp
theorem cg_Div_unsigned (dbg : Bool) (ty : CTy) (hf : ty.isFloat = false) {w : Nat} (hw : ty.bits = w)
    (a b : BitVec w) :
    cg_Div dbg false (CVal.ofBv ty a) (CVal.ofBv ty b) =
      if b = 0 then .panic else .ok (CVal.ofBv ty (a / b)) := by
  simp only [cg_Div, ↓reduceIte, Bool.false_eq_true, Cg.operand, Cg.variable_, Cg.def_, CVal.ofBv_ty, udiv_ofBv _ hf hw]
  split <;> simp
theorem cg_Mod_signed (dbg : Bool) (ty : CTy) (hf : ty.isFloat = false) {w : Nat} (hw : ty.bits = w)
    (a b : BitVec w) :
    cg_Mod dbg true (CVal.ofBv ty a) (CVal.ofBv ty b) =
      if b = 0 then .panic else .ok (CVal.ofBv ty (a.srem b)) := by
  simp only [cg_Mod, ↓reduceIte, Bool.false_eq_true, Cg.operand, Cg.variable_, Cg.def_, CVal.ofBv_ty, srem_ofBv _ hf hw]
  split <;> simp
theorem cg_Mod_unsigned (dbg : Bool) (ty : CTy) (hf : ty.isFloat = false) {w : Nat} (hw : ty.bits = w)
    (a b : BitVec w) :
    cg_Mod dbg false (CVal.ofBv ty a) (CVal.ofBv ty b) =
      if b = 0 then .panic else .ok (CVal.ofBv ty (a % b)) := by
  simp only [cg_Mod, ↓reduceIte, Bool.false_eq_true, Cg.operand, Cg.variable_, Cg.def_, CVal.ofBv_ty, urem_ofBv _ hf hw]
  split <;> simp

/-- the generated `Div` arm with the flag of the operand type, on all operands: traps exactly at a
    zero divisor and at `MIN / -1`, otherwise truncating division of the values. -/
theorem cg_Div_pint (dbg : Bool) (k : IntKind) (sz : IntSize) (a b : PInt k sz) :
    cg_Div dbg k.signed (cvInt a) (cvInt b) =
      if b.val = 0 ∨ isMinDivNegOne a b then .panic
      else .ok (cvInt (wrap k sz (a.val.tdiv b.val))) := by
  cases k
  · -- unsigned
    show cg_Div dbg false (CVal.ofBv sz.cty a.bv) (CVal.ofBv sz.cty b.bv) = _
    rw [cg_Div_unsigned dbg sz.cty sz.cty_notFloat rfl]
    simp only [← RInt.val_eq_zero]
    have : ¬ isMinDivNegOne a b := fun h => by cases h.1
    simp only [this, or_false]
    split
    · rfl
    · rw [RInt.bv_udiv]; rfl
  · show cg_Div dbg true (CVal.ofBv sz.cty a.bv) (CVal.ofBv sz.cty b.bv) = _
    rw [cg_Div_signed dbg sz.cty sz.cty_notFloat rfl]
    simp only [← RInt.val_eq_zero, ← RInt.val_eq_min sz.bits_pos, ← RInt.val_eq_neg_one sz.bits_pos]
    by_cases h0 : b.val = 0
    · simp [h0]
    · by_cases h1 : a.val = RInt.minVal true sz.bits ∧ b.val = -1
      · have : isMinDivNegOne a b := ⟨rfl, h1⟩
        simp [h1, this]
      · have : ¬ isMinDivNegOne a b := fun h => h1 h.2
        rw [if_neg h0, if_neg h1, if_neg (by simp [h0, this])]
        rw [RInt.bv_sdiv sz.bits_pos a b h1]; rfl

/-- the generated `Mod` arm with the flag of the operand type, on all operands: traps exactly at
    a zero divisor (`MIN % -1` is 0), otherwise the truncating remainder of the values. -/
theorem cg_Mod_pint (dbg : Bool) (k : IntKind) (sz : IntSize) (a b : PInt k sz) :
    cg_Mod dbg k.signed (cvInt a) (cvInt b) =
      if b.val = 0 then .panic else .ok (cvInt (wrap k sz (a.val.tmod b.val))) := by
  cases k
  · show cg_Mod dbg false (CVal.ofBv sz.cty a.bv) (CVal.ofBv sz.cty b.bv) = _
    rw [cg_Mod_unsigned dbg sz.cty sz.cty_notFloat rfl]
    simp only [← RInt.val_eq_zero]
    split
    · rfl
    · rw [RInt.bv_umod]; rfl
  · show cg_Mod dbg true (CVal.ofBv sz.cty a.bv) (CVal.ofBv sz.cty b.bv) = _
    rw [cg_Mod_signed dbg sz.cty sz.cty_notFloat rfl]
    simp only [← RInt.val_eq_zero]
    split
    · rfl
    · rw [RInt.bv_srem]; rfl

end RotoV
