/-
  Helper lemmas for `Props/C04UF`: path compression keeps every resolution.
-/
import RotoV.Model.GateUF
import RotoV.Model.Gate

namespace RotoV.GateUF

variable {α : Type} {follows : VarKind → Bool}

theorem Resolves.det {inner : List (Slot α)} {i : Nat} {t u : Slot α}
    (h1 : Resolves follows inner i t) (h2 : Resolves follows inner i u) : t = u := by
  induction h1 with
  | stop hs hn =>
    cases h2 with
    | stop hs' _ => rw [hs] at hs'; exact Option.some.inj hs'
    | step hs' hn' _ =>
      rw [hs] at hs'; cases hs'; rw [hn] at hn'; cases hn'
  | step hs hn _ ih =>
    cases h2 with
    | stop hs' hn' =>
      rw [hs] at hs'; cases hs'; rw [hn] at hn'; cases hn'
    | step hs' hn' h' =>
      rw [hs] at hs'; cases hs'; rw [hn] at hn'; cases hn'; exact ih h'

/-- where a chain ends there is a slot holding the answer that is not followed -/
theorem Resolves.terminal {inner : List (Slot α)} {i : Nat} {t : Slot α}
    (h : Resolves follows inner i t) : ∃ e, inner[e]? = some t ∧ t.next follows e = none := by
  induction h with
  | stop hs hn => exact ⟨_, hs, hn⟩
  | step _ _ _ ih => exact ih

/-- a slot that is not followed where it stands, put elsewhere, points back to where it stood -/
theorem next_terminal {t : Slot α} {e idx m : Nat}
    (h1 : t.next follows e = none) (h2 : t.next follows idx = some m) : m = e := by
  cases t with
  | ty _ => simp [Slot.next] at h2
  | var k i =>
    simp only [Slot.next] at h1 h2
    split at h2
    · rename_i hc
      cases h2
      split at h1
      · cases h1
      · rename_i hc'
        simp only [Bool.and_eq_true, bne_iff_ne, ne_eq, not_and, Decidable.not_not] at hc hc'
        exact hc' hc.1
    · cases h2

theorem set_same {β : Type} {l : List β} {i : Nat} {a : β} (h : l[i]? = some a) : l.set i a = l := by
  apply List.ext_getElem?
  intro j
  rw [List.getElem?_set]
  split
  · rename_i hij
    subst hij
    split
    · exact h.symm
    · rename_i hlt
      rw [List.getElem?_eq_none_iff.mpr (by omega)] at h
      cases h
  · rfl

theorem getElem?_set_self_of {β : Type} {l : List β} {i : Nat} {a b : β} (h : l[i]? = some b) :
    (l.set i a)[i]? = some a := by
  rw [List.getElem?_set]
  have hlt : i < l.length := by
    rcases Nat.lt_or_ge i l.length with h' | h'
    · exact h'
    · rw [List.getElem?_eq_none_iff.mpr h'] at h; cases h
  simp [hlt]

theorem getElem?_set_other {β : Type} {l : List β} {i j : Nat} {a : β} (h : i ≠ j) :
    (l.set i a)[j]? = l[j]? := by
  rw [List.getElem?_set]
  simp [h]

/-- Overwriting a slot with what it resolves to keeps what every slot resolves to. -/
theorem set_keeps {inner : List (Slot α)} {index : Nat} {t : Slot α}
    (hr : Resolves follows inner index t) :
    ∀ j u, Resolves follows inner j u ↔ Resolves follows (inner.set index t) j u := by
  cases hr with
  | stop hs _ => intro j u; rw [set_same hs]
  | step hs hn hrest =>
    rename_i s j0
    have hr : Resolves follows inner index t := .step hs hn hrest
    obtain ⟨e, he, hne⟩ := hr.terminal
    have hei : e ≠ index := by
      intro h; subst h; rw [hs] at he; cases he; rw [hn] at hne; cases hne
    have hset : (inner.set index t)[index]? = some t := getElem?_set_self_of hs
    intro j u
    constructor
    · intro h
      induction h with
      | stop hj hnj =>
        rename_i j u
        have hji : index ≠ j := by
          intro h; subst h; rw [hs] at hj; cases hj; rw [hn] at hnj; cases hnj
        exact .stop (by rw [getElem?_set_other hji]; exact hj) hnj
      | step hj hnj hm ih =>
        rename_i j s' m u
        by_cases hji : index = j
        · subst hji
          have hu : u = t := (Resolves.step hj hnj hm).det hr
          subst hu
          cases hnext : u.next follows index with
          | none => exact .stop hset hnext
          | some m' =>
            have hm' : m' = e := next_terminal hne hnext
            subst hm'
            exact .step hset hnext (.stop (by rw [getElem?_set_other (Ne.symm hei)]; exact he) hne)
        · exact .step (by rw [getElem?_set_other hji]; exact hj) hnj ih
    · intro h
      induction h with
      | stop hj hnj =>
        rename_i j u
        by_cases hji : index = j
        · subst hji
          rw [hset] at hj; cases hj
          exact hr
        · rw [getElem?_set_other hji] at hj
          exact .stop hj hnj
      | step hj hnj hm ih =>
        rename_i j s' m u
        by_cases hji : index = j
        · subst hji
          rw [hset] at hj; cases hj
          have hm' : m = e := next_terminal hne hnj
          subst hm'
          have hu := ih.det (.stop he hne)
          subst hu
          exact hr
        · rw [getElem?_set_other hji] at hj
          exact .step hj hnj ih

/-- `find`: the answer is the end of the chain, the table keeps its length and
    every slot resolves to what it resolved to before. -/
theorem find_spec : ∀ (fuel : Nat) (inner : List (Slot α)) (index : Nat) (t : Slot α) (inner' : List (Slot α)),
    find follows fuel inner index = some (t, inner') →
    Resolves follows inner index t ∧ inner'.length = inner.length ∧
      (∀ j u, Resolves follows inner j u ↔ Resolves follows inner' j u) := by
  intro fuel
  induction fuel with
  | zero => intro inner index t inner' h; simp [find] at h
  | succ fuel ih =>
    intro inner index t inner' h
    simp only [find] at h
    cases hs : inner[index]? with
    | none => rw [hs] at h; cases h
    | some s =>
      rw [hs] at h
      simp only at h
      cases hn : s.next follows index with
      | none =>
        rw [hn] at h
        simp only [Option.some.injEq, Prod.mk.injEq] at h
        obtain ⟨h1, h2⟩ := h
        subst h1; subst h2
        exact ⟨.stop hs hn, rfl, fun _ _ => Iff.rfl⟩
      | some i =>
        rw [hn] at h
        simp only at h
        cases hrec : find follows fuel inner i with
        | none => rw [hrec] at h; cases h
        | some p =>
          obtain ⟨newT, inner1⟩ := p
          rw [hrec] at h
          simp only [Option.some.injEq, Prod.mk.injEq] at h
          obtain ⟨h1, h2⟩ := h
          subst h1; subst h2
          obtain ⟨hres, hlen, hiff⟩ := ih inner i newT inner1 hrec
          have hr0 : Resolves follows inner index newT := .step hs hn hres
          have hr1 : Resolves follows inner1 index newT := (hiff _ _).mp hr0
          refine ⟨hr0, by rw [List.length_set, hlen], ?_⟩
          intro j u
          exact (hiff j u).trans (set_keeps hr1 j u)

/-- `find_ref` computes what `find` returns. -/
theorem findRef_of_find : ∀ (fuel : Nat) (inner : List (Slot α)) (index : Nat) (t : Slot α) (inner' : List (Slot α)),
    find follows fuel inner index = some (t, inner') → findRef follows fuel inner index = some t := by
  intro fuel
  induction fuel with
  | zero => intro inner index t inner' h; simp [find] at h
  | succ fuel ih =>
    intro inner index t inner' h
    simp only [find] at h
    simp only [findRef]
    cases hs : inner[index]? with
    | none => rw [hs] at h; cases h
    | some s =>
      rw [hs] at h
      simp only at h ⊢
      cases hn : s.next follows index with
      | none =>
        rw [hn] at h
        simp only [Option.some.injEq, Prod.mk.injEq] at h
        simp [h.1]
      | some i =>
        rw [hn] at h
        simp only at h ⊢
        cases hrec : find follows fuel inner i with
        | none => rw [hrec] at h; cases h
        | some p =>
          obtain ⟨newT, inner1⟩ := p
          rw [hrec] at h
          simp only [Option.some.injEq, Prod.mk.injEq] at h
          rw [← h.1]
          exact ih inner i newT inner1 hrec

theorem findRef_sound : ∀ (fuel : Nat) (inner : List (Slot α)) (index : Nat) (t : Slot α),
    findRef follows fuel inner index = some t → Resolves follows inner index t := by
  intro fuel
  induction fuel with
  | zero => intro inner index t h; simp [findRef] at h
  | succ fuel ih =>
    intro inner index t h
    simp only [findRef] at h
    cases hs : inner[index]? with
    | none => rw [hs] at h; cases h
    | some s =>
      rw [hs] at h
      simp only at h
      cases hn : s.next follows index with
      | none =>
        rw [hn] at h
        simp only [Option.some.injEq] at h
        subst h
        exact .stop hs hn
      | some i =>
        rw [hn] at h
        exact .step hs hn (ih inner i t h)

theorem ResolvesTy.congr {rf ff : VarKind → Bool} {inner inner' : List (Slot α)}
    (hiff : ∀ j u, Resolves ff inner j u ↔ Resolves ff inner' j u) {q a : Slot α}
    (h : ResolvesTy rf ff inner' q a) : ResolvesTy rf ff inner q a := by
  cases h with
  | look hk hr => exact .look hk ((hiff _ _).mpr hr)
  | keepVar hk => exact .keepVar hk
  | keepTy => exact .keepTy

theorem resolve_spec {rf ff : VarKind → Bool} {fuel : Nat} {inner : List (Slot α)} {q a : Slot α}
    {inner' : List (Slot α)} (h : resolve rf ff fuel inner q = some (a, inner')) :
    ResolvesTy rf ff inner q a ∧ (∀ j u, Resolves ff inner j u ↔ Resolves ff inner' j u) := by
  cases q with
  | ty t =>
    simp only [resolve, Option.some.injEq, Prod.mk.injEq] at h
    obtain ⟨h1, h2⟩ := h
    subst h1; subst h2
    exact ⟨.keepTy, fun _ _ => Iff.rfl⟩
  | var k x =>
    simp only [resolve] at h
    cases hk : rf k with
    | false =>
      rw [hk] at h
      simp only [Bool.false_eq_true, ↓reduceIte, Option.some.injEq, Prod.mk.injEq] at h
      obtain ⟨h1, h2⟩ := h
      subst h1; subst h2
      exact ⟨.keepVar hk, fun _ _ => Iff.rfl⟩
    | true =>
      rw [hk] at h
      simp only [↓reduceIte] at h
      obtain ⟨hr, _, hiff⟩ := find_spec fuel inner x a inner' h
      exact ⟨.look hk hr, hiff⟩

open RotoV.Gate in
theorem resolveAll_spec {rf ff : VarKind → Bool} {fuel : Nat} :
    ∀ (qs : List (Slot α)) (inner0 inner : List (Slot α)) (as : List (Slot α)) (inner' : List (Slot α)),
    (∀ j u, Resolves ff inner0 j u ↔ Resolves ff inner j u) →
    resolveAll rf ff fuel inner qs = some (as, inner') →
    Forall2 (ResolvesTy rf ff inner0) qs as ∧ (∀ j u, Resolves ff inner0 j u ↔ Resolves ff inner' j u) := by
  intro qs
  induction qs with
  | nil =>
    intro inner0 inner as inner' h0 h
    simp only [resolveAll, Option.some.injEq, Prod.mk.injEq] at h
    obtain ⟨h1, h2⟩ := h
    subst h1; subst h2
    exact ⟨.nil, h0⟩
  | cons q qs ih =>
    intro inner0 inner as inner' h0 h
    simp only [resolveAll] at h
    cases h1 : resolve rf ff fuel inner q with
    | none => rw [h1] at h; cases h
    | some p =>
      obtain ⟨a, inner1⟩ := p
      rw [h1] at h
      simp only at h
      cases h2 : resolveAll rf ff fuel inner1 qs with
      | none => rw [h2] at h; cases h
      | some p2 =>
        obtain ⟨as', inner2⟩ := p2
        rw [h2] at h
        simp only [Option.some.injEq, Prod.mk.injEq] at h
        obtain ⟨e1, e2⟩ := h
        subst e1; subst e2
        obtain ⟨hq, hiff⟩ := resolve_spec h1
        have h01 : ∀ j u, Resolves ff inner0 j u ↔ Resolves ff inner1 j u :=
          fun j u => (h0 j u).trans (hiff j u)
        obtain ⟨hrest, hfin⟩ := ih inner0 inner1 as' inner2 h01 h2
        exact ⟨.cons (ResolvesTy.congr h0 hq) hrest, hfin⟩

end RotoV.GateUF
