/-
  Specifications of the declaration functions of the parser model (`function`,
  `filter_map`, `constant`, `test`, `record_type_assignment`, `enum_declaration`,
  `root`, the loop of `tree`) and of `Parser::parse` itself, property C06.
-/
import RotoV.Lemmas.ParseExpr

namespace RotoV.Parse
open RotoV RotoV.Lex

section
variable (T : LexOk) {c : Ctx} (hl : LitOk c) (W : winOk 2 Gen.ParseFacts.recordWindows = true)
include T hl W

theorem block_spec (n : Nat) {s0 : PState} (h : InvB 2 c s0) :
    SpecR c (FB n 1 s0) (Post c s0 1 Vid) (block c n s0) := (expr_group T hl W n).1 2 s0 h (by omega)

theorem expr_spec (n : Nat) {s0 : PState} (h : InvB 2 c s0) :
    SpecR c (FB n 6 s0) (Post c s0 1 Vid) (assignExpr c n false s0) := (expr_group T hl W n).2.2.2.1 false s0 h

theorem function_spec (n : Nat) {s0 : PState} (h : InvB 2 c s0) :
    SpecR c (FB n 0 s0) (Post c s0 1 fun _ _ => True) (function c n s0) := by
  unfold function
  pb take_spec T _ h (by omega)
  intro _ s1 ⟨hi1, hm1, hn1, _⟩
  pb identifier_spec T hi1 (by omega)
  intro _ s2 ⟨hi2, hm2, hn2, _⟩
  pb params_spec T n hi2
  intro ps s3 ⟨hi3, hm3, hn3, _⟩
  pb nextIs_spec T _ hi3
  intro b s4 ⟨hi4, hm4, hn4, _⟩
  have hret : SpecR c (FB n 0 s0) (Post c s4 0 fun _ _ => True)
      (if b = true then (typeExpr c n s4).bind fun t s => PR.ok [sx "Ret" [t.sx]] s else PR.ok [] s4) := by
    cases b with
    | false => exact ⟨hi4, by omega, by omega, trivial⟩
    | true =>
      simp only [if_true]
      pb typeExpr_spec T n hi4
      intro t s5 ⟨hi5, hm5, hn5, _⟩
      exact ⟨hi5, by omega, by omega, trivial⟩
  pb hret
  intro ret s5 ⟨hi5, hm5, hn5, _⟩
  pb block_spec T hl W n hi5
  intro bl s6 ⟨hi6, hm6, hn6, _⟩
  exact ⟨hi6, by omega, by omega, trivial⟩

theorem filterMap_spec (n : Nat) {s0 : PState} (h : InvB 2 c s0) :
    SpecR c (FB n 0 s0) (Post c s0 1 fun _ _ => True) (filterMap c n s0) := by
  unfold filterMap
  pb pnext_spec T h (by omega)
  intro t s1 ⟨hi1, hm1, hn1, hsp, _⟩
  split
  · pfail hi1, hsp
  · pb identifier_spec T hi1 (by omega)
    intro _ s2 ⟨hi2, hm2, hn2, _⟩
    pb params_spec T n hi2
    intro ps s3 ⟨hi3, hm3, hn3, _⟩
    pb block_spec T hl W n hi3
    intro bl s4 ⟨hi4, hm4, hn4, _⟩
    exact ⟨hi4, by omega, by omega, trivial⟩

theorem constant_spec (n : Nat) {s0 : PState} (h : InvB 2 c s0) :
    SpecR c (FB n 0 s0) (Post c s0 1 fun _ _ => True) (constant c n s0) := by
  unfold constant
  pb take_spec T _ h (by omega)
  intro _ s1 ⟨hi1, hm1, hn1, _⟩
  pb identifier_spec T hi1 (by omega)
  intro _ s2 ⟨hi2, hm2, hn2, _⟩
  pb take_spec T _ hi2 (by omega)
  intro _ s3 ⟨hi3, hm3, hn3, _⟩
  pb typeExpr_spec T n hi3
  intro t s4 ⟨hi4, hm4, hn4, _⟩
  pb take_spec T _ hi4 (by omega)
  intro _ s5 ⟨hi5, hm5, hn5, _⟩
  pb expr_spec T hl W n hi5
  intro e s6 ⟨hi6, hm6, hn6, _⟩
  pb take_spec T _ hi6 (by omega)
  intro _ s7 ⟨hi7, hm7, hn7, _⟩
  exact ⟨hi7, by omega, by omega, trivial⟩

theorem test_spec (n : Nat) {s0 : PState} (h : InvB 2 c s0) :
    SpecR c (FB n 0 s0) (Post c s0 1 fun _ _ => True) (test c n s0) := by
  unfold test
  pb take_spec T _ h (by omega)
  intro _ s1 ⟨hi1, hm1, hn1, _⟩
  pb identifier_spec T hi1 (by omega)
  intro _ s2 ⟨hi2, hm2, hn2, _⟩
  pb block_spec T hl W n hi2
  intro bl s3 ⟨hi3, hm3, hn3, _⟩
  exact ⟨hi3, by omega, by omega, trivial⟩

omit hl W in
theorem recordDecl_spec (n : Nat) {s0 : PState} (h : InvB 2 c s0) :
    SpecR c (FB n 0 s0) (Post c s0 1 fun _ _ => True) (recordDecl c n s0) := by
  unfold recordDecl
  pb take_spec T _ h (by omega)
  intro _ s1 ⟨hi1, hm1, hn1, _⟩
  pb identifier_spec T hi1 (by omega)
  intro _ s2 ⟨hi2, hm2, hn2, _⟩
  pb typeParameters_spec T n hi2
  intro k s3 ⟨hi3, hm3, hn3, _⟩
  pb recordType_spec T n hi3 (by omega)
  intro rt s4 ⟨hi4, hm4, hn4, _⟩
  exact ⟨hi4, by omega, by omega, trivial⟩

omit hl W in
theorem enumVariant_spec (n : Nat) {s0 : PState} (h : InvB 2 c s0) :
    SpecR c (FB n 0 s0) (Post c s0 1 Vid) (enumVariant c n s0) := by
  unfold enumVariant
  pb identifier_spec T h (by omega)
  intro i s1 ⟨hi1, hm1, hn1, hid⟩
  pb peekIs_post T _ hi1
  intro b s2 ⟨hi2, hm2, hn2, _⟩
  cases b with
  | false => exact ⟨hi2, by omega, by omega, by show i.id < nsz s2; omega⟩
  | true =>
    simp only [if_true]
    pb separated_spec T (typeExpr c n) _ _ _ n (F := FB n 0 s0) hi2 (by omega)
      (fun s3 hi3 hm3 => (typeExpr_spec T n hi3).mono (by intro hF; simp only [FB] at hF ⊢; omega)
        fun _ _ hp => hp.weak)
    intro fs s3 ⟨hi3, hm3, hn3, _⟩
    exact ⟨hi3, by omega, by omega, by show i.id < nsz s3; omega⟩

omit hl W in
theorem enumDecl_spec (n : Nat) {s0 : PState} (h : InvB 2 c s0) :
    SpecR c (FB n 0 s0) (Post c s0 1 fun _ _ => True) (enumDecl c n s0) := by
  unfold enumDecl
  pb take_spec T _ h (by omega)
  intro _ s1 ⟨hi1, hm1, hn1, _⟩
  pb identifier_spec T hi1 (by omega)
  intro _ s2 ⟨hi2, hm2, hn2, _⟩
  pb typeParameters_spec T n hi2
  intro k s3 ⟨hi3, hm3, hn3, _⟩
  pb separated_spec T (enumVariant c n) _ _ _ n (F := FB n 0 s0) hi3 (by omega)
    (fun s4 hi4 hm4 => (enumVariant_spec T n hi4).mono (by intro hF; simp only [FB] at hF ⊢; omega)
      fun _ _ hp => hp.weak)
  intro vs s4 ⟨hi4, hm4, hn4, _⟩
  exact ⟨hi4, by omega, by omega, trivial⟩

theorem root_spec (n : Nat) {s0 : PState} (h : InvB 2 c s0) :
    SpecR c (FB n 0 s0) (Post c s0 1 fun _ _ => True) (root c n s0) := by
  unfold root
  pb ppeek_post T h
  intro k s1 ⟨hi1, hm1, hn1, _⟩
  have rb : ∀ {f : PState → PR Sx}, SpecR c (FB n 0 s1) (Post c s1 1 fun _ _ => True) (f s1) →
      SpecR c (FB n 0 s0) (Post c s0 1 fun _ _ => True) (f s1) := by
    intro f hf
    refine hf.mono (by intro hF; simp only [FB] at hF ⊢; omega) ?_
    intro a s hp
    exact hp.rebase (by omega) (by omega)
  cases k with
  | none => dsimp only; rw [origLen_eq hi1]; pfail hi1, (spanOk_eof _)
  | some t =>
    dsimp only
    split
    · exact rb (filterMap_spec T hl W n hi1)
    · exact rb (constant_spec T hl W n hi1)
    · exact rb (recordDecl_spec T n hi1)
    · exact rb (enumDecl_spec T n hi1)
    · exact rb (function_spec T hl W n hi1)
    · exact rb (test_spec T hl W n hi1)
    · pb importStmt_spec T n hi1
      intro ps s2 ⟨hi2, hm2, hn2, _⟩
      exact ⟨hi2, by omega, by omega, trivial⟩
    · pb pnext_spec T hi1 (by omega)
      intro t s2 ⟨hi2, hm2, hn2, hsp, _⟩
      pfail hi2, hsp

theorem treeLoop_spec (n : Nat) {acc : List Sx} {s0 : PState} (h : InvB 2 c s0) :
    SpecR c (FB n 1 s0) (Post c s0 0 fun _ _ => True) (treeLoop c n acc s0) := by
  induction n generalizing acc s0 with
  | zero => simp only [treeLoop, SpecR, FB]; omega
  | succ n ih =>
    unfold treeLoop
    pb ppeek_post T h
    intro k s1 ⟨hi1, hm1, hn1, _⟩
    cases k with
    | none => exact ⟨hi1, by omega, by omega, trivial⟩
    | some t =>
      dsimp only
      pb root_spec T hl W n hi1
      intro d s2 ⟨hi2, hm2, hn2, _⟩
      refine (ih hi2).mono (by intro hF; simp only [FB] at hF ⊢; omega) ?_
      intro a s3 hp
      exact hp.rebase (by omega) (by omega)

/-- what `Parser::parse` may return: a tree, or an error that cites a span of
the source (location and hint) -/
def OutOk (c : Ctx) : Out → Prop
  | .tree _ sp => ∀ x ∈ sp, SpanOk c.src x
  | .error e _ => SpanOk c.src e.span ∧ ∀ x, e.hint = some x → SpanOk c.src x
  | .panic => False
  | .fuel => False

/-- `Parser::parse` with any fuel of at least `32 · len + 1`: never a panic,
never out of fuel; a tree or an error citing spans of the source -/
theorem parseWith_ok (fuel : Nat) (hf : 32 * blen c.src + 1 ≤ fuel) : OutOk c (parseWith c fuel) := by
  unfold parseWith
  obtain ⟨L, hsk, hr, _⟩ := skipShebang_ok' (Reach.new c.src) c.P
  rw [hsk]
  dsimp only
  have h0 : InvB 2 c ⟨L, [], [], none⟩ :=
    ⟨hr, by simp, by simp, by simp, by intro x hx; cases hx⟩
  have hμ : μ ⟨L, [], [], none⟩ ≤ blen c.src := by
    have := hr.blen_input
    simp only [μ, qtoks]; omega
  have hspec := treeLoop_spec T hl W fuel (acc := []) h0
  revert hspec
  cases treeLoop c fuel [] ⟨L, [], [], none⟩ with
  | panic => exact id
  | fuel => intro hF; simp only [SpecR, FB] at hF; omega
  | err e s =>
    intro ⟨h1, _, h3⟩
    exact ⟨h1, h3⟩
  | ok ds s =>
    intro ⟨hi, _, _, _⟩
    dsimp only
    have hn := lexNext_spec T hi
    revert hn
    cases lexNext c s with
    | panic => exact id
    | fuel => exact id
    | err e s' => intro ⟨h1, h2, _⟩; exact ⟨h1, by intro x hx; rw [h2] at hx; cases hx⟩
    | ok r s' =>
      intro ⟨hi', _, _, hr'⟩
      cases r with
      | none => exact fun x hx => hi'.sp x (by simpa using hx)
      | some it =>
        cases it with
        | tok k sp => exact ⟨hr'.1.2.1, by intro x hx; cases hx⟩
        | invalid sp => exact ⟨hr'.1, by intro x hx; cases hx⟩

omit hl W in
theorem signature_spec (n : Nat) {s0 : PState} (h : InvB 2 c s0) :
    SpecR c (FB n 0 s0) (Post c s0 1 fun _ _ => True) (signature c n s0) := by
  unfold signature
  pb take_spec T _ h (by omega)
  intro _ s1 ⟨hi1, hm1, hn1, _⟩
  pb typeParameters_spec T n hi1
  intro k s2 ⟨hi2, hm2, hn2, _⟩
  pb separated_spec T (typeExpr c n) _ _ _ n (F := FB n 0 s0) hi2 (by omega)
    (fun s3 hi3 hm3 => (typeExpr_spec T n hi3).mono (by intro hF; simp only [FB] at hF ⊢; omega)
      fun _ _ hp => hp.weak)
  intro ps s3 ⟨hi3, hm3, hn3, _⟩
  pb nextIs_spec T _ hi3
  intro b s4 ⟨hi4, hm4, hn4, _⟩
  have hret : SpecR c (FB n 0 s0) (Post c s4 0 fun _ _ => True)
      (if b = true then (typeExpr c n s4).bind fun t s => PR.ok [sx "Ret" [t.sx]] s else PR.ok [] s4) := by
    cases b with
    | false => exact ⟨hi4, by omega, by omega, trivial⟩
    | true =>
      simp only [if_true]
      pb typeExpr_spec T n hi4
      intro t s5 ⟨hi5, hm5, hn5, _⟩
      exact ⟨hi5, by omega, by omega, trivial⟩
  pb hret
  intro ret s5 ⟨hi5, hm5, hn5, _⟩
  exact ⟨hi5, by omega, by omega, trivial⟩

omit hl W in
/-- `Parser::parse_signature` with any fuel of at least `32 · len + 1` -/
theorem parseSignatureWith_ok (fuel : Nat) (hf : 32 * blen c.src + 1 ≤ fuel) :
    OutOk c (parseSignatureWith c fuel) := by
  unfold parseSignatureWith
  have hr := Reach.new c.src
  have h0 : InvB 2 c ⟨Lexer.new c.src, [], [], none⟩ :=
    ⟨hr, by simp, by simp, by simp, by intro x hx; cases hx⟩
  have hμ : μ ⟨Lexer.new c.src, [], [], none⟩ ≤ blen c.src := by
    simp only [μ, qtoks, Lexer.new]; omega
  have hspec := signature_spec T fuel h0
  revert hspec
  cases signature c fuel ⟨Lexer.new c.src, [], [], none⟩ with
  | panic => exact id
  | fuel => intro hF; simp only [SpecR, FB] at hF; omega
  | err e s =>
    intro ⟨h1, _, h3⟩
    exact ⟨h1, h3⟩
  | ok t s =>
    intro ⟨hi, _, _, _⟩
    dsimp only
    have hn := lexNext_spec T hi
    revert hn
    cases lexNext c s with
    | panic => exact id
    | fuel => exact id
    | err e s' => intro ⟨h1, h2, _⟩; exact ⟨h1, by intro x hx; rw [h2] at hx; cases hx⟩
    | ok r s' =>
      intro ⟨hi', _, _, hr'⟩
      cases r with
      | none => exact fun x hx => hi'.sp x (by simpa using hx)
      | some it =>
        cases it with
        | tok k sp => exact ⟨hr'.1.2.1, by intro x hx; cases hx⟩
        | invalid sp => exact ⟨hr'.1, by intro x hx; cases hx⟩

end

end RotoV.Parse
