/-
  C01Shape: the lowering model `LowerS.lowerProg` is defined on every program of
  the common fragment (`C01Resolve.resolve`): a resolved program contains neither of
  the two shapes `lowerE` refuses (a compound assignment with a comparison
  operator, a `match` naming a variant its examinee does not have).

  Core Lean only.
-/
import RotoV.Model.C01Resolve
import RotoV.Lemmas.LowerTotal

namespace RotoV.C01Shape
open RotoV RotoV.C01Resolve RotoV.LowerS

mutual
theorem trE_shaped (fs : List String) : ∀ (e : Spec.Expr) (ρ : List String) (e' : TraceSpec.Expr),
    trE fs ρ e = some e' → shapedE e' = true
  | .lit v, ρ, e', h => by
    simp only [trE] at h
    split at h
    · obtain ⟨v', _, rfl⟩ := Option.map_eq_some_iff.mp h; rfl
    · cases h
  | .var x, ρ, e', h => by
    simp only [trE] at h
    obtain ⟨i, _, rfl⟩ := Option.map_eq_some_iff.mp h; rfl
  | .neg e, ρ, e', h => by
    simp only [trE] at h
    obtain ⟨e1, h1, rfl⟩ := Option.map_eq_some_iff.mp h
    simpa [shapedE] using trE_shaped fs e ρ e1 h1
  | .not e, ρ, e', h => by
    simp only [trE] at h
    obtain ⟨e1, h1, rfl⟩ := Option.map_eq_some_iff.mp h
    simpa [shapedE] using trE_shaped fs e ρ e1 h1
  | .bin op l r, ρ, e', h => by
    simp only [trE] at h
    split at h
    case h_2 => cases h
    rename_i l' r' hl hr
    have h1 := trE_shaped fs l ρ l' hl
    have h2 := trE_shaped fs r ρ r' hr
    cases op <;> simp [encOp] at h <;> subst h <;> simp [shapedE, h1, h2]
  | .ite c t none, ρ, e', h => by
    simp only [trE] at h
    split at h
    case h_2 => cases h
    rename_i c' t' hc ht
    simp only [Option.some.injEq] at h; subst h
    simp [shapedE, trE_shaped fs c ρ c' hc, trBU_shaped fs t ρ t' ht]
  | .ite c t (some e), ρ, e', h => by
    simp only [trE] at h
    split at h
    case h_2 => cases h
    rename_i c' t' e1 hc ht he
    simp only [Option.some.injEq] at h; subst h
    simp [shapedE, trE_shaped fs c ρ c' hc, trB_shaped fs t ρ t' ht, trB_shaped fs e ρ e1 he]
  | .while c b, ρ, e', h => by
    simp only [trE] at h
    split at h
    case h_2 => cases h
    rename_i c' b' hc hb
    simp only [Option.some.injEq] at h; subst h
    simp [shapedE, trE_shaped fs c ρ c' hc, trB_shaped fs b ρ b' hb]
  | .block b, ρ, e', h => by
    simp only [trE] at h
    obtain ⟨b', hb, rfl⟩ := Option.map_eq_some_iff.mp h
    simpa [shapedE] using trB_shaped fs b ρ b' hb
  | .call f args, ρ, e', h => by
    simp only [trE] at h
    split at h
    case h_2 => cases h
    rename_i i args' hi ha
    simp only [Option.some.injEq] at h; subst h
    simpa [shapedE] using trArgs_shaped fs args ρ args' ha
  | .assign x e, ρ, e', h => by
    simp only [trE] at h
    split at h
    case h_2 => cases h
    rename_i i e1 hi he
    simp only [Option.some.injEq] at h; subst h
    simpa [shapedE] using trE_shaped fs e ρ e1 he
  | .cassign op x e, ρ, e', h => by
    simp only [trE] at h
    split at h
    case h_2 => cases h
    rename_i op' i e1 hop hi he
    split at h
    case isFalse => cases h
    rename_i harith
    simp only [Option.some.injEq] at h; subst h
    simp [shapedE, harith, trE_shaped fs e ρ e1 he]
  | .ret none, ρ, e', h => by
    simp only [trE, Option.some.injEq] at h; subst h; rfl
  | .ret (some e), ρ, e', h => by
    simp only [trE] at h
    obtain ⟨e1, h1, rfl⟩ := Option.map_eq_some_iff.mp h
    simpa [shapedE] using trE_shaped fs e ρ e1 h1

theorem trArgs_shaped (fs : List String) : ∀ (es : List Spec.Expr) (ρ : List String) (es' : TraceSpec.Exprs),
    trArgs fs ρ es = some es' → shapedEs es' = true
  | [], ρ, es', h => by simp only [trArgs, Option.some.injEq] at h; subst h; rfl
  | e :: es, ρ, es', h => by
    simp only [trArgs] at h
    split at h
    case h_2 => cases h
    rename_i e1 es1 he hes
    simp only [Option.some.injEq] at h; subst h
    simp [shapedEs, trE_shaped fs e ρ e1 he, trArgs_shaped fs es ρ es1 hes]

theorem trB_shaped (fs : List String) : ∀ (b : Spec.Block) (ρ : List String) (b' : TraceSpec.Block),
    trB fs ρ b = some b' → shapedB b' = true
  | .mk stmts none, ρ, b', h => by
    simp only [trB] at h
    exact trStmts_shaped fs stmts ρ .nil b' rfl h
  | .mk stmts (some e), ρ, b', h => by
    simp only [trB] at h
    split at h
    case h_2 => cases h
    rename_i e1 he
    exact trStmts_shaped fs stmts ρ (.last e1) b' (by simpa [shapedB] using trE_shaped fs e _ e1 he) h

theorem trBU_shaped (fs : List String) : ∀ (b : Spec.Block) (ρ : List String) (b' : TraceSpec.Block),
    trBU fs ρ b = some b' → shapedB b' = true
  | .mk stmts none, ρ, b', h => by
    simp only [trBU] at h
    exact trStmts_shaped fs stmts ρ .nil b' rfl h
  | .mk stmts (some e), ρ, b', h => by simp [trBU] at h

theorem trStmts_shaped (fs : List String) : ∀ (stmts : List Spec.Stmt) (ρ : List String) (tl b' : TraceSpec.Block),
    shapedB tl = true → trStmts fs ρ stmts tl = some b' → shapedB b' = true
  | [], ρ, tl, b', htl, h => by simp only [trStmts, Option.some.injEq] at h; subst h; exact htl
  | .let_ x e :: rest, ρ, tl, b', htl, h => by
    simp only [trStmts] at h
    split at h
    case h_2 => cases h
    rename_i e1 rest1 he hrest
    simp only [Option.some.injEq] at h; subst h
    simp [shapedB, trE_shaped fs e ρ e1 he, trStmts_shaped fs rest (x :: ρ) tl rest1 htl hrest]
  | .expr e :: rest, ρ, tl, b', htl, h => by
    simp only [trStmts] at h
    split at h
    case h_2 => cases h
    rename_i e1 rest1 he hrest
    simp only [Option.some.injEq] at h; subst h
    simp [shapedB, trE_shaped fs e ρ e1 he, trStmts_shaped fs rest ρ tl rest1 htl hrest]
end

theorem trFns_shaped (fs : List String) : ∀ (fns : List Spec.FnDef) (fnsT : List TraceSpec.FnDef),
    trFns fs fns = some fnsT → ∀ fd ∈ fnsT, shapedB fd.body = true
  | [], fnsT, h => by simp only [trFns, Option.some.injEq] at h; subst h; simp
  | g :: fns, fnsT, h => by
    simp only [trFns] at h
    split at h
    case h_2 => cases h
    rename_i g' rest' hg hrest
    simp only [Option.some.injEq] at h; subst h
    intro fd hfd
    simp only [List.mem_cons] at hfd
    rcases hfd with rfl | hfd
    · simp only [trFn] at hg
      split at hg
      case isFalse => cases hg
      obtain ⟨b', hb', rfl⟩ := Option.map_eq_some_iff.mp hg
      exact trB_shaped fs g.body _ b' hb'
    · exact trFns_shaped fs fns rest' hrest fd hfd

/-- The lowering model is defined on every program of the fragment. -/
theorem resolve_lowers (fnsS : List Spec.FnDef) (fnsT : List TraceSpec.FnDef) (h : resolve fnsS = some fnsT) :
    ∃ P, lowerProg fnsT = some P := by
  simp only [resolve] at h
  split at h
  case isFalse => cases h
  exact Option.isSome_iff_exists.mp (lowerProg_total fnsT (trFns_shaped _ fnsS fnsT h))

end RotoV.C01Shape
