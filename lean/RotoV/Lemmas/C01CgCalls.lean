/-
  C01CgCalls: the model of `lir::lower` (`Model/C01Lir.lowerProg`) only produces programs that
  satisfy the hypothesis of the code-generation simulation (`C01Cg.progOk`): a call gets a `to`
  only when the callee's `RetInfo` says it returns a value, and `Return(None)` is only emitted for
  a function that does not.  `namesOk P`: every function of `P` is the one its name finds (the
  compiler rejects a second function of the same name).
-/
import RotoV.Model.C01Cg

namespace RotoV.C01CgCalls
open RotoV RotoV.Gen RotoV.Gen.OpTables RotoV.C01Lir RotoV.C01Cg

theorem insOk_append {rv : String → Bool} {rs : Bool} {a b : List LIns}
    (ha : insOk rv rs a = true) (hb : insOk rv rs b = true) : insOk rv rs (a ++ b) = true := by
  simp only [insOk, List.all_append, Bool.and_eq_true] at *
  exact ⟨ha, hb⟩

section
variable [FloatOps]

theorem lowerIns_ok {rv : String → Bool} {rs : Bool} {types : List (Name × LTy)} {retVal : Bool} {ri : RetInfo}
    (hri : ∀ f mask, ri f = some (mask, true) → rv f = true) (hrs : rs = true → retVal = true)
    {c : Nat} {i : MIns} {li : List LIns} {ti : List (Name × LTy)} {c' : Nat}
    (h : lowerIns types retVal ri c i = some (li, ti, c')) : insOk rv rs li = true := by
  cases i with
  | assign to v =>
    cases v with
    | call f args =>
      simp only [lowerIns] at h
      split at h
      · rename_i mask tt hrif _
        split at h
        · simp only [Option.some.injEq, Prod.mk.injEq] at h
          obtain ⟨rfl, _, _⟩ := h
          simp only [insOk, List.all_cons, List.all_nil, insOk1, hri f mask hrif, Bool.and_self]
        · cases h
      · split at h
        · simp only [Option.some.injEq, Prod.mk.injEq] at h
          obtain ⟨rfl, _, _⟩ := h
          rfl
        · cases h
      · cases h
    | _ =>
      simp only [lowerIns] at h
      repeat' (split at h)
      all_goals (cases h <;> rfl)
  | ret x =>
    simp only [lowerIns] at h
    split at h
    · split at h
      · simp only [Option.some.injEq, Prod.mk.injEq] at h
        obtain ⟨rfl, _, _⟩ := h
        rfl
      · cases h
    · rename_i hrv
      simp only [Option.some.injEq, Prod.mk.injEq] at h
      obtain ⟨rfl, _, _⟩ := h
      cases rs with
      | false => rfl
      | true => exact absurd (hrs rfl) hrv
  | _ =>
    simp only [lowerIns] at h
    repeat' (split at h)
    all_goals (cases h <;> rfl)

theorem lowerInss_ok {rv : String → Bool} {rs : Bool} {types : List (Name × LTy)} {retVal : Bool} {ri : RetInfo}
    (hri : ∀ f mask, ri f = some (mask, true) → rv f = true) (hrs : rs = true → retVal = true) :
    ∀ (ins : List MIns) (c : Nat) (li : List LIns) (ti : List (Name × LTy)) (c' : Nat),
      lowerInss types retVal ri c ins = some (li, ti, c') → insOk rv rs li = true
  | [], _, _, _, _, h => by
    simp only [lowerInss, Option.some.injEq, Prod.mk.injEq] at h
    obtain ⟨rfl, _, _⟩ := h
    rfl
  | i :: rest, c, li, ti, c', h => by
    simp only [lowerInss] at h
    split at h
    · rename_i l1 t1 c1 h1
      split at h
      · rename_i lr tr c2 h2
        simp only [Option.some.injEq, Prod.mk.injEq] at h
        obtain ⟨rfl, _, _⟩ := h
        exact insOk_append (lowerIns_ok hri hrs h1) (lowerInss_ok hri hrs rest c1 lr tr c2 h2)
      · cases h
    · cases h

theorem lowerBlocks_ok {rv : String → Bool} {rs : Bool} {types : List (Name × LTy)} {retVal : Bool} {ri : RetInfo}
    (hri : ∀ f mask, ri f = some (mask, true) → rv f = true) (hrs : rs = true → retVal = true) :
    ∀ (bs : List (Nat × List MIns)) (c : Nat) (lb : List (Nat × List LIns)) (ti : List (Name × LTy)) (c' : Nat),
      lowerBlocks types retVal ri c bs = some (lb, ti, c') → blocksOk rv rs lb = true
  | [], _, _, _, _, h => by
    simp only [lowerBlocks, Option.some.injEq, Prod.mk.injEq] at h
    obtain ⟨rfl, _, _⟩ := h
    rfl
  | (l, ins) :: rest, c, lb, ti, c', h => by
    simp only [lowerBlocks] at h
    split at h
    · rename_i l1 t1 c1 h1
      split at h
      · rename_i lr tr c2 h2
        simp only [Option.some.injEq, Prod.mk.injEq] at h
        obtain ⟨rfl, _, _⟩ := h
        have ha := lowerInss_ok hri hrs ins c l1 t1 c1 h1
        have hb := lowerBlocks_ok hri hrs rest c1 lr tr c2 h2
        simp only [blocksOk, List.all_cons, Bool.and_eq_true] at hb ⊢
        exact ⟨ha, hb⟩
      · cases h
    · cases h

theorem lowerFn_ok {rv : String → Bool} {ri : RetInfo} (hri : ∀ f mask, ri f = some (mask, true) → rv f = true)
    {fn : MFn} {l : LFn} (hrs : rv fn.name = true → fn.retVal = true) (h : lowerFn ri fn = some l) :
    blocksOk rv (rv l.name) l.blocks = true := by
  simp only [lowerFn] at h
  split at h
  · split at h
    · rename_i bs ts c2 hb
      simp only [Option.some.injEq] at h
      subst h
      exact lowerBlocks_ok hri hrs fn.blocks fn.tmpIdx bs ts c2 hb
    · cases h
  · cases h

theorem lowerProgWith_ok {rv : String → Bool} {ri : RetInfo} (hri : ∀ f mask, ri f = some (mask, true) → rv f = true) :
    ∀ (P : List MFn) (L : List LFn), (∀ fn ∈ P, rv fn.name = true → fn.retVal = true) →
      lowerProgWith ri P = some L → progOk rv L = true
  | [], _, _, h => by
    simp only [lowerProgWith, Option.some.injEq] at h
    subst h
    rfl
  | fn :: rest, L, hP, h => by
    simp only [lowerProgWith] at h
    split at h
    · rename_i l ls hl hls
      simp only [Option.some.injEq] at h
      subst h
      have ha := lowerFn_ok hri (hP fn (List.mem_cons_self ..)) hl
      have hb := lowerProgWith_ok hri rest ls (fun g hg => hP g (List.mem_cons_of_mem _ hg)) hls
      simp only [progOk, List.all_cons, Bool.and_eq_true] at hb ⊢
      exact ⟨ha, hb⟩
    · cases h

/-- the LIR the lowering model makes of a program with `namesOk` satisfies the hypothesis of the
    code-generation simulation, with `rv` = what `retInfoOf P` says -/
theorem lowerProg_progOk (P : List MFn) (L : List LFn) (hn : namesOk P = true) (h : lowerProg P = some L) :
    progOk (rvM P) L = true := by
  refine lowerProgWith_ok (rv := rvM P) (ri := retInfoOf P) ?_ P L ?_ h
  · intro f mask hf
    simp only [rvM, hf]
  · intro fn hmem hrv
    have := List.all_eq_true.mp hn fn hmem
    simp only [hrv, Bool.not_true, Bool.false_or] at this
    exact this

end

end RotoV.C01CgCalls
