/-
  Lemmas/LayoutTotal — C02: `lower_type`'s final `ice!` is unreachable, and
  generating the clone / drop / (repaired) eq function of any type never hits
  an `unwrap()` or `ice!` of the lowerer.
-/
import RotoV.Lemmas.LayoutEq
namespace RotoV.Layout
open RotoV RotoV.LayoutStd RotoV.Gen.LayoutGen RotoV.Gen.LayoutDecide

/-- `Pool::is_reference_type` (the generated function), by kind: a registered
    type is a reference type whatever its size; any other type is one iff it
    is inhabited, not zero-sized and of a by-reference kind -/
theorem isReferenceType_eq (t : Ty) : isReferenceType t =
    if t.kind = .runtime then some true
    else match layoutOf t with
      | none => none
      | some l => if l.get_size = 0 then some false else is_reference_type_arms t.kind := by
  unfold isReferenceType is_reference_type
  cases hk : t.kind <;> cases hl : layoutOf t <;> simp [is_reference_type_matches0, is_reference_type_arms]
  all_goals (split <;> simp_all)

/-- `Lowerer::lower_type` (the generated function completed with the scalar's
    size), by type: nothing for a zero-sized type that is not registered, the
    scalar for integer-like and float leaves, a pointer for lists and
    registered types (zero-sized ones too), otherwise what
    `is_reference_type` says -/
theorem lowerType_eq (t : Ty) : lowerType t =
    if noIrValue t then .ok none
    else match t with
      | .leaf .int s _ => .ok (some (.int s))
      | .leaf .float s _ => .ok (some (.float s))
      | .leaf .list _ _ | .leaf .rtCopy _ _ | .leaf .rtClone _ _ => .ok (some .pointer)
      | _ =>
        match isReferenceType t with
        | none => .ok none
        | some true => .ok (some .pointer)
        | some false => .panic := by
  unfold lowerType lower_type noIrValue sizeZero
  cases t with
  | unit => simp [Ty.kind, lower_type_matches0, layoutOf, Layout.new, Layout.get_size]
  | never => simp [Ty.kind, lower_type_matches0, lower_type_early, layoutOf, isReferenceType_eq]
  | record fs =>
    cases hl : layoutOf (.record fs) with
    | none => simp [Ty.kind, lower_type_matches0, lower_type_early, isReferenceType_eq, hl]
    | some l =>
      by_cases hz : l.get_size = 0 <;>
        simp [Ty.kind, lower_type_matches0, lower_type_early, isReferenceType_eq, hl, hz, is_reference_type_arms]
  | enum vs =>
    cases hl : layoutOf (.enum vs) with
    | none => simp [Ty.kind, lower_type_matches0, lower_type_early, isReferenceType_eq, hl]
    | some l =>
      by_cases hz : l.get_size = 0 <;>
        simp [Ty.kind, lower_type_matches0, lower_type_early, isReferenceType_eq, hl, hz, is_reference_type_arms]
  | leaf k s a =>
    by_cases hz : s = 0 <;> cases k <;>
      simp [Ty.kind, lower_type_matches0, lower_type_early, isReferenceType_eq, layoutOf, Layout.new, Layout.get_size, hz,
        is_reference_type_arms, scalarBytes]

theorem isReferenceType_false_cases (t : Ty) (h : isReferenceType t = some false) :
    noIrValue t = true ∨ t = .unit ∨ (∃ s a, t = .leaf .int s a) ∨ (∃ s a, t = .leaf .float s a) := by
  rw [isReferenceType_eq] at h
  by_cases hk : t.kind = .runtime
  · simp [hk] at h
  · simp only [hk, if_false] at h
    cases hl : layoutOf t with
    | none => simp [hl] at h
    | some l =>
      simp only [hl] at h
      by_cases hz : l.get_size = 0
      · left; simp [noIrValue, sizeZero, hl, hz, hk]
      · simp only [hz, if_false] at h
        cases t with
        | unit => exact Or.inr (Or.inl rfl)
        | never => simp [Ty.kind, is_reference_type_arms] at h
        | record fs => simp [Ty.kind, is_reference_type_arms] at h
        | enum vs => simp [Ty.kind, is_reference_type_arms] at h
        | leaf k s a =>
          cases k <;> simp [Ty.kind, is_reference_type_arms] at h
          · exact Or.inr (Or.inr (Or.inl ⟨s, a, rfl⟩))
          · exact Or.inr (Or.inr (Or.inr ⟨s, a, rfl⟩))

/-- what `lower_type` answers, by cases — in particular never the final `ice!` -/
theorem lowerType_cases (t : Ty) :
    (noIrValue t = true ∧ lowerType t = .ok none) ∨
    (noIrValue t = false ∧ ((∃ s a, t = .leaf .int s a ∧ lowerType t = .ok (some (.int s))) ∨
      (∃ s a, t = .leaf .float s a ∧ lowerType t = .ok (some (.float s))) ∨
      (isReferenceType t = some true ∧ lowerType t = .ok (some .pointer)) ∨
      (isReferenceType t = none ∧ lowerType t = .ok none))) := by
  by_cases hs : noIrValue t = true
  · left; exact ⟨hs, by simp [lowerType_eq, hs]⟩
  · right
    have hs' : noIrValue t = false := by simpa using hs
    refine ⟨hs', ?_⟩
    -- outside the scalar leaves, `is_reference_type` never says `false` here
    have hne : (∀ s a, t ≠ .leaf .int s a) → (∀ s a, t ≠ .leaf .float s a) → isReferenceType t ≠ some false := by
      intro h1 h2 hr
      rcases isReferenceType_false_cases t hr with h | h | ⟨s, a, h⟩ | ⟨s, a, h⟩
      · rw [h] at hs'; cases hs'
      · subst h; simp [noIrValue, sizeZero, Ty.kind, layoutOf, Layout.new, Layout.get_size] at hs'
      · exact h1 s a h
      · exact h2 s a h
    have hgen : isReferenceType t ≠ some false →
        ((match isReferenceType t with
          | none => (.ok none : Res (Option IrT))
          | some true => .ok (some .pointer)
          | some false => .panic) = .ok (some .pointer) ∧ isReferenceType t = some true) ∨
        ((match isReferenceType t with
          | none => (.ok none : Res (Option IrT))
          | some true => .ok (some .pointer)
          | some false => .panic) = .ok none ∧ isReferenceType t = none) := by
      intro hne
      cases hr : isReferenceType t with
      | none => right; simp
      | some b => cases b with
        | true => left; simp
        | false => exact absurd hr hne
    have hrt : ∀ k s a, t = .leaf k s a → (k = .list ∨ k = .rtCopy ∨ k = .rtClone) →
        isReferenceType t = some true := by
      intro k s a ht hk
      subst ht
      rw [isReferenceType_eq]
      rcases hk with rfl | rfl | rfl
      · have : s ≠ 0 := by
          intro h0; subst h0
          simp [noIrValue, sizeZero, Ty.kind, layoutOf, Layout.new, Layout.get_size] at hs'
        simp [Ty.kind, layoutOf, Layout.new, Layout.get_size, this, is_reference_type_arms]
      · simp [Ty.kind]
      · simp [Ty.kind]
    cases t with
    | leaf k s a =>
      cases k with
      | int => left; exact ⟨s, a, rfl, by simp [lowerType_eq, hs']⟩
      | float => right; left; exact ⟨s, a, rfl, by simp [lowerType_eq, hs']⟩
      | list => right; right; left; exact ⟨hrt _ _ _ rfl (Or.inl rfl), by simp [lowerType_eq, hs']⟩
      | rtCopy => right; right; left; exact ⟨hrt _ _ _ rfl (Or.inr (Or.inl rfl)), by simp [lowerType_eq, hs']⟩
      | rtClone => right; right; left; exact ⟨hrt _ _ _ rfl (Or.inr (Or.inr rfl)), by simp [lowerType_eq, hs']⟩
      | string =>
        rcases hgen (hne (by intro s a h; cases h) (by intro s a h; cases h)) with ⟨h1, h2⟩ | ⟨h1, h2⟩
        · right; right; left; exact ⟨h2, by simp [lowerType_eq, hs', h2]⟩
        · right; right; right; exact ⟨h2, by simp [lowerType_eq, hs', h2]⟩
      | copyRef =>
        rcases hgen (hne (by intro s a h; cases h) (by intro s a h; cases h)) with ⟨h1, h2⟩ | ⟨h1, h2⟩
        · right; right; left; exact ⟨h2, by simp [lowerType_eq, hs', h2]⟩
        · right; right; right; exact ⟨h2, by simp [lowerType_eq, hs', h2]⟩
    | unit => simp [noIrValue, sizeZero, Ty.kind, layoutOf, Layout.new, Layout.get_size] at hs'
    | never =>
      right; right; right
      have h2 : isReferenceType .never = none := by simp [isReferenceType_eq, Ty.kind, layoutOf]
      exact ⟨h2, by simp [lowerType_eq, hs', h2]⟩
    | record fs =>
      rcases hgen (hne (by intro s a h; cases h) (by intro s a h; cases h)) with ⟨h1, h2⟩ | ⟨h1, h2⟩
      · right; right; left; exact ⟨h2, by simp [lowerType_eq, hs', h2]⟩
      · right; right; right; exact ⟨h2, by simp [lowerType_eq, hs', h2]⟩
    | enum vs =>
      rcases hgen (hne (by intro s a h; cases h) (by intro s a h; cases h)) with ⟨h1, h2⟩ | ⟨h1, h2⟩
      · right; right; left; exact ⟨h2, by simp [lowerType_eq, hs', h2]⟩
      · right; right; right; exact ⟨h2, by simp [lowerType_eq, hs', h2]⟩

theorem lowerType_total (t : Ty) : lowerType t ≠ .panic := by
  rcases lowerType_cases t with ⟨_, h⟩ | ⟨_, ⟨_, _, _, h⟩ | ⟨_, _, _, h⟩ | ⟨_, h⟩ | ⟨_, h⟩⟩ <;> simp [h]

theorem fieldEqOps_total (off : Nat) (t : Ty) : (fieldEqOps true off t).isPanic = false := by
  unfold fieldEqOps
  cases hr : isReferenceType t with
  | none => simp [Res.isPanic]
  | some b =>
    cases b with
    | true =>
      simp only [eqOfOps]
      rcases lowerType_cases t with ⟨_, h⟩ | ⟨_, ⟨_, _, _, h⟩ | ⟨_, _, _, h⟩ | ⟨_, h⟩ | ⟨_, h⟩⟩ <;>
        simp [h, Res.isPanic]
      by_cases he : hasRuntimeEq t = true <;> simp [he]
    | false =>
      rcases lowerType_cases t with ⟨_, h⟩ | ⟨_, ⟨_, _, _, h⟩ | ⟨_, _, _, h⟩ | ⟨h', h⟩ | ⟨_, h⟩⟩ <;>
        simp [h, Res.isPanic]
      rw [hr] at h'; cases h'

theorem mapVisits_total (f : Nat → Ty → Res (List Op)) : ∀ (vs : List Visit),
    (∀ v ∈ vs, (f v.2.1 v.2.2).isPanic = false) → (mapVisits f vs).isPanic = false
  | [], _ => by simp [mapVisits, Res.isPanic]
  | (i, off, t) :: r, h => by
    have h1 := h (i, off, t) (by simp)
    have h2 := mapVisits_total f r (fun v hv => h v (by simp [hv]))
    simp only [mapVisits]
    cases hf : f off t with
    | panic => simp [hf, Res.isPanic] at h1
    | ok a =>
      cases hm : mapVisits f r with
      | panic => simp [hm, Res.isPanic] at h2
      | ok b => simp [Res.isPanic]

theorem cloneRecordLoop_inhabited : ∀ (ts : Tys) (i : Nat) (b : LayoutBuilder),
    ∀ v ∈ cloneRecordLoop ts i b, ∃ l, layoutOf v.2.2 = some l
  | .nil, i, b, v, hv => by simp [cloneRecordLoop] at hv
  | .cons t ts, i, b, v, hv => by
    cases hl : layoutOf t with
    | none =>
      simp [cloneRecordLoop, hl] at hv
      exact cloneRecordLoop_inhabited ts (i + 1) b v hv
    | some l =>
      simp [cloneRecordLoop, hl] at hv
      rcases hv with rfl | hv
      · exact ⟨l, hl⟩
      · exact cloneRecordLoop_inhabited ts (i + 1) _ v hv

theorem cloneVariantLoop_inhabited : ∀ (ts : Tys) (ls : List (Ty × Layout)), collectLayouts ts = some ls →
    ∀ (i : Nat) (b : LayoutBuilder), ∀ v ∈ cloneVariantLoop ls i b, ∃ l, layoutOf v.2.2 = some l
  | .nil, ls, h, i, b, v, hv => by
    simp [collectLayouts] at h; subst h; simp [cloneVariantLoop] at hv
  | .cons t ts, ls, h, i, b, v, hv => by
    cases hl : layoutOf t with
    | none => simp [collectLayouts, hl] at h
    | some l =>
      cases hc : collectLayouts ts with
      | none => simp [collectLayouts, hl, hc] at h
      | some ls' =>
        simp [collectLayouts, hl, hc] at h; subst h
        simp [cloneVariantLoop] at hv
        rcases hv with rfl | hv
        · exact ⟨l, hl⟩
        · exact cloneVariantLoop_inhabited ts ls' hc (i + 1) _ v hv

theorem fieldCloneOps_total (off : Nat) (t : Ty) (l : Layout) (h : layoutOf t = some l) :
    (fieldCloneOps off t).isPanic = false := by
  unfold fieldCloneOps
  split
  · simp only [h]; split <;> rfl
  · split <;> rfl

theorem fieldDropOps_total (off : Nat) (t : Ty) : (fieldDropOps off t).isPanic = false := by
  unfold fieldDropOps
  split
  · rfl
  · split <;> rfl

theorem cloneVariantsOps_total : ∀ (vs : Vars), (cloneVariantsOps vs).isPanic = false
  | .nil => by simp [cloneVariantsOps, Res.isPanic]
  | .cons v vs => by
    have h2 := cloneVariantsOps_total vs
    have h1 : (cloneVisitOps (cloneVariantVisits v)).isPanic = false := by
      unfold cloneVisitOps cloneVariantVisits
      cases hc : collectLayouts v with
      | none => simp [mapVisits, Res.isPanic]
      | some ls =>
        apply mapVisits_total
        intro x hx
        obtain ⟨l, hl⟩ := cloneVariantLoop_inhabited v ls hc 0 _ x hx
        exact fieldCloneOps_total _ _ l hl
    simp only [cloneVariantsOps]
    cases ha : cloneVisitOps (cloneVariantVisits v) with
    | panic => simp [ha, Res.isPanic] at h1
    | ok a =>
      cases hb : cloneVariantsOps vs with
      | panic => simp [hb, Res.isPanic] at h2
      | ok b => simp [Res.isPanic]

theorem dropVariantsOps_total : ∀ (vs : Vars), (dropVariantsOps vs).isPanic = false
  | .nil => by simp [dropVariantsOps, Res.isPanic]
  | .cons v vs => by
    have h2 := dropVariantsOps_total vs
    have h1 : (mapVisits fieldDropOps (dropVariantVisits v)).isPanic = false :=
      mapVisits_total _ _ (fun x _ => fieldDropOps_total _ _)
    simp only [dropVariantsOps]
    cases ha : mapVisits fieldDropOps (dropVariantVisits v) with
    | panic => simp [ha, Res.isPanic] at h1
    | ok a =>
      cases hb : dropVariantsOps vs with
      | panic => simp [hb, Res.isPanic] at h2
      | ok b => simp [Res.isPanic]

theorem eqVariantsOps_total : ∀ (vs : Vars), (eqVariantsOps true vs).isPanic = false
  | .nil => by simp [eqVariantsOps, Res.isPanic]
  | .cons v vs => by
    have h2 := eqVariantsOps_total vs
    have h1 : (mapVisits (fieldEqOps true) (eqVariantVisits v)).isPanic = false :=
      mapVisits_total _ _ (fun x _ => fieldEqOps_total _ _)
    simp only [eqVariantsOps]
    cases hb : eqVariantsOps true vs with
    | panic => simp [hb, Res.isPanic] at h2
    | ok b =>
      cases hc : collectLayouts v with
      | none => simp [Res.isPanic]
      | some ls =>
        cases ha : mapVisits (fieldEqOps true) (eqVariantVisits v) with
        | panic => simp [ha, Res.isPanic] at h1
        | ok a => simp [Res.isPanic]

/-- generating the clone, drop and (repaired) eq function of ANY type never
    hits an `unwrap()` / `ice!` of the lowerer -/
theorem generated_ops_total (t : Ty) :
    (cloneOps t).isPanic = false ∧ (dropOps t).isPanic = false ∧ (eqOps true t).isPanic = false := by
  refine ⟨?_, ?_, ?_⟩
  · unfold cloneOps
    split
    · rfl
    · cases t with
      | unit => rfl
      | never => rfl
      | leaf k s a => cases k <;> rfl
      | record fs =>
        simp only []
        apply mapVisits_total
        intro x hx
        obtain ⟨l, hl⟩ := cloneRecordLoop_inhabited fs 0 _ x hx
        exact fieldCloneOps_total _ _ l hl
      | enum vs =>
        simp only []
        have := cloneVariantsOps_total vs
        cases h : cloneVariantsOps vs with
        | panic => simp [h, Res.isPanic] at this
        | ok r => simp [Res.isPanic]
  · unfold dropOps
    split
    · rfl
    · cases t with
      | unit => rfl
      | never => rfl
      | leaf k s a => rfl
      | record fs => exact mapVisits_total _ _ (fun x _ => fieldDropOps_total _ _)
      | enum vs =>
        simp only []
        have := dropVariantsOps_total vs
        cases h : dropVariantsOps vs with
        | panic => simp [h, Res.isPanic] at this
        | ok r => simp [Res.isPanic]
  · cases t with
    | unit => rfl
    | never => rfl
    | leaf k s a => cases k <;> rfl
    | record fs =>
      simp only [eqOps]
      have := mapVisits_total (fieldEqOps true) (eqRecordVisits fs) (fun x _ => fieldEqOps_total _ _)
      cases h : mapVisits (fieldEqOps true) (eqRecordVisits fs) with
      | panic => simp [h, Res.isPanic] at this
      | ok r => simp [Res.isPanic]
    | enum vs =>
      simp only [eqOps]
      have := eqVariantsOps_total vs
      cases h : eqVariantsOps true vs with
      | panic => simp [h, Res.isPanic] at this
      | ok r => simp [Res.isPanic]

end RotoV.Layout
