/-
  For C01: the instruction `lower_binop` is expected to emit for each operator on
  the integer types (`expectedInstr`; that the generated `lower_binop` is this
  table is theorem `C01.lower_binop_int`) and what that instruction's compiled
  sequence computes in language terms (`run_expected_eq`, over the generated
  codegen arms).
-/
import RotoV.Lemmas.Scalar

namespace RotoV
open RotoV.Gen RotoV.Gen.OpTables

/-! ### `lower_binop` on the integer types, and what the emitted instruction computes -/

/-- which instruction the generated `lower_binop` emits for each operator on `Primitive.Int k sz`
    (operands in source order, the destination typed by the operand type or `Bool`, signed
    comparison / division exactly on the signed types). -/
def expectedInstr (op : BinOp) (k : IntKind) (sz : IntSize) : Option Instruction :=
  let s := k.signed
  match op with
  | .Add => some (.Add (irTypeOf k sz) .lhs .rhs)
  | .Sub => some (.Sub (irTypeOf k sz) .lhs .rhs)
  | .Mul => some (.Mul (irTypeOf k sz) .lhs .rhs)
  | .Div => some (.Div (irTypeOf k sz) .lhs .rhs s)
  | .Mod => some (.Mod (irTypeOf k sz) .lhs .rhs s)
  | .Lt => some (.IntCmp .Bool (if s then .SLt else .ULt) .lhs .rhs)
  | .Le => some (.IntCmp .Bool (if s then .SLe else .ULe) .lhs .rhs)
  | .Gt => some (.IntCmp .Bool (if s then .SGt else .UGt) .lhs .rhs)
  | .Ge => some (.IntCmp .Bool (if s then .SGe else .UGe) .lhs .rhs)
  | .Eq => some (.CallEq false .lhs .rhs)
  | .Ne => some (.CallEq true .lhs .rhs)
  | .And | .Or => none

/-- What the compiled sequence for `a op b` computes on `Primitive.Int k sz`, in language terms
    (values over `Int`, `Res.panic` = hardware trap).  `&&`/`||` never reach `binop`. -/
def intRun {k : IntKind} {sz : IntSize} (op : BinOp) (a b : PInt k sz) : Res CVal :=
  match op with
  | .Add => .ok (cvInt (wrap k sz (a.val + b.val)))
  | .Sub => .ok (cvInt (wrap k sz (a.val - b.val)))
  | .Mul => .ok (cvInt (wrap k sz (a.val * b.val)))
  | .Div => if b.val = 0 ∨ isMinDivNegOne a b then .panic else .ok (cvInt (wrap k sz (a.val.tdiv b.val)))
  | .Mod => if b.val = 0 then .panic else .ok (cvInt (wrap k sz (a.val.tmod b.val)))
  | .Lt => .ok (CVal.ofBool (decide (a.val < b.val)))
  | .Le => .ok (CVal.ofBool (decide (a.val ≤ b.val)))
  | .Gt => .ok (CVal.ofBool (decide (a.val > b.val)))
  | .Ge => .ok (CVal.ofBool (decide (a.val ≥ b.val)))
  | .Eq => .ok (CVal.ofBool (decide (a.val = b.val)))
  | .Ne => .ok (CVal.ofBool (decide (a.val ≠ b.val)))
  | .And | .Or => .panic

section
variable [F : FloatOps]
/-- the instruction of the table, run through the generated codegen arm and CLIF semantics on the
    operands (left operand in `Side.lhs`), is `intRun`: for every type, operator and operands. -/
theorem run_expected_eq (dbg : Bool) (op : BinOp) (k : IntKind) (sz : IntSize) (a b : PInt k sz)
    (i : Instruction) (hi : expectedInstr op k sz = some i) :
    runInstr dbg i (operands (cvInt a) (cvInt b)) = intRun op a b := by
  have hf := sz.cty_notFloat
  have hcv : ∀ x : PInt k sz, (cvInt x).ty.isFloat = false := fun x => hf
  cases op <;> simp only [expectedInstr, Option.some.injEq, reduceCtorEq] at hi <;> subst hi <;>
    simp only [runInstr, operands, intRun, hcv, Bool.false_eq_true, if_false, if_true]
  case Add => rw [cvInt, cvInt, cg_Add_int dbg sz.cty hf rfl, RInt.bv_add]; rfl
  case Sub => rw [cvInt, cvInt, cg_Sub_int dbg sz.cty hf rfl, RInt.bv_sub]; rfl
  case Mul => rw [cvInt, cvInt, cg_Mul_int dbg sz.cty hf rfl, RInt.bv_mul]; rfl
  case Div => rw [cg_Div_pint]
  case Mod => rw [cg_Mod_pint]
  case Eq => rw [cvInt, cvInt, cg_IntCmp_int dbg _ sz.cty hf rfl, (intCmpSpec_eq a b).1]
  case Ne => rw [cvInt, cvInt, cg_IntCmp_int dbg _ sz.cty hf rfl, (intCmpSpec_eq a b).2]
  all_goals
    rw [cvInt, cvInt, cg_IntCmp_int dbg _ sz.cty hf rfl]
    cases k
    · simp only [IntKind.signed, Bool.false_eq_true, if_false, intCmpSpec_unsigned a b]
    · simp only [IntKind.signed, if_true, intCmpSpec_signed a b]
end

end RotoV
