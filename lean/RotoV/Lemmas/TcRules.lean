/-
  Lemmas for C07 about `Model/TcRules.lean`: the operator table (closed by
  evaluation), the loop invariant of `match_expr`'s bookkeeping, and
  `insert_declaration`.
-/
import RotoV.Model.Typing
import RotoV.Model.TcRules

namespace RotoV.TcRules
open RotoV.Typing
open RotoV.Gen

/-! ### operator table -/

def BinOp.all : List BinOp :=
  [.add, .sub, .mul, .div, .mod, .eq, .ne, .lt, .le, .gt, .ge, .and, .or]

theorem BinOp.mem_all (op : BinOp) : op ∈ BinOp.all := by cases op <;> decide

theorem OTy.mem_all (t : OTy) : t ∈ OTy.all := by
  cases t with
  | int i => cases i <;> decide
  | intVar b => cases b <;> decide
  | _ => decide

/-- one row of the table: accepted ⇒ documented -/
def opRowOk (op : BinOp) (l r : OTy) : Bool :=
  match binopReal op l r with
  | none => true
  | some res =>
    (decide (op = .div) && decide (l = .ipAddr) && compat r.toTy (.int .u8) && decide (res = .prefix)) ||
    (match binopTy op l.toTy r.toTy with
     | some t => compat t res.toTy && (isNumeric t || decide (t = res.toTy))
     | none => false)

def opTable : Bool :=
  BinOp.all.all fun op => OTy.all.all fun l => OTy.all.all fun r => opRowOk op l r

theorem opTable_true : opTable = true := by decide +kernel

theorem opTable_ok (op : BinOp) (l r : OTy) : opRowOk op l r = true := by
  have h := opTable_true
  simp only [opTable, List.all_eq_true] at h
  exact h op (BinOp.mem_all op) l (OTy.mem_all l) r (OTy.mem_all r)

theorem opRowOk_sound (op : BinOp) (l r res : OTy) (hrow : opRowOk op l r = true)
    (h : binopReal op l r = some res) :
    (op = .div ∧ l = .ipAddr ∧ compat r.toTy (.int .u8) = true ∧ res = .prefix) ∨
    (∃ t, binopTy op l.toTy r.toTy = some t ∧ compat t res.toTy = true ∧
      (isNumeric t = false → t = res.toTy)) := by
  unfold opRowOk at hrow
  rw [h] at hrow
  simp only [Bool.or_eq_true, Bool.and_eq_true, decide_eq_true_eq] at hrow
  rcases hrow with ⟨⟨⟨h1, h2⟩, h3⟩, h4⟩ | hrow
  · exact Or.inl ⟨h1, h2, h3, h4⟩
  · right
    cases hb : binopTy op l.toTy r.toTy with
    | none => simp [hb] at hrow
    | some t =>
      simp only [hb, Bool.and_eq_true, Bool.or_eq_true, decide_eq_true_eq] at hrow
      refine ⟨t, rfl, hrow.1, ?_⟩
      intro hn
      rcases hrow.2 with h' | h'
      · simp [hn] at h'
      · exact h'

/-! ### match bookkeeping -/

theorem patNameEq_iff (a b : PatName) : patNameEq a b = true ↔ a = b := by
  cases a <;> cases b <;> simp [patNameEq]

theorem patIn_iff (n : PatName) (xs : List PatName) : patIn n xs = true ↔ n ∈ xs := by
  simp only [patIn, List.any_eq_true, patNameEq_iff]
  constructor
  · rintro ⟨x, hx, rfl⟩; exact hx
  · intro h; exact ⟨n, h, rfl⟩

/-- an unguarded `_` arm -/
def IsDefault (a : ArmHead) : Prop := a.pat = .wild ∧ a.guarded = false

def HasDefault (arms : List ArmHead) : Prop := ∃ a ∈ arms, a.pat = .wild ∧ a.guarded = false

/-- nothing follows an unguarded `_` -/
def NoArmAfterDefault (arms : List ArmHead) : Prop :=
  ∀ pre a post, arms = pre ++ a :: post → a.pat = .wild → a.guarded = false → post = []

/-- the binders of a pattern fit a variant with `k` fields: none for `k = 0`,
    otherwise exactly `k` distinct ones -/
def ArityOk (k : Nat) : Option (List Nat) → Prop
  | none => k = 0
  | some xs => k ≠ 0 ∧ xs.length = k ∧ hasDup xs = false

/-- every pattern names a variant of the enum with the right number of distinct binders -/
def PatternOk (vs : List (PatName × Nat)) (a : ArmHead) : Prop :=
  ∀ n bs, a.pat = .variant n bs →
    ∃ k, (n, k) ∈ vs ∧ ArityOk k bs

def PatternsOk (vs : List (PatName × Nat)) (arms : List ArmHead) : Prop :=
  ∀ a ∈ arms, PatternOk vs a

theorem find_variant {vs : List (PatName × Nat)} {n : PatName} {m : PatName} {k : Nat}
    (h : vs.find? (fun v => patNameEq v.1 n) = some (m, k)) : (n, k) ∈ vs := by
  have hm := List.mem_of_find?_eq_some h
  have hp := List.find?_some h
  simp only [patNameEq_iff] at hp
  subst hp
  exact hm

theorem arityCheck_ok {nf : Nat} {bs : Option (List Nat)} (h : arityCheck nf bs = .ok ()) :
    ArityOk nf bs := by
  cases nf with
  | zero =>
    cases bs with
    | none => rfl
    | some xs => exact nomatch h
  | succ k =>
    cases bs with
    | none => exact nomatch h
    | some xs =>
      simp only [arityCheck] at h
      by_cases hlen : (k + 1 != xs.length) = true
      · simp [hlen] at h
      · by_cases hdup : hasDup xs = true
        · simp [hlen, hdup] at h
        · simp at hlen
          exact ⟨by omega, by omega, by simpa using hdup⟩

/-- what one accepted arm tells us -/
theorem matchArm_ok {vs : List (PatName × Nat)} {st st' : MState} {h : ArmHead}
    (hok : matchArm vs st h = .ok st') :
    st.dflt = false ∧ PatternOk vs h ∧
    (st'.dflt = true ↔ (h.pat = .wild ∧ h.guarded = false)) ∧
    (∀ n, n ∈ st'.used ↔ n ∈ st.used ∨ (h.guarded = false ∧ ∃ bs, h.pat = .variant n bs)) ∧
    (st.used.Nodup → st'.used.Nodup) ∧
    (∀ n, n ∈ st'.used → n ∈ st.used ∨ n ∈ vs.map (·.1)) := by
  obtain ⟨pat, guarded⟩ := h
  unfold matchArm at hok
  cases hd : st.dflt with
  | true => simp [hd] at hok
  | false =>
    simp only [hd, Bool.false_eq_true, ↓reduceIte] at hok
    refine ⟨rfl, ?_⟩
    cases pat with
    | wild =>
      simp only [Except.ok.injEq] at hok
      subst hok
      refine ⟨?_, ?_, ?_, ?_, ?_⟩
      · intro n bs hh; cases hh
      · simp
      · intro n; simp
      · intro hn; exact hn
      · intro n hn; exact Or.inl hn
    | variant n bs =>
      simp only at hok
      cases hf : vs.find? (fun v => patNameEq v.1 n) with
      | none => simp [hf] at hok
      | some mk =>
        obtain ⟨m, nf⟩ := mk
        have hmem := find_variant hf
        simp only [hf] at hok
        by_cases hdup2 : (C07Facts.matchDuplicateVariantIsError && patIn n st.used) = true
        · simp [hdup2] at hok
        simp only [hdup2, Bool.false_eq_true, ↓reduceIte] at hok
        cases har : arityCheck nf bs with
        | error e => simp [har] at hok
        | ok u =>
          cases u
          simp only [har] at hok
          have har' := arityCheck_ok har
          have hpat : PatternOk vs ⟨.variant n bs, guarded⟩ := by
            intro n' bs' hh
            injection hh with h1 h2
            subst h1; subst h2
            exact ⟨nf, hmem, har'⟩
          refine ⟨hpat, ?_⟩
          cases guarded with
          | true =>
            simp only [↓reduceIte, Except.ok.injEq] at hok
            subst hok
            refine ⟨?_, ?_, ?_, ?_⟩
            · simp [hd]
            · intro n'; simp
            · intro hn; exact hn
            · intro n' hn; exact Or.inl hn
          | false =>
            simp only [Bool.false_eq_true, ↓reduceIte] at hok
            by_cases hin : patIn n st.used = true
            · simp only [hin, ↓reduceIte, Except.ok.injEq] at hok
              subst hok
              have hnin := (patIn_iff n st.used).1 hin
              refine ⟨?_, ?_, ?_, ?_⟩
              · simp [hd]
              · intro n'
                constructor
                · intro hh; exact Or.inl hh
                · rintro (hh | ⟨_, bs', hh⟩)
                  · exact hh
                  · injection hh with h1 _; subst h1; exact hnin
              · intro hn; exact hn
              · intro n' hn; exact Or.inl hn
            · have hin' : patIn n st.used = false := by simpa using hin
              simp only [hin', Bool.false_eq_true, ↓reduceIte, Except.ok.injEq] at hok
              subst hok
              have hnin : n ∉ st.used := fun hc => by
                have := (patIn_iff n st.used).2 hc; simp [hin'] at this
              refine ⟨?_, ?_, ?_, ?_⟩
              · simp [hd]
              · intro n'
                simp only [List.mem_append, List.mem_singleton]
                constructor
                · rintro (hh | hh)
                  · exact Or.inl hh
                  · subst hh; exact Or.inr ⟨by simp, bs, rfl⟩
                · rintro (hh | ⟨_, bs', hh⟩)
                  · exact Or.inl hh
                  · injection hh with h1 _; subst h1; exact Or.inr rfl
              · intro hn
                rw [List.nodup_append]
                refine ⟨hn, by simp, ?_⟩
                intro a ha b hb
                simp only [List.mem_singleton] at hb
                subst hb
                intro hab; subst hab; exact hnin ha
              · intro n' hn
                simp only [List.mem_append, List.mem_singleton] at hn
                rcases hn with hn | hn
                · exact Or.inl hn
                · subst hn
                  right
                  exact List.mem_map.2 ⟨(n', nf), hmem, rfl⟩

/-- if a repeated variant is an error, an accepted variant arm is the first unguarded-covered one -/
theorem matchArm_nodup {vs : List (PatName × Nat)} {st st' : MState} {h : ArmHead}
    (hfact : C07Facts.matchDuplicateVariantIsError = true) (hok : matchArm vs st h = .ok st')
    (n : PatName) (bs : Option (List Nat)) (hp : h.pat = .variant n bs) : n ∉ st.used := by
  obtain ⟨pat, guarded⟩ := h
  simp only at hp
  subst hp
  unfold matchArm at hok
  cases hd : st.dflt with
  | true => simp [hd] at hok
  | false =>
    simp only [hd, Bool.false_eq_true, ↓reduceIte] at hok
    cases hf : vs.find? (fun v => patNameEq v.1 n) with
    | none => simp [hf] at hok
    | some mk =>
      obtain ⟨m, nf⟩ := mk
      simp only [hf, hfact, Bool.true_and] at hok
      intro hmem
      have := (patIn_iff n st.used).2 hmem
      simp [this] at hok

/-- no arm repeats a variant that an earlier unguarded arm covers -/
def NoRepeatedVariant (arms : List ArmHead) : Prop :=
  ∀ pre a post, arms = pre ++ a :: post → ∀ n bs, a.pat = .variant n bs →
    ¬ ∃ b ∈ pre, b.guarded = false ∧ ∃ bs', b.pat = .variant n bs'

theorem matchLoop_norepeat (vs : List (PatName × Nat))
    (hfact : C07Facts.matchDuplicateVariantIsError = true) :
    ∀ (arms : List ArmHead) (st st' : MState), matchLoop vs st arms = .ok st' →
      ∀ pre a post, arms = pre ++ a :: post → ∀ n bs, a.pat = .variant n bs →
        n ∉ st.used ∧ ¬ ∃ b ∈ pre, b.guarded = false ∧ ∃ bs', b.pat = .variant n bs' := by
  intro arms
  induction arms with
  | nil => intro st st' _ pre a post hh; simp at hh
  | cons a0 rest ih =>
    intro st st' h pre a post hsplit n bs hp
    simp only [matchLoop] at h
    cases ha : matchArm vs st a0 with
    | error e => simp [ha] at h
    | ok st1 =>
      simp only [ha] at h
      obtain ⟨_, _, _, hused1, _, _⟩ := matchArm_ok ha
      cases pre with
      | nil =>
        simp only [List.nil_append, List.cons.injEq] at hsplit
        obtain ⟨h1, _⟩ := hsplit
        subst h1
        exact ⟨matchArm_nodup hfact ha n bs hp, by simp⟩
      | cons p0 pre' =>
        simp only [List.cons_append, List.cons.injEq] at hsplit
        obtain ⟨h1, h2⟩ := hsplit
        subst h1
        obtain ⟨hn1, hnone⟩ := ih st1 st' h pre' a post h2 n bs hp
        refine ⟨fun hmem => hn1 ((hused1 n).2 (Or.inl hmem)), ?_⟩
        rintro ⟨b, hb, hg, bs', hbp⟩
        rcases List.mem_cons.1 hb with hb | hb
        · subst hb
          exact hn1 ((hused1 n).2 (Or.inr ⟨hg, bs', hbp⟩))
        · exact hnone ⟨b, hb, hg, bs', hbp⟩

theorem matchReal_norepeat (vs : List (PatName × Nat)) (arms : List ArmHead)
    (hfact : C07Facts.matchDuplicateVariantIsError = true) (h : matchReal vs arms = none) :
    NoRepeatedVariant arms := by
  unfold matchReal at h
  have hm : matchModelled = true := by decide
  simp only [hm, Bool.not_true, Bool.false_eq_true, ↓reduceIte] at h
  cases hl : matchLoop vs ⟨[], false⟩ arms with
  | error e => simp [hl] at h
  | ok st =>
    intro pre a post hs n bs hp
    exact (matchLoop_norepeat vs hfact arms _ _ hl pre a post hs n bs hp).2

/-- the loop invariant, by induction over the arms -/
theorem matchLoop_ok (vs : List (PatName × Nat)) :
    ∀ (arms : List ArmHead) (st st' : MState), matchLoop vs st arms = .ok st' →
      (arms ≠ [] → st.dflt = false) ∧
      NoArmAfterDefault arms ∧ PatternsOk vs arms ∧
      (st'.dflt = true → st.dflt = true ∨ HasDefault arms) ∧
      (∀ n, n ∈ st'.used → n ∈ st.used ∨
        ∃ a ∈ arms, a.guarded = false ∧ ∃ bs, a.pat = .variant n bs) ∧
      (st.used.Nodup → st'.used.Nodup) ∧
      (∀ n, n ∈ st'.used → n ∈ st.used ∨ n ∈ vs.map (·.1)) := by
  intro arms
  induction arms with
  | nil =>
    intro st st' h
    simp only [matchLoop] at h
    injection h with h
    subst h
    refine ⟨by simp, ?_, ?_, ?_, ?_, ?_, ?_⟩
    · intro pre a post hh; simp at hh
    · intro a ha; cases ha
    · intro hd; exact Or.inl hd
    · intro n hn; exact Or.inl hn
    · intro hn; exact hn
    · intro n hn; exact Or.inl hn
  | cons a rest ih =>
    intro st st' h
    simp only [matchLoop] at h
    cases ha : matchArm vs st a with
    | error e => simp [ha] at h
    | ok st1 =>
      simp only [ha] at h
      obtain ⟨hd0, hpat, hdflt1, hused1, hnd1, hsub1⟩ := matchArm_ok ha
      obtain ⟨hne, hno, hpats, hdflt, hused, hnd, hsub⟩ := ih st1 st' h
      refine ⟨fun _ => hd0, ?_, ?_, ?_, ?_, ?_, ?_⟩
      · -- nothing after an unguarded `_`
        intro pre x post heq hw hg
        cases pre with
        | nil =>
          simp only [List.nil_append, List.cons.injEq] at heq
          obtain ⟨hax, hrest⟩ := heq
          subst hax
          by_cases hr : rest = []
          · rw [hr] at hrest; exact hrest.symm
          · have := hne hr
            have h1 : st1.dflt = true := hdflt1.2 ⟨hw, hg⟩
            rw [h1] at this; cases this
        | cons p pre' =>
          simp only [List.cons_append, List.cons.injEq] at heq
          exact hno pre' x post heq.2 hw hg
      · intro x hx
        rcases List.mem_cons.1 hx with hx | hx
        · subst hx; exact hpat
        · exact hpats x hx
      · intro hd
        rcases hdflt hd with h1 | ⟨x, hx, hw⟩
        · exact Or.inr ⟨a, List.mem_cons_self, hdflt1.1 h1⟩
        · exact Or.inr ⟨x, List.mem_cons_of_mem _ hx, hw⟩
      · intro n hn
        rcases hused n hn with h1 | ⟨x, hx, hw⟩
        · rcases (hused1 n).1 h1 with h2 | ⟨hg, bs, hp⟩
          · exact Or.inl h2
          · exact Or.inr ⟨a, List.mem_cons_self, hg, bs, hp⟩
        · exact Or.inr ⟨x, List.mem_cons_of_mem _ hx, hw⟩
      · intro hn0; exact hnd (hnd1 hn0)
      · intro n hn
        rcases hsub n hn with h1 | h1
        · exact hsub1 n h1
        · exact Or.inr h1

/-- pigeonhole: a duplicate-free list inside another list that is not longer
    contains every element of it -/
theorem subset_of_nodup_of_length_le {α : Type} [DecidableEq α] :
    ∀ (l₁ l₂ : List α), l₁.Nodup → (∀ x ∈ l₁, x ∈ l₂) → l₂.length ≤ l₁.length → ∀ x ∈ l₂, x ∈ l₁ := by
  intro l₁
  induction l₁ with
  | nil =>
    intro l₂ _ _ hlen x hx
    have : l₂ = [] := List.eq_nil_of_length_eq_zero (by simpa using hlen)
    subst this; cases hx
  | cons a t ih =>
    intro l₂ hnd hsub hlen x hx
    have ha : a ∈ l₂ := hsub a List.mem_cons_self
    have hnd' := List.nodup_cons.1 hnd
    have hsub' : ∀ y ∈ t, y ∈ l₂.erase a := by
      intro y hy
      have hya : y ≠ a := fun h => by subst h; exact hnd'.1 hy
      exact (List.mem_erase_of_ne hya).2 (hsub y (List.mem_cons_of_mem _ hy))
    have hlen' : (l₂.erase a).length ≤ t.length := by
      rw [List.length_erase_of_mem ha]
      simp only [List.length_cons] at hlen
      omega
    by_cases hxa : x = a
    · subst hxa; exact List.mem_cons_self
    · exact List.mem_cons_of_mem _ (ih (l₂.erase a) hnd'.2 hsub' hlen' x ((List.mem_erase_of_ne hxa).2 hx))

theorem matchReal_sound (vs : List (PatName × Nat)) (arms : List ArmHead)
    (hnd : (vs.map (·.1)).Nodup) (h : matchReal vs arms = none) :
    NoArmAfterDefault arms ∧ PatternsOk vs arms ∧
    (HasDefault arms ∨ ∀ v ∈ vs, ∃ a ∈ arms, a.guarded = false ∧ ∃ bs, a.pat = .variant v.1 bs) := by
  unfold matchReal at h
  have hm : matchModelled = true := by decide
  simp only [hm, Bool.not_true, Bool.false_eq_true, ↓reduceIte] at h
  cases hl : matchLoop vs ⟨[], false⟩ arms with
  | error e => simp [hl] at h
  | ok st =>
    simp only [hl] at h
    obtain ⟨_, hno, hpats, hdflt, hused, hnodup, hsub⟩ := matchLoop_ok vs arms _ _ hl
    refine ⟨hno, hpats, ?_⟩
    by_cases hd : st.dflt = true
    · rcases hdflt hd with h1 | h1
      · cases h1
      · exact Or.inl h1
    · right
      have hd' : st.dflt = false := by simpa using hd
      have hlen : ¬ st.used.length < vs.length := by
        intro hlt
        simp [hd', hlt] at h
      have hsubset : ∀ x ∈ st.used, x ∈ vs.map (·.1) := by
        intro x hx
        rcases hsub x hx with h1 | h1
        · cases h1
        · exact h1
      have hall := subset_of_nodup_of_length_le st.used (vs.map (·.1)) (hnodup (by simp)) hsubset
        (by simp only [List.length_map]; omega)
      intro v hv
      have hv' : v.1 ∈ st.used := hall v.1 (List.mem_map.2 ⟨v, hv, rfl⟩)
      rcases hused v.1 hv' with h1 | h1
      · cases h1
      · exact h1

/-! ### declarations -/

/-- forward stubs: declarations that a later definition may replace -/
def isStub : DKind → Bool
  | .valueConst false | .type true _ | .function false | .method false | .enumVariant false => true
  | _ => false

/-- what sort of item a declaration is -/
def kindTag : DKind → Nat
  | .valueLocal | .valueConst _ => 0
  | .type _ _ => 1
  | .function _ => 2
  | .method _ => 3
  | .module => 4
  | .enumVariant _ => 5
  | .typeParam => 6

/-- `new` is the definition the forward stub `old` stands for: the same sort of
    item (for a type: the same number of type parameters), `old` a stub, `new` not -/
def defines (new old : DKind) : Prop :=
  isStub old = true ∧ isStub new = false ∧ kindTag new = kindTag old ∧
  (∀ s s' n m, new = .type s n → old = .type s' m → n = m)

theorem updateIf_defines (new old : DKind) (h : updateIf new old = true) : defines new old := by
  unfold updateIf at h
  split at h <;> simp_all [defines, isStub, kindTag]

theorem insertDecl_occupied (t : Table) (k : Key) (old new : DKind)
    (hk : t.lookup k = some old) :
    (isStub old = false → insertDecl t k new = none) ∧
    (∀ t', insertDecl t k new = some t' → defines new old) := by
  unfold insertDecl
  have hm : insertModelled = true := by decide
  rw [hk]
  simp only [hm, Bool.not_true, Bool.false_or]
  constructor
  · intro hs
    cases hu : updateIf new old with
    | false => simp [hu]
    | true => have := (updateIf_defines new old hu).1; rw [hs] at this; cases this
  · intro t' h
    cases hu : updateIf new old with
    | false => simp [hu] at h
    | true => exact updateIf_defines new old hu

theorem lookup_none_not_mem (t : Table) (k : Key) (h : t.lookup k = none) : k ∉ t.map (·.1) := by
  induction t with
  | nil => simp
  | cons e rest ih =>
    obtain ⟨k', d⟩ := e
    simp only [List.lookup] at h
    by_cases hk : k = k'
    · subst hk; simp at h
    · have hb : (k == k') = false := by simpa using hk
      simp only [hb] at h
      simp only [List.map_cons, List.mem_cons, not_or]
      exact ⟨hk, ih h⟩

theorem map_replace_keys (t : Table) (k : Key) (new : DKind) :
    (t.map fun e => if e.1 = k then (k, new) else e).map (·.1) = t.map (·.1) := by
  induction t with
  | nil => rfl
  | cons e rest ih =>
    simp only [List.map_cons, List.cons.injEq]
    refine ⟨?_, ih⟩
    by_cases h : e.1 = k
    · simp [h]
    · simp [h]

theorem insertDecl_nodup (t t' : Table) (k : Key) (new : DKind)
    (hn : (t.map (·.1)).Nodup) (h : insertDecl t k new = some t') : (t'.map (·.1)).Nodup := by
  unfold insertDecl at h
  cases hl : t.lookup k with
  | none =>
    simp only [hl] at h
    injection h with h
    subst h
    simp only [List.map_cons, List.nodup_cons]
    exact ⟨lookup_none_not_mem t k hl, hn⟩
  | some old =>
    simp only [hl] at h
    by_cases hu : (!insertModelled || updateIf new old) = true
    · simp only [hu, ↓reduceIte] at h
      injection h with h
      subst h
      rw [map_replace_keys]; exact hn
    · simp [hu] at h

theorem insertAll_nodup : ∀ (ds : List (Key × DKind)) (t t' : Table),
    (t.map (·.1)).Nodup → insertAll t ds = some t' → (t'.map (·.1)).Nodup := by
  intro ds
  induction ds with
  | nil => intro t t' hn h; simp only [insertAll] at h; injection h with h; subst h; exact hn
  | cons d rest ih =>
    intro t t' hn h
    obtain ⟨k, dk⟩ := d
    simp only [insertAll] at h
    cases hi : insertDecl t k dk with
    | none => simp [hi] at h
    | some t1 =>
      simp only [hi] at h
      exact ih t1 t' (insertDecl_nodup t t1 k dk hn hi) h

/-! a whole sequence of insertions -/

theorem lookup_map_replace (t : Table) (k k' : Key) (new : DKind) (hne : k' ≠ k) :
    (t.map fun e => if e.1 = k then (k, new) else e).lookup k' = t.lookup k' := by
  induction t with
  | nil => rfl
  | cons e rest ih =>
    obtain ⟨ke, de⟩ := e
    simp only [List.map_cons]
    by_cases hke : ke = k
    · subst hke
      have h1 : (k' == ke) = false := by simpa using hne
      simp [List.lookup, h1, ih]
    · simp only [hke, ↓reduceIte, List.lookup]
      cases (k' == ke) <;> simp [ih]

theorem lookup_map_replace_self (t : Table) (k : Key) (new old : DKind) (h : t.lookup k = some old) :
    (t.map fun e => if e.1 = k then (k, new) else e).lookup k = some new := by
  induction t with
  | nil => simp [List.lookup] at h
  | cons e rest ih =>
    obtain ⟨ke, de⟩ := e
    simp only [List.map_cons]
    by_cases hke : ke = k
    · subst hke; simp [List.lookup]
    · have h1 : (k == ke) = false := by simpa using fun hh : k = ke => hke hh.symm
      simp only [List.lookup, h1] at h
      simp only [hke, ↓reduceIte, List.lookup, h1]
      exact ih h

/-- an accepted insertion leaves its declaration under its key and does not touch the other keys -/
theorem insertDecl_lookup (t t' : Table) (k : Key) (new : DKind) (h : insertDecl t k new = some t') :
    t'.lookup k = some new ∧ ∀ k', k' ≠ k → t'.lookup k' = t.lookup k' := by
  unfold insertDecl at h
  cases hl : t.lookup k with
  | none =>
    simp only [hl, Option.some.injEq] at h
    subst h
    refine ⟨by simp [List.lookup], ?_⟩
    intro k' hne
    have : (k' == k) = false := by simpa using hne
    simp [List.lookup, this]
  | some old =>
    simp only [hl] at h
    by_cases hu : (!insertModelled || updateIf new old) = true
    · simp only [hu, ↓reduceIte, Option.some.injEq] at h
      subst h
      exact ⟨lookup_map_replace_self t k new old hl, fun k' hne => lookup_map_replace t k k' new hne⟩
    · simp [hu] at h

/-- once a key holds a declaration that is not a forward stub, no later insertion names it -/
theorem insertAll_defined_blocks : ∀ (ds : List (Key × DKind)) (t t' : Table) (k : Key) (d : DKind),
    insertAll t ds = some t' → t.lookup k = some d → isStub d = false → ∀ x ∈ ds, x.1 ≠ k := by
  intro ds
  induction ds with
  | nil => intro t t' k d _ _ _ x hx; cases hx
  | cons y rest ih =>
    intro t t' k d h hl hs x hx
    obtain ⟨ky, dy⟩ := y
    simp only [insertAll] at h
    cases hi : insertDecl t ky dy with
    | none => simp [hi] at h
    | some t1 =>
      simp only [hi] at h
      have hky : ky ≠ k := by
        intro he; subst he
        have := (insertDecl_occupied t ky d dy hl).1 hs
        rw [this] at hi; cases hi
      rcases List.mem_cons.1 hx with hx | hx
      · subst hx; exact hky
      · have hl1 : t1.lookup k = some d := by
          rw [(insertDecl_lookup t t1 ky dy hi).2 k (fun he => hky he.symm)]; exact hl
        exact ih t1 t' k d h hl1 hs x hx

theorem insertAll_append : ∀ (xs ys : List (Key × DKind)) (t t' : Table),
    insertAll t (xs ++ ys) = some t' → ∃ t1, insertAll t xs = some t1 ∧ insertAll t1 ys = some t' := by
  intro xs
  induction xs with
  | nil => intro ys t t' h; exact ⟨t, rfl, h⟩
  | cons x r ih =>
    intro ys t t' h
    obtain ⟨k, d⟩ := x
    simp only [List.cons_append, insertAll] at h ⊢
    cases hi : insertDecl t k d with
    | none => simp [hi] at h
    | some t1 => simp only [hi] at h ⊢; exact ih ys t1 t' h

/-- in an accepted sequence of declarations, whatever is declared again under
    the same (scope, name) was a forward stub -/
theorem insertAll_no_redefinition (ds : List (Key × DKind)) (t0 t : Table) (h : insertAll t0 ds = some t)
    (pre : List (Key × DKind)) (a : Key × DKind) (rest : List (Key × DKind)) (hsplit : ds = pre ++ a :: rest)
    (b : Key × DKind) (hb : b ∈ rest) (hk : a.1 = b.1) : isStub a.2 = true := by
  subst hsplit
  obtain ⟨t1, _, h2⟩ := insertAll_append pre (a :: rest) t0 t h
  obtain ⟨ka, da⟩ := a
  simp only [insertAll] at h2
  cases hi : insertDecl t1 ka da with
  | none => simp [hi] at h2
  | some t2 =>
    simp only [hi] at h2
    cases hs : isStub da with
    | true => rfl
    | false =>
      have := insertAll_defined_blocks rest t2 t ka da h2 (insertDecl_lookup t1 t2 ka da hi).1 hs b hb
      exact absurd hk.symm this

end RotoV.TcRules
