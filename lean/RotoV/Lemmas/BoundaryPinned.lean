/-
  C05 — the tree as pinned (`Cfg.pinned`): for every boundary signature the
  declared and the called parameter lists agree *iff* no parameter is a
  zero-sized registered type.
-/
import RotoV.Lemmas.BoundaryAbi
set_option linter.unusedSimpArgs false

namespace RotoV.Boundary
open RotoV RotoV.Gen.BoundaryTables

/-- a zero-sized registered type -/
def BTy.isZstVal : BTy → Bool
  | .val l => l.size == 0
  | _ => false

/-- how the pinned tree passes a parameter: as `paramIr`, except that zero-sized registered types
    are dropped -/
def paramIrPinned (t : BTy) : Option IrType := if t.isZstVal then none else paramIr t

theorem lowerType_pinned (h : HostLayouts) (t : MTy) :
    lowerType Cfg.pinned h t
      = lowerSteps Cfg.pinned h t [.zeroSizedNone, .primTable, .listPointer, .runtimePointer, .referencePointerElseIce] :=
  rfl

theorem isReferenceType_pinned_of_pos (h : HostLayouts) (t : MTy) (l : Layout) (hl : layoutOf h t = some l)
    (hpos : 0 < l.size) : isReferenceType Cfg.pinned h t = isReferenceKind t.kind := by
  simp [isReferenceType, hl, size_ne_zero hpos]

theorem lowerType_prim_pinned (h : HostLayouts) (hh : h.WF) (p : Primitive) :
    lowerType Cfg.pinned h (.prim p) = .ok (paramIr (.prim p)) := by
  have hpos := primitiveLayout_size_pos h hh p
  have hl : layoutOf h (.prim p) = some (primitiveLayout h p) := by simp [layoutOf]
  have hr := isReferenceType_pinned_of_pos h (.prim p) _ hl hpos
  rw [lowerType_pinned]
  cases p with
  | Int k s =>
    cases k <;> cases s <;>
      simp [lowerSteps, lowerStep, hl, size_ne_zero hpos, MTy.kind, lowerPrim, paramIr]
  | Float s =>
    cases s <;>
      simp [lowerSteps, lowerStep, hl, size_ne_zero hpos, MTy.kind, lowerPrim, paramIr]
  | String | IpAddr | Prefix =>
    simp [lowerSteps, lowerStep, hl, size_ne_zero hpos, MTy.kind, lowerPrim, paramIr, hr, isReferenceKind]
  | Char | Bool | Asn =>
    simp [lowerSteps, lowerStep, hl, size_ne_zero hpos, MTy.kind, lowerPrim, paramIr]

theorem lowerType_enum_pinned (h : HostLayouts) (vs : List (List MTy)) (l : Layout)
    (hl : layoutOf h (.enum vs) = some l) (hpos : 0 < l.size) :
    lowerType Cfg.pinned h (.enum vs) = .ok (some .Pointer) := by
  have hr := isReferenceType_pinned_of_pos h _ _ hl hpos
  rw [lowerType_pinned]
  simp [lowerSteps, lowerStep, hl, size_ne_zero hpos, MTy.kind, hr, isReferenceKind]

/-- **`lower_type` of every boundary type on the pinned tree.** -/
theorem lowerType_boundary_pinned (h : HostLayouts) (hh : h.WF) (t : BTy) (ht : t.WF) :
    lowerType Cfg.pinned h (toMTy t) = .ok (paramIrPinned t) := by
  have hl := layout_agrees' h hh t ht
  obtain ⟨e1, e2, e3⟩ := enum_size_pos h hh t ht
  cases t with
  | prim p =>
    have : paramIrPinned (.prim p) = paramIr (.prim p) := rfl
    rw [this]; exact lowerType_prim_pinned h hh p
  | unit =>
    rw [lowerType_pinned]
    simp [toMTy, lowerSteps, lowerStep, layoutOf, unitLayout, Layout.new, MTy.kind, paramIr, paramIrPinned,
      BTy.isZstVal]
  | val l =>
    rw [lowerType_pinned]
    by_cases hz : l.size = 0
    · simp [toMTy, lowerSteps, lowerStep, layoutOf, hz, paramIrPinned, BTy.isZstVal]
    · have : (l.size == 0) = false := by simp [hz]
      simp [toMTy, lowerSteps, lowerStep, layoutOf, this, hz, MTy.kind, paramIr, paramIrPinned, BTy.isZstVal]
  | list t =>
    rw [lowerType_pinned]
    simp [toMTy, lowerSteps, lowerStep, layoutOf, listLayout, size_ne_zero hh.list_pos,
      MTy.kind, paramIr, paramIrPinned, BTy.isZstVal]
  | option a =>
    have : paramIrPinned (.option a) = some .Pointer := rfl
    rw [this]; exact lowerType_enum_pinned h _ _ hl (e1 a rfl)
  | result a b =>
    have : paramIrPinned (.result a b) = some .Pointer := rfl
    rw [this]; exact lowerType_enum_pinned h _ _ hl (e2 a b rfl)
  | verdict a b =>
    have : paramIrPinned (.verdict a b) = some .Pointer := rfl
    rw [this]; exact lowerType_enum_pinned h _ _ hl (e3 a b rfl)

theorem keepArgs_boundary_pinned (h : HostLayouts) (hh : h.WF) (ps : List BTy) (hps : ∀ p ∈ ps, p.WF) :
    keepArgs Cfg.pinned h .lowerType (ps.map toMTy) = .ok (ps.filterMap paramIrPinned) := by
  induction ps with
  | nil => rfl
  | cons p ps ih =>
    have h1 := lowerType_boundary_pinned h hh p (hps p (List.mem_cons_self ..))
    have h2 := ih fun x hx => hps x (List.mem_cons_of_mem _ hx)
    simp only [List.map_cons, keepArgs, keepArg, h1, h2, List.filterMap_cons]
    cases paramIrPinned p <;> rfl

/-- on the pinned tree a zero-sized registered type is *not* a reference type (returned "in
    registers", i.e. not at all) -/
def retByRefPinned (t : BTy) : Bool := if t.isZstVal then false else retByRef t

theorem isReferenceType_boundary_pinned (h : HostLayouts) (hh : h.WF) (t : BTy) (ht : t.WF) :
    isReferenceType Cfg.pinned h (toMTy t) = some (retByRefPinned t) := by
  have hl := layout_agrees' h hh t ht
  obtain ⟨e1, e2, e3⟩ := enum_size_pos h hh t ht
  cases t with
  | prim p =>
    rw [isReferenceType_pinned_of_pos h _ _ hl (by show 0 < (rustPrimLayout h p).size; rw [← primitiveLayout_eq]; exact primitiveLayout_size_pos h hh p)]
    cases p with
    | Int k s => cases k <;> cases s <;> rfl
    | Float s => cases s <;> rfl
    | _ => rfl
  | unit => simp [toMTy, isReferenceType, layoutOf, unitLayout, Layout.new, zeroSizedApplies, Cfg.pinned,
      MTy.kind, retByRef, retByRefPinned, BTy.isZstVal]
  | val l =>
    by_cases hz : l.size = 0
    · simp [toMTy, isReferenceType, layoutOf, zeroSizedApplies, Cfg.pinned, hz, retByRefPinned, BTy.isZstVal]
    · have : (l.size == 0) = false := by simp [hz]
      simp [toMTy, isReferenceType, layoutOf, zeroSizedApplies, Cfg.pinned, this, hz, MTy.kind, retByRef,
        retByRefPinned, BTy.isZstVal, isReferenceKind]
  | list t =>
    rw [isReferenceType_pinned_of_pos h _ _ hl hh.list_pos]; rfl
  | option a => rw [isReferenceType_pinned_of_pos h _ _ hl (e1 a rfl)]; rfl
  | result a b => rw [isReferenceType_pinned_of_pos h _ _ hl (e2 a b rfl)]; rfl
  | verdict a b => rw [isReferenceType_pinned_of_pos h _ _ hl (e3 a b rfl)]; rfl

theorem returnRule_boundary_pinned (h : HostLayouts) (hh : h.WF) (r : BTy) (hr : r.WF) :
    returnRule Cfg.pinned h (toMTy r) = .ok (retIr r, retByRefPinned r) := by
  have h1 := isReferenceType_boundary_pinned h hh r hr
  have h2 := lowerType_boundary_pinned h hh r hr
  rw [returnRule, h1]
  cases r with
  | prim p =>
    cases p with
    | Int k s => cases k <;> cases s <;> simp [retByRefPinned, retByRef, BTy.isZstVal, lowerPrim, h2, paramIrPinned, paramIr, retIr]
    | Float s => cases s <;> simp [retByRefPinned, retByRef, BTy.isZstVal, lowerPrim, h2, paramIrPinned, paramIr, retIr]
    | _ => simp [retByRefPinned, retByRef, BTy.isZstVal, lowerPrim, h2, paramIrPinned, paramIr, retIr]
  | unit => simp [retByRefPinned, retByRef, BTy.isZstVal, h2, paramIrPinned, paramIr, retIr]
  | val l =>
    by_cases hz : l.size = 0
    · simp [retByRefPinned, BTy.isZstVal, hz, h2, paramIrPinned, retIr]
    · simp [retByRefPinned, retByRef, BTy.isZstVal, hz, retIr]
  | _ => simp [retByRefPinned, retByRef, BTy.isZstVal, retIr]

/-- dropping the zero-sized registered parameters shortens the list iff there is one -/
theorem filterMap_pinned_length (ps : List BTy) :
    (ps.filterMap paramIrPinned).length + (ps.filter BTy.isZstVal).length = (ps.filterMap paramIr).length := by
  induction ps with
  | nil => rfl
  | cons p ps ih =>
    by_cases hz : p.isZstVal = true
    · have hp : paramIr p = some .Pointer := by
        cases p <;> simp [BTy.isZstVal] at hz <;> rfl
      simp [List.filterMap_cons, List.filter_cons, paramIrPinned, hz, hp]; omega
    · have hz' : p.isZstVal = false := by simpa using hz
      simp only [List.filterMap_cons, List.filter_cons, paramIrPinned, hz', Bool.false_eq_true, if_false]
      cases paramIr p <;> simp <;> omega

theorem filterMap_pinned_eq (ps : List BTy) (hno : ∀ p ∈ ps, p.isZstVal = false) :
    ps.filterMap paramIrPinned = ps.filterMap paramIr := by
  induction ps with
  | nil => rfl
  | cons p ps ih =>
    have hp := hno p (List.mem_cons_self ..)
    simp [List.filterMap_cons, paramIrPinned, hp, ih fun x hx => hno x (List.mem_cons_of_mem _ hx)]

/-- number of machine-level parameters of the `extern "C"` type Rust calls through -/
theorem rustSig_params_length (h : HostLayouts) (s : BSig) (r : Bool) (a : AbiSig)
    (hs : rustSig h s r = .ok a) :
    a.params.length = (if r then 1 else 0) + 1 + (s.params.filterMap paramIr).length := by
  simp only [rustSig, asParamAbis_boundary] at hs
  cases r with
  | true =>
    simp only [if_true] at hs
    cases hs
    simp [rustWithReturnPointer, slotTypes]; omega
  | false =>
    simp only [Bool.false_eq_true, if_false] at hs
    cases ht : transformedRetAbi h s.ret with
    | panic => rw [ht] at hs; cases hs
    | ok x =>
      rw [ht] at hs; cases hs
      simp [rustWithoutReturnPointer, slotTypes]; omega


end RotoV.Boundary
