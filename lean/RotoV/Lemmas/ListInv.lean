/-
  ListInv: the store invariant of the list model and its preservation by every
  operation (C15, T2/T3/T4).
-/
import RotoV.Lemmas.ListRaw
namespace RotoV.ListM
open RotoV

theorem getAlloc_some_lt {s : St} {a : Nat} {l : RawList} (h : s.getAlloc a = some l) :
    a < s.allocs.length ∧ s.allocs[a]? = some (some l) := by
  unfold St.getAlloc at h
  split at h
  · rename_i l' heq
    injection h with h; subst h
    refine ⟨?_, heq⟩
    by_cases hlt : a < s.allocs.length
    · exact hlt
    · rw [List.getElem?_eq_none (by omega)] at heq; cases heq
  · cases h

theorem getAlloc_setAlloc (s : St) (a b : Nat) (v : Option RawList) :
    (s.setAlloc a v).getAlloc b = if a = b ∧ a < s.allocs.length then v else s.getAlloc b := by
  unfold St.getAlloc St.setAlloc
  simp only [List.getElem?_set]
  by_cases hab : a = b
  · subst hab
    by_cases hlt : a < s.allocs.length
    · simp only [hlt, and_self, if_true]
      cases v <;> rfl
    · simp only [hlt, and_false, if_false, if_true]
      rw [List.getElem?_eq_none (by omega)]
  · simp [hab]

theorem setAlloc_setAlloc (s : St) (a : Nat) (v w : Option RawList) :
    (s.setAlloc a v).setAlloc a w = s.setAlloc a w := by
  unfold St.setAlloc
  simp [List.set_set]

theorem setAlloc_self {s : St} {a : Nat} {l : RawList} (h : s.getAlloc a = some l) :
    s.setAlloc a (some l) = s := by
  have ⟨hlt, he⟩ := getAlloc_some_lt h
  unfold St.setAlloc
  have : s.allocs.set a (some l) = s.allocs := by
    apply List.ext_getElem?
    intro i
    rw [List.getElem?_set]
    by_cases hi : a = i
    · subst hi
      rw [List.getElem?_eq_getElem hlt] at he
      injection he with he
      simp [hlt, he]
    · simp [hi]
  rw [this]

theorem getAlloc_pushAlloc (s : St) (l : RawList) (b : Nat) :
    (s.pushAlloc l).getAlloc b = if b = s.allocs.length then some l else s.getAlloc b := by
  unfold St.getAlloc St.pushAlloc
  by_cases hb : b = s.allocs.length
  · subst hb; simp
  · simp only [hb, if_false]
    by_cases hlt : b < s.allocs.length
    · rw [List.getElem?_append_left hlt]
    · rw [List.getElem?_eq_none (by simp; omega), List.getElem?_eq_none (by omega)]


def lenOf : Option RawList → Nat
  | some l => l.len
  | none => 0

def pend (p : Option Nat) (a : Nat) : Nat := if p = some a then 1 else 0

/-- The store invariant with one reference possibly *pending* (an `Arc` that a
    step holds but has not yet stored in / already removed from a variable). -/
structure InvP (sz : Nat) (s : St) (p : Option Nat) : Prop where
  raw : ∀ a l, s.getAlloc a = some l →
    RawOk sz l ∧ l.locked = false ∧ l.rc = s.slots.count (some a) + pend p a ∧ 0 < l.rc
  slot : ∀ (h a : Nat), s.slots[h]? = some (some a) → ∃ l, s.getAlloc a = some l
  pnd : ∀ a, p = some a → ∃ l, s.getAlloc a = some l
  live : s.live = (s.allocs.map lenOf).sum

/-- the invariant between operations -/
abbrev Inv (sz : Nat) (s : St) : Prop := InvP sz s none

theorem sum_map_set (xs : List (Option RawList)) (a : Nat) (v : Option RawList) (h : a < xs.length) :
    ((xs.set a v).map lenOf).sum + lenOf xs[a] = (xs.map lenOf).sum + lenOf v := by
  induction xs generalizing a with
  | nil => simp at h
  | cons x xs ih =>
    cases a with
    | zero => simp; omega
    | succ a =>
      have h' : a < xs.length := by simpa using h
      have := ih a h'
      simp only [List.set_cons_succ, List.map_cons, List.sum_cons, List.getElem_cons_succ]
      omega

theorem Inv_init (sz n : Nat) : Inv sz (St.init n) := by
  refine ⟨?_, ?_, ?_, ?_⟩
  · intro a l h; simp [St.init, St.getAlloc] at h
  · intro h a hs
    simp [St.init] at hs
    have := (List.getElem?_replicate (a := (none : Option Nat)) (n := n) (i := h))
    rw [this] at hs
    split at hs <;> cases hs
  · intro a h; cases h
  · simp [St.init]

/-- replacing the contents of a live allocation (same count, unlocked) -/
theorem InvP_update {sz : Nat} {s : St} {p : Option Nat} {a : Nat} {l l' : RawList}
    (inv : InvP sz s p) (hl : s.getAlloc a = some l) (ok : RawOk sz l') (hk : l'.locked = false)
    (hrc : l'.rc = l.rc) {lv : Nat} (hlv : lv + l.len = s.live + l'.len) :
    InvP sz { (s.setAlloc a (some l')) with live := lv } p := by
  have ⟨hlt, he⟩ := getAlloc_some_lt hl
  refine ⟨?_, ?_, ?_, ?_⟩
  · intro b lb hb
    have hb' : (s.setAlloc a (some l')).getAlloc b = some lb := hb
    rw [getAlloc_setAlloc] at hb'
    by_cases hab : a = b
    · subst hab
      simp only [hlt, and_self, if_true] at hb'
      injection hb' with hb'; subst hb'
      have ⟨_, _, h3, h4⟩ := inv.raw a l hl
      exact ⟨ok, hk, by rw [hrc]; exact h3, by rw [hrc]; exact h4⟩
    · simp only [hab, false_and, if_false] at hb'
      exact inv.raw b lb hb'
  · intro h b hs
    have ⟨lb, hlb⟩ := inv.slot h b hs
    by_cases hab : a = b
    · subst hab; exact ⟨l', by show (s.setAlloc a (some l')).getAlloc a = some l'; rw [getAlloc_setAlloc]; simp [hlt]⟩
    · exact ⟨lb, by show (s.setAlloc a (some l')).getAlloc b = some lb; rw [getAlloc_setAlloc]; simp [hab, hlb]⟩
  · intro b hp
    have ⟨lb, hlb⟩ := inv.pnd b hp
    by_cases hab : a = b
    · subst hab; exact ⟨l', by show (s.setAlloc a (some l')).getAlloc a = some l'; rw [getAlloc_setAlloc]; simp [hlt]⟩
    · exact ⟨lb, by show (s.setAlloc a (some l')).getAlloc b = some lb; rw [getAlloc_setAlloc]; simp [hab, hlb]⟩
  · show lv = ((s.allocs.set a (some l')).map lenOf).sum
    have h1 := sum_map_set s.allocs a (some l') hlt
    have h2 : lenOf s.allocs[a] = l.len := by
      rw [List.getElem?_eq_getElem hlt] at he
      injection he with he; rw [he]; rfl
    have h3 := inv.live
    rw [h2] at h1
    have h4 : lenOf (some l') = l'.len := rfl
    rw [h4] at h1
    omega


theorem count_pos_of_getElem? {xs : List (Option Nat)} {d : Nat} {c : Option Nat}
    (h : xs[d]? = some c) : 0 < xs.count c := by
  apply List.count_pos_iff.mpr
  exact List.mem_of_getElem? h

/-- storing the pending reference `p` into variable `d`: what the variable held
    before becomes the pending reference -/
theorem InvP_swapSlot {sz : Nat} {s : St} {p c : Option Nat} {d : Nat}
    (inv : InvP sz s p) (hd : s.slots[d]? = some c) :
    InvP sz { s with slots := s.slots.set d p } c := by
  have hlt : d < s.slots.length := by
    by_cases h : d < s.slots.length
    · exact h
    · rw [List.getElem?_eq_none (by omega)] at hd; cases hd
  have hdc : s.slots[d] = c := by
    rw [List.getElem?_eq_getElem hlt] at hd; injection hd
  refine ⟨?_, ?_, ?_, inv.live⟩
  · intro b lb hb
    have ⟨h1, h2, h3, h4⟩ := inv.raw b lb hb
    refine ⟨h1, h2, ?_, h4⟩
    show lb.rc = (s.slots.set d p).count (some b) + pend c b
    rw [List.count_set hlt, hdc, h3]
    unfold pend
    by_cases hc : c = some b
    · have hpos := count_pos_of_getElem? hd
      rw [hc] at hpos
      by_cases hp : p = some b <;> simp [hc, hp] <;> omega
    · by_cases hp : p = some b <;> simp [hc, hp]
  · intro h b hs
    have hs' : (s.slots.set d p)[h]? = some (some b) := hs
    rw [List.getElem?_set] at hs'
    by_cases hdh : d = h
    · simp only [hdh, if_true] at hs'
      split at hs'
      · injection hs' with hs'; exact inv.pnd b hs'
      · cases hs'
    · simp only [hdh, if_false] at hs'
      exact inv.slot h b hs'
  · intro b hc
    subst hc
    exact inv.slot d b hd

theorem getAlloc_setAlloc_live {s : St} {a : Nat} {l : RawList} (hl : s.getAlloc a = some l)
    (v : Option RawList) (b : Nat) :
    (s.setAlloc a v).getAlloc b = if a = b then v else s.getAlloc b := by
  have hlt := (getAlloc_some_lt hl).1
  rw [getAlloc_setAlloc]
  by_cases hab : a = b
  · subst hab; simp [hlt]
  · simp [hab]

@[simp] theorem pend_none (b : Nat) : pend none b = 0 := by simp [pend]
@[simp] theorem pend_self (b : Nat) : pend (some b) b = 1 := by simp [pend]
theorem pend_ne {a b : Nat} (h : a ≠ b) : pend (some a) b = 0 := by simp [pend, h]

theorem lenOf_getElem {s : St} {a : Nat} {l : RawList} (hl : s.getAlloc a = some l) :
    lenOf (s.allocs[a]'(getAlloc_some_lt hl).1) = l.len := by
  have ⟨hlt, he⟩ := getAlloc_some_lt hl
  rw [List.getElem?_eq_getElem hlt] at he
  injection he with he; rw [he]; rfl

/-- `Arc::clone`: one more strong reference, pending -/
theorem InvP_incRc {sz : Nat} {s : St} {a : Nat} {l : RawList}
    (inv : Inv sz s) (hl : s.getAlloc a = some l) :
    InvP sz (s.setAlloc a (some { l with rc := l.rc + 1 })) (some a) := by
  have ⟨hlt, he⟩ := getAlloc_some_lt hl
  have hget := getAlloc_setAlloc_live hl (some { l with rc := l.rc + 1 })
  refine ⟨?_, ?_, ?_, ?_⟩
  · intro b lb hb
    rw [hget] at hb
    by_cases hab : a = b
    · subst hab
      rw [if_pos rfl] at hb
      injection hb with hb; subst hb
      have ⟨h1, h2, h3, h4⟩ := inv.raw a l hl
      refine ⟨⟨h1.wf, h1.le, h1.bound, h1.zst, h1.shape⟩, h2, ?_, Nat.succ_pos _⟩
      show l.rc + 1 = s.slots.count (some a) + pend (some a) a
      rw [pend_self]; rw [pend_none] at h3; omega
    · rw [if_neg hab] at hb
      have ⟨h1, h2, h3, h4⟩ := inv.raw b lb hb
      refine ⟨h1, h2, ?_, h4⟩
      show lb.rc = s.slots.count (some b) + pend (some a) b
      rw [pend_ne hab]; rw [pend_none] at h3; exact h3
  · intro h b hs
    have ⟨lb, hlb⟩ := inv.slot h b hs
    by_cases hab : a = b
    · subst hab; exact ⟨{ l with rc := l.rc + 1 }, by rw [hget, if_pos rfl]⟩
    · exact ⟨lb, by rw [hget, if_neg hab]; exact hlb⟩
  · intro b hb
    injection hb with hb; subst hb
    exact ⟨{ l with rc := l.rc + 1 }, by rw [hget, if_pos rfl]⟩
  · show s.live = ((s.allocs.set a (some { l with rc := l.rc + 1 })).map lenOf).sum
    have h1 := sum_map_set s.allocs a (some { l with rc := l.rc + 1 }) hlt
    have h4 : lenOf (some { l with rc := l.rc + 1 }) = l.len := rfl
    rw [lenOf_getElem hl, h4] at h1
    have := inv.live
    omega

/-- a fresh allocation with one (pending) reference -/
theorem InvP_pushAlloc {sz : Nat} {s : St} {l : RawList}
    (inv : Inv sz s) (ok : RawOk sz l) (hk : l.locked = false) (hrc : l.rc = 1) :
    InvP sz { (s.pushAlloc l) with live := s.live + l.len } (some s.allocs.length) := by
  have hcount : s.slots.count (some s.allocs.length) = 0 := by
    apply List.count_eq_zero.mpr
    intro hm
    have ⟨h, hh⟩ := List.getElem?_of_mem hm
    have ⟨lb, hlb⟩ := inv.slot h _ hh
    have := (getAlloc_some_lt hlb).1
    omega
  refine ⟨?_, ?_, ?_, ?_⟩
  · intro b lb hb
    have hb' : (s.pushAlloc l).getAlloc b = some lb := hb
    rw [getAlloc_pushAlloc] at hb'
    by_cases hbn : b = s.allocs.length
    · rw [if_pos hbn] at hb'
      injection hb' with hb'; subst hb'
      refine ⟨ok, hk, ?_, by omega⟩
      show l.rc = s.slots.count (some b) + pend (some s.allocs.length) b
      rw [hbn, hcount, hrc, pend_self]
    · rw [if_neg hbn] at hb'
      have ⟨h1, h2, h3, h4⟩ := inv.raw b lb hb'
      refine ⟨h1, h2, ?_, h4⟩
      show lb.rc = s.slots.count (some b) + pend (some s.allocs.length) b
      rw [pend_ne (Ne.symm hbn)]; rw [pend_none] at h3; exact h3
  · intro h b hs
    have ⟨lb, hlb⟩ := inv.slot h b hs
    have hne : b ≠ s.allocs.length := by have := (getAlloc_some_lt hlb).1; omega
    exact ⟨lb, by show (s.pushAlloc l).getAlloc b = some lb; rw [getAlloc_pushAlloc, if_neg hne]; exact hlb⟩
  · intro b hb
    injection hb with hb; subst hb
    exact ⟨l, by show (s.pushAlloc l).getAlloc _ = some l; rw [getAlloc_pushAlloc, if_pos rfl]⟩
  · show s.live + l.len = ((s.allocs ++ [some l]).map lenOf).sum
    have := inv.live
    simp [List.sum_append, lenOf]
    omega

/-- dropping the pending reference: the count goes down, the last one frees
    the list and drops its elements -/
theorem dropHandle_ok {sz : Nat} {s : St} {o : Nat}
    (inv : InvP sz s (some o)) :
    ∃ s', dropHandle s o = .ok s' ∧ Inv sz s' ∧ s'.slots = s.slots ∧
      s'.allocs.length = s.allocs.length ∧
      (∀ b, b ≠ o → s'.getAlloc b = s.getAlloc b) ∧
      (∀ l', s'.getAlloc o = some l' → ∃ l, s.getAlloc o = some l ∧ l'.elems = l.elems ∧ l'.len = l.len ∧ l'.cap = l.cap) := by
  have ⟨l, hl⟩ := inv.pnd o rfl
  have ⟨hlt, he⟩ := getAlloc_some_lt hl
  have ⟨r1, r2, r3, r4⟩ := inv.raw o l hl
  rw [pend_self] at r3
  unfold dropHandle
  rw [hl]
  simp only [drop_amount_eq]
  by_cases hrc : l.rc ≤ 1
  · rw [if_pos hrc]
    have hcount : s.slots.count (some o) = 0 := by omega
    have hget := getAlloc_setAlloc_live hl none
    refine ⟨_, rfl, ?_, rfl, by simp [St.setAlloc], ?_, ?_⟩
    · refine ⟨?_, ?_, ?_, ?_⟩
      · intro b lb hb
        have hb' : (s.setAlloc o none).getAlloc b = some lb := hb
        rw [hget] at hb'
        by_cases hob : o = b
        · rw [if_pos hob] at hb'; cases hb'
        · rw [if_neg hob] at hb'
          have ⟨h1, h2, h3, h4⟩ := inv.raw b lb hb'
          refine ⟨h1, h2, ?_, h4⟩
          show lb.rc = s.slots.count (some b) + pend none b
          rw [pend_ne hob] at h3; rw [pend_none]; exact h3
      · intro h b hs
        have hs' : s.slots[h]? = some (some b) := hs
        have ⟨lb, hlb⟩ := inv.slot h b hs'
        have hob : o ≠ b := by
          intro hob; subst hob
          have := count_pos_of_getElem? hs'
          omega
        exact ⟨lb, by show (s.setAlloc o none).getAlloc b = some lb; rw [hget, if_neg hob]; exact hlb⟩
      · intro b hb; cases hb
      · show s.live - l.len = ((s.allocs.set o none).map lenOf).sum
        have h1 := sum_map_set s.allocs o none hlt
        have h5 : lenOf none = 0 := rfl
        rw [lenOf_getElem hl, h5] at h1
        have := inv.live
        omega
    · intro b hb
      show (s.setAlloc o none).getAlloc b = s.getAlloc b
      rw [hget, if_neg (Ne.symm hb)]
    · intro l' hl'
      have hl'' : (s.setAlloc o none).getAlloc o = some l' := hl'
      rw [hget, if_pos rfl] at hl''
      cases hl''
  · rw [if_neg hrc]
    have hget := getAlloc_setAlloc_live hl (some { l with rc := l.rc - 1 })
    refine ⟨_, rfl, ?_, rfl, by simp [St.setAlloc], ?_, ?_⟩
    · refine ⟨?_, ?_, ?_, ?_⟩
      · intro b lb hb
        rw [hget] at hb
        by_cases hob : o = b
        · subst hob
          rw [if_pos rfl] at hb
          injection hb with hb; subst hb
          refine ⟨⟨r1.wf, r1.le, r1.bound, r1.zst, r1.shape⟩, r2, ?_, by show 0 < l.rc - 1; omega⟩
          show l.rc - 1 = s.slots.count (some o) + pend none o
          rw [pend_none]; omega
        · rw [if_neg hob] at hb
          have ⟨h1, h2, h3, h4⟩ := inv.raw b lb hb
          refine ⟨h1, h2, ?_, h4⟩
          show lb.rc = s.slots.count (some b) + pend none b
          rw [pend_ne hob] at h3; rw [pend_none]; exact h3
      · intro h b hs
        have ⟨lb, hlb⟩ := inv.slot h b hs
        by_cases hab : o = b
        · subst hab; exact ⟨{ l with rc := l.rc - 1 }, by rw [hget, if_pos rfl]⟩
        · exact ⟨lb, by rw [hget, if_neg hab]; exact hlb⟩
      · intro b hb; cases hb
      · show s.live = ((s.allocs.set o (some { l with rc := l.rc - 1 })).map lenOf).sum
        have h1 := sum_map_set s.allocs o (some { l with rc := l.rc - 1 }) hlt
        have h4 : lenOf (some { l with rc := l.rc - 1 }) = l.len := rfl
        rw [lenOf_getElem hl, h4] at h1
        have := inv.live
        omega
    · intro b hb
      show (s.setAlloc o _).getAlloc b = s.getAlloc b
      rw [hget, if_neg (Ne.symm hb)]
    · intro l' hl'
      have hl'' : (s.setAlloc o (some { l with rc := l.rc - 1 })).getAlloc o = some l' := hl'
      rw [hget, if_pos rfl] at hl''
      injection hl'' with hl''
      subst hl''
      exact ⟨l, rfl, rfl, rfl, rfl⟩

theorem le_sum_of_mem : ∀ (l : List Nat) (x : Nat), x ∈ l → x ≤ l.sum
  | [], _, h => by cases h
  | y :: ys, x, h => by
    simp only [List.mem_cons] at h
    simp only [List.sum_cons]
    rcases h with h | h
    · omega
    · have := le_sum_of_mem ys x h; omega

/-- no list is longer than the number of live tokens -/
theorem len_le_live {sz : Nat} {s : St} {p : Option Nat} {a : Nat} {l : RawList}
    (inv : InvP sz s p) (hl : s.getAlloc a = some l) : l.len ≤ s.live := by
  rw [inv.live]
  have ⟨hlt, he⟩ := getAlloc_some_lt hl
  apply le_sum_of_mem
  apply List.mem_map.mpr
  exact ⟨some l, List.mem_of_getElem? he, rfl⟩

theorem sum_eq_zero_of_all : ∀ (l : List Nat), (∀ x ∈ l, x = 0) → l.sum = 0
  | [], _ => rfl
  | x :: xs, h => by
    have h1 : x = 0 := h x (by simp)
    have h2 := sum_eq_zero_of_all xs (fun y hy => h y (by simp [hy]))
    simp [h1, h2]

end RotoV.ListM
