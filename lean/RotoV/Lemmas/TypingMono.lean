/-
  C07: the declarative checker `D` never rejects a script that has a
  well-typed, fully annotated completion (core fragment: literals, variables,
  unary and binary operators, if/else, blocks with `let` and expression
  statements).

  `fillsE e e'` : `e'` is `e` with every omitted literal suffix and `let`
  annotation filled in (nothing else changed). On such an `e'`, under a ground
  context, `D` is an ordinary type checker: no flexible type arises.
-/
import RotoV.Lemmas.Typing

namespace RotoV.Typing

mutual
def fillsE : Expr → Expr → Bool
  | .intLit none, .intLit (some _) => true
  | .intLit (some t), .intLit (some u) => t == u
  | .floatLit none, .floatLit (some _) => true
  | .floatLit (some a), .floatLit (some b) => a == b
  | .boolLit, .boolLit => true
  | .strLit, .strLit => true
  | .unitLit, .unitLit => true
  | .var x, .var y => x == y
  | .neg e, .neg e' => fillsE e e'
  | .not e, .not e' => fillsE e e'
  | .bin op l r, .bin op' l' r' => op == op' && fillsE l l' && fillsE r r'
  | .ite c t (some e), .ite c' t' (some e') => fillsE c c' && fillsB t t' && fillsB e e'
  | .ite c t none, .ite c' t' none => fillsE c c' && fillsB t t'
  | .while c b, .while c' b' => fillsE c c' && fillsB b b'
  | .block b, .block b' => fillsB b b'
  | .const c, .const c' => c == c'
  | .field e f, .field e' f' => f == f' && fillsE e e'
  | .call f args, .call f' args' => f == f' && fillsL args args'
  | .assign false x path e, .assign false x' path' e' => x == x' && path == path' && fillsE e e'
  | .cassign op false x path e, .cassign op' false x' path' e' =>
    op == op' && x == x' && path == path' && fillsE e e'
  | _, _ => false
def fillsL : List Expr → List Expr → Bool
  | [], [] => true
  | e :: r, e' :: r' => fillsE e e' && fillsL r r'
  | _, _ => false
def fillsS : List Stmt → List Stmt → Bool
  | [], [] => true
  | .let_ x ann e :: r, .let_ x' (some t) e' :: r' =>
    x == x' && (ann == none || ann == some t) && fillsE e e' && fillsS r r'
  | .expr e :: r, .expr e' :: r' => fillsE e e' && fillsS r r'
  | _, _ => false
def fillsB : Block → Block → Bool
  | .mk ss (some e), .mk ss' (some e') => fillsS ss ss' && fillsE e e'
  | .mk ss none, .mk ss' none => fillsS ss ss'
  | _, _ => false
end

/-- what the three statements below say about one judgement -/
def MonoE (env : Env) (ctx : Ctx) (e e' : Expr) : Prop :=
  ∀ (g g' : Gamma) (tg : Ty) (d' : Bool), fillsE e e' = true → gammaInst g g' = true →
    synth env ctx g' e' = .ok (tg, d') →
    d' = false ∧ ∃ tf, synth env ctx g e = .ok (tf, false) ∧ inst tf tg = true ∧ ground tg = true

def MonoL (env : Env) (ctx : Ctx) (args args' : List Expr) : Prop :=
  ∀ (g g' : Gamma) (tys : List Ty) (d' : Bool), fillsL args args' = true → gammaInst g g' = true →
    tys.all ground = true → checkArgs env ctx g' args' tys = .ok d' →
    d' = false ∧ checkArgs env ctx g args tys = .ok false

def MonoS (env : Env) (ctx : Ctx) (ss ss' : List Stmt) : Prop :=
  ∀ (g g' g1' : Gamma) (d' : Bool), fillsS ss ss' = true → gammaInst g g' = true →
    synthStmts env ctx g' ss' = .ok (g1', d') →
    d' = false ∧ ∃ g1, synthStmts env ctx g ss = .ok (g1, false) ∧ gammaInst g1 g1' = true

def MonoB (env : Env) (ctx : Ctx) (b b' : Block) : Prop :=
  ∀ (g g' : Gamma) (tg : Ty) (d' : Bool), fillsB b b' = true → gammaInst g g' = true →
    synthBlock env ctx g' b' = .ok (tg, d') →
    d' = false ∧ ∃ tf, synthBlock env ctx g b = .ok (tf, false) ∧ inst tf tg = true ∧ ground tg = true

theorem expect_ok {what : String} {a b : Ty} (h : compat a b = true) : expect what a b = .ok () := by
  simp [expect, h, pure, Except.pure]

theorem expect_inv {what : String} {a b : Ty} {u : Unit} (h : expect what a b = .ok u) : compat a b = true := by
  unfold expect at h
  by_cases hc : compat a b = true
  · exact hc
  · simp [hc, fail] at h

/-- every type mentioned by the items of the environment is ground (they are
    all written in the script) -/
def envGround (env : Env) : Bool :=
  env.consts.all (fun c => ground c.2) &&
  env.fns.all (fun f => f.2.params.all ground && ground f.2.ret) &&
  env.types.all (fun t => match t.2 with
    | .record fs => fs.all (fun f => ground f.2)
    | .enum vs => vs.all (fun v => v.2.all ground))

theorem lookup_all {α : Type} {l : List (Nat × α)} {p : Nat × α → Bool} (h : l.all p = true)
    {k : Nat} {v : α} (hl : l.lookup k = some v) : ∃ k', p (k', v) = true := by
  induction l with
  | nil => simp [List.lookup] at hl
  | cons e rest ih =>
    obtain ⟨k0, v0⟩ := e
    simp only [List.all_cons, Bool.and_eq_true] at h
    simp only [List.lookup] at hl
    by_cases hk : (k == k0) = true
    · simp only [hk] at hl
      injection hl with hl; subst hl
      exact ⟨k0, h.1⟩
    · simp only [hk] at hl
      exact ih h.2 hl

theorem inst_unit_compat (f : Ty) (h : inst f .unit = true) : compat f .unit = true := by
  cases f <;> simp_all [inst, compat]

/-- field access is monotone -/
theorem fieldTy_mono (env : Env) (henv : envGround env = true) (tf t : Ty) (f : Nat) (tp : Ty)
    (hi : inst tf t = true) (hgt : ground t = true) (h : fieldTy env t f = some tp) :
    ground tp = true ∧ ∃ tpf, fieldTy env tf f = some tpf ∧ inst tpf tp = true := by
  cases t with
  | named n =>
    simp only [fieldTy] at h
    cases hr : recordFields env n with
    | none => simp [hr] at h
    | some fs =>
      simp only [hr] at h
      -- the field's type is ground
      have hgr : ground tp = true := by
        unfold recordFields at hr
        cases hl : env.types.lookup n with
        | none => simp [hl] at hr
        | some d =>
          cases d with
          | record fs' =>
            simp only [hl, Option.some.injEq] at hr
            subst hr
            simp only [envGround, Bool.and_eq_true] at henv
            obtain ⟨_, hp⟩ := lookup_all henv.2 hl
            simp only at hp
            obtain ⟨_, hq⟩ := lookup_all hp h
            exact hq
          | enum vs => simp [hl] at hr
      refine ⟨hgr, ?_⟩
      cases tf <;> simp_all [inst, fieldTy]
      · exact inst_self tp hgr
  | unknown => simp [ground] at hgt
  | never => simp [ground] at hgt
  | _ => simp [fieldTy] at h

theorem pathTy_mono (env : Env) (henv : envGround env = true) : ∀ (path : List Nat) (tf t tp : Ty),
    inst tf t = true → ground t = true → pathTy env t path = some tp →
    ground tp = true ∧ ∃ tpf, pathTy env tf path = some tpf ∧ inst tpf tp = true := by
  intro path
  induction path with
  | nil =>
    intro tf t tp hi hg h
    simp only [pathTy, Option.some.injEq] at h
    subst h
    exact ⟨hg, tf, rfl, hi⟩
  | cons f rest ih =>
    intro tf t tp hi hg h
    simp only [pathTy] at h ⊢
    cases hf : fieldTy env t f with
    | none => simp [hf] at h
    | some t1 =>
      simp only [hf] at h
      obtain ⟨hg1, tf1, h1, h2⟩ := fieldTy_mono env henv tf t f t1 hi hg hf
      simp only [h1]
      exact ih tf1 t1 tp h2 hg1 h

/-- a type written in a script is ground -/
theorem wfTy_ground (env : Env) : ∀ t, wfTy env t = true → ground t = true := by
  intro t
  induction t with
  | opt a ih => intro h; simp only [wfTy] at h; simp only [ground]; exact ih h
  | list a ih => intro h; simp only [wfTy] at h; simp only [ground]; exact ih h
  | verdict a b iha ihb =>
    intro h; simp only [wfTy, Bool.and_eq_true] at h
    simp only [ground, Bool.and_eq_true]; exact ⟨iha h.1, ihb h.2⟩
  | _ => intro h; simp_all [wfTy, ground]

theorem fillsL_length : ∀ (xs ys : List Expr), fillsL xs ys = true → xs.length = ys.length := by
  intro xs
  induction xs with
  | nil => intro ys h; cases ys <;> simp_all [fillsL]
  | cons x r ih =>
    intro ys h
    cases ys with
    | nil => simp [fillsL] at h
    | cons y r' =>
      simp only [fillsL, Bool.and_eq_true] at h
      simp [ih r' h.2]

set_option maxHeartbeats 2000000 in
mutual
theorem monoE (env : Env) (henv : envGround env = true) (ctx : Ctx) (e e' : Expr) : MonoE env ctx e e' := by
  intro g g' tg d' hf hg hs
  cases e with
  | intLit suf =>
    cases e' with
    | intLit suf' =>
      cases suf <;> cases suf' <;> simp [fillsE] at hf
      · simp only [synth, pure, Except.pure, Except.ok.injEq, Prod.mk.injEq] at hs
        obtain ⟨h1, h2⟩ := hs; subst h1; subst h2
        exact ⟨rfl, .anyInt false, by simp [synth, pure, Except.pure], by simp [inst], by simp [ground]⟩
      · subst hf
        simp only [synth, pure, Except.pure, Except.ok.injEq, Prod.mk.injEq] at hs
        obtain ⟨h1, h2⟩ := hs; subst h1; subst h2
        rename_i t
        exact ⟨rfl, .int t, by simp [synth, pure, Except.pure], by simp [inst], by simp [ground]⟩
    | _ => simp [fillsE] at hf
  | floatLit suf =>
    cases e' with
    | floatLit suf' =>
      cases suf <;> cases suf' <;> simp [fillsE] at hf
      · rename_i b
        cases b <;>
        · simp only [synth, pure, Except.pure, Except.ok.injEq, Prod.mk.injEq] at hs
          obtain ⟨h1, h2⟩ := hs; subst h1; subst h2
          exact ⟨rfl, .anyFloat, by simp [synth, pure, Except.pure], by simp [inst], by simp [ground]⟩
      · subst hf
        rename_i b
        cases b
        · simp only [synth, pure, Except.pure, Except.ok.injEq, Prod.mk.injEq] at hs
          obtain ⟨h1, h2⟩ := hs; subst h1; subst h2
          exact ⟨rfl, .f32, by simp [synth, pure, Except.pure], by simp [inst], by simp [ground]⟩
        · simp only [synth, pure, Except.pure, Except.ok.injEq, Prod.mk.injEq] at hs
          obtain ⟨h1, h2⟩ := hs; subst h1; subst h2
          exact ⟨rfl, .f64, by simp [synth, pure, Except.pure], by simp [inst], by simp [ground]⟩
    | _ => simp [fillsE] at hf
  | boolLit =>
    cases e' with
    | boolLit =>
      simp only [synth, pure, Except.pure, Except.ok.injEq, Prod.mk.injEq] at hs
      obtain ⟨h1, h2⟩ := hs; subst h1; subst h2
      exact ⟨rfl, .bool, by simp [synth, pure, Except.pure], by simp [inst], by simp [ground]⟩
    | _ => simp [fillsE] at hf
  | strLit =>
    cases e' with
    | strLit =>
      simp only [synth, pure, Except.pure, Except.ok.injEq, Prod.mk.injEq] at hs
      obtain ⟨h1, h2⟩ := hs; subst h1; subst h2
      exact ⟨rfl, .string, by simp [synth, pure, Except.pure], by simp [inst], by simp [ground]⟩
    | _ => simp [fillsE] at hf
  | unitLit =>
    cases e' with
    | unitLit =>
      simp only [synth, pure, Except.pure, Except.ok.injEq, Prod.mk.injEq] at hs
      obtain ⟨h1, h2⟩ := hs; subst h1; subst h2
      exact ⟨rfl, .unit, by simp [synth, pure, Except.pure], by simp [inst], by simp [ground]⟩
    | _ => simp [fillsE] at hf
  | var x =>
    cases e' with
    | var y =>
      simp only [fillsE, beq_iff_eq] at hf
      subst hf
      simp only [synth] at hs
      cases hl : lookupVar g' x with
      | none => simp [hl, fail] at hs
      | some t =>
        simp only [hl, pure, Except.pure, Except.ok.injEq, Prod.mk.injEq] at hs
        obtain ⟨h1, h2⟩ := hs; subst h1; subst h2
        obtain ⟨tf, h3, h4, h5⟩ := gamma_lookup hg x t hl
        exact ⟨rfl, tf, by simp [synth, h3, pure, Except.pure], h4, h5⟩
    | _ => simp [fillsE] at hf
  | neg a =>
    cases e' with
    | neg a' =>
      simp only [fillsE] at hf
      simp only [synth, bind, Except.bind] at hs
      cases hsa : synth env ctx g' a' with
      | error err => simp [hsa] at hs
      | ok p =>
        obtain ⟨ta, da⟩ := p
        simp only [hsa] at hs
        obtain ⟨hd, tf, h1, h2, h3⟩ := monoE env henv ctx a a' g g' ta da hf hg hsa
        subst hd
        cases hn : negTy ta with
        | none => simp [hn, fail] at hs
        | some r' =>
          simp only [hn, pure, Except.pure, Except.ok.injEq, Prod.mk.injEq] at hs
          obtain ⟨e1, e2⟩ := hs; subst e1; subst e2
          obtain ⟨r, hr1, hr2, hr3⟩ := neg_mono tf ta r' h2 h3 hn
          exact ⟨rfl, r, by simp [synth, bind, Except.bind, h1, hr1, pure, Except.pure], hr2, hr3⟩
    | _ => simp [fillsE] at hf
  | not a =>
    cases e' with
    | not a' =>
      simp only [fillsE] at hf
      simp only [synth, bind, Except.bind] at hs
      cases hsa : synth env ctx g' a' with
      | error err => simp [hsa] at hs
      | ok p =>
        obtain ⟨ta, da⟩ := p
        simp only [hsa] at hs
        obtain ⟨hd, tf, h1, h2, h3⟩ := monoE env henv ctx a a' g g' ta da hf hg hsa
        subst hd
        cases he : expect "not-operand" ta .bool with
        | error err => simp [he] at hs
        | ok u =>
          simp only [he, pure, Except.pure, Except.ok.injEq, Prod.mk.injEq] at hs
          obtain ⟨e1, e2⟩ := hs; subst e1; subst e2
          have hb := compat_ground_eq ta .bool h3 rfl (expect_inv he)
          subst hb
          exact ⟨rfl, .bool, by simp [synth, bind, Except.bind, h1, expect_ok (inst_bool tf h2), pure, Except.pure],
            by simp [inst], by simp [ground]⟩
    | _ => simp [fillsE] at hf
  | bin op l r =>
    cases e' with
    | bin op' l' r' =>
      simp only [fillsE, Bool.and_eq_true, beq_iff_eq] at hf
      obtain ⟨⟨hop, hfl⟩, hfr⟩ := hf
      subst hop
      simp only [synth, bind, Except.bind] at hs
      cases hsl : synth env ctx g' l' with
      | error err => simp [hsl] at hs
      | ok p =>
        obtain ⟨tl, dl⟩ := p
        simp only [hsl] at hs
        cases hsr : synth env ctx g' r' with
        | error err => simp [hsr] at hs
        | ok q =>
          obtain ⟨tr, dr⟩ := q
          simp only [hsr] at hs
          obtain ⟨hdl, fl, l1, l2, l3⟩ := monoE env henv ctx l l' g g' tl dl hfl hg hsl
          obtain ⟨hdr, fr, r1, r2, r3⟩ := monoE env henv ctx r r' g g' tr dr hfr hg hsr
          subst hdl; subst hdr
          cases hb : binopTy op tl tr with
          | none => simp [hb, fail] at hs
          | some t' =>
            simp only [hb, pure, Except.pure, Except.ok.injEq, Prod.mk.injEq] at hs
            obtain ⟨e1, e2⟩ := hs; subst e1; subst e2
            obtain ⟨t, ht1, ht2, ht3⟩ := binop_mono op fl fr tl tr t' l2 r2 l3 r3 hb
            exact ⟨by cases op <;> rfl, t, by cases op <;> simp [synth, bind, Except.bind, l1, r1, ht1, pure, Except.pure, binDiv], ht2, ht3⟩
    | _ => simp [fillsE] at hf
  | ite c t el =>
    cases e' with
    | ite c' t' el' =>
      cases el with
      | none =>
        cases el' with
        | some eb' => simp [fillsE] at hf
        | none =>
          simp only [fillsE, Bool.and_eq_true] at hf
          obtain ⟨hfc, hft⟩ := hf
          simp only [synth, bind, Except.bind] at hs
          cases hsc : synth env ctx g' c' with
          | error err => simp [hsc] at hs
          | ok p =>
            obtain ⟨tc, dc⟩ := p
            simp only [hsc] at hs
            obtain ⟨hdc, fc, c1, c2, c3⟩ := monoE env henv ctx c c' g g' tc dc hfc hg hsc
            subst hdc
            cases hec : expect "condition" tc .bool with
            | error err => simp [hec] at hs
            | ok u =>
              simp only [hec] at hs
              have hb := compat_ground_eq tc .bool c3 rfl (expect_inv hec)
              subst hb
              cases hst : synthBlock env ctx ([] :: g') t' with
              | error err => simp [hst] at hs
              | ok q =>
                obtain ⟨tt, dt⟩ := q
                simp only [hst] at hs
                obtain ⟨_, ft, t1, t2, t3⟩ := monoB env henv ctx t t' ([] :: g) ([] :: g') tt dt hft (gamma_push hg) hst
                cases heb : expect "if-without-else-value" tt .unit with
                | error err => simp [heb] at hs
                | ok u2 =>
                  simp only [heb, pure, Except.pure, Except.ok.injEq, Prod.mk.injEq] at hs
                  obtain ⟨x1, x2⟩ := hs; subst x1; subst x2
                  have hu := compat_ground_eq tt .unit t3 rfl (expect_inv heb)
                  subst hu
                  refine ⟨rfl, .unit, ?_, by simp [inst], by simp [ground]⟩
                  simp [synth, bind, Except.bind, c1, expect_ok (inst_bool fc c2), t1,
                    expect_ok (inst_unit_compat ft t2), pure, Except.pure]
      | some eb =>
        cases el' with
        | none => simp [fillsE] at hf
        | some eb' =>
          simp only [fillsE, Bool.and_eq_true] at hf
          obtain ⟨⟨hfc, hft⟩, hfe⟩ := hf
          simp only [synth, bind, Except.bind] at hs
          cases hsc : synth env ctx g' c' with
          | error err => simp [hsc] at hs
          | ok p =>
            obtain ⟨tc, dc⟩ := p
            simp only [hsc] at hs
            obtain ⟨hdc, fc, c1, c2, c3⟩ := monoE env henv ctx c c' g g' tc dc hfc hg hsc
            subst hdc
            cases hec : expect "condition" tc .bool with
            | error err => simp [hec] at hs
            | ok u =>
              simp only [hec] at hs
              have hb := compat_ground_eq tc .bool c3 rfl (expect_inv hec)
              subst hb
              cases hst : synthBlock env ctx ([] :: g') t' with
              | error err => simp [hst] at hs
              | ok q =>
                obtain ⟨tt, dt⟩ := q
                simp only [hst] at hs
                cases hse : synthBlock env ctx ([] :: g') eb' with
                | error err => simp [hse] at hs
                | ok q2 =>
                  obtain ⟨te, de⟩ := q2
                  simp only [hse] at hs
                  obtain ⟨hdt, ft, t1, t2, t3⟩ := monoB env henv ctx t t' ([] :: g) ([] :: g') tt dt hft (gamma_push hg) hst
                  obtain ⟨hde, fe, e1, e2, e3⟩ := monoB env henv ctx eb eb' ([] :: g) ([] :: g') te de hfe (gamma_push hg) hse
                  subst hdt; subst hde
                  by_cases hc : compat tt te = true
                  · simp only [hc, ↓reduceIte, pure, Except.pure, Except.ok.injEq, Prod.mk.injEq] at hs
                    obtain ⟨x1, x2⟩ := hs; subst x1; subst x2
                    have := compat_ground_eq tt te t3 e3 hc
                    subst this
                    obtain ⟨k1, k2⟩ := inst_compat_meet tt ft fe t2 e2
                    rw [meet_self tt t3]
                    refine ⟨by simp, meet ft fe, ?_, k2, t3⟩
                    simp [synth, bind, Except.bind, c1, expect_ok (inst_bool fc c2), t1, e1, k1, pure, Except.pure]
                  · simp [hc, fail] at hs
    | _ => simp [fillsE] at hf
  | block b =>
    cases e' with
    | block b' =>
      simp only [fillsE] at hf
      simp only [synth] at hs
      obtain ⟨hd, tf, h1, h2, h3⟩ := monoB env henv ctx b b' ([] :: g) ([] :: g') tg d' hf (gamma_push hg) hs
      exact ⟨hd, tf, by simp [synth, h1], h2, h3⟩
    | _ => simp [fillsE] at hf
  | const c =>
    cases e' with
    | const c' =>
      simp only [fillsE, beq_iff_eq] at hf
      subst hf
      simp only [synth] at hs ⊢
      cases hl : env.consts.lookup c with
      | none => simp [hl, fail] at hs
      | some t =>
        simp only [hl, pure, Except.pure, Except.ok.injEq, Prod.mk.injEq] at hs ⊢
        obtain ⟨h1, h2⟩ := hs; subst h1; subst h2
        simp only [envGround, Bool.and_eq_true] at henv
        obtain ⟨_, hgr⟩ := lookup_all henv.1.1 hl
        exact ⟨rfl, t, by simp, inst_self t hgr, hgr⟩
    | _ => simp [fillsE] at hf
  | field a f =>
    cases e' with
    | field a' f' =>
      simp only [fillsE, Bool.and_eq_true, beq_iff_eq] at hf
      obtain ⟨hff, hfa⟩ := hf
      subst hff
      simp only [synth, bind, Except.bind] at hs
      cases hsa : synth env ctx g' a' with
      | error err => simp [hsa] at hs
      | ok p =>
        obtain ⟨ta, da⟩ := p
        simp only [hsa] at hs
        obtain ⟨hd, tf, h1, h2, h3⟩ := monoE env henv ctx a a' g g' ta da hfa hg hsa
        subst hd
        cases hft : fieldTy env ta f with
        | none => simp [hft, fail] at hs
        | some tp =>
          simp only [hft, pure, Except.pure, Except.ok.injEq, Prod.mk.injEq] at hs
          obtain ⟨x1, x2⟩ := hs; subst x1; subst x2
          obtain ⟨hg1, tpf, f1, f2⟩ := fieldTy_mono env henv tf ta f tp h2 h3 hft
          exact ⟨rfl, tpf, by simp [synth, bind, Except.bind, h1, f1, pure, Except.pure], f2, hg1⟩
    | _ => simp [fillsE] at hf
  | «while» c b =>
    cases e' with
    | «while» c' b' =>
      simp only [fillsE, Bool.and_eq_true] at hf
      obtain ⟨hfc, hfb⟩ := hf
      simp only [synth, bind, Except.bind] at hs
      cases hsc : synth env ctx g' c' with
      | error err => simp [hsc] at hs
      | ok p =>
        obtain ⟨tc, dc⟩ := p
        simp only [hsc] at hs
        obtain ⟨hdc, fc, c1, c2, c3⟩ := monoE env henv ctx c c' g g' tc dc hfc hg hsc
        subst hdc
        cases hec : expect "condition" tc .bool with
        | error err => simp [hec] at hs
        | ok u =>
          simp only [hec] at hs
          have hb := compat_ground_eq tc .bool c3 rfl (expect_inv hec)
          subst hb
          cases hsb : synthBlock env ctx ([] :: g') b' with
          | error err => simp [hsb] at hs
          | ok q =>
            obtain ⟨tb, db⟩ := q
            simp only [hsb] at hs
            obtain ⟨_, fb, b1, b2, b3⟩ := monoB env henv ctx b b' ([] :: g) ([] :: g') tb db hfb (gamma_push hg) hsb
            cases heb : expect "loop-body-value" tb .unit with
            | error err => simp [heb] at hs
            | ok u2 =>
              simp only [heb, pure, Except.pure, Except.ok.injEq, Prod.mk.injEq] at hs
              obtain ⟨x1, x2⟩ := hs; subst x1; subst x2
              have hu := compat_ground_eq tb .unit b3 rfl (expect_inv heb)
              subst hu
              refine ⟨rfl, .unit, ?_, by simp [inst], by simp [ground]⟩
              simp [synth, bind, Except.bind, c1, expect_ok (inst_bool fc c2), b1,
                expect_ok (inst_unit_compat fb b2), pure, Except.pure]
    | _ => simp [fillsE] at hf
  | call f args =>
    cases e' with
    | call f' args' =>
      simp only [fillsE, Bool.and_eq_true, beq_iff_eq] at hf
      obtain ⟨hff, hfa⟩ := hf
      subst hff
      simp only [synth, bind, Except.bind] at hs ⊢
      cases hl : env.fns.lookup f with
      | none => simp [hl, fail] at hs
      | some sig =>
        simp only [hl] at hs ⊢
        have hlen : args.length = args'.length := fillsL_length args args' hfa
        by_cases hne : (args'.length != sig.params.length) = true
        · simp [hne, fail] at hs
        · simp only [hne, Bool.false_eq_true, ↓reduceIte] at hs
          rw [hlen]
          simp only [hne, Bool.false_eq_true, ↓reduceIte]
          simp only [envGround, Bool.and_eq_true] at henv
          obtain ⟨_, hsig⟩ := lookup_all henv.1.2 hl
          simp only [Bool.and_eq_true] at hsig
          cases hca : checkArgs env ctx g' args' sig.params with
          | error err => simp [hca] at hs
          | ok d1 =>
            simp only [hca, pure, Except.pure, Except.ok.injEq, Prod.mk.injEq] at hs
            obtain ⟨x1, x2⟩ := hs; subst x1; subst x2
            obtain ⟨hd, h1⟩ := monoL env (by simp only [envGround, Bool.and_eq_true]; exact henv) ctx args args' g g' sig.params d1 hfa hg hsig.1 hca
            subst hd
            exact ⟨rfl, sig.ret, by simp [h1, pure, Except.pure], inst_self _ hsig.2, hsig.2⟩
    | _ => simp [fillsE] at hf
  | assign isC x path a =>
    cases e' with
    | assign isC' x' path' a' =>
      cases isC <;> cases isC' <;> simp [fillsE] at hf
      obtain ⟨⟨hx, hp⟩, hfa⟩ := hf
      subst hx; subst hp
      simp only [synth, bind, Except.bind, Bool.false_eq_true, ↓reduceIte] at hs ⊢
      cases hl : lookupVar g' x with
      | none => simp [hl, fail] at hs
      | some t =>
        simp only [hl] at hs
        obtain ⟨tf, l1, l2, l3⟩ := gamma_lookup hg x t hl
        simp only [l1]
        cases hpt : pathTy env t path with
        | none => simp [hpt, fail] at hs
        | some tp =>
          simp only [hpt] at hs
          obtain ⟨hgp, tpf, p1, p2⟩ := pathTy_mono env henv path tf t tp l2 l3 hpt
          simp only [p1]
          cases hsa : synth env ctx g' a' with
          | error err => simp [hsa] at hs
          | ok q =>
            obtain ⟨ta, da⟩ := q
            simp only [hsa] at hs
            obtain ⟨hd, fa, a1, a2, a3⟩ := monoE env henv ctx a a' g g' ta da hfa hg hsa
            subst hd
            cases hex : expect "assigned" ta tp with
            | error err => simp [hex] at hs
            | ok u =>
              simp only [hex, pure, Except.pure, Except.ok.injEq, Prod.mk.injEq] at hs
              obtain ⟨x1, x2⟩ := hs; subst x1; subst x2
              have := compat_ground_eq ta tp a3 hgp (expect_inv hex)
              subst this
              refine ⟨rfl, .unit, ?_, by simp [inst], by simp [ground]⟩
              simp [a1, expect_ok (inst_compat_meet ta fa tpf a2 p2).1, pure, Except.pure]
    | _ => simp [fillsE] at hf
  | cassign op isC x path a =>
    cases e' with
    | cassign op' isC' x' path' a' =>
      cases isC <;> cases isC' <;> simp [fillsE] at hf
      obtain ⟨⟨⟨hop, hx⟩, hp⟩, hfa⟩ := hf
      subst hop; subst hx; subst hp
      simp only [synth, bind, Except.bind, Bool.false_eq_true, ↓reduceIte] at hs ⊢
      cases hl : lookupVar g' x with
      | none => simp [hl, fail] at hs
      | some t =>
        simp only [hl] at hs
        obtain ⟨tf, l1, l2, l3⟩ := gamma_lookup hg x t hl
        simp only [l1]
        cases hpt : pathTy env t path with
        | none => simp [hpt, fail] at hs
        | some tp =>
          simp only [hpt] at hs
          obtain ⟨hgp, tpf, p1, p2⟩ := pathTy_mono env henv path tf t tp l2 l3 hpt
          simp only [p1]
          cases hsa : synth env ctx g' a' with
          | error err => simp [hsa] at hs
          | ok q =>
            obtain ⟨ta, da⟩ := q
            simp only [hsa] at hs
            obtain ⟨hd, fa, a1, a2, a3⟩ := monoE env henv ctx a a' g g' ta da hfa hg hsa
            subst hd
            cases hb : binopTy op tp ta with
            | none => simp [hb, fail] at hs
            | some tr =>
              simp only [hb] at hs
              obtain ⟨trf, b1, b2, b3⟩ := binop_mono op tpf fa tp ta tr p2 a2 hgp a3 hb
              cases hex : expect "assigned" tr tp with
              | error err => simp [hex] at hs
              | ok u =>
                simp only [hex, pure, Except.pure, Except.ok.injEq, Prod.mk.injEq] at hs
                obtain ⟨x1, x2⟩ := hs; subst x1; subst x2
                have := compat_ground_eq tr tp b3 hgp (expect_inv hex)
                subst this
                refine ⟨rfl, .unit, ?_, by simp [inst], by simp [ground]⟩
                simp [a1, b1, expect_ok (inst_compat_meet tr trf tpf b2 p2).1, pure, Except.pure]
    | _ => simp [fillsE] at hf
  | _ => cases e' <;> simp [fillsE] at hf
termination_by sizeOf e

theorem monoL (env : Env) (henv : envGround env = true) (ctx : Ctx) (args args' : List Expr) :
    MonoL env ctx args args' := by
  intro g g' tys d' hf hg hty hs
  cases args with
  | nil =>
    cases args' with
    | nil =>
      simp only [checkArgs, pure, Except.pure, Except.ok.injEq] at hs ⊢
      exact ⟨hs.symm, by simp⟩
    | cons a' r' => simp [fillsL] at hf
  | cons a r =>
    cases args' with
    | nil => simp [fillsL] at hf
    | cons a' r' =>
      simp only [fillsL, Bool.and_eq_true] at hf
      obtain ⟨hfa, hfr⟩ := hf
      cases tys with
      | nil =>
        simp only [checkArgs, pure, Except.pure, Except.ok.injEq] at hs ⊢
        exact ⟨hs.symm, by simp⟩
      | cons t ts =>
        simp only [List.all_cons, Bool.and_eq_true] at hty
        simp only [checkArgs, bind, Except.bind] at hs ⊢
        cases hsa : synth env ctx g' a' with
        | error err => simp [hsa] at hs
        | ok q =>
          obtain ⟨ta, da⟩ := q
          simp only [hsa] at hs
          obtain ⟨hd, fa, a1, a2, a3⟩ := monoE env henv ctx a a' g g' ta da hfa hg hsa
          subst hd
          cases hex : expect "argument" ta t with
          | error err => simp [hex] at hs
          | ok u =>
            simp only [hex] at hs
            have := compat_ground_eq ta t a3 hty.1 (expect_inv hex)
            subst this
            cases hr : checkArgs env ctx g' r' ts with
            | error err => simp [hr] at hs
            | ok d2 =>
              simp only [hr, pure, Except.pure, Except.ok.injEq, Bool.false_or] at hs
              obtain ⟨hd2, h2⟩ := monoL env henv ctx r r' g g' ts d2 hfr hg hty.2 hr
              subst hd2
              refine ⟨hs.symm, ?_⟩
              simp [a1, expect_ok (inst_compat fa ta a3 a2), h2, pure, Except.pure]
termination_by sizeOf args

theorem monoS (env : Env) (henv : envGround env = true) (ctx : Ctx) (ss ss' : List Stmt) : MonoS env ctx ss ss' := by
  intro g g' g1' d' hf hg hs
  cases ss with
  | nil =>
    cases ss' with
    | nil =>
      simp only [synthStmts, pure, Except.pure, Except.ok.injEq, Prod.mk.injEq] at hs
      obtain ⟨h1, h2⟩ := hs; subst h1; subst h2
      exact ⟨rfl, g, by simp [synthStmts, pure, Except.pure], hg⟩
    | cons s' r' => simp [fillsS] at hf
  | cons s r =>
    cases ss' with
    | nil => cases s <;> simp [fillsS] at hf
    | cons s' r' =>
      cases s with
      | let_ x ann e =>
        cases s' with
        | let_ x' ann' e' =>
          cases ann' with
          | none => simp [fillsS] at hf
          | some t =>
            simp only [fillsS, Bool.and_eq_true, beq_iff_eq, Bool.or_eq_true] at hf
            obtain ⟨⟨⟨hx, hann⟩, hfe⟩, hfr⟩ := hf
            subst hx
            simp only [synthStmts, bind, Except.bind] at hs
            cases hse : synth env ctx g' e' with
            | error err => simp [hse] at hs
            | ok p =>
              obtain ⟨te, de⟩ := p
              simp only [hse] at hs
              obtain ⟨hde, fe, e1, e2, e3⟩ := monoE env henv ctx e e' g g' te de hfe hg hse
              subst hde
              by_cases hwf : wfTy env t = true
              · simp only [hwf, Bool.not_true, Bool.false_eq_true, ↓reduceIte] at hs
                cases hex : expect "let-value" te t with
                | error err => simp [hex] at hs
                | ok u =>
                  simp only [hex, pure, Except.pure] at hs
                  cases hdc : declare g' x t with
                  | none => simp [hdc, fail] at hs
                  | some g2' =>
                    simp only [hdc] at hs
                    cases hsr : synthStmts env ctx g2' r' with
                    | error err => simp [hsr] at hs
                    | ok q =>
                      obtain ⟨g3', dr⟩ := q
                      simp only [hsr, Except.ok.injEq, Prod.mk.injEq] at hs
                      obtain ⟨x1, x2⟩ := hs; subst x1
                      -- the annotation is a ground type, equal to the value's type
                      have hgt : ground t = true := wfTy_ground env t hwf
                      have heq := compat_ground_eq te t e3 hgt (expect_inv hex)
                      subst heq
                      -- the flexible side: with or without the annotation
                      rcases hann with hnone | hsome
                      · subst hnone
                        obtain ⟨g2, d1, d2⟩ := gamma_declare hg x fe te e2 e3 hdc
                        obtain ⟨hdr, g3, s1, s2⟩ := monoS env henv ctx r r' g2 g2' g3' dr hfr d2 hsr
                        subst hdr
                        refine ⟨by simpa using x2.symm, g3, ?_, s2⟩
                        simp [synthStmts, bind, Except.bind, e1, pure, Except.pure, d1, s1]
                      · subst hsome
                        obtain ⟨g2, d1, d2⟩ := gamma_declare hg x te te (inst_self te e3) e3 hdc
                        obtain ⟨hdr, g3, s1, s2⟩ := monoS env henv ctx r r' g2 g2' g3' dr hfr d2 hsr
                        subst hdr
                        refine ⟨by simpa using x2.symm, g3, ?_, s2⟩
                        simp [synthStmts, bind, Except.bind, e1, hwf, expect_ok (inst_compat fe te e3 e2), pure,
                          Except.pure, d1, s1]
              · simp [hwf, fail] at hs
        | expr e' => simp [fillsS] at hf
      | expr e =>
        cases s' with
        | let_ x' ann' e' => cases ann' <;> simp [fillsS] at hf
        | expr e' =>
          simp only [fillsS, Bool.and_eq_true] at hf
          obtain ⟨hfe, hfr⟩ := hf
          simp only [synthStmts, bind, Except.bind] at hs
          cases hse : synth env ctx g' e' with
          | error err => simp [hse] at hs
          | ok p =>
            obtain ⟨te, de⟩ := p
            simp only [hse] at hs
            obtain ⟨hde, fe, e1, _, _⟩ := monoE env henv ctx e e' g g' te de hfe hg hse
            subst hde
            cases hsr : synthStmts env ctx g' r' with
            | error err => simp [hsr] at hs
            | ok q =>
              obtain ⟨g3', dr⟩ := q
              simp only [hsr, pure, Except.pure, Except.ok.injEq, Prod.mk.injEq] at hs
              obtain ⟨x1, x2⟩ := hs; subst x1
              obtain ⟨hdr, g3, s1, s2⟩ := monoS env henv ctx r r' g g' g3' dr hfr hg hsr
              subst hdr
              refine ⟨by simpa using x2.symm, g3, ?_, s2⟩
              simp [synthStmts, bind, Except.bind, e1, s1, pure, Except.pure]
termination_by sizeOf ss

theorem monoB (env : Env) (henv : envGround env = true) (ctx : Ctx) (b b' : Block) : MonoB env ctx b b' := by
  intro g g' tg d' hf hg hs
  cases b with
  | mk ss last =>
  cases b' with
  | mk ss' last' =>
  rw [synthBlock] at hs
  simp only [bind, Except.bind] at hs
  cases hss : synthStmts env ctx g' ss' with
  | error err => simp [hss] at hs
  | ok p =>
    obtain ⟨g1', d1⟩ := p
    simp only [hss] at hs
    cases last with
    | none =>
      cases last' with
      | none =>
        simp only [fillsB] at hf
        obtain ⟨hd1, g1, s1, s2⟩ := monoS env henv ctx ss ss' g g' g1' d1 hf hg hss
        subst hd1
        simp only [Bool.false_eq_true, ↓reduceIte, pure, Except.pure, Except.ok.injEq, Prod.mk.injEq] at hs
        obtain ⟨x1, x2⟩ := hs; subst x1; subst x2
        exact ⟨rfl, .unit, by simp [synthBlock, bind, Except.bind, s1, pure, Except.pure], by simp [inst], by simp [ground]⟩
      | some e' => simp [fillsB] at hf
    | some e =>
      cases last' with
      | none => simp [fillsB] at hf
      | some e' =>
        simp only [fillsB, Bool.and_eq_true] at hf
        obtain ⟨hfs, hfe⟩ := hf
        obtain ⟨hd1, g1, s1, s2⟩ := monoS env henv ctx ss ss' g g' g1' d1 hfs hg hss
        subst hd1
        simp only at hs
        cases hse : synth env ctx g1' e' with
        | error err => simp [hse] at hs
        | ok q =>
          obtain ⟨te, de⟩ := q
          simp only [hse, Bool.false_eq_true, ↓reduceIte, pure, Except.pure, Except.ok.injEq, Prod.mk.injEq,
            Bool.false_or] at hs
          obtain ⟨x1, x2⟩ := hs; subst x1; subst x2
          obtain ⟨hde, fe, e1, e2, e3⟩ := monoE env henv ctx e e' g1 g1' te de hfe s2 hse
          subst hde
          exact ⟨rfl, fe, by simp [synthBlock, bind, Except.bind, s1, e1, pure, Except.pure], e2, e3⟩
termination_by sizeOf b
end

theorem declareAll_self (env : Env) : ∀ (params : List (Nat × Ty)) (g0 g : Gamma),
    (params.all fun q => wfTy env q.2) = true → gammaInst g0 g0 = true →
    declareAll g0 params = some g → gammaInst g g = true := by
  intro params
  induction params with
  | nil => intro g0 g _ h0 hd; simp only [declareAll, Option.some.injEq] at hd; subst hd; exact h0
  | cons q rest ih =>
    intro g0 g hwf h0 hd
    obtain ⟨x, t⟩ := q
    simp only [List.all_cons, Bool.and_eq_true] at hwf
    simp only [declareAll] at hd
    cases hdc : declare g0 x t with
    | none => simp [hdc] at hd
    | some g1 =>
      simp only [hdc] at hd
      have hgt := wfTy_ground env t hwf.1
      obtain ⟨g1', h1, h2⟩ := gamma_declare h0 x t t (inst_self t hgt) hgt hdc
      rw [hdc] at h1
      injection h1 with h1; subst h1
      exact ih g1 g hwf.2 h2 hd

/-- a function whose fully annotated completion passes `D` passes `D` itself -/
theorem checkDecl_fn_mono (env : Env) (henv : envGround env = true) (p : Prog) (n : Nat) (params : List (Nat × Ty)) (rt : Ty)
    (body body' : Block) (hf : fillsB body body' = true)
    (h : checkDecl env p (.fn n params rt body') = .ok ()) :
    checkDecl env p (.fn n params rt body) = .ok () := by
  simp only [checkDecl, bind, Except.bind] at h ⊢
  by_cases hwf : (!(params.all fun q => wfTy env q.2) || !wfTy env rt) = true
  · simp [hwf, fail] at h
  · simp only [hwf, Bool.false_eq_true, ↓reduceIte] at h ⊢
    simp only [Bool.or_eq_true, Bool.not_eq_true', not_or, Bool.not_eq_false] at hwf
    cases hd : declareAll [[]] params with
    | none => simp [hd, fail] at h
    | some g =>
      simp only [hd] at h ⊢
      have hgg := declareAll_self env params [[]] g hwf.1 (by simp [gammaInst, scopeInst]) hd
      cases hs : synthBlock env { retTy := some rt } g body' with
      | error err => simp [hs] at h
      | ok q =>
        obtain ⟨tg, d'⟩ := q
        simp only [hs] at h
        obtain ⟨_, tf, h1, h2, h3⟩ := monoB env henv { retTy := some rt } body body' g g tg d' hf hgg hs
        simp only [h1]
        have hgr := wfTy_ground env rt hwf.2
        have heq := compat_ground_eq tg rt h3 hgr (expect_inv (u := ()) (by
          cases he : expect "returned" tg rt with
          | error err => simp [he] at h
          | ok u => rfl))
        subst heq
        exact expect_ok (inst_compat tf tg h3 h2)

end RotoV.Typing
